#!/usr/bin/env python3
"""Regenerate MANIFEST.json from harness/registry.py + the per-property texts below."""
import json, sys
sys.path.insert(0, '/verif/harness')
from registry import REG
props = {json.loads(l)['id']: json.loads(l) for l in open('/verif/properties.jsonl')}
TEXT = json.load(open('/verif/tools/manifest_texts.json'))
checks = []
for pid in sorted(REG):
    t = TEXT[pid]
    checks.append({
        "property_id": pid,
        "quick_cmd": "./vcheck %s --tier quick" % pid,
        "thorough_cmd": "./vcheck %s --tier thorough" % pid,
        "evidence_file": "evidence/%s.json" % pid,
        "replay_cmd_template": "./vcheck %s --replay {path}" % pid,
        "engine": "lean4-proof+correspondence",
        "level_claimed": {"category": "proof", "text": t["text"], "design_ref": t.get("design_ref", "DESIGN.md section 7")},
        "level_note": t["note"],
        "technique": t["technique"],
    })
na = [{"property_id": p, "reason": TEXT.get(p, {}).get("na", "not yet claimed: theorems/correspondence for this property are still under construction (DESIGN.md section 12)")}
      for p in sorted(props) if p not in REG]
m = {
 "version": 1,
 "setup_cmd": "tools/setup.sh",
 "hooks": {
  "guard": "VISIONS_VERIF",
  "enable": "no hooks: the harness observes the library from outside; there are no guarded source commits",
  "baseline_off_cmd": "/verif/tools/baseline_check.py",
  "source_commits": [],
  "add_only": True
 },
 "engines": [{"name": "lean4-proof+correspondence", "path": "lean/ harness/ vcheck",
              "serves_properties": sorted(REG),
              "kind_free_text": "Lean 4 theorems about executable models (lean/VModel, lean/VProofs); declarative tables regenerated from /repo by harness/translate.py; hand-written models tied to the code by differential correspondence runners through a JSON line-protocol driver"}],
 "checks": checks,
 "not_applicable": na,
 "notes": "Every check: translate -> lake build model+driver -> lake build the property's theorems + #print axioms audit + source scan -> correspondence runners + direct property oracles on the real code -> verdict. See DESIGN.md."
}
json.dump(m, open('/verif/MANIFEST.json', 'w'), indent=1)
print(len(checks), "checks;", len(na), "not claimed")

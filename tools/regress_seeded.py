#!/usr/bin/env python3
"""Regression over every stored mutant: apply seeded/<id>/patch.diff to /repo, run the check of its property, undo.
Prints one line per mutant; exit 0 iff every mutant is reported with a concrete failing input (a VIOLATION line that does
not end in no-failing-input-found).  Evidence written while a mutant is applied is discarded (tools/try_mutant.py)."""
import glob, os, subprocess, sys
root = os.path.dirname(os.path.dirname(os.path.abspath(__file__)))
only = sys.argv[1:]
bad = 0
for d in sorted(glob.glob(os.path.join(root, "seeded", "C*-agent*"))):
    name = os.path.basename(d)
    prop = name.split("-")[0]
    if only and prop not in only and name not in only:
        continue
    r = subprocess.run([sys.executable, os.path.join(root, "tools", "try_mutant.py"), os.path.join(d, "patch.diff"), prop],
                       stdout=subprocess.PIPE, stderr=subprocess.STDOUT, text=True)
    line = (r.stdout.strip().splitlines() or ["?"])[-1]
    ok = "VIOLATION property=%s" % prop in line and "no-failing-input-found" not in line
    bad += not ok
    print("%-12s %s" % (name, "caught with failing input" if ok else "NOT CAUGHT: " + line[-160:]), flush=True)
sys.exit(1 if bad else 0)

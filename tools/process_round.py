#!/usr/bin/env python3
"""Take the deliveries of one round of independent sub-agents (<dir>/<Cxx>/{patch.diff,demo.py,meta.json}), confirm each in a
scratch worktree (tools/confirm_seeded.py), store it as seeded/<Cxx>-agent<round>/ and run the check of its property against
it (tools/try_mutant.py).  usage: process_round.py <round> <dir> Cxx ...     (one line per mutant on stdout)"""
import json, os, shutil, subprocess, sys
root = os.path.dirname(os.path.dirname(os.path.abspath(__file__)))
rnd, src = sys.argv[1], sys.argv[2]
for pid in sys.argv[3:]:
    d = os.path.join(src, pid)
    dst = os.path.join(root, "seeded", "%s-agent%s" % (pid, rnd))
    if not os.path.exists(os.path.join(d, "patch.diff")):
        print(pid, "no delivery"); continue
    r = subprocess.run([sys.executable, os.path.join(root, "tools", "confirm_seeded.py"), os.path.join(d, "patch.diff"), os.path.join(d, "demo.py")],
                       stdout=subprocess.PIPE, stderr=subprocess.STDOUT, text=True)
    try:
        conf = json.loads(r.stdout.strip().splitlines()[-1])
    except Exception:
        print(pid, "confirm failed:", r.stdout[-300:]); continue
    ok = conf.get("demo_unmodified_exit") == 0 and conf.get("demo_mutant_exit") == 1 and conf.get("baseline_missing") == 0
    if not ok:
        print(pid, "NOT CONFIRMED", json.dumps(conf)[:300]); continue
    os.makedirs(dst, exist_ok=True)
    shutil.copy(os.path.join(d, "patch.diff"), dst); shutil.copy(os.path.join(d, "demo.py"), dst)
    try:
        meta = json.load(open(os.path.join(d, "meta.json")))
    except Exception:
        meta = {"property": pid}
    conf.pop("demo_mutant_tail", None)
    meta["confirmed"] = conf
    meta["origin"] = "independent sub-agent, round %s (given only the property text, a scratch worktree and one-line descriptions of the earlier changes to avoid)" % rnd
    meta["base_commit"] = subprocess.run(["git", "-C", "/repo", "rev-parse", "--short", "HEAD"], stdout=subprocess.PIPE, text=True).stdout.strip()
    t = subprocess.run([sys.executable, os.path.join(root, "tools", "try_mutant.py"), os.path.join(dst, "patch.diff"), pid],
                       stdout=subprocess.PIPE, stderr=subprocess.STDOUT, text=True)
    line = (t.stdout.strip().splitlines() or ["?"])[-1]
    caught = "VIOLATION property=%s" % pid in line
    meta["check_result_first_run"] = ("caught with failing input" if caught and "no-failing-input-found" not in line
                                      else "no-failing-input-found" if caught else "missed") 
    json.dump(meta, open(os.path.join(dst, "meta.json"), "w"), indent=1)
    print(pid, "confirmed;", meta["check_result_first_run"], "|", line[-200:], flush=True)

#!/usr/bin/env python3
"""Apply one design-time mutant (notes/design_time_mutants.py) or a patch file to /repo, run checks, revert.
usage: try_mutant.py <mutant-name|patch.diff> C12 C08 ...   (always restores /repo with git checkout)"""
import os, subprocess, sys
sys.path.insert(0, '/verif/notes')
from design_time_mutants import M
name = sys.argv[1]
props = sys.argv[2:]
subprocess.run("git -C /repo diff --quiet", shell=True, check=True)
import shutil, tempfile
# evidence/ and Generated/ written while a mutant is applied must never be committed: keep the clean copies
keep = tempfile.mkdtemp(dir="/var/tmp")
shutil.copytree("/verif/evidence", keep + "/evidence")
try:
    if name in M:
        f, old, new = M[name]
        p = os.path.join('/repo', f)
        s = open(p).read()
        assert old in s, "mutant does not apply"
        open(p, 'w').write(s.replace(old, new, 1))
    else:
        subprocess.run(["git", "-C", "/repo", "apply", name], check=True)
    for pr in props:
        r = subprocess.run(["/verif/vcheck", pr], cwd="/verif", stdout=subprocess.PIPE, stderr=subprocess.STDOUT, text=True)
        lines = [l for l in r.stdout.splitlines() if l.startswith(("VIOLATION", "KNOWN"))]
        print(name, pr, "exit", r.returncode, "|", " ; ".join(l for l in lines if l.startswith("VIOLATION"))[:300])
finally:
    subprocess.run("git -C /repo checkout -- .", shell=True, check=True)
    subprocess.run("git -C /repo clean -fdq src/visions tests", shell=True, check=True)     # files a patch added
    shutil.rmtree("/verif/evidence"); shutil.copytree(keep + "/evidence", "/verif/evidence"); shutil.rmtree(keep)
    subprocess.run(["/venv/bin/python", "/verif/harness/translate.py"], stdout=subprocess.DEVNULL)

#!/usr/bin/env python3
"""Confirm a seeded change in a scratch worktree (outside /repo and /verif): it applies, the demonstration fails with it and
passes without it, and the pinned suite still passes with it.  usage: confirm_seeded.py <patch.diff> <demo.py> [--no-suite]"""
import json, os, shutil, subprocess, sys, tempfile, xml.etree.ElementTree as ET
patch, demo = sys.argv[1], sys.argv[2]
wt = tempfile.mkdtemp(prefix="confirm_wt_", dir="/var/tmp")
os.rmdir(wt)
subprocess.run(["git", "-C", "/repo", "worktree", "add", "-q", "--detach", wt, "HEAD"], check=True)
res = {}
try:
    env = dict(os.environ, PYTHONPATH=os.path.join(wt, "src"), PYTHONWARNINGS="ignore")
    r0 = subprocess.run(["/venv/bin/python", demo], cwd=wt, env=env, stdout=subprocess.PIPE, stderr=subprocess.STDOUT, text=True)
    res["demo_unmodified_exit"] = r0.returncode
    subprocess.run(["git", "-C", wt, "apply", patch], check=True)
    r1 = subprocess.run(["/venv/bin/python", demo], cwd=wt, env=env, stdout=subprocess.PIPE, stderr=subprocess.STDOUT, text=True)
    res["demo_mutant_exit"] = r1.returncode
    res["demo_mutant_tail"] = r1.stdout[-300:]
    if "--no-suite" not in sys.argv:
        b = json.load(open('/root/.vp/BASELINE.json'))
        out = os.path.join(wt, "junit.xml")
        cmd = b['cmd'].replace('<file>', out).replace('cd /repo', 'cd ' + wt)
        subprocess.run(cmd, shell=True, env=env, stdout=subprocess.DEVNULL, stderr=subprocess.DEVNULL)
        passed, failed = set(), set()
        for tc in ET.parse(out).getroot().iter('testcase'):
            tid = (tc.get('classname') or '') + '::' + (tc.get('name') or '')
            if tc.find('failure') is not None or tc.find('error') is not None: failed.add(tid)
            elif tc.find('skipped') is None: passed.add(tid)
        passed -= failed
        res["suite_passed"] = len(passed); res["suite_failed"] = len(failed)
        res["baseline_missing"] = len(set(b['stable_pass']) - passed)
finally:
    subprocess.run(["git", "-C", "/repo", "worktree", "remove", "--force", wt])
    shutil.rmtree(wt, ignore_errors=True)
print(json.dumps(res))

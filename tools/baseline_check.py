#!/usr/bin/env python3
"""Run /repo's pinned suite (command from /root/.vp/BASELINE.json) and compare with the stable-pass list.
Exit 0 iff every baseline stable-pass test still passes. Usage: baseline_check.py [env VAR=val ...]"""
import json, os, subprocess, sys, tempfile, xml.etree.ElementTree as ET
b = json.load(open('/root/.vp/BASELINE.json'))
out = tempfile.mktemp(suffix='.junit.xml', dir='/var/tmp')
cmd = b['cmd'].replace('<file>', out)
env = dict(os.environ)
for a in sys.argv[1:]:
    k, v = a.split('=', 1); env[k] = v
r = subprocess.run(cmd, shell=True, env=env, stdout=subprocess.PIPE, stderr=subprocess.STDOUT, text=True)
passed, failed = set(), set()
for tc in ET.parse(out).getroot().iter('testcase'):
    tid = (tc.get('classname') or '') + '::' + (tc.get('name') or '')
    if tc.find('failure') is not None or tc.find('error') is not None: failed.add(tid)
    elif tc.find('skipped') is not None: pass
    else: passed.add(tid)
passed -= failed
os.unlink(out)
missing = sorted(set(b['stable_pass']) - passed)
print(f"passed={len(passed)} failed={len(failed)} baseline={len(b['stable_pass'])} baseline_missing={len(missing)}")
for m in missing[:40]: print('  MISSING', m)
newpass = sorted(passed - set(b['stable_pass']))
print(f"newly passing (were always_fail): {len(newpass)}")
sys.exit(1 if missing else 0)

#!/bin/sh
# MANIFEST.setup_cmd: build the framework from files on disk only (offline).
set -e
cd "$(dirname "$0")/../lean"
/venv/bin/python ../harness/translate.py >/dev/null
lake build VModel vdriver
lake build VProofs
for f in VProofs/Props/*.lean; do
  m=$(basename "$f" .lean)
  lake build "VProofs.Props.$m" || echo "setup: VProofs.Props.$m did not build (reported by its check)"
done

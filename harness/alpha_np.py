"""α for numpy arrays — abstraction of a real ndarray into the abstract arrays of the Lean model (VModel.Numpy).

Written independently of the code under test: element facts come from isinstance on the elements as iteration yields them and
from numpy's own element-wise conversions applied to one-element slices of the very array (`astype(float)`,
`astype(complex)`, `astype(str) == …`), missing values from `pd.isna`, the datetime oracle from `pd.to_datetime`.  Never
a visions predicate or transformer."""
import datetime
import warnings

import numpy as np
import pandas as pd

from alpha import BOOL_MAPS, fl, outcome

KINDS = set("biufcUSMmO")


def null_mask(a):
    return np.asarray(pd.isna(a), dtype=bool).reshape(-1)


def _lower_key(v):
    lo = v.lower()
    for i, m in enumerate(BOOL_MAPS):
        if isinstance(lo, str) and lo in m:
            return [i, bool(m[lo])]
    return None


def elem(a, i, null):
    v = a[i]
    sl = a[i:i + 1]
    is_str = isinstance(v, str)

    def as_float():
        return fl(sl.astype(float)[0])

    def as_complex():
        z = complex(sl.astype(complex)[0])
        return [fl(z.real), fl(z.imag)]

    def str_eq():
        r = (sl.astype(str) == sl)
        return bool(np.asarray(r).reshape(-1)[0])
    with warnings.catch_warnings():
        warnings.simplefilter("ignore")
        return {"n": bool(null), "bool": isinstance(v, bool), "int": isinstance(v, int), "str": is_str,
                "dt": isinstance(v, datetime.datetime), "se": outcome(str_eq), "lo": outcome(_lower_key, v),
                "f": outcome(as_float), "c": outcome(as_complex),
                "z": bool(is_str and v[:1] == "0"), "ji": bool(is_str and ("j" in v or "i" in v))}


def array(a):
    """abstract array, or None when the array is outside the modelled scope (not 1-d, structured / void dtype)"""
    if not isinstance(a, np.ndarray) or a.ndim != 1 or a.dtype.kind not in KINDS:
        return None
    try:
        nulls = null_mask(a)
    except Exception:  # noqa
        return None
    if len(nulls) != len(a):
        return None
    return {"kind": a.dtype.kind, "elems": [elem(a, i, nulls[i]) for i in range(len(a))]}


def observable(arr):
    """the part of an abstract array that is compared between a real transformer output and the model's output"""
    if arr is None:
        return None
    return {"kind": arr["kind"], "elems": [{k: e[k] for k in ("n", "bool", "int", "str", "dt", "f", "c")} for e in arr["elems"]]}


def infer_datetime(a):
    """`pd.to_datetime(pd.Series(a))` (then format='mixed') `.to_numpy()`, as an outcome holding an abstract array"""
    def run():
        s = pd.Series(a)
        try:
            r = pd.to_datetime(s)
        except Exception:  # noqa
            r = pd.to_datetime(s, format="mixed")
        out = array(r.to_numpy())
        if out is None:
            raise TypeError("unmodelled result")
        return out
    with warnings.catch_warnings():
        warnings.simplefilter("ignore")
        return outcome(run)


def dt_oracles(a, arr):
    stringish = arr["kind"] in ("U", "O") and all(e["n"] or e["str"] for e in arr["elems"]) and any(not e["n"] for e in arr["elems"])
    if not stringish:
        na = ["raises", "NotAStringArray"]
        return na, na
    whole = infer_datetime(a)
    nulls = null_mask(a)
    sub = infer_datetime(a[~nulls]) if nulls.any() else whole
    return sub, whole

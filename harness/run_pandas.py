"""pandas-backend correspondence runner and direct property oracles.

For every generated column: the real code is run (membership of all 24 types, guard of every inference relation whose
source contains the column, its transformer when it accepts, detect/infer under several typesets and supply orders);
α abstracts input and outputs; the Lean model evaluates the same abstract column through the driver; both sides are
canonicalised and compared.  Independently, the direct oracles state the properties (C01–C04, C06, C09, C11, C15, C16)
on the real code alone.
"""
import json
import multiprocessing as mp
import os
import sys
import traceback
import warnings

import numpy as np
import pandas as pd

import alpha
import gen_pandas as G
from common import Driver, canon, rng_for

warnings.simplefilter("ignore")

import visions  # noqa: E402
import visions.types as vt  # noqa: E402
from visions.typesets import CompleteSet, GeometrySet, StandardSet, VisionsTypeset  # noqa: E402
from visions.types.generic import Generic  # noqa: E402
from run_graph import ordered_sets, ALL, BYNAME, id_parent, parent_closed_random  # noqa: E402

RELS = [(r.related_type, t) for t in ALL for r in t.get_relations() if r.inferential]
T22 = [t for t in ALL if str(t) not in ("Numeric", "Sparse")]

_TS_CACHE = {}


def typeset_for(order_names):
    key = tuple(order_names)
    if key not in _TS_CACHE:
        with warnings.catch_warnings():
            warnings.simplefilter("ignore")
            with ordered_sets():
                _TS_CACHE[key] = VisionsTypeset([BYNAME[n] for n in order_names])
    return _TS_CACHE[key]


def outcome(fn):
    try:
        return ["ok", fn()]
    except RecursionError:
        return ["raises", "RecursionError"]
    except BaseException as e:  # noqa
        return ["raises", type(e).__name__]


def snapshot(s):
    """deep snapshot for the mutation oracle (C05)"""
    try:
        vals = [(id(v), repr(v)) for v in s.tolist()] if s.dtype == object else s.to_numpy(copy=True).tolist() \
            if alpha.family(s.dtype) not in (None,) and not isinstance(s.dtype, pd.CategoricalDtype) else [repr(v) for v in s.tolist()]
    except Exception:
        vals = [repr(v) for v in list(s)]
    return (repr(s.dtype), repr(vals), repr(s.index.tolist()), repr(s.name), len(s))


def col_of(x):
    if isinstance(x, pd.Series):
        c, viol = alpha.column(x)
        return c
    return {"notseries": type(x).__name__}


def observe(recipe, orders):
    """everything about one column: abstract input, real observations, oracle inputs"""
    s = G.gamma(recipe)
    col, viol = alpha.column(s)
    res = {"recipe": recipe, "col": col, "assumption_violations": viol if col is not None else [],
           "out_of_scope": None if col is not None else viol}
    snap0 = snapshot(s)
    mutated = []
    # membership
    cont = {}
    for t in ALL:
        cont[str(t)] = outcome(lambda: bool(s in t))
        if snapshot(s) != snap0:
            mutated.append("in %s" % t)
    res["contains"] = cont
    if col is not None:
        g, x = alpha.dt_oracles(s, col)
        res["dtGuard"], res["dtXform"] = g, x
    # relations from every source type that contains the column
    rels = []
    for (src, dst) in RELS:
        if cont[str(src)] != ["ok", True]:
            continue
        rel = dst.relations[src]
        gv = outcome(lambda: bool(rel.is_relation(s, {})))
        if snapshot(s) != snap0:
            mutated.append("guard %s->%s" % (src, dst))
        ent = {"src": str(src), "dst": str(dst), "guard": gv, "xform": None}
        if gv == ["ok", True]:
            out = outcome(lambda: rel.transform(s, {}))
            if snapshot(s) != snap0:
                mutated.append("transform %s->%s" % (src, dst))
            if out[0] == "ok":
                o = out[1]
                ent["xform"] = ["ok", col_of(o)]
                ent["xform_in_dst"] = outcome(lambda: bool(o in dst))
                ent["same_len"] = isinstance(o, pd.Series) and len(o) == len(s)
                ent["same_index"] = isinstance(o, pd.Series) and len(o) == len(s) and \
                    [repr(i) for i in o.index.tolist()] == [repr(i) for i in s.index.tolist()] and repr(o.name) == repr(s.name)
            else:
                ent["xform"] = out
        rels.append(ent)
    res["rels"] = rels
    # traversals
    trav = []
    for order in orders:
        ts = typeset_for(order)
        ent = {}
        for mode in ("infer", "detect"):
            def run():
                data, path, state = ts.infer(s) if mode == "infer" else ts.detect(s)
                return data, path
            out = outcome(run)
            if snapshot(s) != snap0:
                mutated.append(mode)
            if out[0] == "ok":
                data, path = out[1]
                ent[mode] = {"path": [str(t) for t in path], "col": col_of(data), "is_input": data is s}
                if mode == "infer":
                    # C03 / C04 / C05 observations on the real result
                    ent["cast_in_type"] = outcome(lambda: bool(data in path[-1]))
                    ent["detect_of_cast"] = outcome(lambda: str(ts.detect_type(data)))
                    ent["infer_of_cast"] = outcome(lambda: str(ts.infer_type(data)))
                    def recast():
                        d2 = ts.cast_to_inferred(data)
                        return bool(d2 is data) or (isinstance(d2, pd.Series) and isinstance(data, pd.Series) and
                                                    col_of(d2) == col_of(data))
                    ent["recast_same"] = outcome(recast)
            else:
                ent[mode] = {"raises": out[1], "site": locate_raise(ts, s, mode == "infer")}
        trav.append(ent)
    res["trav"] = trav
    res["mutated"] = mutated
    return res


def locate_raise(ts, s, infer):
    """replay the traversal by hand on the real graph to name the call that raises"""
    g = ts.relation_graph if infer else ts.base_graph
    node = ts.root_node
    data = s
    for _ in range(64):
        nxt = None
        for succ in g.successors(node):
            rel = g[node][succ]["relationship"]
            try:
                ok = rel.is_relation(data, {})
            except BaseException as e:  # noqa
                return "guard %s->%s:%s" % (node, succ, type(e).__name__)
            if ok:
                try:
                    data = rel.transform(data, {})
                except BaseException as e:  # noqa
                    return "transform %s->%s:%s" % (node, succ, type(e).__name__)
                nxt = succ
                break
        if nxt is None:
            return "not-reproduced"
        node = nxt
    return "not-reproduced"


def _worker(args):
    recipes, orders = args
    G.files_dir()
    out = []
    for r in recipes:
        try:
            out.append(observe(r, orders))
        except Exception:
            out.append({"recipe": r, "crash": traceback.format_exc()})
    return out


# ------------------------------------------------------------------------------- canonical projection of cells

def cell_obs(c):
    """what any backend predicate can observe of a cell (both sides are projected with this)"""
    if c is None:
        return None
    cls = c["cls"]
    cls = {"bool_": "bool", "int64": "int", "float64": "float", "complex128": "complex", "str_": "str"}.get(cls, cls)
    pay = c["pay"]
    if c["n"]:
        return {"n": True}
    bits = sorted(c["b"])
    if pay[0] == "obj" or pay[0] == "date" or pay[0] == "ts":
        keep = [b for b in bits if b not in ()]
    else:
        keep = bits
    o = {"n": False, "pay": pay, "b": keep}
    if pay[0] in ("none",):
        o["cls"] = cls
    return o


def col_obs(col):
    if col is None or "cells" not in col:
        return col
    return {"dtype": col["dtype"], "cells": [cell_obs(c) for c in col["cells"]], "index": col["index"], "name": col["name"]}


EQUIV = {"bool": "boolish", "boolean": "boolish", "int": "intish", "Int": "intish", "uint": "uintish", "UInt": "uintish",
         "float": "floatish", "Float": "floatish"}


def col_obs_equiv(col):
    """observational equivalence of output dtypes: families that no predicate of the backend distinguishes
    (given equal cells and null positions) are identified"""
    o = col_obs(col)
    if o and "dtype" in o:
        o = dict(o)
        o["dtype"] = EQUIV.get(o["dtype"], o["dtype"])
    return o


def compare(real, model):
    """list of disagreements between one real observation record and the model's answer"""
    dis = []
    for t, rv in real["contains"].items():
        mv = model["contains"].get(t)
        if mv != rv:
            dis.append({"what": "contains", "type": t, "real": rv, "model": mv})
    mrels = {(r["src"], r["dst"]): r for r in model["rels"]}
    for r in real["rels"]:
        m = mrels.get((r["src"], r["dst"]))
        if m is None:
            dis.append({"what": "relation-missing-in-model", "rel": [r["src"], r["dst"]]})
            continue
        if m["guard"] != r["guard"]:
            dis.append({"what": "guard", "rel": [r["src"], r["dst"]], "real": r["guard"], "model": m["guard"]})
            continue
        if r["guard"] == ["ok", True]:
            rx, mx = r["xform"], m["xform"]
            if rx[0] != mx[0] or (rx[0] == "raises" and rx[1] != mx[1]):
                dis.append({"what": "xform-outcome", "rel": [r["src"], r["dst"]], "real": rx if rx[0] == "raises" else "ok",
                            "model": mx if mx[0] == "raises" else "ok"})
            elif rx[0] == "ok" and canon(col_obs_equiv(rx[1])) != canon(col_obs_equiv(mx[1])):
                dis.append({"what": "xform-data", "rel": [r["src"], r["dst"]], "real": col_obs(rx[1]), "model": col_obs(mx[1])})
    for i, (rt, mt) in enumerate(zip(real["trav"], model["trav"])):
        for mode in ("infer", "detect"):
            rr, mm = rt[mode], mt[mode]
            if "raises" in rr or "raises" in mm:
                if rr.get("raises") != mm.get("raises"):
                    dis.append({"what": mode + "-outcome", "order": i, "real": rr.get("raises", "ok"), "model": mm.get("raises", "ok")})
                continue
            if rr["path"] != mm["path"]:
                dis.append({"what": mode + "-path", "order": i, "real": rr["path"], "model": mm["path"]})
            elif canon(col_obs_equiv(rr["col"])) != canon(col_obs_equiv(mm["col"])):
                dis.append({"what": mode + "-data", "order": i, "real": col_obs(rr["col"]), "model": col_obs(mm["col"])})
    return dis


def standard_orders(rng, tier):
    std = sorted(str(t) for t in StandardSet().types)
    comp = sorted(str(t) for t in CompleteSet().types)
    orders = [std, comp, list(reversed(comp))]
    o = list(comp)
    rng.shuffle(o)
    orders.append(o)
    sub = sorted(str(t) for t in parent_closed_random(rng, [t for t in T22 if t is not Generic]))
    orders.append(sub)
    # refinement pairs that drop one sibling: a type that overlaps a sibling shows up as a contradiction between
    # the smaller and the larger typeset whichever of the two the larger one visits first
    orders.append([t for t in comp if t != "Boolean"])
    orders.append([t for t in comp if t not in ("Categorical", "Ordinal")])
    orders.append([t for t in comp if t not in ("Float",)])
    return orders


def collect(tier, seed, n, stream="pandas", gen=None, orders=None, nproc=16):
    rng = rng_for(seed, stream)
    gen = gen or G.gen_column
    recipes = [gen(rng) for _ in range(n)]
    if stream == "pandas":
        # long columns (>= 1000 rows) reach code paths short ones cannot (sampling)
        recipes = [G.gen_long_column(rng) for _ in range(16 if tier == "quick" else 200)] + recipes
        # family x missing value x index kind grid (deterministic; a quarter of it in the quick tier, rotating with the seed)
        grid = G.grid_recipes()
        recipes = (grid if tier != "quick" else grid[seed % 4::4]) + recipes
        # minimised past failures and the witnesses of the known findings run first
        cp = os.path.join(os.path.dirname(os.path.abspath(__file__)), "..", "corpus", "pandas.json")
        if os.path.exists(cp):
            recipes = json.load(open(cp)) + recipes
    orders = orders or standard_orders(rng, tier)
    chunks = [recipes[i::nproc] for i in range(nproc)]
    with mp.Pool(nproc) as pool:
        outs = pool.map(_worker, [(c, orders) for c in chunks if c])
    obs = [o for chunk in outs for o in chunk]
    return obs, orders


def model_answers(obs, orders):
    reqs = []
    idx = []
    for i, o in enumerate(obs):
        if o.get("col") is None or "crash" in o:
            continue
        reqs.append({"op": "pandas", "col": o["col"], "dtGuard": o["dtGuard"], "dtXform": o["dtXform"], "typesets": orders})
        idx.append(i)
    resps = Driver().batch(reqs)
    return dict(zip(idx, resps))


def run(tier, seed, n=None):
    n = n or (1200 if tier == "quick" else 30000)
    obs, orders = collect(tier, seed, n)
    answers = model_answers(obs, orders)
    import oracles_pandas
    disagreements = []
    failures = []
    dist = {"streams": {}, "out_of_scope": 0, "crash": 0, "paths": {}, "errors": {}, "assumption_violations": 0,
            "oracle_failures": {},
            # `goodB` (the executable hypothesis of the *_pandas theorems, sound by goodB_sound) on alpha(series)
            "theorem_hypotheses": {"good": 0, "not_good": 0, "failing_conjuncts": {}, "good_nontrivial": 0,
                                   "good_and_guards_ok": 0, "finding_on_good_input": 0}}
    nontriv = set()
    for i, o in enumerate(obs):
        st = o["recipe"].get("stream", "?")
        dist["streams"][st] = dist["streams"].get(st, 0) + 1
        if "crash" in o:
            dist["crash"] += 1
            disagreements.append({"kind": "harness-crash", "recipe": o["recipe"], "trace": o["crash"][-1500:]})
            continue
        if o["col"] is None:
            dist["out_of_scope"] += 1
            continue
        if o["assumption_violations"]:
            dist["assumption_violations"] += 1
            disagreements.append({"kind": "assumption", "recipe": o["recipe"], "violations": o["assumption_violations"]})
        d = compare(o, answers[i])
        if d:
            disagreements.append({"kind": "pandas", "recipe": o["recipe"], "diffs": d[:4]})
        gd = answers[i].get("good", {})
        th = dist["theorem_hypotheses"]
        if gd.get("good") and gd.get("guardsOk"):
            th["good_and_guards_ok"] += 1
        if gd.get("good"):
            th["good"] += 1
        else:
            th["not_good"] += 1
            for k, v in gd.items():
                if k != "good" and not v:
                    th["failing_conjuncts"][k] = th["failing_conjuncts"].get(k, 0) + 1
        for f in oracles_pandas.oracle_failures(o, orders, col_obs_equiv):
            # a failure can only be a *known* finding where the model (which mirrors the known defects) agrees
            # with the code on this very input
            f["known_eligible"] = not d
            total_applies = gd.get("good") and gd.get("guardsOk") and f["property"] == "C09" and \
                f["signature"].startswith(("transform ", "guard ", "infer"))
            if (gd.get("good") and f["property"] in ("C02", "C03", "C04", "C16") or total_applies) and not d:
                # the theorems C0x_pandas apply to this input (Good holds, model == code): the property cannot
                # fail here, so this can never be excused as a known finding
                f["known_eligible"] = False
                f["theorem_applies"] = True
                th["finding_on_good_input"] += 1
            failures.append(f)
            k = f["property"] + " " + f["signature"]
            dist["oracle_failures"][k] = dist["oracle_failures"].get(k, 0) + 1
        p = o["trav"][1]["infer"]
        if "path" in p:
            key = "/".join(p["path"])
            dist["paths"][key] = dist["paths"].get(key, 0) + 1
            if len(p["path"]) >= 2:
                nontriv.add(canon(o["col"]))
                if gd.get("good"):
                    th["good_nontrivial"] += 1
        else:
            dist["errors"][p["raises"]] = dist["errors"].get(p["raises"], 0) + 1
            nontriv.add(canon(o["col"]))
    return {"runner": "pandas", "evaluations": len(obs), "distinct_nontrivial": len(nontriv),
            "rule": "generated pandas columns (string families, numeric/nullable dtypes, temporal, object homogeneous/mixed, "
                    "categorical; nulls in every position; 5 typeset orders); non-trivial = distinct abstract columns whose "
                    "inference path has >= 2 nodes or that raise",
            "samples": [o["recipe"] for o in obs[:3]], "disagreements": disagreements, "oracle_failures": failures,
            "distribution": dist}


if __name__ == "__main__":
    tier = sys.argv[1] if len(sys.argv) > 1 else "quick"
    seed = int(sys.argv[2]) if len(sys.argv) > 2 else 0
    n = int(sys.argv[3]) if len(sys.argv) > 3 else None
    r = run(tier, seed, n)
    d = r["distribution"]
    print(json.dumps({k: v for k, v in d.items() if k != "paths"}, indent=0)[:1500])
    print("paths", sorted(d["paths"].items(), key=lambda kv: -kv[1])[:40])
    print("evaluations", r["evaluations"], "nontrivial", r["distinct_nontrivial"], "disagreements", len(r["disagreements"]))
    import collections
    kinds = collections.Counter()
    ex = {}
    for dd in r["disagreements"]:
        for x in dd.get("diffs", [{"what": dd["kind"]}]):
            k = (x["what"], tuple(x.get("rel", [])) or x.get("type"))
            kinds[k] += 1
            ex.setdefault(k, (dd["recipe"], x))
    for k, c in kinds.most_common(40):
        print(c, k)
        print("   ", json.dumps(ex[k][0])[:400])
        print("   ", json.dumps(ex[k][1], default=str)[:700])

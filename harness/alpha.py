"""α — abstraction of real pandas Series into the abstract columns of the Lean model (VModel.Column).

Written independently of the code under test: it classifies real objects with isinstance / hasattr / pandas.api.types
and calls the *library* parsers (float, complex, urlparse, uuid.UUID, ip_address, shapely.wkt.loads, PureWindowsPath,
pd.to_datetime) directly for the oracle fields — never a visions predicate or transformer.
"""
import contextlib
import datetime
import io
import ipaddress
import math
import os
import pathlib
import sys
import uuid
import warnings
from urllib.parse import ParseResult, urlparse

import numpy as np
import pandas as pd
import pandas.api.types as pdt

from translate import PDT_PREDICATES, dtype_family_representatives

warnings.simplefilter("ignore")

try:
    from shapely import wkt as _wkt
    from shapely.geometry.base import BaseGeometry
except Exception:  # pragma: no cover
    _wkt = None
    BaseGeometry = ()

try:
    from visions.types.email_address import FQDA     # a plain attrs data class (declarative), used for isinstance only
    from visions.backends.python.types.boolean import get_boolean_coercions
    BOOL_MAPS = get_boolean_coercions("en")
except Exception:  # pragma: no cover
    FQDA = ()
    BOOL_MAPS = []

_TABLE = None


def pdt_table():
    """(predicate, family) -> bool, computed exactly as the translator does (empty Series of representative dtypes)"""
    global _TABLE
    if _TABLE is None:
        _TABLE = {}
        for fam, reps in dtype_family_representatives().items():
            for pred in PDT_PREDICATES:
                _TABLE[(pred, fam)] = bool(getattr(pdt, pred)(pd.Series([], dtype=reps[0])))
    return _TABLE


def family(dtype):
    """dtype family of the model, or None when the dtype is outside the modelled scope"""
    if isinstance(dtype, np.dtype):
        k = dtype.kind
        return {"b": "bool", "i": "int", "u": "uint", "f": "float", "c": "complex", "M": "datetime", "m": "timedelta",
                "O": "object"}.get(k)
    if isinstance(dtype, pd.BooleanDtype):
        return "boolean"
    if isinstance(dtype, (pd.Int8Dtype, pd.Int16Dtype, pd.Int32Dtype, pd.Int64Dtype)):
        return "Int"
    if isinstance(dtype, (pd.UInt8Dtype, pd.UInt16Dtype, pd.UInt32Dtype, pd.UInt64Dtype)):
        return "UInt"
    if isinstance(dtype, (pd.Float32Dtype, pd.Float64Dtype)):
        return "Float"
    if isinstance(dtype, pd.DatetimeTZDtype):
        return "datetimetz"
    if isinstance(dtype, pd.CategoricalDtype):
        e = pd.Series([], dtype=dtype)
        b, st = bool(pdt.is_bool_dtype(e)), bool(pdt.is_string_dtype(e))
        base = "catBool" if b else ("catStr" if st else "catOther")
        return base + ("Ord" if dtype.ordered else "")
    if isinstance(dtype, pd.StringDtype):
        if dtype.na_value is not pd.NA:
            return "str"                       # pandas 3 default string dtype (python or pyarrow storage)
        return "string" if dtype.storage == "python" else "stringArrow"
    if isinstance(dtype, pd.PeriodDtype):
        return "period"
    if isinstance(dtype, pd.IntervalDtype):
        return "interval"
    if isinstance(dtype, pd.SparseDtype):
        k = np.dtype(dtype.subtype).kind
        return {"f": "sparseFloat", "i": "sparseInt", "b": "sparseBool"}.get(k)
    return None


def fl(v):
    v = float(v)
    if math.isnan(v):
        return "nan"
    if math.isinf(v):
        return "inf" if v > 0 else "-inf"
    n, d = v.as_integer_ratio()
    return [str(n), d.bit_length() - 1]


def outcome(fn, *a):
    try:
        return ["ok", fn(*a)]
    except RecursionError:
        raise
    except BaseException as e:  # noqa
        return ["raises", "|".join(c.__name__ for c in type(e).__mro__ if c not in (object, BaseException, Exception))]


def _wkt_loads(s):
    g = _wkt.loads(s)
    return [bool(g), g.wkt]


def _ip(s):
    a = ipaddress.ip_address(s)
    return [type(a).__name__, str(a)]


def _email(s):
    parts = s.split("@", maxsplit=1)
    if len(parts) != 2:
        raise TypeError("FQDA() missing argument")
    return parts[0] + "@" + parts[1]


def _url(s):
    r = urlparse(s)
    return [bool(r.netloc), bool(r.scheme), r.geturl()]


_SF_CACHE = {}


def str_facts(s):
    if s not in _SF_CACHE:
        if len(_SF_CACHE) > 20000:
            _SF_CACHE.clear()
        _SF_CACHE[s] = _str_facts(s)
    return _SF_CACHE[s]


def _str_facts(s):
    low = s.lower()
    bk = None
    for i, m in enumerate(BOOL_MAPS):
        if low in m:
            bk = [i, bool(m[low])]
            break
    with contextlib.redirect_stderr(io.StringIO()):
        wk = outcome(_wkt_loads, s) if _wkt is not None else ["raises", "ImportError"]
    return {
        "bk": bk,
        "f": outcome(lambda: fl(float(s))),
        "z": s[:1] == "0",
        "ji": ("j" in s) or ("i" in s),
        "c": outcome(lambda: (lambda c: [fl(c.real), fl(c.imag)])(complex(s))),
        "wkt": wk,
        "ip": outcome(_ip, s),
        "win": outcome(lambda: (lambda p: [p.is_absolute(), str(p)])(pathlib.PureWindowsPath(s))),
        "px": outcome(lambda: (lambda p: [p.is_absolute(), str(p)])(pathlib.PurePosixPath(s))),
        "url": outcome(_url, s),
        "uuid": outcome(lambda: str(uuid.UUID(s))),
        "em": outcome(_email, s),
        "t": bool(s),
    }


def days_from_civil(y, m, d):
    """proleptic Gregorian ordinal (date.toordinal) for any year, including those outside datetime's range"""
    y -= m <= 2
    era = (y if y >= 0 else y - 399) // 400
    yoe = y - era * 400
    doy = (153 * (m + (-3 if m > 2 else 9)) + 2) // 5 + d - 1
    doe = yoe * 365 + yoe // 4 - yoe // 100 + doy
    return era * 146097 + doe - 719468 + 719163


def ts_payload(v):
    ns = ((v.hour * 60 + v.minute) * 60 + v.second) * 10 ** 9 + v.microsecond * 1000 + getattr(v, "nanosecond", 0)
    return ["ts", str(days_from_civil(v.year, v.month, v.day)), str(ns), v.tzinfo is not None]


def obj_repr(v):
    if isinstance(v, BaseGeometry):
        return v.wkt
    if isinstance(v, ParseResult):
        return v.geturl()
    if isinstance(v, FQDA):
        return "%s@%s" % (v.local, v.fqdn)
    return str(v)


def payload(v, null):
    if null:
        if isinstance(v, float):
            return ["float", "nan"]
        if isinstance(v, complex):
            return ["complex", fl(v.real), fl(v.imag)]
        return ["none"]
    if isinstance(v, (bool, np.bool_)):
        return ["bool", bool(v)]
    if isinstance(v, (int, np.integer)):
        return ["int", str(int(v))]
    if isinstance(v, (float, np.floating)):
        return ["float", fl(v)]
    if isinstance(v, (complex, np.complexfloating)):
        return ["complex", fl(v.real), fl(v.imag)]
    if isinstance(v, datetime.datetime):
        return ts_payload(v)
    if isinstance(v, datetime.date):
        return ["date", str(days_from_civil(v.year, v.month, v.day))]
    if isinstance(v, (BaseGeometry, ParseResult, FQDA, uuid.UUID, ipaddress._BaseAddress, pathlib.PurePath)):
        return ["obj", obj_repr(v)]
    return ["none"]


def _strEq(v):
    """`series.astype(str).values == series.values` for this element (the library operation itself: with the
    arrow-backed string dtype it is e.g. True for bytes and raises for tuples)"""
    a = np.empty(1, dtype=object)
    a[0] = v
    s = pd.Series(a, dtype=object)
    r = (s.astype(str).values == s.values)
    return bool(r[0]) if hasattr(r, "__getitem__") else bool(r)


def _path_image(v):
    from visions.utils.images.image_utils import path_is_image   # library-ish helper on a concrete file
    return bool(path_is_image(v))


def cell(v, null):
    bits = []

    def bit(name, cond):
        try:
            if cond():
                bits.append(name)
        except Exception:
            pass

    bit("isStr", lambda: isinstance(v, str))
    bit("isPurePath", lambda: isinstance(v, pathlib.PurePath))
    bit("isPath", lambda: isinstance(v, pathlib.Path))
    bit("isParseResult", lambda: isinstance(v, ParseResult))
    bit("isUUID", lambda: isinstance(v, uuid.UUID))
    bit("isFQDA", lambda: isinstance(v, FQDA))
    bit("isGeom", lambda: issubclass(type(v), BaseGeometry))
    bit("isIP", lambda: isinstance(v, ipaddress._BaseAddress))
    bit("hasDateAttrs", lambda: all(hasattr(v, a) for a in ("year", "month", "day")))
    bit("hasTimeAttrs", lambda: all(hasattr(v, a) for a in ("microsecond", "hour")))
    bit("hasUrlAttrs", lambda: all(hasattr(v, a) for a in ("netloc", "scheme")))
    bit("hasUuidAttrs", lambda: all(hasattr(v, a) for a in ("time_low", "hex")))
    bit("hasEmailAttrs", lambda: all(hasattr(v, a) for a in ("local", "fqdn")))
    if isinstance(v, pathlib.PurePath):
        bit("pathAbs", lambda: v.is_absolute())
    if isinstance(v, pathlib.Path):
        bit("pathExists", lambda: v.exists())
        bit("pathImage", lambda: v.exists() and _path_image(v))
    if v is None:
        na = "none"
    elif v is pd.NA:
        na = "NA"
    elif v is pd.NaT:
        na = "NaT"
    else:
        na = "nan"
    return {
        "n": bool(null), "na": na, "cls": type(v).__name__, "b": bits,
        "strEq": outcome(_strEq, v),
        "inBool": outcome(lambda: v in {True, False}),
        "truth": outcome(lambda: bool(v)),
        "pay": payload(v, null),
        "str": str_facts(v) if isinstance(v, str) else None,
    }


def elements(s):
    """the Python-level elements as iteration over the Series yields them"""
    return list(s)


def column(s, with_dt=True):
    """abstract column of a Series; returns (json, assumption_violations) or (None, reason) when out of scope"""
    fam = family(s.dtype)
    if fam is None:
        return None, "dtype %r outside the modelled families" % (s.dtype,)
    viol = []
    if fam != "object":
        tab = pdt_table()
        for pred in PDT_PREDICATES:
            try:
                got = bool(getattr(pdt, pred)(s))
            except Exception as e:  # noqa
                got = "raises " + type(e).__name__
            if got != tab[(pred, fam)]:
                viol.append("dtype-table: %s(%r)=%s but family %s says %s" % (pred, s.dtype, got, fam, tab[(pred, fam)]))
    nulls = s.isna().tolist()
    els = elements(s)
    cells = [cell(v, n) for v, n in zip(els, nulls)]
    col = {"dtype": fam, "cells": cells, "index": [repr(i) for i in s.index.tolist()], "name": repr(s.name)}
    return col, viol


def infer_datetime(s):
    """the library call the String→DateTime relation makes (pd.to_datetime, then format='mixed'), as an outcome"""
    def run():
        try:
            r = pd.to_datetime(s)
        except Exception:
            r = pd.to_datetime(s, format="mixed")
        if not isinstance(r, pd.Series):
            raise TypeError("not a series")
        fam = family(r.dtype)
        nulls = r.isna().tolist()
        return {"cells": [cell(v, n) for v, n in zip(list(r), nulls)], "tz": fam == "datetimetz", "fam": fam}
    with warnings.catch_warnings():
        warnings.simplefilter("ignore")
        return outcome(run)


def dt_oracles(s, col):
    """outcomes of pandas_infer_datetime on the non-null sub-column (guard) and on the whole column (transformer)"""
    stringish = col["dtype"] in ("object", "str", "string", "stringArrow") and \
        all(c["n"] or c["str"] is not None for c in col["cells"]) and any(not c["n"] for c in col["cells"])
    if not stringish:
        na = ["raises", "NotAStringColumn"]
        return na, na
    whole = infer_datetime(s)
    if s.hasnans:
        sub = infer_datetime(s.dropna())
    else:
        sub = whole
    return sub, whole

"""Sampled-traversal runner (C18) on the real pandas backend and the shipped typesets.

Series of >= 1000 rows made of a majority family plus 0..k contaminating values placed anywhere (front, middle, the
trailing `n % 1000` rows, the very last row), lengths that are and are not multiples of 1000, several sample sizes and
seeded sample draws; and series below 1000 rows / smaller than the sample size.  Direct oracle, C18 as stated:

  * every hop of the reported path is a relation of the typeset whose test accepts the FULL data as it was at that point
    (recomputed here by pushing the full input through the reported path);
  * the returned data is exactly the input pushed through the transformers of the reported path, and belongs to the
    last type of the path;
  * below 1000 rows or when the sample size exceeds the length the result equals the full traversal.
"""
import json
import multiprocessing as mp
import sys
import warnings

import numpy as np
import pandas as pd

from common import canon, rng_for

warnings.simplefilter("ignore")
import visions  # noqa: E402
from visions.typesets import CompleteSet, StandardSet  # noqa: E402
from visions.typesets.typeset import traverse_graph_with_sampled_series, traverse_graph_with_series  # noqa: E402

FAMILIES = {
    # name: (majority values, dtype, contaminants)
    "int-strings": (["1", "2", "35", "400"], object, ["abc", "2.5", "1+2j", ""]),
    "float-strings": (["1.5", "2.25", "3.0"], object, ["abc", "1+2j", "x.y"]),
    "bool-strings": (["yes", "no"], object, ["y", "maybe", "true"]),
    "integral-floats": ([1.0, 2.0, 30.0], "float64", [2.5, float("inf")]),
    "strings": (["a", "bc", "d e"], object, [1, 2.5, None, b"raw"]),
    "midnights": ([pd.Timestamp("2020-01-01"), pd.Timestamp("2021-06-30")], "datetime64[ns]", [pd.Timestamp("2020-01-01 10:30")]),
    "real-complex": ([complex(1, 0), complex(2, 0)], "complex128", [complex(1, 2)]),
    "bools-object": ([True, False], object, ["x", 2, None]),
    "str-dates": (["2020-01-01", "2021-06-30"], object, ["hello", "2020-13-45"]),
    # day-first dates: the first row fixes the format pandas guesses for the whole column; a sample may guess another
    "dmy-dates": (["03/02/2013", "05/06/2014", "11/12/2015", "25/12/2016", "13/01/2020"], object, ["hello"]),
}
# whole-series tests: two sub-families, each acceptable on its own, never together (one coercion map / one path flavour per series)
FAMILIES["bool-strings-2"] = (["yes", "no"], object, ["true", "false", "y", "n"])
FAMILIES["windows-paths"] = (["C:\\Users\\a", "D:\\data\\x.csv"], object, ["/usr/lib", "/tmp/x"])
# the same numbers in three representations (equal values, equal hashes): typed one after the other in ONE process with one sample
# size, each must get its own answer (a result remembered under the values alone would hand the first answer to the others)
FAMILIES["counter-int"] = ([1, 0], "int64", [7])
FAMILIES["counter-bool"] = ([True, False], "bool", [True])
FAMILIES["counter-float"] = ([1.0, 0.0], "float64", [0.5])
LENGTHS = [1000, 1001, 1499, 1500, 2000, 2345, 3000]
SMALL = [0, 1, 5, 12, 999]


def positions(rng, n, kind, k):
    tail0 = (n // 1000) * 1000
    k = min(k, max(n // 3, 0))
    if kind == "none" or k == 0:
        return []
    if kind == "front":
        return sorted(rng.sample(range(0, min(50, n)), min(k, min(50, n))))
    if kind == "middle":
        return sorted(rng.sample(range(n // 3, 2 * n // 3), k))
    if kind == "tail-block":      # the rows after the last whole block of 1000
        lo = tail0 if tail0 < n else max(0, n - 100)
        return sorted(rng.sample(range(lo, n), min(k, n - lo)))
    if kind == "last":
        return [n - 1]
    return sorted(rng.sample(range(n), k))


def gen_case(rng, small=False):
    fam = rng.choice(sorted(FAMILIES))
    base, dtype, contam = FAMILIES[fam]
    n = rng.choice(SMALL) if small else rng.choice(LENGTHS)
    kind = rng.choice(["none", "front", "middle", "tail-block", "tail-block", "last", "anywhere"])
    k = rng.choice([1, 1, 2, 5])
    pos = [p for p in positions(rng, n, kind, k) if p < n] if n else []
    return {"family": fam, "n": n, "kind": kind if pos else "none", "pos": pos, "contam": [rng.randrange(len(contam)) for _ in pos],
            "base_seed": rng.randrange(10 ** 6), "sample_size": rng.choice([5, 10, 10, 50, 1200]),
            "draws": [rng.randrange(2 ** 31) for _ in range(3)], "typeset": rng.choice(["standard", "complete"])}


def build(case):
    base, dtype, contam = FAMILIES[case["family"]]
    r = np.random.RandomState(case["base_seed"])
    idx = r.randint(0, len(base), size=case["n"])
    vals = [base[i] for i in idx]
    homogeneous = dtype is not object
    if case["family"] == "dmy-dates" and vals:
        vals[0] = "13/01/2020"
    for p, c in zip(case["pos"], case["contam"]):
        vals[p] = contam[c]
    if homogeneous:
        try:
            return pd.Series(vals, dtype=dtype)
        except Exception:
            return pd.Series(vals)
    return pd.Series(vals, dtype=object)


def ser_key(s):
    try:
        return (str(s.dtype), len(s), [repr(v) for v in s.iloc[:3].tolist()], [repr(v) for v in s.iloc[-3:].tolist()],
                int(pd.util.hash_pandas_object(s.astype(str), index=True).sum() % (2 ** 61)))
    except Exception:
        return (str(s.dtype), len(s), [repr(v) for v in s.tolist()[:50]])


_TS = {}


def observe(case):
    fails = []
    if case["typeset"] not in _TS:
        _TS[case["typeset"]] = {"standard": StandardSet, "complete": CompleteSet}[case["typeset"]]()
    ts = _TS[case["typeset"]]
    g = ts.relation_graph
    s = build(case)
    n, k = len(s), case["sample_size"]

    def add(sig, what, draw=None):
        fails.append({"property": "C18", "signature": sig, "what": what, "case": dict(case, draw=draw)})

    try:
        full = traverse_graph_with_series(ts.root_node, s, g, state={})
        full_res = ("ok", [str(t) for t in full[1]], ser_key(full[0]))
    except Exception as e:  # noqa
        full_res = ("raises", type(e).__name__)
    paths = set()
    for draw in case["draws"]:
        np.random.seed(draw)
        try:
            data, path, _ = traverse_graph_with_sampled_series(ts.root_node, s, g, k, {})
        except Exception as e:  # noqa
            if n < 1000 or k > n:
                if full_res[0] != "raises":
                    add("small-differs", "series of %d rows, sample_size %d: sampled traversal raised %s, full traversal gives %s"
                        % (n, k, type(e).__name__, full_res[1]), draw)
            elif full_res[0] != "raises":
                # a transformer applied to data its relation test rejects is how an unvalidated hop shows up
                add("raised:%s" % type(e).__name__, "sampled traversal raised %s on %d rows (%s, contaminants at %s); the full traversal returns %s"
                    % (type(e).__name__, n, case["family"], case["pos"][:5], full_res[1]), draw)
            continue
        p = [str(t) for t in path]
        paths.add(tuple(p))
        if n < 1000 or k > n:
            if full_res[0] == "ok" and (p != full_res[1] or ser_key(data) != full_res[2]):
                add("small-differs", "series of %d rows, sample_size %d: sampled traversal gives %s, full traversal %s" % (n, k, p, full_res[1]), draw)
            continue
        # replay the reported path on the full input
        cur, ok = s, True
        for a, b in zip(path, path[1:]):
            if not g.has_edge(a, b):
                add("hop-not-a-relation", "reported hop %s -> %s is not a relation of the typeset" % (a, b), draw)
                ok = False
                break
            rel = g[a][b]["relationship"]
            try:
                acc = bool(rel.is_relation(cur, {}))
            except Exception as e:  # noqa
                acc = "raises " + type(e).__name__
            if acc is not True:
                add("reports-failed-relation:%s->%s" % (a, b),
                    "reported %s although the full data (%d rows, %s, contaminants at %s) fails %s -> %s (%s)"
                    % (b, n, case["family"], case["pos"][:5], a, b, acc), draw)
                ok = False
                break
            cur = rel.transform(cur, {})
        if ok:
            if ser_key(cur) != ser_key(data):
                add("data-not-through-path", "returned data is not the input pushed through the transformers of the reported path %s" % p, draw)
            try:
                inlast = bool(data in path[-1])
            except Exception as e:  # noqa
                inlast = "raises " + type(e).__name__
            if inlast is not True:
                add("data-not-in-last:%s" % p[-1], "returned data does not belong to the last reported type %s (%s)" % (p[-1], inlast), draw)
            # two oracles that do not lean on the library's own verdict for this row order: (1) a relation that holds of the
            # full data holds of any reordering of its rows (the date parser, which guesses its format from the first row, is
            # the documented exception); (2) a cast never turns a value into a missing one
            if case["family"] != "dmy-dates":
                cur2 = s.sample(frac=1.0, random_state=12345)
                for a, b in zip(path, path[1:]):
                    rel = g[a][b]["relationship"]
                    try:
                        acc2 = bool(rel.is_relation(cur2, {}))
                    except Exception as e:  # noqa
                        acc2 = "raises " + type(e).__name__
                    if acc2 is not True:
                        add("reports-order-dependent-relation:%s->%s" % (a, b),
                            "reported %s for %d rows (%s, contaminants at %s), but the same rows in another order fail %s -> %s (%s)"
                            % (b, n, case["family"], case["pos"][:5], a, b, acc2), draw)
                        break
                    cur2 = rel.transform(cur2, {})
            try:
                lost = int(pd.isna(data).sum()) - int(pd.isna(s).sum())
            except Exception:
                lost = 0
            if lost > 0:
                add("cast-lost-values:%s" % p[-1], "the returned data has %d more missing values than the input (%d rows, %s, contaminants at %s)"
                    % (lost, n, case["family"], case["pos"][:5]), draw)
    return {"fails": fails, "paths": sorted(paths), "full": full_res[1] if full_res[0] == "ok" else full_res}


def _worker(cases):
    out = []
    flat = []
    for c in cases:
        flat.extend(c["group"] if "group" in c else [c])      # a group runs back to back in this very process
    for c in flat:
        try:
            o = observe(c)
        except Exception:  # noqa
            import traceback
            o = {"fails": [], "paths": [], "crash": traceback.format_exc()[-800:]}
        o["case"] = c
        out.append(o)
    return out


def run(tier, seed, nproc=16):
    rng = rng_for(seed, "sampled")
    nbig = 160 if tier == "quick" else 3000
    nsmall = 60 if tier == "quick" else 600
    cases = [gen_case(rng) for _ in range(nbig)] + [gen_case(rng, small=True) for _ in range(nsmall)]
    # every family with one contaminant in the rows after the last whole block of 1000, and in the last row
    for fam in sorted(FAMILIES):
        for n, pos in ((1500, [1400]), (2345, [2001]), (1001, [1000]), (3000, [2999])):
            cases.append({"family": fam, "n": n, "kind": "tail-block", "pos": pos, "contam": [0], "base_seed": 7,
                          "sample_size": 10, "draws": [1, 2, 3], "typeset": "complete"})
    # uncontaminated day-first dates: state written while typing the sample must not change how the full column is cast
    for n in (1000, 1500, 2345):
        for k in (5, 10, 50):
            cases.append({"family": "dmy-dates", "n": n, "kind": "none", "pos": [], "contam": [], "base_seed": n + k,
                          "sample_size": k, "draws": [11, 12, 13, 14, 15, 16], "typeset": rng.choice(["standard", "complete"])})
    for n in (1500, 999, 2345):
        for order in (("counter-int", "counter-bool", "counter-float"), ("counter-float", "counter-int", "counter-bool"),
                      ("counter-bool", "counter-float", "counter-int")):
            cases.append({"group": [{"family": fam, "n": n, "kind": "none", "pos": [], "contam": [], "base_seed": 5, "sample_size": 10,
                                     "draws": [21, 22], "typeset": "standard"} for fam in order]})
    chunks = [cases[i::nproc] for i in range(nproc)]
    with mp.Pool(nproc) as pool:
        outs = pool.map(_worker, [c for c in chunks if c])
    res = [o for ch in outs for o in ch]
    fails = [f for o in res for f in o["fails"]]
    crashes = [{"kind": "harness-crash", "case": o["case"], "trace": o["crash"]} for o in res if "crash" in o]
    dist = {"families": {}, "kinds": {}, "lengths": {}, "missed_by_sample_but_caught_by_validation": 0}
    nontriv = set()
    for o in res:
        c = o["case"]
        dist["families"][c["family"]] = dist["families"].get(c["family"], 0) + 1
        dist["kinds"][c["kind"]] = dist["kinds"].get(c["kind"], 0) + 1
        dist["lengths"][str(c["n"])] = dist["lengths"].get(str(c["n"]), 0) + 1
        if c["n"] >= 1000 and c["pos"]:
            nontriv.add(canon([c["family"], c["n"], c["pos"], c["sample_size"]]))
        if c["pos"] and isinstance(o.get("full"), list) and any(list(p) != o["full"] for p in o["paths"]):
            dist["missed_by_sample_but_caught_by_validation"] += 1
    return {"runner": "sampled", "evaluations": sum(len(o["case"]["draws"]) for o in res), "distinct_nontrivial": len(nontriv),
            "rule": "pandas series of 1000..3000 rows (lengths that are and are not multiples of 1000) from 9 majority families with "
                    "0..5 contaminating values at the front / middle / after the last whole block of 1000 / last row / anywhere, "
                    "sample sizes 5, 10, 50, 1200, three seeded draws each, StandardSet and CompleteSet; plus series of 0..999 rows; "
                    "non-trivial = distinct contaminated long series",
            "samples": [res[0]["case"], res[-1]["case"]], "disagreements": crashes, "oracle_failures": fails, "distribution": dist}


if __name__ == "__main__":
    r = run(sys.argv[1] if len(sys.argv) > 1 else "quick", int(sys.argv[2]) if len(sys.argv) > 2 else 0)
    print(r["evaluations"], r["distinct_nontrivial"], len(r["oracle_failures"]), len(r["disagreements"]))
    print(json.dumps(r["distribution"]))
    import collections
    c = collections.Counter(f["signature"] for f in r["oracle_failures"])
    ex = {}
    for f in r["oracle_failures"]:
        ex.setdefault(f["signature"], f)
    for k, v in c.most_common():
        print(v, k, ex[k]["what"][:300])
    for d in r["disagreements"][:2]:
        print(d)

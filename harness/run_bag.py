"""Bag-of-values runner (C11): membership of every type, detect_type and infer_type must be invariant under
row permutation (all n! for n <= 4), index relabelling, renaming and k-fold self-concatenation — on real code."""
import itertools
import json
import multiprocessing as mp
import sys
import warnings

import pandas as pd

import gen_pandas as G
from common import canon, rng_for

warnings.simplefilter("ignore")
import visions  # noqa: E402
from run_graph import ALL  # noqa: E402
from run_pandas import typeset_for, outcome  # noqa: E402
from visions.typesets import CompleteSet  # noqa: E402

COMPLETE = sorted(str(t) for t in CompleteSet().types)


def view(s):
    ts = typeset_for(COMPLETE)
    mem = {str(t): outcome(lambda: bool(s in t)) for t in ALL}
    return {"mem": mem, "detect": outcome(lambda: str(ts.detect_type(s))), "infer": outcome(lambda: str(ts.infer_type(s)))}


def variants(recipe, rng):
    vals = recipe["values"]
    n = len(vals)
    out = []
    if n <= 4:
        perms = [list(p) for p in itertools.permutations(range(n))][1:]
    else:
        perms = [list(reversed(range(n)))]
        for _ in range(3):
            p = list(range(n))
            rng.shuffle(p)
            perms.append(p)
    for p in perms:
        r = dict(recipe)
        r["values"] = [vals[i] for i in p]
        out.append(("perm", r))
    for idx in ("str", "dup", "mixed", "rev", "same"):
        r = dict(recipe)
        r["index"] = idx
        out.append(("relabel", r))
    r = dict(recipe)
    r["name"] = "renamed"
    out.append(("rename", r))
    for k in (2, 3):
        r = dict(recipe)
        r["values"] = vals * k
        r["index"] = "default"
        out.append(("repeat%d" % k, r))
    if recipe.get("long_repeat") and n:
        # repetition until the column has well over 1000 rows (twice: any sampling draws differently)
        k = -(-1200 // n)
        for _ in range(12 if str(recipe.get("stream", "")).startswith("corpus:minority-complex") else 2):
            r = dict(recipe)
            r["values"] = vals * k
            r["index"] = "default"
            out.append(("repeat%d" % k, r))
    return out


def _worker(args):
    recipes, seed = args
    G.files_dir()
    rng = rng_for(seed, "bagw")
    res = []
    for rec in recipes:
        try:
            base = view(G.gamma(rec))
        except Exception as e:  # noqa
            res.append({"recipe": rec, "skip": type(e).__name__})
            continue
        diffs = []
        nv = 0
        for kind, r in variants(rec, rng):
            try:
                s = G.gamma(r)
            except Exception:
                continue
            nv += 1
            v = view(s)
            if kind.startswith("repeat") and not rec["values"]:
                continue
            for t in v["mem"]:
                if v["mem"][t] != base["mem"][t]:
                    diffs.append({"kind": kind, "what": "contains:" + t, "base": base["mem"][t], "variant": v["mem"][t], "variant_recipe": r})
                    break
            for k in ("detect", "infer"):
                if v[k] != base[k]:
                    diffs.append({"kind": kind, "what": k, "base": base[k], "variant": v[k], "variant_recipe": r})
        res.append({"recipe": rec, "variants": nv, "diffs": diffs[:3], "base": {"detect": base["detect"], "infer": base["infer"]}})
    return res


def run(tier, seed, n=None, nproc=16):
    n = n or (250 if tier == "quick" else 5000)
    rng = rng_for(seed, "bag")
    recipes = []
    for i in range(n):
        r = G.gen_column(rng)
        if len(r["values"]) > 8:
            r["values"] = r["values"][:8]
        recipes.append(r)
    # witnesses of past failures first: leading-zero float strings next to larger values (index labels matter to a
    # label-based selection), near-integers, late deviants
    recipes = [{"values": [["str", "0.5"], ["str", "2"]], "dtype": "object", "index": "default", "name": None, "stream": "corpus:leading-zero-small"},
               {"values": [["str", "0"], ["str", "12"], ["str", "0.25"]], "dtype": "str", "index": "default", "name": None, "stream": "corpus:leading-zero-small2"},
               {"values": [["str", "05"], ["str", "2"]], "dtype": "object", "index": "default", "name": None, "stream": "corpus:leading-zero-int"}] + recipes
    # k-fold repetition up to >= 1200 rows for a deterministic set of minority-value columns and every 12th recipe
    recipes = [{"values": [["str", "1.5"]] * 7 + [["str", "1j"]], "dtype": "object", "index": "default", "name": None, "stream": "corpus:minority-complex"},
               {"values": [["str", "2.5"]] * 15 + [["str", "3j"]], "dtype": "str", "index": "default", "name": None, "stream": "corpus:minority-complex2"},
               {"values": [["str", "1"]] * 5 + [["str", "2.5"]], "dtype": "object", "index": "default", "name": None, "stream": "corpus:minority-float"},
               {"values": [["float", 1.0]] * 6 + [["float", 0.5]], "dtype": "float64", "index": "default", "name": None, "stream": "corpus:minority-fraction"},
               {"values": [["str", "a"]] * 4 + [["int", 3]], "dtype": "object", "index": "default", "name": None, "stream": "corpus:minority-int"},
               {"values": [["str", "yes"]] * 7 + [["str", "maybe"]], "dtype": "object", "index": "default", "name": None, "stream": "corpus:minority-text"}] + recipes
    for i, r in enumerate(recipes):
        if i < 6 or i % 12 == 0:
            r["long_repeat"] = True
    chunks = [recipes[i::nproc] for i in range(nproc)]
    with mp.Pool(nproc) as pool:
        outs = pool.map(_worker, [(c, seed) for c in chunks if c])
    fails = []
    evals = 0
    nontriv = set()
    dist = {}
    for o in [x for ch in outs for x in ch]:
        if "skip" in o:
            continue
        evals += o["variants"] + 1
        st = o["recipe"].get("stream", "?")
        dist[st] = dist.get(st, 0) + 1
        if len(o["recipe"]["values"]) >= 2:
            nontriv.add(canon(o["recipe"]["values"]))
        for d in o["diffs"]:
            k = d["what"] if not d["what"].startswith("contains") else d["what"]
            fails.append({"property": "C11", "signature": "%s:%s" % (d["kind"].rstrip("23"), k),
                          "what": "%s changes %s: %s -> %s" % (d["kind"], d["what"], d["base"], d["variant"]),
                          "recipe": o["recipe"], "variant": d["variant_recipe"]})
    return {"runner": "bag", "evaluations": evals, "distinct_nontrivial": len(nontriv),
            "rule": "generated pandas columns (length <= 8) x all row permutations for n <= 4 (reversal + 3 shuffles above) x 4 "
                    "index relabellings x rename x 2- and 3-fold repetition; membership of 24 types, detect_type, infer_type "
                    "compared with the base column; non-trivial = distinct value lists with >= 2 rows",
            "samples": recipes[:2], "disagreements": [], "oracle_failures": fails, "distribution": dist}


if __name__ == "__main__":
    r = run(sys.argv[1] if len(sys.argv) > 1 else "quick", int(sys.argv[2]) if len(sys.argv) > 2 else 0,
            int(sys.argv[3]) if len(sys.argv) > 3 else None)
    print(r["evaluations"], r["distinct_nontrivial"], len(r["oracle_failures"]))
    import collections
    c = collections.Counter(f["signature"] for f in r["oracle_failures"])
    ex = {}
    for f in r["oracle_failures"]:
        ex.setdefault(f["signature"], f)
    for k, v in c.most_common():
        print(v, k, json.dumps(ex[k]["recipe"]["values"])[:200], "=>", json.dumps(ex[k]["variant"]["values"])[:200], ex[k]["what"][:200])

"""Engine correspondence runner (C12, C18, C08, C05, C10-state): random user-defined type systems are built
as *real* visions classes, run on every input of their finite universe, and compared with
  (a) the Lean model (`traverse`, `traverseSampled`, `traverseFrame` through the driver) and
  (b) an independent pure-Python transcription of the documented reference semantics (the direct oracle).
Compared observables: returned data, path, returned state, the full call log (which guard / transformer was
called with which data and which state, in order) and escaping exception classes.
"""
import collections.abc
import json
import sys
import warnings

import numpy as np
import pandas as pd

from common import Driver, rng_for, canon

warnings.simplefilter("ignore")

import visions  # noqa: E402
from multimethod import multimethod  # noqa: E402
from visions.declarative import create_type  # noqa: E402
from visions.relations import IdentityRelation, InferenceRelation  # noqa: E402
from visions.types.generic import Generic  # noqa: E402
from visions.types.type import VisionsBaseType  # noqa: E402
from visions.typesets.typeset import (VisionsTypeset, traverse_graph_with_sampled_series,  # noqa: E402
                                      traverse_graph_with_series)

EXC = {"ValueError": ValueError, "TypeError": TypeError, "KeyError": KeyError, "AttributeError": AttributeError,
       "ZeroDivisionError": ZeroDivisionError}


class MySeq(collections.abc.Sequence):
    def __init__(self, items):
        self._items = list(items)

    def __getitem__(self, i):
        return self._items[i]

    def __len__(self):
        return len(self._items)


DISPATCH = {"list": list, "tuple": tuple, "ndarray": np.ndarray, "series": pd.Series, "custom": MySeq}


def enc(kind, x, n=2):
    if kind == "list":
        return [x] * n
    if kind == "tuple":
        return tuple([x] * n)
    if kind == "ndarray":
        return np.array([x] * n)
    if kind == "series":
        return pd.Series([x] * n)
    return MySeq([x] * n)


def dec(seq):
    if isinstance(seq, pd.Series):
        return int(seq.iloc[0])
    return int(seq[0])


def kind_of(seq):
    for k, c in DISPATCH.items():
        if type(seq) is c:
            return k
    return None


LOG = []


def gen_system(rng, tier):
    n = rng.choice([1, 2, 2, 3, 3, 4, 5, 6, 8, 10, 12])
    m = rng.randint(2, 6)
    kind = rng.choice(list(DISPATCH))
    U = list(range(m))
    names = ["Generic"] + ["U%d" % i for i in range(1, n + 1)]
    parent = {i: rng.randint(0, i - 1) for i in range(1, n + 1)}
    style = {i: rng.choice(["class", "decl"]) for i in range(1, n + 1)}
    keys = ["k", "j"]

    def gspec(wrapped, p_write=0.3, p_err=0.12, p_if=0.15):
        acc = [x for x in U if rng.random() < 0.55]
        g = {"acc": acc, "accIf": [], "err": [], "wrapped": wrapped}
        if rng.random() < p_if:
            g["accIf"] = [[rng.choice(U), rng.choice(keys)]]
        if rng.random() < p_err:
            g["err"] = [[rng.choice(U), rng.choice(list(EXC))]]
        if rng.random() < p_write:
            g["write"] = rng.choice(keys)
        return g

    contains = {}
    idguard = {}
    idxform = {}
    for i in range(1, n + 1):
        wrapped = style[i] == "class"
        contains[i] = gspec(wrapped, p_write=0.2, p_err=0.08, p_if=0.1)
        if rng.random() < 0.15:
            idguard[i] = gspec(False)   # explicit relationship on the IdentityRelation (no multimethod converter)
        if rng.random() < 0.2:
            # a user-defined transformer on an identity relation (the engine applies it like any other)
            idxform[i] = {"map": [[u, rng.choice(U)] for u in U if rng.random() < 0.6], "err": [], "wrapped": True}
            if rng.random() < 0.3:
                idxform[i]["write"] = rng.choice(keys)
    k = rng.randint(0, min(8, n * (n - 1)))
    inf = []
    seen = set((parent[i], i) for i in parent)
    cyclic = tier == "thorough" and rng.random() < 0.03
    for _ in range(k):
        a = rng.randint(0, n)
        b = rng.randint(1, n)
        if a == b or (a, b) in seen:
            continue
        if not cyclic and not a < b:
            continue
        seen.add((a, b))
        reg = rng.choices(["direct", "register", "unregistered", "default_xform"], [6, 3, 1, 1])[0]
        g = gspec(True)
        x = {"map": [[u, rng.choice(U)] for u in U if rng.random() < 0.6], "err": [], "wrapped": True}
        if rng.random() < 0.1:
            x["err"] = [[rng.choice(U), rng.choice(list(EXC))]]
        if rng.random() < 0.25:
            x["write"] = rng.choice(keys)
        inf.append({"src": a, "dst": b, "guard": g, "xform": x, "reg": reg})
    return {"n": n, "m": m, "kind": kind, "names": names, "parent": parent, "style": style,
            "contains": contains, "idguard": idguard, "idxform": idxform, "inf": inf, "cyclic": cyclic}


def mk_guard(tag, src, dst, spec):
    acc = set(spec["acc"])
    err = {a: b for a, b in spec.get("err", [])}
    accif = [(a, b) for a, b in spec.get("accIf", [])]
    write = spec.get("write")

    def g(seq, state):
        x = dec(seq)
        LOG.append([tag, src, dst, x, [[k, v] for k, v in state.items()]])
        if x in err:
            raise EXC[err[x]]("generated")
        v = x in acc or any(y == x and k in state for (y, k) in accif)
        if write:
            state[write] = state.get(write, 0) + 1
        return v

    return g


def mk_xform(src, dst, spec, kind):
    mp = {a: b for a, b in spec.get("map", [])}
    err = {a: b for a, b in spec.get("err", [])}
    write = spec.get("write")

    def t(seq, state):
        x = dec(seq)
        LOG.append(["t", src, dst, x, [[k, v] for k, v in state.items()]])
        if x in err:
            raise EXC[err[x]]("generated")
        y = mp.get(x, x)
        if write:
            state[write] = state.get(write, 0) + 1
        n = len(seq)
        if isinstance(seq, pd.Series):
            return pd.Series([y] * n, index=seq.index, name=seq.name)
        return enc(kind, y, n)

    return t


def build_real(sysd):
    """build the real visions classes; returns list of types (index -> class) and the model's relation specs"""
    n, kind, names = sysd["n"], sysd["kind"], sysd["names"]
    dcls = DISPATCH[kind]
    other = DISPATCH["tuple" if kind != "tuple" else "list"]
    types = {0: Generic}
    relspec = {}   # (src_name, dst_name) -> relation json for the model
    pending_reg = []
    for i in range(1, n + 1):
        nm = names[i]
        pnm = names[sysd["parent"][i]]
        cspec = sysd["contains"][i]
        cont = mk_guard("g", pnm, nm, cspec)   # as identity guard it is logged under the identity edge
        # identity relation
        idg = sysd["idguard"].get(i)
        idx = sysd.get("idxform", {}).get(i)
        infs = [e for e in sysd["inf"] if e["dst"] == i]

        def make_relations(i=i, nm=nm, pnm=pnm, idg=idg, infs=infs, idx=idx):
            rels = []
            kw = {}
            if idx is not None:
                kw["transformer"] = mk_xform(pnm, nm, idx, kind)
            if idg is not None:
                rels.append(IdentityRelation(types[sysd["parent"][i]], relationship=mk_guard("g", pnm, nm, idg), **kw))
            else:
                rels.append(IdentityRelation(types[sysd["parent"][i]], **kw))
            for e in infs:
                snm = names[e["src"]]
                if e["reg"] == "direct":
                    rels.append(InferenceRelation(types[e["src"]], relationship=mk_guard("g", snm, nm, e["guard"]),
                                                  transformer=mk_xform(snm, nm, e["xform"], kind)))
                elif e["reg"] == "default_xform":
                    rels.append(InferenceRelation(types[e["src"]], relationship=mk_guard("g", snm, nm, e["guard"])))
                else:
                    rels.append(InferenceRelation(types[e["src"]]))
            return rels

        if sysd["style"][i] == "class":
            base = multimethod(lambda item, state: None)
            # shipped pattern: base body `pass`; real predicate registered for the dispatch class
            cm = base

            def contains_fn(item, state, cont=cont):
                return cont(item, state)

            cls = type(nm, (VisionsBaseType,), {
                "get_relations": staticmethod(make_relations),
                "contains_op": staticmethod(cm),
            })
            cm.register(dcls, dict)(contains_fn)
        else:
            ident = None  # declarative: relations given through create_type arguments, evaluated lazily inside
            # create_type evaluates `identity`/`inference` lazily in get_relations, but needs the objects now
            if idg is not None:
                identity = {"related_type": types[sysd["parent"][i]], "relationship": mk_guard("g", pnm, nm, idg)}
            elif idx is not None:
                identity = {"related_type": types[sysd["parent"][i]]}
            else:
                identity = types[sysd["parent"][i]]
            if idx is not None:
                identity["transformer"] = mk_xform(pnm, nm, idx, kind)
            inference = []
            ok_decl = all(e["src"] in types for e in infs)
            if not ok_decl:
                # forward reference (cyclic system): fall back to a class for this type
                cls = type(nm, (VisionsBaseType,), {
                    "get_relations": staticmethod(make_relations),
                    "contains_op": staticmethod(lambda item, state, cont=cont: cont(item, state)),
                })
                types[i] = cls
                continue
            for e in infs:
                snm = names[e["src"]]
                d = {"related_type": types[e["src"]]}
                if e["reg"] in ("direct", "default_xform"):
                    d["relationship"] = mk_guard("g", snm, nm, e["guard"])
                if e["reg"] == "direct":
                    d["transformer"] = mk_xform(snm, nm, e["xform"], kind)
                inference.append(d)
            cls = create_type(nm, contains=cont, identity=identity,
                              inference=(inference if len(inference) != 1 or i % 2 else inference[0]) if inference else None)
        types[i] = cls
    # registrations for 'register'/'unregistered' inference relations
    for e in sysd["inf"]:
        if e["reg"] in ("register", "unregistered"):
            T = types[e["dst"]]
            S = types[e["src"]]
            snm, nm = names[e["src"]], names[e["dst"]]
            target = dcls if e["reg"] == "register" else other
            T.register_relationship(S, target)(mk_guard("g", snm, nm, e["guard"]))
            T.register_transformer(S, target)(mk_xform(snm, nm, e["xform"], kind))
    # model relation specs
    for i in range(1, n + 1):
        nm, pnm = names[i], names[sysd["parent"][i]]
        idg = sysd["idguard"].get(i)
        g = dict(idg) if idg is not None else dict(sysd["contains"][i])
        if idg is None and sysd["style"][i] == "decl":
            g["wrapped"] = False
        relspec[(pnm, nm)] = {"src": pnm, "dst": nm, "inf": False, "guard": g,
                              "xform": dict(sysd.get("idxform", {}).get(i)) if sysd.get("idxform", {}).get(i) is not None else {"nolog": True}}
    for e in sysd["inf"]:
        snm, nm = names[e["src"]], names[e["dst"]]
        g = dict(e["guard"])
        x = dict(e["xform"])
        if e["reg"] == "unregistered":
            # nothing registered for this sequence class: `default_relation` raises NotImplementedError
            g = {"acc": [], "err": [[u, "NotImplementedError"] for u in range(sysd["m"])], "wrapped": True, "silent": True}
        if e["reg"] == "default_xform":
            x = {"nolog": True}
        relspec[(snm, nm)] = {"src": snm, "dst": nm, "inf": True, "guard": g, "xform": x}
    return types, relspec


def ref_traverse(succ, root, x, base_only):
    """independent transcription of the documented traversal (direct oracle); returns the same observables"""
    state = {}
    log = []
    path = []
    node = root
    for _ in range(5000):
        path.append(node)
        nxt = None
        for r in succ.get(node, []):
            if base_only and r["inf"]:
                continue
            g = r["guard"]
            if not g.get("silent"):
                log.append(["g", r["src"], r["dst"], x, [[k, v] for k, v in state.items()]])
            err = {a: b for a, b in g.get("err", [])}
            if x in err:
                cls = err[x]
                if cls == "TypeError" and g.get("wrapped"):
                    cls = "DispatchError"
                return {"err": cls}
            v = x in g["acc"] or any(y == x and k in state for (y, k) in g.get("accIf", []))
            if g.get("write"):
                state[g["write"]] = state.get(g["write"], 0) + 1
            if v:
                nxt = r
                break
        if nxt is None:
            return {"x": x, "path": path, "state": [[k, v] for k, v in state.items()], "log": log}
        t = nxt["xform"]
        if not t.get("nolog"):
            log.append(["t", nxt["src"], nxt["dst"], x, [[k, v] for k, v in state.items()]])
        err = {a: b for a, b in t.get("err", [])}
        if x in err:
            cls = err[x]
            if cls == "TypeError" and t.get("wrapped"):
                cls = "DispatchError"
            return {"err": cls}
        mp = {a: b for a, b in t.get("map", [])}
        x = mp.get(x, x)
        if t.get("write"):
            state[t["write"]] = state.get(t["write"], 0) + 1
        node = nxt["dst"]
    return {"err": "RecursionError"}


def observe(fn):
    """run real code, return canonical observables"""
    del LOG[:]
    try:
        data, path, state = fn()
    except RecursionError:
        return {"err": "RecursionError"}
    except Exception as e:  # noqa
        return {"err": type(e).__name__}
    return {"x": dec(data), "path": [str(t) for t in path], "state": [[k, v] for k, v in state.items()],
            "log": [list(l) for l in LOG]}


def strip_model(resp):
    if "err" in resp:
        return {"err": resp["err"]}
    return {"x": resp["x"], "path": resp["path"], "state": resp["state"],
            "log": [l for l in resp["log"] if True]}


def silent_filter(obs, relspec):
    """the model logs a call to an unregistered guard; the real default_relation is not instrumented"""
    return obs


def run_system(sysd, idx, rng, tier, out):
    types, relspec = build_real(sysd)
    names = sysd["names"]
    tl = [types[i] for i in range(sysd["n"] + 1)]
    try:
        with warnings.catch_warnings():
            warnings.simplefilter("ignore")
            ts = VisionsTypeset(set(tl))
    except Exception as e:  # cyclic systems may have no root
        out["skipped"] += 1
        return
    byname = {str(t): t for t in tl}
    succ = {}
    for t in ts.relation_graph.nodes:
        lst = []
        for s in ts.relation_graph.successors(t):
            lst.append(relspec[(str(t), str(s))])
        succ[str(t)] = lst
        # base graph order = filtered order
        b = [str(s) for s in ts.base_graph.successors(t)]
        if b != [r["dst"] for r in lst if not r["inf"]]:
            out["disagreements"].append({"kind": "base-graph-order", "system": sysd, "node": str(t)})
    root = str(ts.root_node)
    kind = sysd["kind"]
    reqs = []
    cases = []
    for x in range(sysd["m"]):
        for mode in ("infer", "detect"):
            seq = enc(kind, x)
            real = observe((lambda: ts.infer(seq)) if mode == "infer" else (lambda: ts.detect(seq)))
            ref = ref_traverse(succ, root, x, mode == "detect")
            # model logs silent guards too; drop them from the model side using the spec
            reqs.append({"op": "engine", "mode": mode, "root": root, "fuel": 3000, "x": x, "succ": succ,
                         "base": mode == "detect"})
            cases.append({"sys": idx, "mode": mode, "x": x, "real": real, "ref": ref})
            # membership oracle: x in T == contains spec (C01-ish glue; also exercises __contains__)
            # state freshness: a second identical call must see an empty state at its first guard
            real2 = observe((lambda: ts.infer(seq)) if mode == "infer" else (lambda: ts.detect(seq)))
            if canon(real2) != canon(real):
                out["oracle_failures"].append({"property": "C12", "also": ["C10"], "signature": "repeat-call-differs",
                                               "what": "second identical call differs (state or caches leaked)",
                                               "system": sysd, "x": x, "mode": mode, "first": real, "second": real2})
    # the same type system assembled by typeset arithmetic (one type at a time in a random order, as the sum of two halves,
    # with a type removed and added back) must be the same typeset: same relation graph, same answers
    order_ = list(tl[1:])
    rng.shuffle(order_)
    half = len(order_) // 2
    variants = []

    def closed_under_parents(sub):
        return all(i == 0 or types[sysd["parent"][i]] in sub for i in range(sysd["n"] + 1) if types[i] in sub)
    try:
        with warnings.catch_warnings():
            warnings.simplefilter("ignore")
            inc = VisionsTypeset({Generic})
            for t_ in order_:
                inc = inc + t_
            variants.append(("one type at a time", inc))
            A_ = {Generic} | set(order_[:half])
            B_ = {Generic} | set(order_[half:])
            variants.append(("sum of two typesets", VisionsTypeset(A_) + VisionsTypeset(B_)))
            inc2 = VisionsTypeset({Generic})
            for t_ in order_:
                inc2 += t_
            variants.append(("grown in place", inc2))
            if order_:
                variants.append(("removed and added back", (ts - order_[0]) + order_[0]))
    except Exception:  # noqa  (non-parent-closed intermediate results may legitimately raise)
        pass
    eref = sorted((str(a), str(b), bool(d["relationship"].inferential)) for a, b, d in ts.relation_graph.edges(data=True))
    for vname, ts2 in variants:
        if set(ts2.types) != set(ts.types):
            continue
        e2 = sorted((str(a), str(b), bool(d["relationship"].inferential)) for a, b, d in ts2.relation_graph.edges(data=True))
        if e2 != eref:
            out["oracle_failures"].append({"property": "C12", "also": ["C13", "C14", "C15"], "signature": "assembled-typeset-graph-differs",
                                           "what": "user type system %s: relation graph differs from direct construction; missing %s, extra %s"
                                                   % (vname, [e for e in eref if e not in e2][:3], [e for e in e2 if e not in eref][:3]),
                                           "system": sysd})
        if e2 != eref:
            # a datum the directly constructed typeset types through a relation the assembled one lacks
            missing = [(a, b) for a, b, _ in eref if (a, b) not in [(c, d) for c, d, _ in e2]]
            found = False
            for x in range(sysd["m"]):
                seq = enc(kind, x)
                for mode in ("infer", "detect"):
                    r1 = observe((lambda: ts.infer(seq)) if mode == "infer" else (lambda: ts.detect(seq)))
                    r2 = observe((lambda: ts2.infer(seq)) if mode == "infer" else (lambda: ts2.detect(seq)))
                    if "err" in r1 or "err" in r2:
                        continue
                    hops1 = list(zip(r1["path"], r1["path"][1:]))
                    if any(h in missing for h in hops1) and r1["path"] != r2["path"]:
                        out["oracle_failures"].append({"property": "C12", "also": ["C13", "C15"], "signature": "assembled-typeset-answers-differently",
                                                       "what": "user type system %s: %s gives path %s / data %s; the directly constructed typeset follows the declared relation "
                                                               "%s and gives %s / %s" % (vname, mode, r2["path"], r2["x"], [h for h in hops1 if h in missing][0], r1["path"], r1["x"]),
                                                       "system": sysd, "x": x, "mode": mode})
                        found = True
                        break
                if found:
                    break
    # frames and sampling for Series dispatch
    if kind == "series":
        ncols = rng.randint(0, 4)
        cols = [(rng.choice(["a", "b", "c", "d", "e", "f"]) + str(j), rng.randrange(sysd["m"])) for j in range(ncols)]
        df = pd.DataFrame({l: [x] * 3 for l, x in cols}, index=["r0", "r1", "r2"])
        for mode in ("infer", "detect"):
            del LOG[:]
            try:
                fdata, fpaths, fstates = (ts.infer(df) if mode == "infer" else ts.detect(df))
                real = {"cols": [{"label": l, "res": {"x": dec(fdata[l]) if len(fdata[l]) else None,
                                                    "path": [str(t) for t in fpaths[l]],
                                                    "state": [[k, v] for k, v in fstates[l].items()]}}
                                 for l in fdata.columns],
                        "keys": [list(fpaths.keys()), list(fstates.keys())],
                        "index": list(fdata.index)}
            except RecursionError:
                real = {"err": "RecursionError"}
            except Exception as e:
                real = {"err": type(e).__name__}
            reqs.append({"op": "engine", "mode": "frame", "root": root, "fuel": 3000, "succ": succ,
                         "base": mode == "detect", "cols": [[x, l] for l, x in cols]})
            # per-column oracle (C08): each column equals the single-Series call
            per = []
            for l, x in cols:
                per.append({"label": l, "res": ref_traverse(succ, root, x, mode == "detect")})
            cases.append({"sys": idx, "mode": "frame-" + mode, "cols": cols, "real": real, "ref_cols": per})
        # sampled traversal
        nrows = rng.choice([120, 500, 999, 1000, 1001, 1500])
        for x in range(sysd["m"]):
            sx = rng.randrange(sysd["m"])
            k = rng.choice([1, 5, 10, nrows - 1, nrows, nrows + 1])
            full = enc("series", x, nrows)
            orig = pd.Series.sample

            def fake_sample(self, n=None, *a, **kw):
                return enc("series", sx, int(n))

            pd.Series.sample = fake_sample
            try:
                st0 = {} if rng.random() < 0.5 else None
                if st0 is None:
                    real = observe(lambda: traverse_graph_with_sampled_series(ts.root_node, full, ts.relation_graph, k))
                else:
                    real = observe(lambda: traverse_graph_with_sampled_series(ts.root_node, full, ts.relation_graph, k, st0))
            finally:
                pd.Series.sample = orig
            reqs.append({"op": "engine", "mode": "sampled", "root": root, "fuel": 3000, "x": x, "succ": succ,
                         "base": False, "len": [[x, nrows]], "sample": [[x, sx]], "sampleSize": k, "state0": []})
            cases.append({"sys": idx, "mode": "sampled", "x": x, "sx": sx, "k": k, "nrows": nrows, "real": real,
                          "succ": succ})
    out["requests"].extend(reqs)
    out["cases"].extend(cases)
    out["systems"].append(sysd)


def drop_silent(log, succ):
    silent = set()
    for n, lst in succ.items():
        for r in lst:
            if r["guard"].get("silent"):
                silent.add((r["src"], r["dst"]))
    return [l for l in log if not (l[0] == "g" and (l[1], l[2]) in silent)]


def c18_oracle(case):
    """direct oracle for C18 on the real result: replay the reported path on the *full* datum with the spec"""
    real = case["real"]
    if "err" in real:
        return None
    succ = case["succ"]
    if case["nrows"] < 1000 or case["k"] > case["nrows"]:
        # small input: must equal the full traversal (reference semantics on the full datum)
        ref = ref_traverse(succ, real["path"][0], case["x"], False)
        if "err" in ref:
            return None
        if ref["path"] != real["path"] or ref["x"] != real["x"]:
            return "series of %d rows with sample_size %d: sampled traversal %s / %s differs from full traversal %s / %s" % (
                case["nrows"], case["k"], real["path"], real["x"], ref["path"], ref["x"])
        return None
    x = case["x"]
    state = {}
    path = real["path"]
    # guards see whatever state the sample walk left; verdicts that depend on state are skipped (accIf empty only)
    for a, b in zip(path, path[1:]):
        r = next((r for r in succ.get(a, []) if r["dst"] == b), None)
        if r is None:
            return "reported hop %s->%s is not a relation" % (a, b)
        g = r["guard"]
        if g.get("accIf"):
            return None
        if x not in g["acc"]:
            return "reported %s although the full data fails %s->%s" % (b, a, b)
        mp = {p: q for p, q in r["xform"].get("map", [])}
        x = mp.get(x, x)
    if x != real["x"]:
        return "returned data %s is not the input pushed through the reported path (%s)" % (real["x"], x)
    return None


def subclass_scenarios(out):
    """a user type written as a SUBCLASS of another user type (or of a shipped type), with relations of its own: its relations
    are its own whether or not the parent's relations were read before (C12: any user-defined types written as classes; C10:
    no dependence on earlier calls)"""
    for read_parent_first in (False, True):
        for style in ("class", "create_type"):
            if style == "class":
                A = type("SA", (VisionsBaseType,), {"get_relations": staticmethod(lambda: [IdentityRelation(Generic)]),
                                                    "contains_op": staticmethod(lambda s_, st: all(isinstance(v, int) for v in s_))})
            else:
                A = create_type("SA", contains=lambda s_, st: all(isinstance(v, int) for v in s_), identity=Generic)
            if read_parent_first:
                _ = A.relations
            B = type("SB", (A,), {"get_relations": staticmethod(lambda A=A: [IdentityRelation(A)]),
                                  "contains_op": staticmethod(lambda s_, st: all(isinstance(v, int) and v > 0 for v in s_))})
            rel = [(str(r.related_type), str(r.type)) for r in B.relations]
            res = observe(lambda: VisionsTypeset({Generic, A, B}).detect([1, 2, 3]))
            path = res.get("path") if isinstance(res, dict) else None
            if rel != [("SA", "SB")] or path != ["Generic", "SA", "SB"]:
                for prop, also in (("C12", ["C10"]),):
                    out["oracle_failures"].append({"property": prop, "also": also, "signature": "subclass-relations",
                                                   "what": "class SB(SA) declares IdentityRelation(SA)%s: SB.relations = %s, detect([1, 2, 3]) under {Generic, SA, SB} gives %s "
                                                           "(expected SA->SB and the path Generic, SA, SB)"
                                                           % (" after SA.relations had been read" if read_parent_first else "", rel, path or res),
                                                   "system": {"style": style, "read_parent_first": read_parent_first}})


def run(tier, seed):
    rng = rng_for(seed, "engine")
    nsys = 250 if tier == "quick" else 4000
    out = {"requests": [], "cases": [], "systems": [], "disagreements": [], "oracle_failures": [], "skipped": 0}
    for i in range(nsys):
        sysd = gen_system(rng, tier)
        try:
            run_system(sysd, i, rng, tier, out)
        except RecursionError:
            out["skipped"] += 1
    subclass_scenarios(out)
    resps = Driver().batch(out["requests"])
    dist = {"modes": {}, "errors": {}, "pathlen": {}, "kinds": {}, "styles": {}}
    nontrivial = set()
    samples = []
    for case, req, resp in zip(out["cases"], out["requests"], resps):
        mode = case["mode"]
        dist["modes"][mode] = dist["modes"].get(mode, 0) + 1
        real = case["real"]
        if mode.startswith("frame"):
            if "err" in resp or "err" in real:
                model = {"err": resp.get("err")}
                rl = {"err": real.get("err")}
                if canon(model) != canon(rl):
                    out["disagreements"].append({"kind": "frame-error", "case": case, "model": resp})
                continue
            mcols = [{"label": c["label"], "res": {k: c["res"][k] for k in ("x", "path", "state")}} for c in resp["cols"]]
            if canon(mcols) != canon(real["cols"]):
                out["disagreements"].append({"kind": "frame", "case": case, "model": mcols})
            labels = [l for l, _ in case["cols"]]
            if real["keys"] != [labels, labels] or [c["label"] for c in real["cols"]] != labels or \
                    real["index"] != ["r0", "r1", "r2"]:
                out["oracle_failures"].append({"property": "C08", "signature": "frame-labels-order-index",
                                               "what": "labels/order/index of frame result differ from input", "case": case})
            for rc, pc in zip(real["cols"], case["ref_cols"]):
                if "err" in pc["res"]:
                    continue
                want = {k: pc["res"][k] for k in ("x", "path", "state")}
                if canon(rc["res"]) != canon(want):
                    out["oracle_failures"].append({"property": "C08", "also": ["C12"], "signature": "column-not-independent",
                                                   "what": "column result differs from the single-Series result",
                                                   "label": rc["label"], "got": rc["res"], "want": want,
                                                   "system": out["systems"][-1] if False else None, "case": case})
            if len(case["cols"]) >= 1:
                nontrivial.add(canon([mode, case["cols"], real["cols"]]))
            continue
        model = strip_model(resp)
        if "log" in model:
            model["log"] = drop_silent(model["log"], req["succ"])
        if canon(model) != canon(real):
            out["disagreements"].append({"kind": "engine-" + mode, "case": {k: v for k, v in case.items() if k != "succ"},
                                         "succ": req["succ"], "model": model})
        if mode in ("infer", "detect"):
            ref = dict(case["ref"])
            if "log" in ref:
                ref["log"] = drop_silent(ref["log"], req["succ"])
            if canon(ref) != canon(real):
                out["oracle_failures"].append({"property": "C12", "signature": "differs-from-reference-semantics",
                                               "what": "real %s differs from the documented traversal" % mode,
                                               "x": case["x"], "mode": mode, "real": real, "reference": ref,
                                               "succ": req["succ"]})
        if mode == "sampled":
            msg = c18_oracle(case)
            if msg:
                out["oracle_failures"].append({"property": "C18", "signature": "sampled-unsound", "what": msg,
                                               "case": {k: v for k, v in case.items() if k != "succ"}, "succ": case["succ"]})
        if "err" in real:
            dist["errors"][real["err"]] = dist["errors"].get(real["err"], 0) + 1
            nontrivial.add(canon([mode, real["err"], req["succ"], case.get("x")]))
        else:
            pl = len(real["path"])
            dist["pathlen"][pl] = dist["pathlen"].get(pl, 0) + 1
            if pl >= 2 or real["state"]:
                nontrivial.add(canon([mode, req["succ"], case.get("x"), case.get("sx"), case.get("k")]))
        if len(samples) < 3 and mode == "infer" and "err" not in real and len(real["path"]) >= 3:
            samples.append({"succ": req["succ"], "x": case["x"], "result": real})
    for s in out["systems"]:
        dist["kinds"][s["kind"]] = dist["kinds"].get(s["kind"], 0) + 1
        for st in s["style"].values():
            dist["styles"][st] = dist["styles"].get(st, 0) + 1
    return {"runner": "engine", "evaluations": len(out["cases"]), "distinct_nontrivial": len(nontrivial),
            "rule": "random type systems (1..12 types, universe 2..6, class/declarative, 5 dispatch classes, state "
                    "reading/writing guards, raising guards, unregistered relations); every universe element x "
                    "{infer,detect}, frames, sampled; non-trivial = distinct (system, input) whose path has >=2 nodes, "
                    "writes state or raises",
            "samples": samples, "disagreements": out["disagreements"], "oracle_failures": out["oracle_failures"],
            "distribution": dist, "systems": len(out["systems"]), "skipped": out["skipped"]}


if __name__ == "__main__":
    r = run(sys.argv[1] if len(sys.argv) > 1 else "quick", int(sys.argv[2]) if len(sys.argv) > 2 else 0)
    print(json.dumps({k: v for k, v in r.items() if k not in ("disagreements", "oracle_failures", "samples")}, indent=1))
    print("disagreements", len(r["disagreements"]), "oracle_failures", len(r["oracle_failures"]))
    for d in r["disagreements"][:3]:
        print(json.dumps(d, default=str)[:3000])
    for d in r["oracle_failures"][:3]:
        print(json.dumps(d, default=str)[:3000])

"""Shared plumbing for the verification harness: paths, Lean driver client, build/audit helpers,
known findings, evidence writing, deterministic PRNG."""
import fcntl
import hashlib
import json
import os
import random
import re
import subprocess
import sys
import time

HERE = os.path.dirname(os.path.abspath(__file__))
VERIF = os.path.normpath(os.path.join(HERE, ".."))
LEAN = os.path.join(VERIF, "lean")
REPO = os.environ.get("VERIF_REPO", "/repo")
WORK = os.path.join(VERIF, ".work")
REPLAYS = os.path.join(VERIF, "replays")
EVIDENCE = os.path.join(VERIF, "evidence")
PY = "/venv/bin/python"
ALLOWED_AXIOMS = {"propext", "Classical.choice", "Quot.sound"}


def ensure_dirs():
    for d in (WORK, REPLAYS, EVIDENCE):
        os.makedirs(d, exist_ok=True)


class Lock:
    """flock-serialise translate + lake build between concurrently running checks"""

    def __init__(self, name="build.lock"):
        ensure_dirs()
        self.path = os.path.join(WORK, name)

    def __enter__(self):
        self.f = open(self.path, "w")
        fcntl.flock(self.f, fcntl.LOCK_EX)
        return self

    def __exit__(self, *a):
        fcntl.flock(self.f, fcntl.LOCK_UN)
        self.f.close()


def rng_for(seed, *salt):
    h = hashlib.sha256(("%d|" % seed + "|".join(map(str, salt))).encode()).digest()
    return random.Random(int.from_bytes(h[:8], "big"))


def run(cmd, cwd=None, timeout=None, env=None):
    t0 = time.time()
    p = subprocess.run(cmd, cwd=cwd, shell=isinstance(cmd, str), stdout=subprocess.PIPE, stderr=subprocess.STDOUT,
                       text=True, timeout=timeout, env=env)
    return p.returncode, p.stdout, time.time() - t0


# ------------------------------------------------------------------ translate / build / audit

def translate():
    rc, out, dt = run([PY, os.path.join(HERE, "translate.py")], timeout=300)
    return rc, out


def lake_build(targets, timeout=3000):
    rc, out, dt = run(["lake", "build"] + list(targets), cwd=LEAN, timeout=timeout)
    return rc, out


def strip_lean_comments(src):
    # remove block comments (nested) and line comments
    out = []
    i = 0
    depth = 0
    n = len(src)
    while i < n:
        if src.startswith("/-", i):
            depth += 1
            i += 2
        elif depth > 0 and src.startswith("-/", i):
            depth -= 1
            i += 2
        elif depth > 0:
            i += 1
        elif src.startswith("--", i):
            while i < n and src[i] != "\n":
                i += 1
        else:
            out.append(src[i])
            i += 1
    return "".join(out)


FORBIDDEN = re.compile(r"\b(sorry|admit|native_decide|bv_decide|implemented_by|unsafe)\b|^\s*axiom\s|maxHeartbeats\s+0\b",
                       re.M)


def source_scan():
    """no sorry/admit/axiom/native_decide/... outside comments in any model or proof file"""
    bad = []
    for root in ("VModel", "VProofs"):
        for dp, dn, fn in os.walk(os.path.join(LEAN, root)):
            for f in fn:
                if f.endswith(".lean"):
                    p = os.path.join(dp, f)
                    txt = strip_lean_comments(open(p).read())
                    for m in FORBIDDEN.finditer(txt):
                        bad.append((os.path.relpath(p, LEAN), m.group(0).strip()))
    for f in ("Driver.lean",):
        txt = strip_lean_comments(open(os.path.join(LEAN, f)).read())
        for m in re.finditer(r"\b(sorry|admit|native_decide|implemented_by|unsafe)\b", txt):
            bad.append((f, m.group(0)))
    return bad


def audit(modules, theorems):
    """`#print axioms` for every required theorem; returns (ok, details{thm: axioms|None}, raw)"""
    ensure_dirs()
    path = os.path.join(WORK, "Audit_%d.lean" % os.getpid())
    with open(path, "w") as f:
        for m in modules:
            f.write("import %s\n" % m)
        for t in theorems:
            f.write("#print axioms %s\n" % t)
    rc, out, dt = run(["lake", "env", "lean", path], cwd=LEAN, timeout=1800)
    os.unlink(path)
    details = {}
    # parse: "'V.C12.C12_sound' depends on axioms: [propext, Quot.sound]" / "does not depend on any axioms"
    cur = None
    text = out.replace("\n ", " ")
    for m in re.finditer(r"'([^']+)' (depends on axioms: \[([^\]]*)\]|does not depend on any axioms)", text):
        name = m.group(1)
        axs = [a.strip() for a in (m.group(3) or "").replace("\n", " ").split(",") if a.strip()]
        details[name] = axs
    ok = rc == 0
    for t in theorems:
        if t not in details:
            ok = False
            details[t] = None
        elif not set(details[t]) <= ALLOWED_AXIOMS:
            ok = False
    return ok, details, out


# ------------------------------------------------------------------ driver

class Driver:
    """Batch client for the Lean line-protocol driver."""

    def __init__(self):
        self.exe = os.path.join(LEAN, ".lake", "build", "bin", "vdriver")

    def batch(self, requests, timeout=3000):
        if not requests:
            return []
        data = "\n".join(json.dumps(r, separators=(",", ":")) for r in requests) + "\n"
        if os.path.exists(self.exe):
            cmd = [self.exe]
        else:
            cmd = ["lake", "env", "lean", "--run", "Driver.lean"]
        p = subprocess.run(cmd, cwd=LEAN, input=data, stdout=subprocess.PIPE, stderr=subprocess.PIPE, text=True,
                           timeout=timeout)
        lines = [l for l in p.stdout.split("\n") if l.strip()]
        if p.returncode != 0 or len(lines) != len(requests):
            raise RuntimeError("driver failed rc=%s got %d/%d lines: %s" % (p.returncode, len(lines), len(requests),
                                                                            p.stderr[-2000:]))
        return [json.loads(l) for l in lines]


# ------------------------------------------------------------------ known findings, replays, evidence

def load_known():
    p = os.path.join(VERIF, "known_findings.json")
    if not os.path.exists(p):
        return []
    return json.load(open(p)).get("findings", [])


def write_replay(prop, kind, payload):
    ensure_dirs()
    blob = json.dumps(payload, sort_keys=True, default=str)
    h = hashlib.sha256(blob.encode()).hexdigest()[:12]
    name = "%s-%s-%s.json" % (prop, kind, h)
    path = os.path.join(REPLAYS, name)
    with open(path, "w") as f:
        json.dump(payload, f, indent=1, sort_keys=True, default=str)
    return os.path.relpath(path, VERIF)


def write_evidence(prop, tier, seed, coverage, assumptions, wall, violations):
    ensure_dirs()
    ev = {
        "property_id": prop,
        "tier": tier,
        "seed": int(seed),
        "level": "proof",
        "coverage": coverage,
        "assumptions": assumptions,
        "wall_s": round(wall, 2),
        "violations": int(violations),
    }
    with open(os.path.join(EVIDENCE, prop + ".json"), "w") as f:
        json.dump(ev, f, indent=1, default=str)
    return ev


def canon(obj):
    return json.dumps(obj, sort_keys=True, default=str)

#!/venv/bin/python
"""Translator: regenerate the declarative part of the Lean model from /repo's *current* working tree.

Writes /verif/lean/VModel/Generated/{Relations,Typesets,BoolMap,SparkTable,PandasDtypes,NumpyDtypes}.lean.
Files are only rewritten when their content changes (keeps `lake build` incremental).

What is read and how (see DESIGN.md §3.1):
  Relations   - `T.get_relations()` of every type exported by `visions.types` (introspection of the imported
                working tree), cross-checked against an `ast` walk of `src/visions/types/*.py`.
  Typesets    - the `types` of StandardSet / GeometrySet / CompleteSet, introspection + AST cross-check.
  BoolMap     - `get_boolean_coercions("en")` (the list of maps the pandas backend uses).
  SparkTable  - `ast` of `backends/spark/types/*.py`, restricted to the modules imported by its `__init__`,
                closed under `issubclass` over the concrete classes of `pyspark.sql.types`.
  PandasDtypes- the value of every `pandas.api.types` predicate the backends call on representative dtypes
                of each dtype family of the model (installed pandas).
Exit status 0 on success; 3 when the source can no longer be translated (reported by vcheck as
`model-does-not-build`), with a message on stderr.
"""
import ast
import glob
import json
import os
import sys
import warnings

warnings.simplefilter("ignore")
REPO = os.environ.get("VERIF_REPO", "/repo")
SRC = os.path.join(REPO, "src", "visions")
OUT = os.path.join(os.path.dirname(os.path.abspath(__file__)), "..", "lean", "VModel", "Generated")
OUT = os.path.normpath(OUT)


class TranslateError(Exception):
    pass


def write_if_changed(name, text):
    os.makedirs(OUT, exist_ok=True)
    p = os.path.join(OUT, name)
    old = None
    if os.path.exists(p):
        with open(p) as f:
            old = f.read()
    if old != text:
        with open(p, "w") as f:
            f.write(text)
        return True
    return False


def lean_ident(name):
    s = "".join(ch if (ch.isalnum() or ch == "_") else "_" for ch in name)
    if not s or not (s[0].isalpha() or s[0] == "_"):
        s = "T_" + s
    return s


def lean_str(s):
    return '"' + s.replace("\\", "\\\\").replace('"', '\\"') + '"'


# --------------------------------------------------------------------------- relations

def ast_relations():
    """type name -> [(related name, inferential)] by reading get_relations bodies."""
    res = {}
    tdir = os.path.join(SRC, "types")
    for fn in sorted(os.listdir(tdir)):
        if not fn.endswith(".py") or fn in ("__init__.py", "type.py"):
            continue
        tree = ast.parse(open(os.path.join(tdir, fn)).read())
        for cls in [n for n in tree.body if isinstance(n, ast.ClassDef)]:
            for fnode in [n for n in cls.body if isinstance(n, ast.FunctionDef) and n.name == "get_relations"]:
                rels = []
                for call in ast.walk(fnode):
                    if isinstance(call, ast.Call) and isinstance(call.func, ast.Name) and call.func.id in (
                        "IdentityRelation",
                        "InferenceRelation",
                    ):
                        tgt = None
                        if call.args and isinstance(call.args[0], ast.Name):
                            tgt = call.args[0].id
                        for kw in call.keywords:
                            if kw.arg == "related_type" and isinstance(kw.value, ast.Name):
                                tgt = kw.value.id
                        rels.append((tgt, call.func.id == "InferenceRelation", call.lineno, call.col_offset))
                rels.sort(key=lambda r: (r[2], r[3]))
                res[cls.name] = [(r[0], r[1]) for r in rels]
    return res


def gen_relations():
    import visions
    import visions.types as vt
    from visions.types.generic import Generic
    from visions.types.type import VisionsBaseType

    names = [n for n in vt.__all__ if n != "VisionsBaseType"]
    types = []
    for n in names:
        t = getattr(vt, n)
        if not (isinstance(t, type) and issubclass(t, VisionsBaseType)):
            raise TranslateError(f"visions.types.{n} is not a VisionsBaseType")
        if str(t) != n:
            raise TranslateError(f"type {n} prints as {t}")
        types.append(t)
    if len(set(names)) != len(names):
        raise TranslateError("duplicate type names")
    by = {t: n for t, n in zip(types, names)}
    declared = {}
    for t in types:
        rels = []
        raw = list(t.get_relations())
        evolved = list(t.relations)
        if len(raw) != len(evolved):
            raise TranslateError(f"{t}: relations manager disagrees with get_relations")
        for r, e in zip(raw, evolved):
            if r.related_type not in by:
                raise TranslateError(f"{t} declares a relation from non-exported type {r.related_type}")
            if e.type is not t or e.related_type is not r.related_type or e.inferential != r.inferential:
                raise TranslateError(f"{t}: evolved relation differs from declared one")
            rels.append((by[r.related_type], bool(r.inferential)))
        declared[by[t]] = rels
    a = ast_relations()
    for n in names:
        if n not in a:
            raise TranslateError(f"type {n} not found by the AST walk of types/*.py")
        if a[n] != declared[n]:
            raise TranslateError(f"type {n}: AST relations {a[n]} != introspected {declared[n]} (dynamic relation?)")
    # rank: longest relation path from a source-less type (checked in Lean by `decide`)
    rank = {}

    def rk(n, stack=()):
        if n in rank:
            return rank[n]
        if n in stack:
            raise TranslateError(f"relation cycle through {n}")
        r = 0
        for (s, _) in declared[n]:
            r = max(r, rk(s, stack + (n,)) + 1)
        rank[n] = r
        return r

    for n in names:
        rk(n)
    idn = {n: lean_ident(n) for n in names}
    if len(set(idn.values())) != len(names):
        raise TranslateError("type names collide after sanitising")
    L = []
    L.append("/- GENERATED by harness/translate.py from /repo's working tree. Do not edit. -/")
    L.append("import VModel.Graph")
    L.append("namespace V.Gen")
    L.append("")
    L.append("/-- One constructor per type exported by `visions.types`. -/")
    L.append("inductive Ty where")
    for n in names:
        L.append(f"  | {idn[n]}")
    L.append("  deriving DecidableEq, Repr, Inhabited")
    L.append("")
    L.append("def Ty.all : List Ty := [" + ", ".join(f".{idn[n]}" for n in names) + "]")
    L.append("")
    L.append("def Ty.name : Ty → _root_.String")
    for n in names:
        L.append(f"  | .{idn[n]} => {lean_str(n)}")
    L.append("")
    L.append("def Ty.ofName? (s : _root_.String) : Option Ty := Ty.all.find? (fun t => t.name == s)")
    L.append("")
    L.append("/-- `T.get_relations()` in declaration order. -/")
    L.append("def declared : Ty → List (RelDecl Ty)")
    for n in names:
        body = ", ".join(f"⟨.{idn[s]}, {'true' if inf else 'false'}⟩" for (s, inf) in declared[n])
        L.append(f"  | .{idn[n]} => [{body}]")
    L.append("")
    L.append("/-- `issubclass(T, Generic)` -/")
    L.append("def isGeneric : Ty → Bool")
    for n, t in zip(names, types):
        L.append(f"  | .{idn[n]} => {'true' if issubclass(t, Generic) else 'false'}")
    L.append("")
    L.append("/-- Longest relation path into the type (computed by the translator, *checked* in VProofs). -/")
    L.append("def rank : Ty → Nat")
    for n in names:
        L.append(f"  | .{idn[n]} => {rank[n]}")
    L.append("")
    L.append("/-- position of `str(T)` in `sorted(str(t) for t in types)` (Python string order) -/")
    L.append("def nameRank : Ty → Nat")
    srt = sorted(names)
    for n in names:
        L.append(f"  | .{idn[n]} => {srt.index(n)}")
    L.append(f"def nameWidth : Nat := {len(names)}")
    L.append("")
    L.append("end V.Gen")
    return "\n".join(L) + "\n", names, idn, declared


# --------------------------------------------------------------------------- typesets

def ast_typeset(fn, clsname):
    tree = ast.parse(open(os.path.join(SRC, "typesets", fn)).read())
    for cls in [n for n in tree.body if isinstance(n, ast.ClassDef) and n.name == clsname]:
        for node in ast.walk(cls):
            if isinstance(node, ast.Assign) and isinstance(node.value, ast.Set):
                return sorted(e.id for e in node.value.elts if isinstance(e, ast.Name))
    return None


def gen_typesets(names, idn):
    from visions.typesets import CompleteSet, GeometrySet, StandardSet

    L = ["/- GENERATED by harness/translate.py from /repo's working tree. Do not edit. -/",
         "import VModel.Generated.Relations", "namespace V.Gen", ""]
    out = {}
    for cls, fn, lname in ((StandardSet, "standard_set.py", "standardSet"),
                           (GeometrySet, "geometry_set.py", "geometrySet"),
                           (CompleteSet, "complete_set.py", "completeSet")):
        with warnings.catch_warnings():
            warnings.simplefilter("ignore")
            ts = cls()
        tn = sorted(str(t) for t in ts.types)
        for t in tn:
            if t not in idn:
                raise TranslateError(f"{cls.__name__} contains non-exported type {t}")
        a = ast_typeset(fn, cls.__name__)
        if a is not None and a != tn:
            raise TranslateError(f"{cls.__name__}: AST types {a} != instance types {tn}")
        out[lname] = tn
        L.append(f"def {lname} : List Ty := [" + ", ".join(f".{idn[t]}" for t in tn) + "]")
    L += ["", "end V.Gen"]
    return "\n".join(L) + "\n", out


# --------------------------------------------------------------------------- bool map

def gen_boolmap():
    from visions.backends.python.types.boolean import get_boolean_coercions

    maps = get_boolean_coercions("en")
    L = ["/- GENERATED by harness/translate.py from /repo's working tree. Do not edit. -/",
         "namespace V.Gen", "",
         "/-- `get_boolean_coercions(\"en\")`: the list of single maps used by the pandas backend. -/",
         "def boolMaps : List (List (String × Bool)) := ["]
    rows = []
    for m in maps:
        for k, v in m.items():
            if not isinstance(k, str) or not isinstance(v, bool):
                raise TranslateError("boolean coercion map is not str -> bool")
        rows.append("  [" + ", ".join(f"({lean_str(k)}, {'true' if v else 'false'})" for k, v in m.items()) + "]")
    L.append(",\n".join(rows))
    L += ["]", "", "end V.Gen"]
    return "\n".join(L) + "\n", maps


# --------------------------------------------------------------------------- spark

def gen_spark(names, idn):
    """Per visions type: which concrete pyspark DataType classes its Spark `contains_op` accepts."""
    sdir = os.path.join(SRC, "backends", "spark", "types")
    init = ast.parse(open(os.path.join(sdir, "__init__.py")).read())
    imported = []
    for n in ast.walk(init):
        if isinstance(n, ast.Import):
            for a in n.names:
                if a.name.startswith("visions.backends.spark.types."):
                    imported.append(a.name.rsplit(".", 1)[1])
        elif isinstance(n, ast.ImportFrom) and n.module and n.module.startswith("visions.backends.spark.types"):
            for a in n.names:
                imported.append(a.name)
    try:
        import pyspark.sql.types as pt
    except Exception as e:  # pragma: no cover
        raise TranslateError(f"pyspark not importable: {e}")
    import inspect

    concrete = sorted(
        n for n, c in inspect.getmembers(pt, inspect.isclass)
        if issubclass(c, pt.DataType) and c.__module__ == "pyspark.sql.types"
        and n not in ("DataType", "AtomicType", "NumericType", "IntegralType", "FractionalType",
                      "UserDefinedType", "StructField", "DatetimeType", "AnyTimeType", "SpatialType",
                      "AnsiIntervalType")
    )
    accept = {}      # visions type -> list of accepted class names (as written) | "const:False"
    schema_only = {}
    for mod in imported:
        fn = os.path.join(sdir, mod + ".py")
        if not os.path.exists(fn):
            raise TranslateError(f"spark types module {mod} imported but missing")
        tree = ast.parse(open(fn).read())
        for f in [n for n in tree.body if isinstance(n, ast.FunctionDef)]:
            vt = None
            for d in f.decorator_list:
                # @X.contains_op.register
                if (isinstance(d, ast.Attribute) and d.attr == "register" and isinstance(d.value, ast.Attribute)
                        and d.value.attr == "contains_op" and isinstance(d.value.value, ast.Name)):
                    vt = d.value.value.id
            if vt is None:
                continue
            seqname = f.args.args[0].arg
            # which classes are accepted: the isinstance call on the dtype
            classes = None
            const = None
            only_schema = True
            for node in ast.walk(f):
                if isinstance(node, ast.Call) and isinstance(node.func, ast.Name) and node.func.id == "isinstance":
                    a1 = node.args[1]
                    if isinstance(a1, ast.Tuple):
                        classes = [e.id for e in a1.elts]
                    elif isinstance(a1, ast.Name):
                        classes = [a1.id]
                if isinstance(node, ast.Return) and isinstance(node.value, ast.Constant):
                    if node.value.value is False and classes is None:
                        const = False
                if isinstance(node, ast.Attribute) and isinstance(node.value, ast.Name) and node.value.id == seqname:
                    if node.attr != "schema":
                        only_schema = False
                if isinstance(node, ast.Call) and isinstance(node.func, ast.Attribute) and \
                        isinstance(node.func.value, ast.Name) and node.func.value.id == seqname:
                    only_schema = False   # a method call on the DataFrame (count, collect, ...)
            # the expected shape: `if len(seq.schema) != 1: return False; dtype = seq.schema[0].dataType; return isinstance(dtype, …)`
            if classes is None and const is None:
                raise TranslateError(f"spark {mod}.{f.name}: cannot read the accepted classes")
            accept[vt] = classes if classes is not None else []
            schema_only[vt] = only_schema
    L = ["/- GENERATED by harness/translate.py from /repo's working tree. Do not edit. -/",
         "import VModel.Generated.Relations", "namespace V.Gen", "",
         "/-- Concrete `pyspark.sql.types` data type classes (installed pyspark). -/",
         "inductive SparkTy where"]
    for c in concrete:
        L.append(f"  | {c}")
    L.append("  deriving DecidableEq, Repr, Inhabited")
    L.append("")
    L.append("def SparkTy.all : List SparkTy := [" + ", ".join("." + c for c in concrete) + "]")
    L.append("def SparkTy.name : SparkTy → _root_.String")
    for c in concrete:
        L.append(f"  | .{c} => {lean_str(c)}")
    L.append("def SparkTy.ofName? (s : _root_.String) : Option SparkTy := SparkTy.all.find? (fun t => t.name == s)")
    L.append("")
    L.append("/-- For each visions type with a Spark `contains_op` registered *and imported*: the concrete")
    L.append("Spark classes it accepts (isinstance closure).  Types without an entry fall back to the")
    L.append("base `contains_op` (`pass` → falsy), `Generic` to `True`. -/")
    L.append("def sparkAccepts : Ty → Option (List SparkTy)")
    for vt in names:
        if vt in accept:
            acc = []
            for c in concrete:
                cc = getattr(pt, c)
                if any(issubclass(cc, getattr(pt, a)) for a in accept[vt]):
                    acc.append(c)
            L.append(f"  | .{idn[vt]} => some [" + ", ".join("." + c for c in acc) + "]")
    if len(accept) < len(names):
        L.append("  | _ => none")
    L.append("")
    L.append("/-- Does every registered Spark predicate read nothing but `.schema` of its argument? (AST) -/")
    L.append("def sparkSchemaOnly : Bool := " + ("true" if all(schema_only.values()) else "false"))
    L += ["", "end V.Gen"]
    return "\n".join(L) + "\n", {"imported": imported, "accept": accept, "concrete": concrete}


# --------------------------------------------------------------------------- pandas dtype table

PDT_PREDICATES = [
    "is_bool_dtype", "is_categorical_dtype", "is_complex_dtype", "is_unsigned_integer_dtype",
    "is_datetime64_any_dtype", "is_float_dtype", "is_integer_dtype", "is_numeric_dtype",
    "is_object_dtype", "is_string_dtype", "is_timedelta64_dtype", "is_sparse",
]


def dtype_family_representatives():
    """model dtype family -> list of (label, builder of an *empty-or-not* Series with that dtype).
    Predicates that look at values (is_string_dtype / is_bool_dtype on object) are evaluated on dtype objects
    for non-object families; the object family is handled by the model itself (value dependent)."""
    import numpy as np
    import pandas as pd

    fam = {
        "bool": [np.dtype(bool)],
        "boolean": [pd.BooleanDtype()],
        "int": [np.dtype(t) for t in ("int8", "int16", "int32", "int64")],
        "uint": [np.dtype(t) for t in ("uint8", "uint16", "uint32", "uint64")],
        "Int": [pd.Int8Dtype(), pd.Int16Dtype(), pd.Int32Dtype(), pd.Int64Dtype()],
        "UInt": [pd.UInt8Dtype(), pd.UInt16Dtype(), pd.UInt32Dtype(), pd.UInt64Dtype()],
        "float": [np.dtype(t) for t in ("float16", "float32", "float64")],
        "Float": [pd.Float32Dtype(), pd.Float64Dtype()],
        "complex": [np.dtype(t) for t in ("complex64", "complex128")],
        "datetime": [np.dtype("datetime64[ns]"), np.dtype("datetime64[s]"), np.dtype("datetime64[us]")],
        "datetimetz": [pd.DatetimeTZDtype(tz="UTC"), pd.DatetimeTZDtype(tz="Europe/Amsterdam")],
        "timedelta": [np.dtype("timedelta64[ns]"), np.dtype("timedelta64[s]")],
        "catOther": [pd.CategoricalDtype(), pd.CategoricalDtype([1, 2]), pd.CategoricalDtype([1.5]),
                     pd.CategoricalDtype(["a", 1])],
        "catStr": [pd.CategoricalDtype(["a", "b"]), pd.CategoricalDtype(["x"])],
        "catBool": [pd.CategoricalDtype([True, False]), pd.CategoricalDtype([True])],
        "catOtherOrd": [pd.CategoricalDtype([1, 2], ordered=True), pd.CategoricalDtype([2.5, 1.5], ordered=True)],
        "catStrOrd": [pd.CategoricalDtype(["a", "b"], ordered=True)],
        "catBoolOrd": [pd.CategoricalDtype([True, False], ordered=True)],
        "str": [pd.StringDtype(na_value=np.nan), pd.StringDtype("python", na_value=np.nan)],
        "string": [pd.StringDtype("python")],
        "stringArrow": [pd.StringDtype("pyarrow")],
        "period": [pd.PeriodDtype("D")],
        "interval": [pd.IntervalDtype("int64")],
        "sparseFloat": [pd.SparseDtype("float64"), pd.SparseDtype("float32")],
        "sparseInt": [pd.SparseDtype("int64"), pd.SparseDtype("int32", 0)],
        "sparseBool": [pd.SparseDtype("bool")],
    }
    return fam


def gen_pandas_dtypes():
    import numpy as np
    import pandas as pd
    import pandas.api.types as pdt

    fam = dtype_family_representatives()
    L = ["/- GENERATED by harness/translate.py from the *installed* pandas. Do not edit. -/",
         "namespace V.Gen", "",
         "/-- Non-object, non-sparse dtype families of the pandas model. -/",
         "inductive PdFam where"]
    for k in fam:
        L.append(f"  | {k}")
    L.append("  deriving DecidableEq, Repr, Inhabited")
    L.append("def PdFam.all : List PdFam := [" + ", ".join("." + k for k in fam) + "]")
    L.append("def PdFam.name : PdFam → _root_.String")
    for k in fam:
        L.append(f"  | .{k} => {lean_str(k)}")
    L.append("def PdFam.ofName? (s : _root_.String) : Option PdFam := PdFam.all.find? (fun t => t.name == s)")
    L.append("")
    table = {}
    for pred in PDT_PREDICATES:
        f = getattr(pdt, pred)
        L.append(f"/-- `pandas.api.types.{pred}` on a Series of each family. -/")
        L.append(f"def {pred} : PdFam → Bool")
        for k, reps in fam.items():
            vals = set()
            for d in reps:
                with warnings.catch_warnings():
                    warnings.simplefilter("ignore")
                    s = pd.Series([], dtype=d)
                    vals.add(bool(f(s)))
            if len(vals) != 1:
                raise TranslateError(f"{pred} disagrees within dtype family {k}: the family partition is unsound")
            table[(pred, k)] = vals.pop()
            L.append(f"  | .{k} => {'true' if table[(pred, k)] else 'false'}")
        L.append("")
    L += ["end V.Gen"]
    return "\n".join(L) + "\n", table


# --------------------------------------------------------------------------- numpy dtype table + registrations

NP_CLASSES = [("isBoolDt", "np.bool_"), ("isIntegerDt", "np.integer"), ("isFloatingDt", "np.floating"),
              ("isComplexDt", "np.complexfloating"), ("isStrDt", "np.str_"), ("isObjectDt", "np.object_"),
              ("isDatetimeDt", "np.datetime64"), ("isTimedeltaDt", "np.timedelta64")]


def gen_numpy_dtypes(names, idn):
    """`np.issubdtype(dtype, cls)` of the *installed* numpy for every dtype kind x every class the numpy back end
    tests, on several representatives per kind (they must agree), plus which membership tests and relations the back end
    registers for `np.ndarray` (read off the multimethod registries of the imported working tree)."""
    import numpy as np
    import visions.types as vt

    kinds = {
        "b": [np.dtype(bool)],
        "i": [np.dtype(t) for t in ("int8", "int16", "int32", "int64")],
        "u": [np.dtype(t) for t in ("uint8", "uint16", "uint32", "uint64")],
        "f": [np.dtype(t) for t in ("float16", "float32", "float64", "longdouble")],
        "c": [np.dtype(t) for t in ("complex64", "complex128", "clongdouble")],
        "U": [np.dtype("<U1"), np.dtype("<U24")],
        "S": [np.dtype("S1"), np.dtype("S8")],
        "M": [np.dtype("datetime64[ns]"), np.dtype("datetime64[D]"), np.dtype("datetime64[us]")],
        "m": [np.dtype("timedelta64[ns]"), np.dtype("timedelta64[D]")],
        "O": [np.dtype(object)],
    }
    for k, reps in kinds.items():
        if any(d.kind != k for d in reps):
            raise TranslateError(f"numpy dtype kind {k}: representative with another kind")
    L = ["/- GENERATED by harness/translate.py from the *installed* numpy and the working tree. Do not edit. -/",
         "import VModel.Generated.Relations", "namespace V.Gen", "",
         "/-- `dtype.kind` of a numpy array (structured / void arrays are outside the model). -/",
         "inductive NpKind where"]
    for k in kinds:
        L.append(f"  | {k}")
    L.append("  deriving DecidableEq, Repr, Inhabited")
    L.append("def NpKind.all : List NpKind := [" + ", ".join("." + k for k in kinds) + "]")
    L.append("def NpKind.name : NpKind → _root_.String")
    for k in kinds:
        L.append(f"  | .{k} => {lean_str(k)}")
    L.append("def NpKind.ofName? (s : _root_.String) : Option NpKind := NpKind.all.find? (fun t => t.name == s)")
    L.append("")
    table = {}
    for lname, cls in NP_CLASSES:
        c = eval(cls, {"np": np, "complex": complex})
        L.append(f"/-- `np.issubdtype(dtype, {cls})` for each dtype kind. -/")
        L.append(f"def {lname} : NpKind → Bool")
        for k, reps in kinds.items():
            vals = set(bool(np.issubdtype(d, c)) for d in reps)
            if len(vals) != 1:
                raise TranslateError(f"np.issubdtype(., {cls}) disagrees within dtype kind {k}")
            table[(lname, k)] = vals.pop()
            L.append(f"  | .{k} => {'true' if table[(lname, k)] else 'false'}")
        L.append("")
    # registrations for np.ndarray
    reg_contains, reg_rel = [], []
    for n in names:
        t = getattr(vt, n)
        if any(k[0] is np.ndarray for k in t.contains_op.keys()):
            reg_contains.append(n)
        for r in t.relations:
            if r.inferential:
                g = any(k[0] is np.ndarray for k in r.relationship.keys())
                x = any(k[0] is np.ndarray for k in r.transformer.keys())
                if g != x:
                    raise TranslateError(f"numpy relation {r.related_type}->{n}: test and transformer registered differently")
                if g:
                    reg_rel.append((str(r.related_type), n))
    L.append("/-- types whose membership test is registered for `np.ndarray` -/")
    L.append("def numpyContainsRegistered : List Ty := [" + ", ".join(f".{idn[n]}" for n in reg_contains) + "]")
    L.append("/-- inference relations (source, target) whose test and transformer are registered for `np.ndarray` -/")
    L.append("def numpyRelationsRegistered : List (Ty × Ty) := [" + ", ".join(f"(.{idn[a]}, .{idn[b]})" for a, b in reg_rel) + "]")
    L += ["", "end V.Gen"]
    return "\n".join(L) + "\n", table


# --------------------------------------------------------------------------- shapes of the back-end functions (AST)

def gen_backend_shapes():
    """For every function of the pandas / numpy / python back ends (types/*.py and the decorator / test helper modules):
    its decorators in order (source text) and the exception classes of each of its `except` clauses in order.  The Lean
    model mirrors exactly these wrappers and catch lists by hand; `VProofs/Props/Shapes.lean` proves the generated table
    equal to the table the model was written against, so that adding, dropping or reordering a decorator, or changing
    what a `try` catches, breaks a proof obligation even when no generated input happens to distinguish the two."""
    rows = []
    for backend in ("pandas", "numpy", "python"):
        base = os.path.join(REPO, "src", "visions", "backends", backend)
        files = sorted(glob.glob(os.path.join(base, "types", "*.py"))) + \
            [f for f in (os.path.join(base, n) for n in ("series_utils.py", "array_utils.py", "test_utils.py", "traversal.py")) if os.path.exists(f)]
        for fn in files:
            mod = os.path.relpath(fn, base)[:-3].replace(os.sep, ".")
            tree = ast.parse(open(fn).read())

            def walk(node, prefix):
                for ch in ast.iter_child_nodes(node):
                    if isinstance(ch, (ast.FunctionDef, ast.AsyncFunctionDef)):
                        name = prefix + ch.name
                        decos = [ast.unparse(d) for d in ch.decorator_list]
                        excepts = []
                        for sub in ast.walk(ch):
                            if isinstance(sub, ast.Try):
                                for h in sub.handlers:
                                    if h.type is None:
                                        excepts.append(["<bare>"])
                                    elif isinstance(h.type, ast.Tuple):
                                        excepts.append([ast.unparse(e) for e in h.type.elts])
                                    else:
                                        excepts.append([ast.unparse(h.type)])
                        if mod != "__init__":
                            rows.append((backend, mod + ":" + name, decos, excepts))
                        walk(ch, name + ".")
                    elif isinstance(ch, (ast.ClassDef, ast.If, ast.Try, ast.With, ast.For, ast.While)):
                        walk(ch, prefix)
            walk(tree, "")
    rows = [r for r in rows if r[2] or r[3]]
    L = ["/- GENERATED by harness/translate.py from /repo's working tree (AST). Do not edit. -/",
         "namespace V.Gen", "",
         "/-- (back end, module:function, decorators in order, exception classes of each `except` clause in order) -/",
         "def backendShapes : List (String × String × List String × List (List String)) := ["]
    for i, (b, n, d, e) in enumerate(rows):
        L.append("  (%s, %s, [%s], [%s])%s" % (lean_str(b), lean_str(n), ", ".join(lean_str(x) for x in d),
                                             ", ".join("[" + ", ".join(lean_str(x) for x in cls) + "]" for cls in e),
                                             "," if i + 1 < len(rows) else ""))
    L += ["]", "", "end V.Gen"]
    return "\n".join(L) + "\n", rows


def main():
    sys.path.insert(0, os.path.join(REPO, "src"))
    changed = []
    try:
        rel, names, idn, declared = gen_relations()
        if write_if_changed("Relations.lean", rel):
            changed.append("Relations.lean")
        tsx, ts = gen_typesets(names, idn)
        if write_if_changed("Typesets.lean", tsx):
            changed.append("Typesets.lean")
        bm, maps = gen_boolmap()
        if write_if_changed("BoolMap.lean", bm):
            changed.append("BoolMap.lean")
        sp, spinfo = gen_spark(names, idn)
        if write_if_changed("SparkTable.lean", sp):
            changed.append("SparkTable.lean")
        pdx, table = gen_pandas_dtypes()
        if write_if_changed("PandasDtypes.lean", pdx):
            changed.append("PandasDtypes.lean")
        shx, _ = gen_backend_shapes()
        if write_if_changed("BackendShapes.lean", shx):
            changed.append("BackendShapes.lean")
        npx, _ = gen_numpy_dtypes(names, idn)
        if write_if_changed("NumpyDtypes.lean", npx):
            changed.append("NumpyDtypes.lean")
    except TranslateError as e:
        print(f"translate: cannot translate the current source: {e}", file=sys.stderr)
        return 3
    info = {"types": names, "typesets": ts, "spark_imported": spinfo["imported"], "changed": changed}
    print(json.dumps(info))
    return 0


if __name__ == "__main__":
    sys.exit(main())

"""Per property: the Lean modules and theorems that must check, and the correspondence runners to run."""

T = "V.%s.%s"


def thms(ns, names):
    return ["V.%s.%s" % (ns, n) for n in names]


REG = {
    "C01": {
        "modules": ["VProofs.Props.C01"],
        "theorems": thms("C01", ["C01_detect", "C01_pandas", "C01_pandas_model"]),
        "runners": ["pandas", "engine"],
    },
    "C02": {
        "modules": ["VProofs.Props.C02"],
        "theorems": thms("C02", ["C02_order_indep", "C02_mutex_generic_pandas", "dtype_partition", "contains_dtypePred"]),
        "runners": ["pandas"],
    },
    "C03": {
        "modules": ["VProofs.Props.C03"],
        "theorems": thms("C03", ["C03_infer_sound", "C03_lands_step"]),
        "runners": ["pandas"],
    },
    "C04": {
        "modules": ["VProofs.Props.C04"],
        "theorems": thms("C04", ["C04_fixpoint"]),
        "runners": ["pandas"],
    },
    "C15": {
        "modules": ["VProofs.Props.C15"],
        "theorems": thms("C15", ["C15_detect", "C15_infer"]),
        "runners": ["pandas"],
    },
    "C16": {
        "modules": ["VProofs.Props.C16"],
        "theorems": thms("C16", ["C16_chain", "C16_nested_pandas", "C16_witness_F26", "C16_witness_F27", "on_path_of_contains"]),
        "runners": ["pandas"],
    },
    "C05": {
        "modules": ["VProofs.Props.C05"],
        "theorems": thms("C05", ["C05_detected_is_input", "C05_inferred_is_input_when_no_coercion",
                                 "no_coercion_returns_input"]),
        "runners": ["engine", "mutation"],
        "partial": "in-place mutation and element identity are runtime facts: observed by deep snapshots, not provable",
    },
    "C08": {
        "modules": ["VProofs.Props.C08"],
        "theorems": thms("C08", ["C08_labels", "C08_frame_map", "C08_subframe", "C08_compare", "C08_functional"]),
        "runners": ["engine", "frame"],
    },
    "C12": {
        "modules": ["VProofs.Props.C12"],
        "theorems": thms("C12", ["C12_sound", "C12_complete", "C12_deterministic", "C12_state", "C12_state_detect",
                                 "C12_frame_fresh"]),
        "runners": ["engine"],
    },
    "C13": {
        "modules": ["VProofs.Props.C13"],
        "theorems": thms("C13", ["C13_same_set", "C13_add_types", "C13_sub_types", "C13_comm", "C13_inplace",
                                 "C13_root", "C13_dropped", "C13_type_plus_type", "mem_replaceTypes", "replace_absent",
                                 "add_comm_set", "add_assoc_set", "add_idem_set", "sub_add_set"]),
        "runners": ["graph", "algebra"],
        "partial": "operands are values in the model; that the real operands and type classes are not mutated is observed",
    },
    "C14": {
        "modules": ["VProofs.Props.C14"],
        "theorems": thms("C14", ["tableWF", "C14_wf", "C14_order", "C14_nested", "standard_ok", "geometry_ok",
                                 "complete_ok"]),
        "runners": ["graph"],
    },
    "C17": {
        "modules": ["VProofs.Props.C17"],
        "theorems": thms("C17", ["C17_schema_only", "C17_table", "C17_mapping_standard", "C17_mapping_standard_date",
                                 "C17_mapping_geometry", "C17_mapping_complete", "C17_complete_exact", "C17_mutex",
                                 "C17_identity"]),
        "runners": ["spark"],
        "partial": "'triggers no Spark job' is runtime behaviour: observed through the status tracker, not provable",
    },
    "C18": {
        "modules": ["VProofs.Props.C18"],
        "theorems": thms("C18", ["C18_small", "C18_sound", "C18_lands"]),
        "runners": ["engine", "sampled"],
    },
    "C19": {
        "modules": ["VProofs.Props.C19"],
        "theorems": thms("C19", ["nameRank_is_string_order", "nameRank_inj", "edgeKey_inj", "C19_content", "C19_order"]),
        "runners": ["graph", "export"],
        "partial": "the bytes pydot/graphviz write are outside the model: compared byte-for-byte by the export runner",
    },
    "C20": {
        "modules": ["VProofs.Props.C20"],
        "theorems": thms("C20", ["C20_inv", "C20_bounded", "C20_transparent", "C20_transparent_history",
                                 "C20_miss_only", "C20_lru", "C20_cap_zero"]),
        "runners": ["lru"],
    },
}

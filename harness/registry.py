"""Per property: the Lean modules and theorems that must check, and the correspondence runners to run."""

T = "V.%s.%s"


def thms(ns, names):
    return ["V.%s.%s" % (ns, n) for n in names]


REG = {
    "C01": {
        "modules": ["VProofs.Props.C01", "VProofs.Props.Pandas", "VProofs.Props.PyList", "VProofs.Props.Numpy", "VProofs.Props.Shapes"],
        "theorems": thms("C01", ["C01_detect", "C01_pandas", "C01_pandas_model"]) + ["V.Pd.built_typeset", "V.PandasProps.C01_pandas_built",
                                                                                     "V.PyProps.C01_list", "V.PyProps.C01_list_built", "V.NumpyProps.C01_numpy_built"] + ["V.Shapes.shapes_match"],
        "runners": ["pandas", "engine", "numpy", "list", "algebra", "frame", "api"],
        "relevant": ["contains", "detect"],
    },
    "C02": {
        "modules": ["VProofs.Props.C02", "VProofs.Props.Pandas", "VProofs.Props.Numpy", "VProofs.Props.Shapes"],
        "theorems": thms("C02", ["C02_order_indep", "C02_mutex_generic_pandas", "dtype_partition", "contains_dtypePred",
                                 "C02_mutex_object_pandas", "C02_mutex_string_pandas", "C02_witness_F10"])
                    + ["V.Pd.pandas_WF", "V.Pd.outputs_good", "V.Pd.goodB_sound", "V.PandasProps.C02_pandas",
                       "V.Np.numpy_WF", "V.Np.excl_generic_np", "V.Np.excl_string_np", "V.Np.object_never_boolean", "V.NumpyProps.C02_numpy"] + ["V.Shapes.shapes_match"],
        "runners": ["pandas", "numpy"],
        "relevant": ["contains", "guard", "infer-path", "infer-outcome", "detect-path", "relation-missing"],
    },
    "C03": {
        "modules": ["VProofs.Props.C03", "VProofs.Props.Pandas", "VProofs.Props.Numpy", "VProofs.Props.PyListRel", "VProofs.Props.NumpyTotalProps", "VProofs.Props.Shapes", "VProofs.Props.PyListTotal"],
        "theorems": thms("C03", ["C03_infer_sound", "C03_lands_step", "C03_lands_pandas"])
                    + ["V.Pd.pandas_WF", "V.Pd.outputs_good", "V.Pd.goodB_sound", "V.Pd.built_typeset", "V.PandasProps.C03_pandas", "V.PandasProps.C03_pandas_model",
                       "V.PandasProps.infer_pandas_complete",
                       "V.Np.numpy_WF", "V.Np.lands_closed_np", "V.NumpyProps.C03_numpy", "V.NumpyProps.C03_numpy_model",
                       "V.PyProps.C03_lands_list", "V.NumpyProps.infer_numpy_complete", "V.PyProps.infer_list_complete"] + ["V.Shapes.shapes_match"],
        "runners": ["pandas", "numpy", "list", "frame", "api", "algebra"],
    },
    "C04": {
        "modules": ["VProofs.Props.C04", "VProofs.Props.Pandas", "VProofs.Props.Numpy"],
        "theorems": thms("C04", ["C04_fixpoint"]) + ["V.Pd.pandas_WF", "V.Pd.outputs_good", "V.Pd.goodB_sound", "V.PandasProps.C04_pandas",
                                                     "V.Np.numpy_WF", "V.NumpyProps.C04_numpy"],
        "runners": ["pandas", "numpy", "list", "frame", "api"],
    },
    "C15": {
        "modules": ["VProofs.Props.C15", "VProofs.Props.Pandas", "VProofs.Props.Numpy"],
        "theorems": thms("C15", ["C15_detect", "C15_infer"]) + ["V.Pd.pandas_WF", "V.Pd.outputs_good", "V.Pd.goodB_sound", "V.PandasProps.succ_restrict_perm", "V.PandasProps.C15_pandas",
                                                                "V.Np.numpy_WF", "V.NumpyProps.C15_numpy"],
        "runners": ["pandas", "list", "numpy", "algebra", "api", "spark"],
        "relevant": ["contains", "guard", "infer-path", "infer-outcome", "detect-path", "relation-missing", "spark"],
    },
    "C16": {
        "modules": ["VProofs.Props.C16", "VProofs.Props.Pandas", "VProofs.Props.Numpy", "VProofs.Props.Shapes"],
        "theorems": thms("C16", ["C16_chain", "C16_nested_pandas", "C16_witness_F26", "C16_witness_F27", "on_path_of_contains"])
                    + ["V.Pd.pandas_WF", "V.Pd.outputs_good", "V.Pd.goodB_sound", "V.PandasProps.C16_pandas",
                       "V.Np.numpy_WF", "V.Np.nested_np", "V.NumpyProps.C16_numpy"] + ["V.Shapes.shapes_match"],
        "runners": ["pandas", "numpy", "api"],
        "relevant": ["contains", "detect-path"],
    },
    "C05": {
        "modules": ["VProofs.Props.C05"],
        "theorems": thms("C05", ["C05_detected_is_input", "C05_inferred_is_input_when_no_coercion",
                                 "no_coercion_returns_input"]),
        "runners": ["engine", "pandas", "frame", "numpy", "list", "api"],
        "relevant": [],
        "partial": "in-place mutation and element identity are runtime facts: observed by deep snapshots, not provable",
    },
    "C08": {
        "modules": ["VProofs.Props.C08"],
        "theorems": thms("C08", ["C08_labels", "C08_frame_map", "C08_subframe", "C08_compare", "C08_functional"]),
        "runners": ["engine", "frame", "api"],
    },
    "C06": {
        "modules": ["VProofs.Props.C06", "VProofs.Props.NumpyMore", "VProofs.Props.PyListRel", "VProofs.Props.C06More", "VProofs.Props.PyListC06"],
        "theorems": thms("C06", ["C06_shape", "C06_lossless_float_integer", "C06_lossless_complex_float",
                                 "C06_lossless_datetime_date", "oks_length", "C06_shape_infer", "C06_nulls_step"]) + ["V.Pd.nulls_pandas",
                    "V.NumpyProps.C06_shape_numpy", "V.NumpyProps.C06_witness_F42", "V.NumpyProps.C06_lossless_float_integer_numpy",
                    "V.NumpyProps.C06_lossless_complex_float_numpy", "V.PyProps.C06_length_list",
                    "V.C06.applyStr_pointwise", "V.C06.C06_decode_object_targets", "V.C06.C06_decode_string_float", "V.C06.C06_decode_string_complex",
                    "V.PyProps.mapT_pointwise", "V.PyProps.C06_pointwise_list"],
        "runners": ["pandas", "frame", "family", "numpy", "list", "api"],
        "relevant": ["xform", "infer-data", "guard", "relation-missing"],
    },
    "C07": {
        "modules": ["VProofs.Props.C07"],
        "theorems": thms("C07", ["C07_empty", "C07_native_integer", "C07_native_count", "C07_native_float",
                                 "C07_native_boolean", "C07_native_datetime", "C07_accepts_float_as_integer",
                                 "C07_accepts_complex_as_float", "C07_accepts_string_ip", "C07_accepts_string_uuid",
                                 "C07_accepts_string_email", "C07_accepts_string_geometry"]),
        "runners": ["family", "pandas", "numpy", "list", "api"],
        "partial": "string encodings rest on the element parsers (data of the model); the full grid of families x encodings x null patterns is explored by the family runner on the real code",
    },
    "C09": {
        "modules": ["VProofs.Props.C09", "VProofs.Props.NumpyMore", "VProofs.Props.Shapes", "VProofs.Props.NumpyTotalProps", "VProofs.Props.PyListRel", "VProofs.Props.PyListTotal"],
        "theorems": thms("C09", ["C09_total", "C09_contains_total_pandas", "C09_generic_catch_all",
                                 "C09_detect_total_pandas", "C09_total_guards", "C09_total_xforms", "C09_witness_F29",
                                 "C09_infer_total_pandas", "C09_hypotheses_executable"])
                    + ["V.Pd.infer_total", "V.Pd.guardsOk_of_outCol", "V.Pd.outputs_good", "V.traverse_total_inv",
                       "V.NumpyProps.C09_contains_total_numpy", "V.NumpyProps.C09_generic_numpy", "V.NumpyProps.C09_guards_total_numpy",
                       "V.Np.guardsOkNB_sound", "V.Np.guardsOk_terminal", "V.Np.terminal_of_lands", "V.Np.infer_total_np", "V.NumpyProps.infer_numpy_complete", "V.PyProps.C09_tests_total_list",
                       "V.PyProps.xform_total_list", "V.PyProps.infer_total_list", "V.PyProps.infer_list_complete"] + ["V.Shapes.shapes_match"],
        "runners": ["pandas", "numpy", "list", "exotic", "api"],
        "relevant": ["contains", "guard", "xform-outcome", "infer-outcome", "detect-outcome", "relation-missing"],
    },
    "C10": {
        "modules": ["VProofs.Props.C10"],
        "theorems": thms("C10", ["C10_frame", "C10_history", "stringIsGeometry_restores", "suppressWarnings_id",
                                 "C10_witness_F01"]),
        "runners": ["history", "engine", "list", "algebra", "api", "graph"],
        "partial": "the model cannot exhibit global state it does not name, nor hash-seed / process dependence: observed by the History runner",
    },
    "C11": {
        "modules": ["VProofs.Props.C11", "VProofs.Props.PyList", "VProofs.Props.NumpyMore", "VProofs.Props.Shapes", "VProofs.Props.NumpyC11", "VProofs.Props.PyListBag"],
        "theorems": thms("C11", ["C11_sim", "C11_membership_pandas", "C11_repeat_pandas", "C11_detect_pandas",
                                 "C11_detect_repeat_pandas", "C11_infer_pandas"])
                    + ["V.Pd.guard_accBag", "V.Pd.xform_equiBag", "V.Pd.infer_bag", "V.PyProps.C11_membership_list", "V.PyProps.C11_detect_list",
                       "V.NumpyProps.isString_iff", "V.NumpyProps.C11_membership_numpy", "V.Np.guard_accBagN", "V.Np.xform_equiBagN",
                       "V.Np.infer_bag_np", "V.NumpyProps.C11_detect_numpy", "V.NumpyProps.C11_infer_numpy",
                       "V.Np.guard_repeat", "V.Np.xform_repeat", "V.Np.containsB_repeat_np", "V.NumpyProps.C11_detect_repeat_numpy", "V.NumpyProps.C11_infer_repeat_numpy",
                       "V.PyProps.containsL_ss", "V.PyProps.guard_perm_list", "V.PyProps.xform_perm_list", "V.PyProps.xform_ss_list",
                       "V.PyProps.infer_rel_list", "V.PyProps.C11_infer_list", "V.PyProps.C11_infer_repeat_list",
                       "V.PyProps.xform_repeat_list", "V.PyProps.C11_infer_repeat_exact_list"] + ["V.Shapes.shapes_match"],
        "runners": ["bag", "pandas", "numpy", "list"],
        "relevant": ["contains", "detect", "guard", "infer-path"],
        "partial": "infer_type under k-fold repetition is proved for the numpy and list models, for pandas it is explored by the bag runner (membership and detect_type under repetition are proved for all three); DtBag (pd.to_datetime parses element by element) is a hypothesis; the list theorems need convCaughtL (every conversion error is a caught one), evaluated per input",
    },
    "C12": {
        "modules": ["VProofs.Props.C12"],
        "theorems": thms("C12", ["C12_sound", "C12_complete", "C12_deterministic", "C12_state", "C12_state_detect",
                                 "C12_frame_fresh"]),
        "runners": ["engine", "api"],
    },
    "C13": {
        "modules": ["VProofs.Props.C13"],
        "theorems": thms("C13", ["C13_same_set", "C13_add_types", "C13_sub_types", "C13_comm", "C13_inplace",
                                 "C13_root", "C13_dropped", "C13_type_plus_type", "mem_replaceTypes", "replace_absent",
                                 "add_comm_set", "add_assoc_set", "add_idem_set", "sub_add_set"]),
        "runners": ["graph", "algebra"],
        "partial": "operands are values in the model; that the real operands and type classes are not mutated is observed",
    },
    "C14": {
        "modules": ["VProofs.Props.C14"],
        "theorems": thms("C14", ["tableWF", "C14_wf", "C14_order", "C14_nested", "standard_ok", "geometry_ok",
                                 "complete_ok"]),
        "runners": ["graph", "algebra"],
    },
    "C17": {
        "modules": ["VProofs.Props.C17"],
        "theorems": thms("C17", ["C17_schema_only", "C17_table", "C17_mapping_standard", "C17_mapping_standard_date",
                                 "C17_mapping_geometry", "C17_mapping_complete", "C17_complete_exact", "C17_mutex",
                                 "C17_identity", "C17_general", "sparkTS_L0"]),
        "runners": ["spark"],
        "partial": "'triggers no Spark job' is runtime behaviour: observed through the status tracker, not provable",
    },
    "C18": {
        "modules": ["VProofs.Props.C18", "VProofs.Props.C18Pandas"],
        "theorems": thms("C18", ["C18_small", "C18_sound", "C18_lands", "C18_pandas"]),
        "runners": ["engine", "sampled"],
    },
    "C19": {
        "modules": ["VProofs.Props.C19"],
        "theorems": thms("C19", ["nameRank_is_string_order", "nameRank_inj", "edgeKey_inj", "C19_content", "C19_order"]),
        "runners": ["graph", "export"],
        "partial": "the bytes pydot/graphviz write are outside the model: compared byte-for-byte by the export runner",
    },
    "C20": {
        "modules": ["VProofs.Props.C20"],
        "theorems": thms("C20", ["C20_inv", "C20_bounded", "C20_transparent", "C20_transparent_history",
                                 "C20_miss_only", "C20_lru", "C20_cap_zero"]),
        "runners": ["lru"],
    },
}

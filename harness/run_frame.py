"""Frame runner (C08, C06-frame, C05-frame): DataFrames of generated columns on the shipped typesets — results must equal
the per-column Series results, keyed by the same labels in the original order on the original row index; independent of
the other columns (all subsets / orderings for <= 3 columns); functional wrappers = methods; comparison/report agree."""
import itertools
import json
import multiprocessing as mp
import sys
import warnings

import numpy as np
import pandas as pd

import gen_pandas as G
from common import canon, rng_for

warnings.simplefilter("ignore")
import visions  # noqa: E402
from visions import functional as F  # noqa: E402
from run_pandas import typeset_for, outcome, col_of, col_obs_equiv  # noqa: E402
from visions.typesets import CompleteSet, StandardSet  # noqa: E402

COMPLETE = sorted(str(t) for t in CompleteSet().types)
STD = sorted(str(t) for t in StandardSet().types)
LABELS = ["a", "b", "col c", 1, 2.5, ("t", 1), "Ω", "", "index", "0", "1", "2.5", "('t', 1)", 0, "None"]


def gen_frame(rng):
    ncols = rng.choice([0, 1, 2, 2, 3, 4, 6])
    nrows = rng.choice([0, 1, 2, 3, 5])
    labels = rng.sample(LABELS, ncols)
    if any(isinstance(l, tuple) for l in labels) and rng.random() < 0.7:
        labels = [l for l in labels if not isinstance(l, tuple)]
    cols = []
    for _ in labels:
        r = G.gen_column(rng)
        vals = r["values"]
        if r["dtype"] == "object" or isinstance(r["dtype"], list) or True:
            vals = (vals * (nrows + 1))[:nrows] if vals else []
        if len(vals) < nrows:
            continue
        r = dict(r)
        r["values"] = vals
        r["index"] = "default"
        cols.append(r)
    labels = labels[:len(cols)]
    return {"labels": labels, "cols": cols, "nrows": nrows, "index": rng.choice(["default", "str", "rev", "dup"])}


def fixed_frames():
    """frames whose columns go through every numeric / temporal / string coercion, under every kind of row index"""
    cols = [("z", {"values": [["complex", 1.0, 0.0], ["complex", 2.0, 0.0], ["complex", 3.0, 0.0]], "dtype": "complex128"}),
            ("zf", {"values": [["complex", 1.5, 0.0], ["nan"], ["complex", 3.0, 0.0]], "dtype": "complex128"}),
            ("f", {"values": [["float", 1.0], ["nan"], ["float", 3.0]], "dtype": "float64"}),
            ("s", {"values": [["str", "1.5"], ["str", "2.5"], ["none"]], "dtype": "object"}),
            ("b", {"values": [["str", "yes"], ["str", "no"], ["str", "yes"]], "dtype": "object"}),
            ("d", {"values": [["dt", "2020-01-01T00:00:00"], ["NaT"], ["dt", "2021-02-03T00:00:00"]], "dtype": "datetime64[ns]"}),
            ("p", {"values": [["str", "/a/b"], ["none"], ["str", "/c"]], "dtype": "object"}),
            ("u", {"values": [["str", "http://a.b/c"], ["str", "https://x.y/z"], ["none"]], "dtype": "object"}),
            ("t", {"values": [["str", "2020-01-01 10:00:00"], ["str", "2021-02-03 11:30:00"], ["none"]], "dtype": "object"}),
            ("cs", {"values": [["str", "1+2j"], ["str", "3"], ["str", "4"]], "dtype": "object"}),
            ("ip", {"values": [["str", "127.0.0.1"], ["str", "10.0.0.1"], ["str", "::1"]], "dtype": "object"}),
            ("bo", {"values": [["bool", True], ["none"], ["bool", False]], "dtype": "object"})]
    out = []
    # unique labels with one and the same str(): 1 / "1", ("t", 1) / "('t', 1)", 2.5 / "2.5"
    for la, lb in ((1, "1"), (("t", 1), "('t', 1)"), (2.5, "2.5"), ("1", 1)):
        out.append({"labels": [la, lb], "cols": [dict(cols[3][1], index="default", name=None, stream="fixed"),
                                                 dict(cols[2][1], index="default", name=None, stream="fixed")],
                    "nrows": 3, "index": "default"})
    for idx in ("default", "str", "rev", "dup", "same", "mixed", "shift"):
        for lo in (0, 3, 6, 9):
            sel = cols[lo:lo + 3]
            out.append({"labels": [l for l, _ in sel], "cols": [dict(r, index="default", name=None, stream="fixed") for _, r in sel],
                        "nrows": 3, "index": idx})
    return out


def build(fr):
    idx = G.gamma_index(fr["index"], fr["nrows"])
    data = {}
    for l, r in zip(fr["labels"], fr["cols"]):
        s = G.gamma(r)
        if idx is not None:
            s.index = idx
        data[l] = s
    df = pd.DataFrame(data, index=idx if idx is not None else (range(fr["nrows"]) if not data else None))
    return df


def canon_series(s):
    if isinstance(s, pd.Series):
        if len(s) > 200:
            # long columns: a cheap, still exact, rendering (the cell-wise abstraction costs seconds per column here)
            return canon([str(s.dtype), repr(s.name), [repr(i) for i in s.index[:5].tolist()], len(s),
                          [repr(v) for v in s.tolist()]])
        return canon(col_obs_equiv(col_of(s)))
    return repr(type(s))


def check(fr, order):
    """the frame oracles; failures found before an oracle further down trips over a malformed result are kept"""
    fails = []
    try:
        return _check(fr, order, fails)
    except Exception:
        if fails:
            return {"fails": fails}
        raise


def _check(fr, order, fails):
    ts = typeset_for(order)

    def add(prop, sig, what):
        fails.append({"property": prop, "signature": sig, "what": what, "frame": fr, "also": ["C12"] if prop == "C08" else []})

    try:
        df = build(fr)
    except Exception as e:  # noqa
        return {"skip": type(e).__name__, "fails": []}
    if list(df.columns) != fr["labels"]:
        return {"skip": "labels", "fails": []}
    before = {l: canon_series(df[l]) for l in df.columns}
    per = {}
    for l in df.columns:
        s = df[l]
        per[l] = {"detect": outcome(lambda: str(ts.detect_type(s))), "infer": outcome(lambda: str(ts.infer_type(s))),
                  "cast": outcome(lambda: canon_series(ts.cast_to_inferred(s)))}
    col_raises = any(v[k][0] == "raises" for v in per.values() for k in v)
    res = {"detect": outcome(lambda: ts.detect_type(df)), "infer": outcome(lambda: ts.infer_type(df)),
           "cast": outcome(lambda: ts.cast_to_inferred(df)), "castd": outcome(lambda: ts.cast_to_detected(df))}
    if {l: canon_series(df[l]) for l in df.columns} != before:
        add("C05", "frame-mutated", "the caller's DataFrame was modified")
    if col_raises:
        return {"fails": fails, "raised": True}      # totality failures belong to C09 (pandas runner), not here
    for k in ("detect", "infer"):
        if res[k][0] == "raises":
            add("C08", "frame-%s-raises:%s" % (k, res[k][1]), "%s_type(frame) raised %s although every column types fine" % (k, res[k][1]))
            continue
        d = res[k][1]
        if list(d.keys()) != list(df.columns):
            add("C08", "frame-keys-order", "%s_type keys %s differ from the columns %s" % (k, list(d.keys()), list(df.columns)))
        for l in df.columns:
            if l in d and ["ok", str(d[l])] != per[l][k]:
                add("C08", "frame-column-differs:" + k, "%s_type of column %r in the frame is %s, on its own %s" % (k, l, d[l], per[l][k]))
    for k in ("cast", "castd"):
        if res[k][0] == "raises":
            add("C08", "frame-%s-raises:%s" % (k, res[k][1]), "cast of the frame raised %s" % res[k][1])
            continue
        out = res[k][1]
        if not isinstance(out, pd.DataFrame):
            add("C08", "frame-cast-not-frame", "cast result is a %s" % type(out).__name__)
            continue
        if list(out.columns) != list(df.columns):
            add("C08", "frame-cast-columns", "cast columns %s differ from %s" % (list(out.columns), list(df.columns)))
            continue
        if [repr(i) for i in out.index.tolist()] != [repr(i) for i in df.index.tolist()]:
            add("C08", "frame-cast-index", "cast frame is not on the original row index")
            continue
        for l in df.columns:
            want = per[l]["cast"][1] if k == "cast" else before[l]
            if canon_series(out[l]) != want:
                add("C08", "frame-cast-column-differs", "cast column %r differs from the single-Series cast" % (l,))
                # the Series cast is the exact decoding (C06 oracle of the pandas runner), so the frame's column is not
                add("C06", "frame:cast-column-not-the-decoding", "frame column %r is cast to other values / dtype than the same "
                                                                 "column cast on its own (tz, dtype or values lost in the frame path)" % (l,))
                break
    small = len(df) <= 200          # the long frames exist for the sampling check; the rest would only cost time on them
    # C01 on the frame: the type detected for every column contains that column, and none of its identity children in
    # the typeset does
    if small and res["detect"][0] == "ok":
        for l in df.columns:
            t = res["detect"][1].get(l)
            if t is None:
                continue
            inn = outcome(lambda: bool(df[l] in t))
            if inn != ["ok", True]:
                add("C01", "frame:detected-type-does-not-contain", "frame column %r detected as %s, which does not contain it (%s)" % (l, t, inn))
                continue
            for child in ts.base_graph.successors(t):
                if outcome(lambda: bool(df[l] in child)) == ["ok", True]:
                    add("C01", "frame:not-most-specific:%s>%s" % (t, child), "frame column %r detected as %s although its identity child %s contains it" % (l, t, child))
                    break
    # C03 / C04 on the frame: every cast column belongs to, and is detected as, the type inferred for it; inferring or
    # casting the cast frame again changes nothing
    if small and res["cast"][0] == "ok" and res["infer"][0] == "ok" and isinstance(res["cast"][1], pd.DataFrame) \
            and list(res["cast"][1].columns) == list(df.columns):
        out, inf = res["cast"][1], res["infer"][1]
        for l in df.columns:
            t = inf.get(l)
            if t is None:
                add("C08", "frame-missing-key", "infer_type(frame) has no entry for column %r (keys %s)" % (l, list(inf.keys())))
                continue
            cin = outcome(lambda: bool(out[l] in t))
            if cin != ["ok", True]:
                add("C03", "frame:cast-not-in-inferred:%s" % t, "frame column %r inferred %s but its cast data is not contained in it (%s)" % (l, t, cin))
                continue
            det = outcome(lambda: str(ts.detect_type(out[l])))
            if det != ["ok", str(t)]:
                add("C03", "frame:detect-of-cast:%s" % t, "frame column %r inferred %s, detecting its cast data gives %s" % (l, t, det))
        again = outcome(lambda: ts.infer_type(out))
        if again[0] == "ok" and {repr(a): str(b) for a, b in again[1].items()} != {repr(a): str(b) for a, b in inf.items()}:
            add("C04", "frame:reinfer", "inferring the cast frame gives %s, first %s" % ({repr(a): str(b) for a, b in again[1].items()},
                                                                                     {repr(a): str(b) for a, b in inf.items()}))
        recast = outcome(lambda: ts.cast_to_inferred(out))
        if recast[0] == "ok" and isinstance(recast[1], pd.DataFrame) and list(recast[1].columns) == list(out.columns):
            for l in out.columns:
                if canon_series(recast[1][l]) != canon_series(out[l]):
                    add("C04", "frame:recast", "casting the already-cast frame changed column %r" % (l,))
                    break
    # functional wrappers
    for name, fn, key in (("detect_type", F.detect_type, "detect"), ("infer_type", F.infer_type, "infer")):
        r = outcome(lambda: fn(df, ts))
        if res[key][0] == "ok" and (r[0] != "ok" or {repr(a): str(b) for a, b in r[1].items()} != {repr(a): str(b) for a, b in res[key][1].items()}):
            add("C08", "functional-differs:" + name, "functional.%s differs from the typeset method" % name)
    # ... the cast wrappers, on the frame and on every column taken alone
    for name, fn, key in (("cast_to_inferred", F.cast_to_inferred, "cast"), ("cast_to_detected", F.cast_to_detected, "castd")):
        if res[key][0] != "ok" or not isinstance(res[key][1], pd.DataFrame):
            continue
        r = outcome(lambda: fn(df, ts))
        if r[0] != "ok" or not isinstance(r[1], pd.DataFrame) or list(r[1].columns) != list(res[key][1].columns) or \
                any(canon_series(r[1][l]) != canon_series(res[key][1][l]) for l in r[1].columns):
            add("C08", "functional-differs:" + name, "functional.%s(frame) differs from the typeset method" % name)
    for l in (list(df.columns)[:3] if small else []):
        s1 = df[l]
        for name, fn, meth in (("detect_type", F.detect_type, ts.detect_type), ("infer_type", F.infer_type, ts.infer_type)):
            a, b = outcome(lambda: str(fn(s1, ts))), outcome(lambda: str(meth(s1)))
            if a != b:
                add("C08", "functional-differs:series:" + name, "functional.%s(series) = %s, typeset.%s = %s (column %r)" % (name, a, name, b, l))
        for name, fn, meth in (("cast_to_inferred", F.cast_to_inferred, ts.cast_to_inferred), ("cast_to_detected", F.cast_to_detected, ts.cast_to_detected)):
            a, b = outcome(lambda: canon_series(fn(s1, ts))), outcome(lambda: canon_series(meth(s1)))
            if a != b:
                add("C08", "functional-differs:series:" + name, "functional.%s(series) differs from typeset.%s (column %r)" % (name, name, l))
    if res["detect"][0] == "ok" and res["infer"][0] == "ok":
        cmp_ = outcome(lambda: F.compare_detect_inference_frame(df, ts))
        want = [(l, str(res["detect"][1][l]), str(res["infer"][1][l])) for l in df.columns]
        if cmp_[0] != "ok" or [(a, str(b), str(c)) for a, b, c in cmp_[1]] != want:
            add("C08", "compare-differs", "compare_detect_inference_frame is not (label, detected, inferred) in column order")
        rep = outcome(lambda: F.type_inference_report_frame(df, ts))
        if rep[0] != "ok" or not isinstance(rep[1], str):
            add("C08", "report-raises", "type_inference_report_frame raised %s" % (rep[1],))
        else:
            lines = rep[1].splitlines()
            changed = sum(1 for a, b, c in want if b != c)
            if len(lines) != len(want) + 1 or ("%d out of %d" % (changed, len(want))) not in lines[-1] or \
                    any(str(l) not in ln or b not in ln or c not in ln for (l, b, c), ln in zip(want, lines)):
                add("C08", "report-differs", "report text disagrees with the comparison")
    # sub-frames and column orders
    labs = list(df.columns)
    if 2 <= len(labs) <= 3 and res["infer"][0] == "ok" and (small or len(labs) == 2):
        for k in range(1, len(labs) + 1):
            for sub in itertools.permutations(labs, k):
                sub = list(sub)
                r = outcome(lambda: ts.infer_type(df[sub]))
                if r[0] != "ok" or list(r[1].keys()) != sub or any(str(r[1][l]) != str(res["infer"][1][l]) for l in sub):
                    add("C08", "subframe-differs", "inference on the sub-frame %s differs from the full frame's columns" % (sub,))
                    break
    return {"fails": fails}


def _worker(args):
    frames, order = args
    G.files_dir()
    out = []
    for fr in frames:
        try:
            out.append(check(fr, order))
        except Exception:
            import traceback
            out.append({"crash": traceback.format_exc()[-800:], "fails": [], "frame": fr})
    return out


def run(tier, seed, n=None, nproc=16):
    return _run(tier, seed, n, nproc)


def _run(tier, seed, n=None, nproc=16):
    n = n or (250 if tier == "quick" else 5000)
    rng = rng_for(seed, "frame")
    frames = [gen_frame(rng) for _ in range(n)]
    frames.append({"labels": [], "cols": [], "nrows": 3, "index": "str"})
    frames = fixed_frames() + frames
    # long frames (>= 1000 rows): a sampling shortcut in the frame path would make these differ from the per-Series results
    for k in range(2 if tier == "quick" else 12):
        nrows = rng.choice([1000, 1500, 3000])
        c1 = [["str", "%d.5" % (i % 40)] for i in range(nrows)]
        c1[rng.randrange(nrows)] = ["str", "1+2j"]
        c2 = [["none"]] * nrows
        for _ in range(rng.choice([1, 2])):
            c2[rng.randrange(nrows)] = ["str", "some text"]
        c3 = [["float", float(i % 7)] for i in range(nrows)]
        c3[rng.randrange(nrows)] = ["float", 0.5]
        frames.append({"labels": ["f", "sparse", "almost-int"], "nrows": nrows, "index": "default",
                       "cols": [{"values": c1, "dtype": "object", "index": "default"}, {"values": c2, "dtype": "object", "index": "default"},
                                {"values": c3, "dtype": "float64", "index": "default"}]})
    frames.append({"labels": ["g"], "cols": [{"values": [["str", "POINT (1 2)"], ["str", "POINT (3 4)"]], "dtype": "object", "index": "default"}],
                   "nrows": 2, "index": "str"})
    outs = []
    for order in (COMPLETE, STD):
        chunks = [frames[i::nproc] for i in range(nproc)]
        with mp.Pool(nproc) as pool:
            outs += [r for ch in pool.map(_worker, [(c, order) for c in chunks if c]) for r in ch]
    fails = [f for o in outs for f in o["fails"]]
    crashes = [o for o in outs if "crash" in o]
    nontriv = set(canon(fr) for fr in frames if len(fr["labels"]) >= 2)
    dist = {"ncols": {}, "skipped": sum(1 for o in outs if "skip" in o), "column_raised": sum(1 for o in outs if o.get("raised"))}
    for fr in frames:
        dist["ncols"][len(fr["labels"])] = dist["ncols"].get(len(fr["labels"]), 0) + 1
    return {"runner": "frame", "evaluations": len(outs), "distinct_nontrivial": len(nontriv),
            "rule": "DataFrames of 0..6 generated columns (labels: str, int, float, tuple, empty string), 0..5 rows, default / "
                    "string / reversed / duplicated row index, on CompleteSet and StandardSet; every column sub-list and order "
                    "for <= 3 columns; non-trivial = distinct frames with >= 2 columns",
            "samples": [frames[0], frames[1]] if len(frames) > 1 else frames,
            "disagreements": [{"kind": "harness-crash", "trace": c["crash"]} for c in crashes],
            "oracle_failures": fails, "distribution": dist}


if __name__ == "__main__":
    r = run(sys.argv[1] if len(sys.argv) > 1 else "quick", int(sys.argv[2]) if len(sys.argv) > 2 else 0)
    print(r["evaluations"], r["distinct_nontrivial"], len(r["oracle_failures"]), len(r["disagreements"]), r["distribution"])
    for d in r["disagreements"][:2]:
        print(d["trace"])
    import collections
    c = collections.Counter(f["signature"] for f in r["oracle_failures"])
    ex = {}
    for f in r["oracle_failures"]:
        ex.setdefault(f["signature"], f)
    for k, v in c.most_common():
        print(v, k, ex[k]["what"][:300], json.dumps(ex[k]["frame"], default=str)[:300])

"""Child process of the history runner (C10): executes a history of API calls, brackets every call with a snapshot of
process-global state, then runs the probe.  Prints one JSON object.  Run with a chosen PYTHONHASHSEED."""
import io
import json
import locale
import os
import sys
import warnings

sys.path.insert(0, os.path.dirname(os.path.abspath(__file__)))


def main():
    spec = json.loads(sys.stdin.read())
    my_err, my_out = io.StringIO(), io.StringIO()
    real_out = sys.stdout
    sys.stderr, sys.stdout = my_err, my_out        # as pytest / Jupyter do: the caller owns these objects
    import numpy as np
    import pandas as pd
    import gen_pandas as G
    import visions
    import visions.types as vt
    from visions import functional as F
    from visions.declarative import create_type
    from visions.typesets import CompleteSet, GeometrySet, StandardSet, VisionsTypeset
    from visions.typesets.typeset import traverse_graph_with_sampled_series
    G.files_dir()
    ALL = [getattr(vt, n) for n in vt.__all__ if n != "VisionsBaseType"]

    def registries():
        out = {}
        for t in ALL:
            try:
                # registrations = the distinct functions (multimethod also caches resolutions per concrete class)
                out[str(t) + ".contains"] = sorted(set(getattr(f, "__module__", "?") + "." + getattr(f, "__qualname__", "?")
                                                       for f in t.contains_op.values()))
            except Exception:
                out[str(t) + ".contains"] = -1
            if t._relations is not None:
                for r in t._relations:
                    for nm in ("relationship", "transformer"):
                        f = getattr(r, nm)
                        try:
                            out["%s<-%s.%s" % (t, r.related_type, nm)] = sorted(set(
                                getattr(g, "__module__", "?") + "." + getattr(g, "__qualname__", "?") for g in f.values()))
                        except Exception:
                            pass
        return out

    import hashlib as _hashlib

    def module_data():
        """every piece of plain data bound at module level anywhere in the library (a memo, a remembered format, a set of
        things already reported ...): a call may not leave any of it changed"""
        out = {}
        plain = (type(None), bool, int, float, str, bytes, tuple, list, dict, set, frozenset)
        for mname, mod in list(sys.modules.items()):
            if not (mname == "visions" or mname.startswith("visions.")) or mod is None:
                continue
            for k, v in list(vars(mod).items()):
                if k.startswith("__") or not isinstance(v, plain):
                    continue
                try:
                    out[mname + "." + k] = _hashlib.md5(repr(v)[:20000].encode("utf-8", "replace")).hexdigest()
                except Exception:
                    pass
        return out

    def snapshot():
        try:
            opts = {k: repr(pd.get_option(k)) for k in ("mode.copy_on_write", "mode.chained_assignment", "display.max_rows",
                                                       "future.infer_string", "mode.string_storage", "compute.use_numexpr")
                    if k in pd._config.config._registered_options}
        except Exception:
            opts = {}
        import random as _random
        import hashlib as _hashlib
        rs = np.random.get_state()
        return {"stderr": sys.stderr is my_err, "stdout": sys.stdout is my_out,
                "np_random_state": _hashlib.md5(rs[1].tobytes() + str(rs[2]).encode()).hexdigest(),
                "py_random_state": _hashlib.md5(repr(_random.getstate()).encode()).hexdigest(),
                "filters": repr(warnings.filters), "np": repr(np.geterr()), "pd": opts, "cwd": os.getcwd(),
                "locale": repr(locale.getlocale()), "env": len(os.environ), "showwarning": warnings.showwarning.__name__,
                "relids": {str(t): id(t._relations) for t in ALL if t._relations is not None},
                "registries": registries(), "module_data": module_data()}

    def diff(a, b):
        d = []
        for k in a:
            if k == "relids":
                for t, i in a[k].items():
                    if b[k].get(t) != i:
                        d.append("relations-cache-replaced:" + t)
            elif k == "module_data":
                for t, n in a[k].items():
                    if b[k].get(t) != n:
                        d.append("module-global-changed:" + t)
                seen = set(t.rsplit(".", 1)[0] for t in a[k])
                for t in b[k]:
                    if t not in a[k] and t.rsplit(".", 1)[0] in seen:      # (a module imported during the call is not a change)
                        d.append("module-global-added:" + t)
            elif k == "registries":
                for t, n in a[k].items():
                    if t in b[k] and b[k][t] != n:
                        d.append("dispatch-registry-changed:" + t)
            elif a[k] != b[k]:
                d.append(k)
        return d

    typesets = {}

    def get_ts(name):
        if name not in typesets:
            typesets[name] = {"standard": StandardSet, "complete": CompleteSet, "geometry": GeometrySet}[name]()
        return typesets[name]

    def series(recipe):
        return G.gamma(recipe)

    log = []
    created = []
    with warnings.catch_warnings():
        pass
    for op in spec["history"]:
        before = snapshot()
        err = None
        try:
            k = op["op"]
            if k == "construct":
                typesets.pop(op["ts"], None)
                get_ts(op["ts"])
            elif k == "algebra":
                ts = get_ts(op["ts"])
                t = getattr(vt, op["type"])
                _ = (ts + t) if op["kind"] == "add" else (ts - t if t is not vt.Generic else ts)
            elif k == "member":
                _ = series(op["recipe"]) in getattr(vt, op["type"])
            elif k in ("detect", "infer", "cast"):
                ts = get_ts(op["ts"])
                s = series(op["recipe"])
                _ = {"detect": ts.detect_type, "infer": ts.infer_type, "cast": ts.cast_to_inferred}[k](s)
            elif k == "frame":
                ts = get_ts(op["ts"])
                df = pd.DataFrame({"c%d" % i: series(r).reset_index(drop=True) for i, r in enumerate(op["recipes"])})
                _ = F.infer_type(df, ts)
                _ = F.cast_to_inferred(df, ts)
                _ = F.compare_detect_inference_frame(df, ts)
                _ = F.type_inference_report_frame(df, ts)
            elif k == "create_type":
                T = create_type("User%d" % len(created), contains=lambda s, state: True, identity=vt.Generic)
                created.append(T)
                _ = VisionsTypeset({vt.Generic, T}).detect_type(pd.Series([1]))
            elif k == "create_many":
                # a session that defines many types of its own (more than any small cache in the library holds)
                many = [create_type("Bulk%d_%d" % (len(created), j), contains=lambda s, state: False, identity=vt.Generic)
                        for j in range(op.get("n", 150))]
                created.extend(many)
                _ = VisionsTypeset({vt.Generic, *many}).detect_type(pd.Series([1]))
                typesets.clear()            # later calls build their typesets after this
            elif k == "sampled":
                ts = get_ts(op["ts"])
                s = pd.Series(["1"] * 1200 + ["a"])
                _ = traverse_graph_with_sampled_series(ts.root_node, s, ts.relation_graph, 10)
            elif k == "list":
                _ = get_ts(op["ts"]).infer_type(["POINT (1 2)", "x"])
            elif k == "numpy":
                ts = get_ts("standard")
                arr = np.array(op["vals"], dtype=op["dtype"]) if op["dtype"] != "auto" else np.array(op["vals"])
                _ = arr in vt.Float
                _ = ts.detect_type(arr)
                _ = ts.infer_type(arr)
                _ = ts.cast_to_inferred(arr)
            elif k == "pylist":
                ts = get_ts(op["ts"])
                _ = ts.detect_type(list(op["vals"]))
                _ = ts.infer_type(list(op["vals"]))
            elif k == "edit":
                # the caller edits a container in place between two calls on the same typeset
                kind = op["kind"]
                ts = get_ts("standard" if kind == "numpy" else op["ts"])     # the numpy back end implements StandardSet only
                x = {"list": ["1.5", "2.5", "4.0"], "numpy": np.array(["1.5", "2.5", "4.0"], dtype=object),
                     "series": pd.Series(["1.5", "2.5", "4.0"], dtype=object),
                     "frame": pd.DataFrame({"a": pd.Series(["1.5", "2.5", "4.0"], dtype=object)})}[kind]
                _ = ts.infer_type(x)
                _ = ts.cast_to_inferred(x)
                if kind == "list":
                    x[:] = ["north", "south", "east"]
                elif kind == "numpy":
                    x[:] = ["north", "south", "east"]
                elif kind == "series":
                    x.iloc[:] = ["north", "south", "east"]
                else:
                    x.loc[:, "a"] = ["north", "south", "east"]
                back = ts.cast_to_inferred(x)
                typ = ts.infer_type(x)
                typ = str(typ["a"]) if kind == "frame" else str(typ)
                if typ != "String" or (back is not x and kind != "frame"):
                    err = "stale-after-edit:%s:%s:%s" % (kind, typ, back is x)
            elif k == "long":
                vals = [None] * 1500
                for i in op["pos"]:
                    vals[i] = "text %d" % i
                s = pd.Series(vals, dtype=object)
                ts = get_ts(op["ts"])
                _ = ts.infer_type(s)
                _ = ts.detect_type(pd.DataFrame({"a": s, "b": range(1500)}))
        except Exception as e:  # noqa
            err = type(e).__name__ + ":" + str(e)[:80] if op.get("op") == "edit" else type(e).__name__
        after = snapshot()
        d = diff(before, after)
        log.append({"op": op["op"], "err": err, "changed": d})
    # probe
    probe = {}
    ts = CompleteSet()
    for name, rec in spec["probes"].items():
        s = series(rec)
        try:
            data, path, state = ts.infer(s)
            probe[name] = {"detect": str(ts.detect_type(s)), "path": [str(t) for t in path], "state": sorted(state),
                           "cast": [repr(v) for v in (data.tolist() if hasattr(data, "tolist") else list(data))],
                           "dtype": str(getattr(data, "dtype", None))}
        except Exception as e:  # noqa
            probe[name] = {"raises": type(e).__name__}
    # the same probes through the typesets the history has used: a typeset carries no memory of earlier calls
    probe_used = {}
    for tsname, uts in typesets.items():
        for name, rec in spec["probes"].items():
            s = series(rec)
            try:
                data, path, state = uts.infer(s)
                probe_used[tsname + ":" + name] = {"detect": str(uts.detect_type(s)), "path": [str(t) for t in path]}
            except Exception as e:  # noqa
                probe_used[tsname + ":" + name] = {"raises": type(e).__name__}
    # long, mostly-missing columns: any sampling shortcut makes these answers vary between calls and processes
    for name, npos in (("long_sparse_1", 1), ("long_sparse_40", 40), ("long_float_one_complex", 0)):
        if npos:
            vals = [None] * 3000
            for i in range(npos):
                vals[(i * 7919 + 13) % 3000] = "word %d" % i
        else:
            vals = ["%d.5" % (i % 50) for i in range(3000)]
            vals[1234] = "1+2j"
        s = pd.Series(vals, dtype=object)
        answers = []
        for _ in range(4):
            try:
                answers.append([str(ts.detect_type(s)), str(ts.infer_type(s)), str(ts.infer_type(pd.DataFrame({"c": s}))["c"])])
            except Exception as e:  # noqa
                answers.append(["raises", type(e).__name__])
        probe[name] = answers
    df = pd.DataFrame({"b": ["1", "2"], "a": [1.0, 2.0], "c": [True, False], 10: ["x", "y"], "z": ["2020-01-01", "2020-01-02"]})
    try:
        probe["frame_compare"] = [[repr(k), str(a), str(b)] for k, a, b in F.compare_detect_inference_frame(df, ts)]
        probe["frame_report"] = F.type_inference_report_frame(df, ts)
    except Exception as e:  # noqa
        probe["frame_compare"] = {"raises": type(e).__name__}
    probe["typeset_types"] = sorted(str(t) for t in ts.types)
    probe["graph_edges"] = sorted((str(a), str(b), d["style"]) for a, b, d in ts.relation_graph.edges(data=True))
    sys.stdout = real_out
    print(json.dumps({"log": log, "probe": probe, "probe_used": probe_used, "stderr_written": len(my_err.getvalue())}))


if __name__ == "__main__":
    main()

"""Family runner (C07): semantic values of every family the property lists, carried by every supported machine
representation, with and without missing values, must be inferred as the family's type (the type lies on the inference
path) and cast back to the original semantic values; an empty column is Generic.  Direct oracle on the real code."""
import json
import multiprocessing as mp
import sys
import warnings

import numpy as np
import pandas as pd

import alpha
import gen_pandas as G
from common import canon, rng_for

warnings.simplefilter("ignore")
import visions  # noqa: E402
from run_pandas import typeset_for, outcome  # noqa: E402
from visions.typesets import CompleteSet, GeometrySet, StandardSet  # noqa: E402

COMPLETE = sorted(str(t) for t in CompleteSet().types)
STD = sorted(str(t) for t in StandardSet().types)
GEO = sorted(str(t) for t in GeometrySet().types)

UUIDS = ["0b8a22ca-80ad-4df5-85ac-fa49c44b7ede", "c5bf1e4c-3b1f-4c53-9e4d-6d1c2c3f7a10", "00000000-0000-0000-0000-000000000001"]
URLS = ["http://www.cwi.nl:80/%7Eguido/Python.html", "https://github.com/dylan-profiler/visions", "ftp://x.y/z"]
PATHS = ["/home/user/file.txt", "/a", "/usr/lib/x.so"]
WPATHS = ["C:\\Users\\x\\f.txt", "D:\\data\\a.csv"]
IPS = ["127.0.0.1", "192.168.0.255", "::1", "2001:db8::8a2e:370:7334"]
EMAILS = [("test", "example.com"), ("first.last", "sub.domain.org")]
WKTS = ["POINT (1 2)", "POINT (-92 42)", "LINESTRING (0 0, 1 1)", "POLYGON ((0 0, 1 0, 1 1, 0 0))"]
DATES = ["2020-01-01", "1999-12-31", "2021-05-06"]
DTIMES = ["2020-01-01T10:30:00", "2021-05-06T01:02:03", "1999-12-31T23:59:59"]
TEXTS = ["hello", "a b", "free text", "İ", "x-y"]


def family_cases(rng):
    """yield (family, expected type name, encoding label, recipe, expected payloads or None)"""
    out = []

    def add(fam, typ, enc, values, dtype, sentinels, expect, typeset=COMPLETE, exact=False):
        for pattern in ("none", "lead", "trail", "mid", "some"):
            if pattern != "none" and not sentinels:
                continue
            vals = list(values)
            exp = list(expect) if expect is not None else None
            if pattern != "none":
                s = rng.choice(sentinels)
                pos = {"lead": [0], "trail": [len(vals)], "mid": [len(vals) // 2], "some": [0, len(vals)]}[pattern]
                for k, p in enumerate(sorted(pos)):
                    vals.insert(p + k, s)
                    if exp is not None:
                        exp.insert(p + k, None)
            out.append({"family": fam, "type": typ, "enc": enc, "nulls": pattern, "typeset": typeset, "expect": exp, "exact": exact,
                        "recipe": {"values": vals, "dtype": dtype, "index": rng.choice(["default", "str", "dup"]),
                                   "name": rng.choice([None, "c"]), "stream": "family:%s:%s:%s" % (fam, enc, pattern)}})
        if sentinels and rng.random() < 0.12:
            # a long column (>= 1000 rows) that is almost entirely missing: the few values still decide the type
            s = rng.choice(sentinels)
            k = rng.randint(0, 1100)
            vals = [s] * k + list(values) + [s] * (1200 - k)
            exp = ([None] * k + list(expect) + [None] * (1200 - k)) if expect is not None else None
            out.append({"family": fam, "type": typ, "enc": enc, "nulls": "long-sparse", "typeset": typeset, "expect": exp, "exact": exact,
                        "recipe": {"values": vals, "dtype": dtype, "index": "default", "name": None,
                                   "stream": "family:%s:%s:long-sparse" % (fam, enc)}})

    n = rng.choice([1, 2, 3, 5, 7])
    ints = [rng.choice([3, -7, 12, 250, 1000003, 0, 1, 41]) for _ in range(n)]
    if all(v in (0, 1) for v in ints):
        ints[0] = 7
    uints = [abs(v) % 200 for v in ints]
    if all(v in (0, 1) for v in uints):
        uints[0] = 9
    ipay = lambda vs: [["int", str(v)] for v in vs]  # noqa
    for dt in ("int64", "int32", "int16"):
        add("integer", "Integer", dt, [["int", v % 30000 - 15000 if dt == "int16" else v] for v in ints], dt, [],
            ipay([v % 30000 - 15000 if dt == "int16" else v for v in ints]))
    for dt in ("uint8", "uint64"):
        add("integer", "Integer", dt, [["int", v] for v in uints], dt, [], ipay(uints))
    for dt in ("Int64", "Int8"):
        vs = [v % 100 for v in ints] if dt == "Int8" else ints
        if all(v in (0, 1) for v in vs):
            vs[0] = 5
        add("integer", "Integer", dt, [["int", v] for v in vs], dt, [["NA"]], ipay(vs))
    add("integer", "Integer", "UInt32", [["int", v] for v in uints], "UInt32", [["NA"]], ipay(uints))
    add("integer", "Integer", "float64 .0", [["float", float(v)] for v in ints], "float64", [["nan"]], ipay(ints))
    add("integer", "Integer", "Float64 .0", [["float", float(v)] for v in ints], "Float64", [["NA"]], ipay(ints))
    add("integer", "Integer", "complex128 +0j", [["complex", float(v), 0.0] for v in ints], "complex128", [["nan"]], ipay(ints))
    big = [v + 10000 for v in uints]         # five digits: four-digit strings parse as years (known finding F09)
    for dt, sent in (("object", [["none"], ["nan"]]), ("str", [["none"], ["nan"]]), ("string", [["NA"], ["none"]])):
        add("integer", "Integer", "strings/" + dt, [["str", str(v)] for v in big], dt, sent, ipay(big))
        add("integer", "Integer", "strings .0/" + dt, [["str", "%d.0" % v] for v in big], dt, sent, ipay(big))
    # floats (non integral somewhere)
    fl = [rng.choice([1.5, -0.25, 3.75, 1e-3, 2.5e10, 0.1]) for _ in range(n)]
    fl[0] = rng.choice([1.5, -0.25, 3.75])   # at least one non-integral value
    fpay = lambda vs: [["float", alpha.fl(v)] for v in vs]  # noqa
    add("float", "Float", "float64", [["float", v] for v in fl], "float64", [["nan"]], fpay(fl))
    add("float", "Float", "float32", [["float", float(np.float32(v))] for v in fl], "float32", [["nan"]],
        fpay([float(np.float32(v)) for v in fl]))
    add("float", "Float", "Float64", [["float", v] for v in fl], "Float64", [["NA"]], fpay(fl))
    add("float", "Float", "complex128 +0j", [["complex", v, 0.0] for v in fl], "complex128", [["nan"]], fpay(fl))
    for dt, sent in (("object", [["none"], ["nan"]]), ("str", [["none"], ["nan"]]), ("string", [["NA"]])):
        add("float", "Float", "strings/" + dt, [["str", repr(v)] for v in fl], dt, sent, fpay(fl))
    # other spellings of a float literal, in the first position and later (leading '.', trailing '.', sign,
    # exponent, inf): what float() accepts is what the relation must accept
    for alt, pos in [(a, p) for a in (".5", "5.", "+1.5", "1e-3", "inf", "-inf", "Infinity", "1_0.5", "1E2", "-.5e1")
                     for p in ("first", "last")]:
        vals = [repr(v) for v in fl] + ["2.25"]
        vals = [alt] + vals if pos == "first" else vals + [alt]
        for dt, sent in (("object", [["none"], ["nan"]]), ("str", [["none"]]), ("string", [["NA"]])):
            add("float", "Float", "strings alt %s %s/%s" % (alt, pos, dt), [["str", v] for v in vals], dt, sent,
                fpay([float(v) for v in vals]))
    # booleans
    bl = [rng.random() < 0.5 for _ in range(n)]
    bpay = lambda vs: [["bool", bool(v)] for v in vs]  # noqa
    add("boolean", "Boolean", "bool", [["bool", v] for v in bl], "bool", [], bpay(bl))
    add("boolean", "Boolean", "boolean", [["bool", v] for v in bl], "boolean", [["NA"]], bpay(bl))
    add("boolean", "Boolean", "object", [["bool", v] for v in bl], "object", [["none"], ["nan"], ["NA"]], bpay(bl))
    for t, f in (("True", "False"), ("TRUE", "false"), ("yes", "No"), ("Y", "n")):
        for dt, sent in (("object", [["none"], ["nan"]]), ("str", [["none"]]), ("string", [["NA"]])):
            add("boolean", "Boolean", "strings %s/%s/%s" % (t, f, dt), [["str", t if v else f] for v in bl], dt, sent, bpay(bl))
    # free text
    tx = [rng.choice(TEXTS) for _ in range(n)]
    for dt, sent in (("object", [["none"], ["nan"]]), ("str", [["none"], ["nan"]]), ("string", [["NA"]]), ("stringArrow", [["NA"]])):
        add("text", "String", dt, [["str", v] for v in tx], dt, sent, None)
    # complex with a non-zero imaginary part
    cx = [(rng.choice([1.0, 2.5, 0.0]), rng.choice([1.0, -2.0, 0.5])) for _ in range(n)]
    cpay = [["complex", alpha.fl(a), alpha.fl(b)] for a, b in cx]
    add("complex", "Complex", "complex128", [["complex", a, b] for a, b in cx], "complex128", [["nan"]], cpay)
    # an imaginary part is an imaginary part however small: the answer is Complex itself
    tiny = [(rng.choice([1.5, 2.0, 3e-12]), rng.choice([2e-9, -1e-12, 4e-300])) for _ in range(n)]
    tpay = [["complex", alpha.fl(a), alpha.fl(b)] for a, b in tiny]
    add("complex", "Complex", "complex128 tiny imaginary", [["complex", a, b] for a, b in tiny], "complex128", [["nan"]], tpay, exact=True)
    add("complex", "Complex", "strings tiny imaginary/object", [["str", "%r" % complex(a, b)] for a, b in tiny], "object", [["nan"], ["none"]], tpay, exact=True)
    for dt, sent in (("object", [["none"], ["nan"]]), ("str", [["nan"], ["none"]]), ("string", [["NA"]])):
        add("complex", "Complex", "strings/" + dt, [["str", "%r" % complex(a, b)] for a, b in cx], dt, sent, cpay)
    # datetimes (some non-midnight), dates, times, timedeltas
    dts = [rng.choice(DTIMES) for _ in range(n)]
    # midnight with a sub-second fraction is not a date: the answer must be DateTime itself, not something narrower
    subs = [rng.choice(["2020-01-01T00:00:00.250", "2021-05-06T00:00:00.000001", "1999-12-31T00:00:00.5"]) for _ in range(n)]
    add("datetime", "DateTime", "datetime64[ns] sub-second midnight", [["dt", v] for v in subs], "datetime64[ns]", [["NaT"]], None, exact=True)
    for dt, sent in (("object", [["none"]]), ("str", [["none"]])):
        add("datetime", "DateTime", "strings sub-second midnight/" + dt, [["str", v.replace("T", " ")] for v in subs], dt, sent, None, exact=True)
    if not all(v.endswith("00:00:00") for v in dts):
        add("datetime", "DateTime", "datetime64[ns] exact", [["dt", v] for v in dts], "datetime64[ns]", [["NaT"]], None, exact=True)
    add("float", "Float", "float64 exact", [["float", v] for v in fl], "float64", [["nan"]], fpay(fl), exact=True)
    add("datetime", "DateTime", "datetime64[ns]", [["dt", v] for v in dts], "datetime64[ns]", [["NaT"]], None)
    add("datetime", "DateTime", "datetime64[s]", [["dt", v] for v in dts], "datetime64[s]", [["NaT"]], None)
    add("datetime", "DateTime", "tz-aware", [["dt", v] for v in dts], ["datetimetz", "Europe/Amsterdam"], [["NaT"]], None)
    for dt, sent in (("object", [["none"], ["nan"]]), ("str", [["none"]]), ("string", [["NA"]])):
        add("datetime", "DateTime", "strings/" + dt, [["str", v.replace("T", " ")] for v in dts], dt, sent, None)
    ds = [rng.choice(DATES) for _ in range(n)]
    dpay = [["date", str(__import__("datetime").date.fromisoformat(v).toordinal())] for v in ds]
    add("date", "Date", "object dates", [["date", v] for v in ds], "object", [["none"], ["nan"], ["NaT"]], dpay)
    # dates outside the int64-nanosecond range (1677..2262): still dates / datetimes when spelled as strings
    far = [rng.choice(["1500-01-01", "1066-10-14", "9999-12-31", "2500-06-15"]) for _ in range(n)]
    for dt, sent in (("object", [["none"], ["nan"]]), ("str", [["none"]])):
        add("date", "Date", "far date strings/" + dt, [["str", v] for v in far], dt, sent, None)
        add("datetime", "DateTime", "far datetime strings/" + dt, [["str", v + " 10:30:00"] for v in far], dt, sent, None)

    add("date", "Date", "datetime64 midnight", [["dt", v + "T00:00:00"] for v in ds], "datetime64[ns]", [["NaT"]], dpay)
    for dt, sent in (("object", [["none"]]), ("str", [["none"]])):
        add("date", "Date", "strings/" + dt, [["str", v] for v in ds], dt, sent, dpay)
    add("time", "Time", "object times", [["time", rng.choice(["10:00:00", "00:00:00", "23:59:59"])] for _ in range(n)], "object",
        [["none"], ["nan"]], None)
    add("timedelta", "TimeDelta", "timedelta64", [["td", rng.choice([0, 5, 86400])] for _ in range(n)], "timedelta64[ns]", [["NaT"]], None)
    # categoricals
    add("categorical", "Categorical", "category/str", [["str", rng.choice(["a", "b", "c"])] for _ in range(n)], ["category", False],
        [["none"], ["nan"]], None)
    add("categorical", "Categorical", "category/int", [["int", rng.choice([1, 2, 3])] for _ in range(n)], ["category", False], [["nan"]], None)
    add("categorical", "Categorical", "ordered", [["str", rng.choice(["a", "b", "c"])] for _ in range(n)], ["category", True], [["nan"]], None)
    # object-valued families
    us = [rng.choice(URLS) for _ in range(n)]
    add("url", "URL", "ParseResult objects", [["url", v] for v in us], "object", [["none"], ["nan"]], [["obj", v] for v in us])
    ps = [rng.choice(PATHS) for _ in range(n)]
    add("path", "Path", "PurePosixPath objects", [["ppath", v] for v in ps], "object", [["none"], ["nan"]], [["obj", v] for v in ps])
    ws = [rng.choice(WPATHS) for _ in range(n)]
    add("path", "Path", "PureWindowsPath objects", [["wpath", v] for v in ws], "object", [["none"]], [["obj", v] for v in ws])
    add("file", "File", "existing Path objects", [["path", rng.choice(["exists", "exists2", "image"])] for _ in range(n)], "object",
        [["none"], ["nan"]], None)
    add("image", "Image", "image Path objects", [["path", rng.choice(["image", "image2"])] for _ in range(n)], "object", [["none"]], None)
    ips = [rng.choice(IPS) for _ in range(n)]
    add("ip", "IPAddress", "ip objects", [["ip", v] for v in ips], "object", [["none"], ["nan"]], [["obj", v] for v in ips])
    uu = [rng.choice(UUIDS) for _ in range(n)]
    add("uuid", "UUID", "UUID objects", [["uuid", v] for v in uu], "object", [["none"], ["nan"]], [["obj", v] for v in uu])
    em = [rng.choice(EMAILS) for _ in range(n)]
    add("email", "EmailAddress", "FQDA objects", [["email", a, b] for a, b in em], "object", [["none"]], [["obj", "%s@%s" % e] for e in em])
    gs = [rng.choice(WKTS) for _ in range(n)]
    add("geometry", "Geometry", "shapely objects", [["geom", v] for v in gs], "object", [["none"]], [["obj", v] for v in gs], GEO)
    for dt, sent in (("object", [["none"], ["nan"]]), ("str", [["none"], ["nan"]]), ("string", [["NA"]])):
        add("url", "URL", "strings/" + dt, [["str", v] for v in us], dt, sent, [["obj", v] for v in us])
        add("path", "Path", "strings/" + dt, [["str", v] for v in ps], dt, sent, [["obj", v] for v in ps])
        add("ip", "IPAddress", "strings/" + dt, [["str", v] for v in ips], dt, sent, [["obj", v] for v in ips])
        add("uuid", "UUID", "strings/" + dt, [["str", v] for v in uu], dt, sent, [["obj", v] for v in uu])
        add("email", "EmailAddress", "strings/" + dt, [["str", "%s@%s" % e] for e in em], dt, sent, [["obj", "%s@%s" % e] for e in em])
        add("geometry", "Geometry", "strings/" + dt, [["str", v] for v in gs], dt, sent, [["obj", v] for v in gs], GEO)
    return out


def check(case):
    rec = case["recipe"]
    fails = []

    def add(sig, what):
        fails.append({"property": "C07", "signature": sig, "what": what, "recipe": rec, "family": case["family"],
                      "encoding": case["enc"], "nulls": case["nulls"]})

    try:
        s = G.gamma(rec)
    except Exception as e:  # noqa
        return {"skip": type(e).__name__, "fails": []}
    enc_kind = case["enc"].split("/")[0].split(" ")[0]
    for order in (case["typeset"], COMPLETE) if case["typeset"] != COMPLETE else (COMPLETE,):
        ts = typeset_for(order)
        res = outcome(lambda: ts.infer(s))
        withnull = "nulls" if case["nulls"] != "none" else "plain"
        if res[0] == "raises":
            add("%s:%s:%s:raises:%s" % (case["family"], enc_kind, withnull, res[1]),
                "%s as %s (%s missing values) raised %s" % (case["family"], case["enc"], case["nulls"], res[1]))
            continue
        data, path, _ = res[1]
        p = [str(t) for t in path]
        if case["type"] not in p:
            add("%s:%s:%s:not-recognised:%s" % (case["family"], enc_kind, withnull, p[-1]),
                "%s as %s (%s missing values) inferred as %s, expected %s on the path" % (case["family"], case["enc"], case["nulls"], p, case["type"]))
            continue
        if case.get("exact") and p[-1] != case["type"]:
            add("%s:%s:%s:too-specific:%s" % (case["family"], enc_kind, withnull, p[-1]),
                "%s as %s (%s missing values) inferred as %s: narrower than the values allow (expected %s)" % (case["family"], case["enc"], case["nulls"], p, case["type"]))
            continue
        if case["expect"] is not None and isinstance(data, pd.Series):
            col, _ = alpha.column(data)
            if col is not None:
                got = [None if c["n"] else c["pay"] for c in col["cells"]]
                exp = case["expect"]
                if len(got) != len(exp) or any((e is None) != (g is None) or (e is not None and g is not None and not same_pay(e, g))
                                               for e, g in zip(exp, got)):
                    add("%s:%s:%s:values-differ" % (case["family"], enc_kind, withnull),
                        "%s as %s: cast values %s differ from the semantic values %s" % (case["family"], case["enc"], got[:4], exp[:4]))
    return {"fails": fails}


def same_pay(e, g):
    if e == g:
        return True
    if e[0] == "obj" and g[0] == "obj":
        # canonical text of parsed objects: compare case-insensitively for uuid / normalised wkt
        return e[1].lower().replace(" ", "") == g[1].lower().replace(" ", "")
    return False


def _worker(cases):
    G.files_dir()
    out = []
    for c in cases:
        try:
            r = check(c)
        except Exception as e:  # noqa
            import traceback
            r = {"crash": traceback.format_exc()[-600:], "fails": []}
        r["case"] = {k: c[k] for k in ("family", "enc", "nulls")}
        out.append(r)
    return out


def run(tier, seed, rounds=None, nproc=16):
    rng = rng_for(seed, "family")
    rounds = rounds or (2 if tier == "quick" else 30)
    cases = []
    for _ in range(rounds):
        cases += family_cases(rng)
    # empty column is always Generic
    empties = [{"values": [], "dtype": dt} for dt in ("object", "float64", "int64", "str", "bool", "datetime64[ns]", "complex128",
                                                       ["category", False], "Int64", "string")]
    fails = []
    for rec in empties:
        s = G.gamma(rec)
        for order in (STD, COMPLETE):
            r = outcome(lambda: str(typeset_for(order).infer_type(s)))
            if r != ["ok", "Generic"]:
                fails.append({"property": "C07", "signature": "empty-not-generic", "what": "empty %s column inferred as %s" % (rec["dtype"], r), "recipe": rec})
    chunks = [cases[i::nproc] for i in range(nproc)]
    with mp.Pool(nproc) as pool:
        outs = pool.map(_worker, [c for c in chunks if c])
    res = [r for ch in outs for r in ch]
    crashes = [r for r in res if "crash" in r]
    dist = {}
    for r in res:
        k = r["case"]["family"]
        dist[k] = dist.get(k, 0) + 1
        fails += r["fails"]
    nontriv = set(canon([c["family"], c["enc"], c["nulls"], c["recipe"]["values"]]) for c in cases)
    return {"runner": "family", "evaluations": len(cases) + len(empties) * 2, "distinct_nontrivial": len(nontriv),
            "rule": "18 semantic families x their supported encodings (native / nullable dtypes of several widths, float with .0, "
                    "zero-imaginary complex, strings in object / str / string dtype, objects) x missing-value placement "
                    "(none / leading / trailing / interior / both ends) x lengths 1..7; the family's type must lie on the "
                    "inference path and the cast values must equal the semantic values; non-trivial = distinct (family, encoding, "
                    "null pattern, values)",
            "samples": [cases[0]["recipe"], cases[len(cases) // 2]["recipe"]],
            "disagreements": [{"kind": "harness-crash", "trace": c["crash"]} for c in crashes],
            "oracle_failures": fails, "distribution": dist}


if __name__ == "__main__":
    r = run(sys.argv[1] if len(sys.argv) > 1 else "quick", int(sys.argv[2]) if len(sys.argv) > 2 else 0)
    print(r["evaluations"], r["distinct_nontrivial"], len(r["oracle_failures"]), "crashes", len(r["disagreements"]))
    for d in r["disagreements"][:2]:
        print(d["trace"])
    import collections
    c = collections.Counter(f["signature"] for f in r["oracle_failures"])
    ex = {}
    for f in r["oracle_failures"]:
        ex.setdefault(f["signature"], f)
    for k, v in sorted(c.items()):
        print(v, k, "|", ex[k]["what"][:170])

"""Direct property oracles for the pandas backend: literal transcriptions of the properties against the *real*
observations only (no model involved).  Input: one observation record of run_pandas.observe and the typeset orders."""
from common import canon
from run_graph import ALL, id_parent

PARENT = {str(t): (str(id_parent(t)) if id_parent(t) is not None else None) for t in ALL}
CHILDREN = {}
for _t, _p in PARENT.items():
    CHILDREN.setdefault(_p, []).append(_t)
UMBRELLA = ("Numeric", "Sparse")


def nulls_of(col):
    return [c["n"] for c in col["cells"]] if col and "cells" in col else None


def oracle_failures(o, orders, col_obs_equiv):
    """all property failures visible in one observation record; each {property, signature, what, …}"""
    fails = []
    if "crash" in o:
        return fails
    rec = o["recipe"]
    cont = o["contains"]

    def add(prop, sig, what, **kw):
        d = {"property": prop, "signature": sig, "what": what, "recipe": rec}
        d.update(kw)
        fails.append(d)

    # ---- C09: nothing raises -----------------------------------------------------------------------------
    for t, v in cont.items():
        if v[0] == "raises":
            add("C09", "contains %s:%s" % (t, v[1]), "`seq in %s` raised %s" % (t, v[1]))
    for r in o["rels"]:
        if r["guard"][0] == "raises":
            add("C09", "guard %s->%s:%s" % (r["src"], r["dst"], r["guard"][1]),
                "relation test %s->%s raised %s" % (r["src"], r["dst"], r["guard"][1]))
        elif r["guard"] == ["ok", True] and r["xform"][0] == "raises":
            add("C09", "transform %s->%s:%s" % (r["src"], r["dst"], r["xform"][1]),
                "transformer %s->%s raised %s after its relation test accepted" % (r["src"], r["dst"], r["xform"][1]))
    seen_sites = set(f["signature"] for f in fails)
    for i, t in enumerate(o["trav"]):
        for mode in ("infer", "detect"):
            if "raises" in t[mode]:
                site = t[mode].get("site", "?")
                if site not in seen_sites:      # one failure per raising call site, wherever it was reached from
                    seen_sites.add(site)
                    add("C09", site, "%s raised %s (at %s)" % (mode, t[mode]["raises"], site), order=orders[i])
    if cont.get("Generic") != ["ok", True]:
        add("C09", "generic-not-catch-all", "sequence not in Generic")
    # ---- C16: nested membership ------------------------------------------------------------------------
    for t, v in cont.items():
        p = PARENT.get(t)
        if v == ["ok", True] and p is not None and cont.get(p) == ["ok", False]:
            add("C16", "not-nested:%s<%s" % (t, p), "sequence is in %s but not in its identity parent %s" % (t, p))
    # ---- per typeset order ---------------------------------------------------------------------------------
    for i, (t, order) in enumerate(zip(o["trav"], orders)):
        S = set(order)
        det, inf = t["detect"], t["infer"]
        if "path" in det:
            p = det["path"]
            last = p[-1]
            if p[0] != "Generic" or any(PARENT[b] != a for a, b in zip(p, p[1:])) or any(x not in S for x in p):
                add("C01", "path-shape", "detection path %s is not an identity chain from Generic inside the typeset" % p, order=order)
            bad = [x for x in p if cont.get(x) != ["ok", True]]
            if bad:
                add("C01", "path-type-does-not-contain:" + bad[0],
                    "type %s on the detection path does not contain the sequence" % bad[0], order=order)
            deeper = [c for c in CHILDREN.get(last, []) if c in S and cont.get(c) == ["ok", True]]
            if deeper:
                add("C01", "not-most-specific:%s>%s" % (last, deeper[0]),
                    "detected %s although its identity child %s contains the sequence" % (last, deeper[0]), order=order)
            if not det["is_input"]:
                add("C05", "detect-not-identity", "cast_to_detected did not return the input object", order=order)
            # C16 chain: the types of the typeset containing the sequence are exactly the detection path
            if not (S & set(UMBRELLA)):
                members = sorted(x for x in S if cont.get(x) == ["ok", True])
                if members != sorted(p) and not any(f["signature"].startswith("not-nested:") for f in fails):
                    add("C16", "chain:%s" % ",".join(sorted(set(members) ^ set(p))),
                        "types containing the sequence %s are not the detection path %s" % (members, p), order=order)
        if "path" in inf:
            p = inf["path"]
            last = p[-1]
            hops = list(zip(p, p[1:]))
            coerced = any(PARENT[b] != a for a, b in hops)
            if not coerced and not inf["is_input"]:
                add("C05", "infer-not-identity", "no coercion on the path but cast_to_inferred returned another object", order=order)
            if t.get("cast_in_type") != ["ok", True]:
                add("C03", "cast-not-in-inferred:%s" % "/".join(p),
                    "cast data is not contained in the inferred type %s (%s)" % (last, t.get("cast_in_type")), order=order, path=p)
            if t.get("detect_of_cast") != ["ok", last]:
                add("C03", "detect-of-cast:%s" % "/".join(p),
                    "detecting the cast data gives %s, inferred %s" % (t.get("detect_of_cast"), last), order=order, path=p)
            if t.get("infer_of_cast") != ["ok", last]:
                add("C04", "reinfer:%s" % "/".join(p),
                    "inferring the cast data gives %s, first inference %s" % (t.get("infer_of_cast"), last), order=order, path=p)
            if t.get("recast_same") != ["ok", True]:
                add("C04", "recast:%s" % "/".join(p), "casting already-cast data changed it (%s)" % (t.get("recast_same"),), order=order, path=p)
            # C06 shape: length, index, name, null positions
            oc = inf["col"]
            if oc is not None and "cells" in oc and o["col"] is not None:
                ic = o["col"]
                if len(oc["cells"]) != len(ic["cells"]):
                    add("C06", "length:%s" % "/".join(p), "cast changed the length %d -> %d" % (len(ic["cells"]), len(oc["cells"])), order=order, path=p)
                else:
                    if oc["index"] != ic["index"] or oc["name"] != ic["name"]:
                        add("C06", "index-name:%s" % "/".join(p), "cast changed index labels or name", order=order, path=p)
                    if nulls_of(oc) != nulls_of(ic):
                        add("C06", "null-positions:%s" % "/".join(p), "cast moved, dropped or created missing values", order=order, path=p)
    # ---- C02: sibling exclusivity on the original data at every type that contains it ---------------------
    accepted = {}
    for t, v in cont.items():
        p = PARENT.get(t)
        if v == ["ok", True] and p is not None and t not in UMBRELLA:
            accepted.setdefault(p, []).append(t)
    for r in o["rels"]:
        if r["guard"] == ["ok", True] and r["dst"] not in UMBRELLA:
            accepted.setdefault(r["src"], []).append(r["dst"])
    overlaps = 0
    for n, acc in accepted.items():
        acc = sorted(set(acc))
        if cont.get(n) == ["ok", True] and len(acc) > 1:
            for i in range(len(acc)):
                for j in range(i + 1, len(acc)):
                    overlaps += 1
                    add("C02", "overlap:%s:%s+%s" % (n, acc[i], acc[j]),
                        "at %s both %s and %s accept the data (all accepting: %s)" % (n, acc[i], acc[j], acc))
    # same type set, different orders: orders[1..3] are CompleteSet.  (Reported on its own only when no overlap
    # explains it: an overlap *is* the reason the answer depends on the order.)
    views = []
    for i in (1, 2, 3):
        if i < len(o["trav"]):
            inf = o["trav"][i]["infer"]
            views.append(canon([inf.get("path"), col_obs_equiv(inf.get("col")) if "col" in inf else None, inf.get("raises")]))
    raised = any("raises" in o["trav"][i]["infer"] for i in (1, 2, 3) if i < len(o["trav"]))
    if len(set(views)) > 1 and overlaps == 0 and not raised:
        ps = [o["trav"][i]["infer"].get("path", o["trav"][i]["infer"].get("raises")) for i in (1, 2, 3)]
        add("C02", "order-dependent-without-overlap",
            "inference differs between enumeration orders of the same typeset: %s" % ps)
    # ---- C15: refinement (orders[0] = StandardSet ⊆ orders[1] = CompleteSet; orders[4] ⊆ CompleteSet) -----
    for ia, ib in ((0, 1), (4, 1), (5, 1), (6, 1), (7, 1)):
        if ia < len(o["trav"]) and set(orders[ia]) <= set(orders[ib]):
            A = set(orders[ia])
            da, db = o["trav"][ia]["detect"], o["trav"][ib]["detect"]
            if "path" in da and "path" in db:
                want = [x for x in db["path"] if x in A][-1]
                if da["path"][-1] != want:
                    add("C15", "detect-projection:%s!=%s" % (da["path"][-1], want),
                        "detect in the sub-typeset gives %s, the deepest type of the larger path %s inside it is %s" % (da["path"][-1], db["path"], want))
            fa, fb = o["trav"][ia]["infer"], o["trav"][ib]["infer"]
            if "path" in fa and "path" in fb and overlaps == 0:     # the refinement theorem presupposes exclusivity
                if fb["path"][:len(fa["path"])] != fa["path"]:
                    add("C15", "infer-not-prefix:%s|%s" % ("/".join(fa["path"]), "/".join(fb["path"])),
                        "inference path of the sub-typeset %s is not a prefix of the larger one's %s" % (fa["path"], fb["path"]))
    # ---- C03/C06 per relation -------------------------------------------------------------------------------
    for r in o["rels"]:
        if r["guard"] == ["ok", True] and r["xform"] and r["xform"][0] == "ok":
            if r.get("xform_in_dst") != ["ok", True]:
                add("C03", "lands:%s->%s" % (r["src"], r["dst"]),
                    "coercion %s->%s does not land in %s (%s)" % (r["src"], r["dst"], r["dst"], r.get("xform_in_dst")))
            if not r.get("same_len"):
                add("C06", "rel-length:%s->%s" % (r["src"], r["dst"]), "coercion changed the length")
            elif not r.get("same_index"):
                add("C06", "rel-index-name:%s->%s" % (r["src"], r["dst"]), "coercion changed index labels or name")
            oc = r["xform"][1]
            if o["col"] is not None and "cells" in oc and len(oc["cells"]) == len(o["col"]["cells"]):
                if nulls_of(oc) != nulls_of(o["col"]):
                    add("C06", "rel-null-positions:%s->%s" % (r["src"], r["dst"]), "coercion moved, dropped or created missing values")
                # losslessness of the accepting guard, stated on the input payloads
                for ci, co in zip(o["col"]["cells"], oc["cells"]):
                    if ci["n"]:
                        continue
                    pi = ci["pay"]
                    if (r["src"], r["dst"]) == ("Float", "Integer") and pi[0] == "float":
                        v = pi[1]
                        if not (isinstance(v, list) and v[1] == 0) or co["pay"] != ["int", v[0]]:
                            add("C06", "lossy:Float->Integer", "non-integral or out-of-range float %s became %s" % (v, co["pay"]))
                            break
                    if (r["src"], r["dst"]) == ("Complex", "Float") and pi[0] == "complex":
                        if pi[2] not in (["0", 0],) or co["pay"] != ["float", pi[1]]:
                            add("C06", "lossy:Complex->Float", "complex %s became %s" % (pi, co["pay"]))
                            break
                    if (r["src"], r["dst"]) == ("DateTime", "Date") and pi[0] == "ts":
                        if pi[2] != "0" or co["pay"] != ["date", pi[1]]:
                            add("C06", "lossy:DateTime->Date", "timestamp %s became %s" % (pi, co["pay"]))
                            break
                    if r["src"] == "String" and ci["str"] is not None:
                        f = ci["str"]
                        exp = None
                        if r["dst"] == "Float" and f["f"][0] == "ok":
                            exp = ["float", f["f"][1]]
                        if r["dst"] == "Boolean" and f["bk"] is not None:
                            exp = ["bool", f["bk"][1]]
                        if r["dst"] == "IPAddress" and f["ip"][0] == "ok":
                            exp = ["obj", f["ip"][1][1]]
                        if r["dst"] == "UUID" and f["uuid"][0] == "ok":
                            exp = ["obj", f["uuid"][1]]
                        if r["dst"] == "Geometry" and f["wkt"][0] == "ok":
                            exp = ["obj", f["wkt"][1][1]]
                        if r["dst"] == "URL" and f["url"][0] == "ok":
                            exp = ["obj", f["url"][1][2]]
                        if r["dst"] == "EmailAddress" and f["em"][0] == "ok":
                            exp = ["obj", f["em"][1]]
                        if r["dst"] == "Complex" and f["c"][0] == "ok":
                            exp = ["complex"] + f["c"][1]
                        if exp is not None and not co["n"] and co["pay"] != exp:
                            add("C06", "decode:String->%s" % r["dst"], "element decoded to %s, the parser gives %s" % (co["pay"], exp))
                            break
    # traversal-level C06 failures are consequences of relation-level ones when those exist
    if any(f["property"] == "C06" and f["signature"].startswith(("rel-", "lossy", "decode")) for f in fails):
        fails[:] = [f for f in fails if not (f["property"] == "C06" and f["signature"].startswith(("null-positions:", "index-name:", "length:")))]
    if o.get("mutated"):
        add("C05", "mutated:" + o["mutated"][0].split(" ")[0], "the caller's data was modified by: %s" % o["mutated"][:3])
    return fails

"""numpy-array and Python-list runner: direct property oracles (C01, C03, C04, C05, C09, C11, C16) on the real code.
These two back ends have no Lean model yet (DESIGN §12): the engine theorems apply to them as to any type system, the
per-backend obligations are checked here by oracle only.  Signatures are prefixed with the backend name."""
import copy
import itertools
import json
import multiprocessing as mp
import sys
import warnings

import numpy as np
import pandas as pd

import gen_pandas as G
from common import canon, rng_for

warnings.simplefilter("ignore")
import visions  # noqa: E402
from run_graph import ALL, id_parent  # noqa: E402
from run_pandas import typeset_for, outcome  # noqa: E402
from visions.typesets import CompleteSet, StandardSet  # noqa: E402

STD = sorted(str(t) for t in StandardSet().types)
COMPLETE = sorted(str(t) for t in CompleteSet().types)
PARENT = {str(t): (str(id_parent(t)) if id_parent(t) is not None else None) for t in ALL}
NUMPY_TYPES = [t for t in ALL if str(t) in STD]


def build(recipe, backend):
    vals = [G.gamma_value(v) for v in recipe["values"]]
    if backend == "list":
        return list(vals)
    if backend == "tuple":
        return tuple(vals)
    dt = recipe.get("npdtype")
    if dt == "object":
        a = np.empty(len(vals), dtype=object)
        for i, v in enumerate(vals):
            a[i] = v
        return a
    return np.array(vals) if dt is None else np.array(vals, dtype=dt)


def snap(x):
    if isinstance(x, np.ndarray):
        return (str(x.dtype), x.shape, [repr(v) for v in x.tolist()], [id(v) for v in x] if x.dtype == object else None)
    return (type(x).__name__, [repr(v) for v in x], [id(v) for v in x])


def same_data(a, b):
    try:
        if isinstance(a, np.ndarray) or isinstance(b, np.ndarray):
            return isinstance(a, np.ndarray) and isinstance(b, np.ndarray) and a.dtype == b.dtype and \
                a.shape == b.shape and [repr(v) for v in a.tolist()] == [repr(v) for v in b.tolist()]
        return type(a) is type(b) and [repr(v) for v in a] == [repr(v) for v in b]
    except Exception:
        return False


def elem_facts(v):
    """the `isinstance` facts of one element (the abstraction the Lean model of the list back end works on)"""
    import datetime as _dt, ipaddress, numbers, pathlib, urllib.parse, uuid as _uuid

    def safe(fn):
        try:
            return bool(fn())
        except Exception:  # noqa
            return False
    f = {"none": v is None, "bool": isinstance(v, bool), "int": isinstance(v, int), "float": isinstance(v, float),
         "complex": isinstance(v, complex), "number": isinstance(v, numbers.Number), "str": isinstance(v, str),
         "datetime": isinstance(v, _dt.datetime), "date": isinstance(v, _dt.date), "time": isinstance(v, _dt.time),
         "timedelta": isinstance(v, _dt.timedelta), "purepath": isinstance(v, pathlib.PurePath),
         "path": isinstance(v, pathlib.Path), "parseresult": isinstance(v, urllib.parse.ParseResult),
         "uuid": isinstance(v, _uuid.UUID), "ip": isinstance(v, ipaddress._BaseAddress)}
    f["nonneg"] = f["int"] and safe(lambda: v >= 0)
    f["abs"] = f["purepath"] and safe(lambda: v.is_absolute())
    f["exists"] = f["path"] and safe(lambda: v.exists())
    f["image"] = f["exists"] and safe(lambda: __import__("alpha")._path_image(v))
    try:
        from shapely.geometry.base import BaseGeometry
        f["geom"] = issubclass(type(v), BaseGeometry)
    except Exception:  # noqa
        f["geom"] = False
    try:
        from visions.backends.python.types.email_address import FQDA
    except Exception:  # noqa
        from visions.types.email_address import FQDA
    f["fqda"] = isinstance(v, FQDA)
    f.update(conv_facts(v, FQDA))
    return f


OBS_BITS = ("none", "bool", "int", "float", "complex", "str", "datetime", "date", "purepath", "abs", "parseresult", "uuid", "fqda", "geom", "ip")


def conv_facts(v, FQDA):
    """results of the element conversions the list back end's relations apply, computed with the library functions themselves"""
    import contextlib, datetime as _dt, io, ipaddress, pathlib, urllib.parse, uuid as _uuid
    from alpha import fl, outcome as oc

    def lower_tf():
        lo = v.lower()
        return (lo == "true") if lo in {"true", "false"} else None

    def wkt_truth():
        from shapely import wkt
        with contextlib.redirect_stderr(io.StringIO()):
            return bool(wkt.loads(v))
    return {"lo": oc(lower_tf), "f": oc(lambda: fl(float(v))), "z": oc(lambda: bool(v[0] == "0")),
            "c": oc(lambda: (lambda z: [fl(z.real), fl(z.imag)])(complex(v))),
            "strp": oc(lambda: _dt.datetime.strptime(v, "%Y-%m-%d %H:%M:%S").time() == _dt.time(0, 0)),
            "url": oc(lambda: (lambda r: bool(r.netloc and r.scheme))(urllib.parse.urlparse(v))),
            "uuidp": oc(lambda: (_uuid.UUID(v), None)[1]), "ipp": oc(lambda: (ipaddress.ip_address(v), None)[1]),
            "email": oc(lambda: (lambda e: bool(e.local and e.fqdn))(FQDA(*v.split("@", maxsplit=1)))),
            "wkt": oc(wkt_truth), "win": oc(lambda: bool(pathlib.PureWindowsPath(v).is_absolute())),
            "px": oc(lambda: bool(pathlib.PurePosixPath(v).is_absolute())),
            "fv": fl(v) if isinstance(v, float) else None,
            "cv": [fl(v.real), fl(v.imag)] if isinstance(v, complex) else None,
            "mid": oc(lambda: bool(v.time() == _dt.time(0, 0)))}


def elem_obs(v):
    """what is compared of one element of a cast sequence"""
    f = elem_facts(v)
    return {"b": sorted(k for k in OBS_BITS if f.get(k)), "fv": f["fv"], "cv": f["cv"]}


def seq_obs(x):
    if not isinstance(x, (list, tuple)):
        return {"notseq": type(x).__name__}
    return [elem_obs(v) for v in x]


LIST_RELS = None


def list_rels():
    global LIST_RELS
    if LIST_RELS is None:
        LIST_RELS = [(r.related_type, t) for t in ALL for r in t.relations if r.inferential]
    return LIST_RELS


def list_view(x, v, ts):
    rels = []
    for src, dst in list_rels():
        if v["mem"].get(str(src)) != ["ok", True]:
            continue
        rel = dst.relations[src]
        gv = outcome(lambda: bool(rel.is_relation(x, {})))
        ent = {"src": str(src), "dst": str(dst), "guard": gv, "xform": None}
        if gv == ["ok", True]:
            o = outcome(lambda: rel.transform(x, {}))
            ent["xform"] = ["ok", seq_obs(o[1])] if o[0] == "ok" else o
        rels.append(ent)
    o = outcome(lambda: ts.infer(x)[:2])
    inf = {"path": [str(t) for t in o[1][1]], "seq": seq_obs(o[1][0])} if o[0] == "ok" else {"raises": o[1]}
    return {"rels": rels, "infer": inf}


def list_compare(o, resp):
    diffs = []
    def norm(seq):
        return [dict(e, b=sorted(e["b"])) for e in seq] if isinstance(seq, list) else seq
    mrel = {(r["src"], r["dst"]): r for r in resp.get("rels", [])}
    for m_ in mrel.values():
        if isinstance(m_.get("xform"), list) and m_["xform"][0] == "ok":
            m_["xform"][1] = norm(m_["xform"][1])
    if "seq" in resp["trav"][0].get("infer", {}):
        resp["trav"][0]["infer"]["seq"] = norm(resp["trav"][0]["infer"]["seq"])
    for r in o["lv"]["rels"]:
        m = mrel.get((r["src"], r["dst"]))
        name = "%s->%s" % (r["src"], r["dst"])
        if m is None:
            diffs.append({"what": "relation-missing", "rel": name})
        elif m["guard"] != r["guard"]:
            diffs.append({"what": "guard", "rel": name, "real": r["guard"], "model": m["guard"]})
        elif r["guard"] == ["ok", True]:
            mx, rx = m["xform"], r["xform"]
            if (mx or [None])[0] != (rx or [None])[0] or (rx[0] == "raises" and mx[1] != rx[1]):
                diffs.append({"what": "xform-outcome", "rel": name, "real": rx and rx[:2], "model": mx and mx[:2]})
            elif rx[0] == "ok" and mx[1] != rx[1]:
                diffs.append({"what": "xform", "rel": name, "real": rx[1], "model": mx[1]})
    a, b = o["lv"]["infer"], resp["trav"][0].get("infer", {})
    if "raises" in a or "raises" in b:
        if a.get("raises") != b.get("raises"):
            diffs.append({"what": "infer-outcome", "real": a.get("raises", "ok"), "model": b.get("raises", "ok")})
    elif a["path"] != b["path"]:
        diffs.append({"what": "infer-path", "real": a["path"], "model": b["path"]})
    elif a["seq"] != b["seq"]:
        diffs.append({"what": "infer-data", "real": a["seq"], "model": b["seq"]})
    return diffs


NP_RELS = None


def np_rels():
    """the inference relations the numpy back end registers (source, target), in table order"""
    global NP_RELS
    if NP_RELS is None:
        NP_RELS = []
        for t in ALL:
            for r in t.relations:
                if r.inferential and any(k[0] is np.ndarray for k in r.relationship.keys()):
                    NP_RELS.append((r.related_type, t))
    return NP_RELS


def np_view(x, v, order):
    import alpha_np as A
    arr = A.array(x)
    if arr is None:
        return None
    dtm, dtw = A.dt_oracles(x, arr)
    rels = []
    for src, dst in np_rels():
        if v["mem"].get(str(src)) != ["ok", True]:
            continue
        rel = dst.relations[src]
        gv = outcome(lambda: bool(rel.is_relation(x, {})))
        ent = {"src": str(src), "dst": str(dst), "guard": gv, "xform": None}
        if gv == ["ok", True]:
            o = outcome(lambda: rel.transform(x, {}))
            ent["xform"] = ["ok", A.observable(A.array(o[1]))] if o[0] == "ok" else o
        rels.append(ent)
    trav = []
    for od in (order, list(reversed(order))):
        ts2 = typeset_for(od)
        ent = {}
        for mode in ("infer", "detect"):
            o = outcome(lambda: (ts2.infer(x) if mode == "infer" else ts2.detect(x))[:2])
            if o[0] == "ok":
                ent[mode] = {"path": [str(t) for t in o[1][1]], "arr": A.observable(A.array(o[1][0]))}
            else:
                ent[mode] = {"raises": o[1]}
        trav.append(ent)
    return {"arr": arr, "dtMasked": dtm, "dtWhole": dtw, "rels": rels, "trav": trav, "orders": [order, list(reversed(order))]}


def np_compare(o, resp):
    """differences between the real numpy back end and the Lean model on one array"""
    diffs = []
    for t, m in o["mem"].items():
        if m[0] == "ok" and resp["contains"].get(t) != m[1]:
            diffs.append({"what": "contains", "type": t, "real": m[1], "model": resp["contains"].get(t)})
    mrel = {(r["src"], r["dst"]): r for r in resp["rels"]}
    for r in o["np"]["rels"]:
        m = mrel.get((r["src"], r["dst"]))
        if m is None:
            diffs.append({"what": "relation-missing", "rel": "%s->%s" % (r["src"], r["dst"])})
            continue
        if m["guard"] != r["guard"]:
            diffs.append({"what": "guard", "rel": "%s->%s" % (r["src"], r["dst"]), "real": r["guard"], "model": m["guard"]})
        elif r["guard"] == ["ok", True]:
            mx, rx = m["xform"], r["xform"]
            if (mx or [None])[0] != (rx or [None])[0]:
                diffs.append({"what": "xform-outcome", "rel": "%s->%s" % (r["src"], r["dst"]), "real": rx and rx[:2], "model": mx and mx[:2]})
            elif rx[0] == "ok" and mx[1] != rx[1]:
                diffs.append({"what": "xform", "rel": "%s->%s" % (r["src"], r["dst"]), "real": rx[1], "model": mx[1]})
            elif rx[0] == "raises" and mx[1] != rx[1]:
                diffs.append({"what": "xform-outcome", "rel": "%s->%s" % (r["src"], r["dst"]), "real": rx, "model": mx})
    for real, model in zip(o["np"]["trav"], resp["trav"]):
        for mode in ("infer", "detect"):
            a, b = real[mode], model.get(mode, {})
            if "raises" in a or "raises" in b:
                if a.get("raises") != b.get("raises"):
                    diffs.append({"what": mode + "-outcome", "real": a.get("raises", "ok"), "model": b.get("raises", "ok")})
            elif a["path"] != b["path"]:
                diffs.append({"what": mode + "-path", "real": a["path"], "model": b["path"]})
            elif a["arr"] != b["arr"]:
                diffs.append({"what": mode + "-data", "real": a["arr"], "model": b["arr"]})
    return diffs


def view(x, ts, types):
    mem = {str(t): outcome(lambda: bool(x in t)) for t in types}
    return {"mem": mem, "detect": outcome(lambda: str(ts.detect_type(x))), "infer": outcome(lambda: str(ts.infer_type(x)))}


def observe(recipe, backend):
    fails = []
    order = STD if backend == "numpy" else COMPLETE
    types = NUMPY_TYPES if backend == "numpy" else [t for t in ALL if str(t) in COMPLETE]
    ts = typeset_for(order)
    container = recipe.get("container", backend)
    x = build(recipe, container)
    s0 = snap(x)
    pre = backend + ":"

    def add(prop, sig, what):
        fails.append({"property": prop, "signature": pre + sig, "what": "[%s] %s" % (backend, what), "recipe": recipe})

    v = view(x, ts, types)
    if snap(x) != s0:
        add("C05", "mutated:membership-or-typing", "input modified by membership / detect_type / infer_type")
    for t, m in v["mem"].items():
        if m[0] == "raises":
            add("C09", "contains %s:%s" % (t, m[1]), "`seq in %s` raised %s" % (t, m[1]))
    if v["mem"].get("Generic") != ["ok", True]:
        add("C09", "generic-not-catch-all", "sequence not in Generic")
    # detect
    d = outcome(lambda: ts.detect(x))
    if d[0] == "raises":
        add("C09", "detect:%s" % d[1], "detect raised %s" % d[1])
    else:
        data, path, _ = d[1]
        p = [str(t) for t in path]
        if data is not x:
            add("C05", "detect-not-identity", "cast_to_detected did not return the input object")
        if p[0] != "Generic" or any(PARENT[b] != a for a, b in zip(p, p[1:])):
            add("C01", "path-shape", "detection path %s is not an identity chain from Generic" % p)
        bad = [t for t in p if v["mem"].get(t) != ["ok", True]]
        if bad:
            add("C01", "path-type-does-not-contain:" + bad[0], "type %s on the detection path does not contain the sequence" % bad[0])
        deeper = [str(t) for t in types if PARENT[str(t)] == p[-1] and v["mem"].get(str(t)) == ["ok", True]]
        if deeper:
            add("C01", "not-most-specific:%s>%s" % (p[-1], deeper[0]), "detected %s although child %s contains the sequence" % (p[-1], deeper[0]))
        if backend == "numpy":
            for t, m in v["mem"].items():
                pa = PARENT.get(t)
                if m == ["ok", True] and pa is not None and v["mem"].get(pa) == ["ok", False]:
                    add("C16", "not-nested:%s<%s" % (t, pa), "array is in %s but not in its parent %s" % (t, pa))
            # ... and the containing types form one chain: of any two, one is an identity ancestor of the other
            def anc(t):
                out = []
                while t is not None:
                    out.append(t)
                    t = PARENT.get(t)
                return out
            inn = sorted(t for t, m in v["mem"].items() if m == ["ok", True])
            for i, a in enumerate(inn):
                for b2 in inn[i + 1:]:
                    if a not in anc(b2) and b2 not in anc(a):
                        add("C16", "not-a-chain:%s|%s" % (a, b2), "array is in %s and in %s, neither of which is an ancestor of the other" % (a, b2))
            if set(inn) != set(p):
                add("C16", "membership-vs-path", "types containing the array %s differ from the detection path %s" % (inn, p))
    # C02 (numpy only: the property excludes Python lists): at every type that contains the sequence, at most one
    # outgoing relation (identity child's membership test or inference relation's test) accepts it
    if backend == "numpy":
        accepted = {}
        for t in types:
            pa = PARENT.get(str(t))
            if pa is not None and v["mem"].get(str(t)) == ["ok", True]:
                accepted.setdefault(pa, []).append(str(t))
            elif pa is not None and v["mem"].get(pa) == ["ok", True]:
                # the traversal asks the RELATION object (not `in`): a test that answers differently there counts too
                try:
                    idrel = [r for r in t.relations if not r.inferential and str(r.related_type) == pa]
                    if idrel and outcome(lambda: bool(idrel[0].is_relation(x, {}))) == ["ok", True]:
                        accepted.setdefault(pa, []).append(str(t))
                except Exception:  # noqa
                    pass
            for r in t.relations:
                if r.inferential and str(r.related_type) in v["mem"] and v["mem"].get(str(r.related_type)) == ["ok", True]:
                    if outcome(lambda: bool(r.is_relation(x, {}))) == ["ok", True]:
                        accepted.setdefault(str(r.related_type), []).append(str(t))
        for node, acc in accepted.items():
            acc = sorted(set(acc))
            if v["mem"].get(node) == ["ok", True] and len(acc) > 1:
                add("C02", "overlap:%s:%s" % (node, "+".join(acc[:2])), "at %s both %s and %s accept the sequence (all accepting: %s)" % (node, acc[0], acc[1], acc))
    # ... and the answer does not depend on the order in which the types are supplied (C02; for lists, which C02
    # excludes, an order-dependent answer is checked against C15's statement directly: the answer of the parent-closed
    # sub-typeset spanned by one answer must lie on the other order's path / be a source of its inferred type)
    # (an order-dependent answer that is the CONSEQUENCE of an overlap reported above is not reported separately)
    has_overlap = any(f["signature"].startswith(pre + "overlap:") for f in fails)
    for alt_order in (list(reversed(order)), order[1::2] + order[0::2]):
        if has_overlap:
            break
        ts2 = typeset_for(alt_order)
        for k, fn in (("detect", lambda: str(ts2.detect_type(x))), ("infer", lambda: str(ts2.infer_type(x)))):
            w = outcome(fn)
            if w != v[k] and w[0] == "ok" and v[k][0] == "ok":
                if backend == "numpy":
                    add("C02", "order:%s:%s|%s" % (k, min(w[1], v[k][1]), max(w[1], v[k][1])),
                        "%s_type depends on the supply order of the types: %s vs %s" % (k, v[k][1], w[1]))
                # A = parent closure of the first answer (a parent-closed subset of B = the same types, other order)
                # (the types on the first order's path and their identity ancestors)
                p1 = outcome(lambda: [str(q) for q in (ts.detect(x) if k == "detect" else ts.infer(x))[1]])
                a_names = []
                for t in (p1[1] if p1[0] == "ok" else [v[k][1]]):
                    while t is not None and t not in a_names:
                        a_names.append(t)
                        t = PARENT[t]
                tsa = typeset_for(sorted(a_names))
                if k == "detect":
                    da = outcome(lambda: str(tsa.detect_type(x)))
                    pb = outcome(lambda: [str(q) for q in ts2.detect(x)[1]])
                    if da[0] == "ok" and pb[0] == "ok":
                        deepest = [q for q in pb[1] if q in a_names][-1]
                        if da[1] != deepest:
                            add("C15", "detect-not-projection:%s|%s" % (min(da[1], deepest), max(da[1], deepest)),
                                "A=%s detects %s; B=CompleteSet (another supply order) has detection path %s whose deepest type in A is %s"
                                % (sorted(a_names), da[1], pb[1], deepest))
                else:
                    import networkx as nx
                    ia = outcome(lambda: str(tsa.infer_type(x)))
                    if ia[0] == "ok":
                        g = ts2.relation_graph
                        byname = {str(q): q for q in g.nodes}
                        if not nx.has_path(g, byname[ia[1]], byname[w[1]]):
                            add("C15", "infer-not-reachable:%s|%s" % (min(ia[1], w[1]), max(ia[1], w[1])),
                                "A=%s infers %s; B=CompleteSet (another supply order) infers %s, which is not reachable from it along B's relations"
                                % (sorted(a_names), ia[1], w[1]))
    # infer
    inf = outcome(lambda: ts.infer(x))
    if snap(x) != s0:
        add("C05", "mutated:infer", "input modified by infer")
    if inf[0] == "raises":
        from run_pandas import locate_raise
        site = locate_raise(ts, x, True)
        add("C09", "infer:%s" % site, "infer raised %s (%s)" % (inf[1], site))
    else:
        data, path, _ = inf[1]
        p = [str(t) for t in path]
        last = path[-1]
        key = "/".join(p)
        coerced = any(PARENT[b] != a for a, b in zip(p, p[1:]))
        if not coerced and data is not x:
            add("C05", "infer-not-identity", "no coercion on the path but cast_to_inferred returned another object")
        if not isinstance(data, (np.ndarray, list, tuple)):
            add("C03", "cast-not-a-sequence:%s" % key, "cast data is a %s, not a sequence" % type(data).__name__)
        else:
            cin = outcome(lambda: bool(data in last))
            if cin != ["ok", True]:
                add("C03", "cast-not-in-inferred:%s" % key, "cast data not contained in inferred type %s (%s)" % (last, cin))
            doc = outcome(lambda: str(ts.detect_type(data)))
            if doc != ["ok", str(last)]:
                add("C03", "detect-of-cast:%s" % key, "detecting the cast data gives %s, inferred %s" % (doc, last))
            ioc = outcome(lambda: str(ts.infer_type(data)))
            if ioc != ["ok", str(last)]:
                add("C04", "reinfer:%s" % key, "inferring the cast data gives %s, first %s" % (ioc, last))
            rc = outcome(lambda: ts.cast_to_inferred(data))
            if rc[0] == "raises" or not (rc[1] is data or same_data(rc[1], data)):
                add("C04", "recast:%s" % key, "casting already-cast data changed it")
            # C06 (length, order and element decoding): string encodings decode to exactly the value they spell
            svals = [v[1] for v in recipe["values"] if v[0] == "str"]
            if len(svals) == len(recipe["values"]) and svals and str(last) in ("Boolean", "Float", "Integer", "Count", "Complex"):
                TRUE, FALSE = {"true", "yes", "y"}, {"false", "no", "n"}
                try:
                    if str(last) == "Boolean":
                        want_vals = [True if v.lower() in TRUE else False if v.lower() in FALSE else "?" for v in svals]
                    elif str(last) in ("Integer", "Count"):
                        want_vals = [int(float(v)) for v in svals]
                    elif str(last) == "Float":
                        want_vals = [float(v) for v in svals]
                    else:
                        want_vals = [complex(v) for v in svals]
                    got_vals = [v.item() if hasattr(v, "item") else v for v in list(data)]
                    same = len(got_vals) == len(want_vals) and all(
                        (g == w or (g != g and w != w)) and not (isinstance(w, bool) != isinstance(g, (bool, np.bool_)) and str(last) == "Boolean")
                        for g, w in zip(got_vals, want_vals))
                    if "?" not in want_vals and not same:
                        add("C06", "decode:%s" % last, "strings %s inferred %s but cast to %s, their exact decoding is %s"
                            % (svals[:4], last, got_vals[:4], want_vals[:4]))
                except (ValueError, OverflowError):
                    pass
            # C06 for numbers: a coercion between numeric types keeps every value (3+1e-12j is not 3; 1e300 is not INT_MIN)
            if coerced and recipe["values"] and all(v[0] in ("int", "float", "complex", "bool") for v in recipe["values"]):
                try:
                    orig = [v.item() if hasattr(v, "item") else v for v in list(x)]
                    got_n = [v.item() if hasattr(v, "item") else v for v in list(data)]
                    if len(orig) == len(got_n):
                        bad = [(o, g) for o, g in zip(orig, got_n) if o == o and g == g and not (g == o)]
                        if bad:
                            add("C06", "numeric-values:%s" % key, "numbers %s were cast to %s along %s" % (
                                [repr(b[0]) for b in bad[:3]], [repr(b[1]) for b in bad[:3]], key))
                except Exception:
                    pass
            try:
                n_in, n_out = len(x), len(data)
                if n_in != n_out:
                    hop = "Float->Integer" if (backend == "numpy" and "Integer" in p and "Float" in p) else key
                    add("C06", "length:%s" % hop, "cast changed the length %d -> %d (path %s)" % (n_in, n_out, key))
            except Exception:
                pass
    # C15, detection clause, directly: for the typeset without one type of the detection path (and its identity descendants) the
    # answer is the deepest type of B's detection path that remains
    if d[0] == "ok":
        pD = [str(t) for t in d[1][1]]
        for tname in pD[1:]:
            drop = {tname}
            changed = True
            while changed:
                changed = False
                for q, pa in PARENT.items():
                    if pa in drop and q not in drop and q in order:
                        drop.add(q)
                        changed = True
            a_names = [q for q in order if q not in drop]
            tsa = typeset_for(sorted(a_names))
            da = outcome(lambda: str(tsa.detect_type(x)))
            deepest = [q for q in pD if q in a_names][-1]
            if da[0] == "ok" and da[1] != deepest:
                add("C15", "detect-not-projection:%s|%s" % (min(da[1], deepest), max(da[1], deepest)),
                    "A = B minus %s detects %s; B's detection path is %s, whose deepest type in A is %s" % (sorted(drop), da[1], pD, deepest))
                break
    # C15, directly: drop one type of the inference path (with its identity descendants) from the typeset — a parent-closed
    # sub-typeset A of B — and require that B's answer is reachable from A's answer along B's relations
    if inf[0] == "ok" and not has_overlap:
        import networkx as nx
        pB = [str(t) for t in inf[1][1]]
        gB = ts.relation_graph
        byname = {str(q): q for q in gB.nodes}
        for tname in pB[1:]:
            drop = {tname}
            changed = True
            while changed:
                changed = False
                for q, pa in PARENT.items():
                    if pa in drop and q not in drop and q in order:
                        drop.add(q)
                        changed = True
            a_names = [q for q in order if q not in drop]
            tsa = typeset_for(sorted(a_names))
            ia = outcome(lambda: str(tsa.infer_type(x)))
            if ia[0] == "ok" and ia[1] in byname and not nx.has_path(gB, byname[ia[1]], byname[pB[-1]]):
                add("C15", "infer-not-reachable:%s|%s" % (min(ia[1], pB[-1]), max(ia[1], pB[-1])),
                    "A = B minus %s infers %s; B infers %s (path %s), which is not reachable from it along B's relations"
                    % (sorted(drop), ia[1], pB[-1], pB))
                break
    # C11: permutations / repetition
    vals = recipe["values"]
    n = len(vals)
    perms = [list(q) for q in itertools.permutations(range(n))][1:] if n <= 3 else [list(reversed(range(n)))]
    variants = [("perm", [vals[i] for i in q]) for q in perms] + [("repeat", vals * 2)]
    for kind, vv in variants:
        if kind == "repeat" and n == 0:
            continue
        r2 = dict(recipe)
        r2["values"] = vv
        try:
            y = build(r2, container)
        except Exception:
            continue
        if backend == "numpy" and isinstance(x, np.ndarray) and y.dtype != x.dtype:
            continue
        w = view(y, ts, types)
        for t in w["mem"]:
            if w["mem"][t] != v["mem"][t] and w["mem"][t][0] == "ok" and v["mem"][t][0] == "ok":
                add("C11", "%s:contains:%s" % (kind, t), "%s changes membership of %s" % (kind, t))
                break
        for k in ("detect", "infer"):
            if w[k] != v[k] and w[k][0] == "ok" and v[k][0] == "ok":
                add("C11", "%s:%s:%s|%s" % (kind, k, min(v[k][1], w[k][1]), max(v[k][1], w[k][1])), "%s changes %s_type: %s -> %s" % (kind, k, v[k][1], w[k][1]))
    # C05 / C10: the caller edits the same container in place between two calls on the same typeset; the second answer
    # must be that of the new contents (same as a fresh typeset on an equal fresh container), and when no coercion
    # applies to the new contents the very same object comes back
    if n >= 1:
        x1 = build(recipe, container)
        _ = outcome(lambda: ts.infer(x1))
        _ = outcome(lambda: ts.cast_to_inferred(x1))
        edited = True
        try:
            if isinstance(x1, list):
                x1[:] = ["plain text %d" % i for i in range(len(x1))]
            elif isinstance(x1, np.ndarray) and x1.dtype == object:
                x1[:] = "plain text"
            elif isinstance(x1, np.ndarray) and x1.dtype.kind == "f":
                x1[:] = 1.5
            elif isinstance(x1, np.ndarray) and x1.dtype.kind == "U":
                x1[:] = "zz"
            else:
                edited = False
        except Exception:
            edited = False
        if edited:
            import copy as _copy
            from visions.typesets import VisionsTypeset
            from run_graph import BYNAME, ordered_sets
            with ordered_sets():
                fresh = VisionsTypeset([BYNAME[k] for k in order])
            y1 = _copy.copy(x1)
            want = outcome(lambda: [str(t) for t in fresh.infer(y1)[1]])
            got = outcome(lambda: ts.infer(x1))
            if got[0] == "ok" and want[0] == "ok":
                gp = [str(t) for t in got[1][1]]
                if gp != want[1]:
                    add("C05", "stale-after-edit", "after an in-place edit the same typeset answers %s for contents a fresh typeset types as %s" % (gp, want[1]))
                    add("C10", "stale-after-edit", "result depends on an earlier call on the same container: %s vs %s" % (gp, want[1]))
                elif not any(PARENT[b] != a for a, b in zip(gp, gp[1:])):
                    back = outcome(lambda: ts.cast_to_inferred(x1))
                    if back[0] == "ok" and back[1] is not x1:
                        add("C05", "stale-after-edit", "no coercion applies after the in-place edit but cast_to_inferred returned another object")
    out = {"fails": fails, "infer": inf[1][1] and [str(t) for t in inf[1][1]] if inf[0] == "ok" else inf[1]}
    if backend == "numpy":
        out["mem"] = v["mem"]
        # what the Lean model of the numpy back end is compared with: membership, every registered relation whose
        # source contains the array (test outcome, and the abstracted cast where it accepts), detect / infer walks
        try:
            out["np"] = np_view(x, v, order)
        except Exception:  # noqa
            import traceback
            out["np_crash"] = traceback.format_exc()[-600:]
    if backend == "list":
        # what the Lean model of the list back end is compared with (membership of the 22 types, detection path)
        try:
            out["elems"] = [elem_facts(e) for e in x]
            out["mem"] = v["mem"]
            out["lv"] = list_view(x, v, ts)
            out["detect_path"] = [str(t) for t in d[1][1]] if d[0] == "ok" else ["raises", d[1]]
        except Exception:  # noqa
            pass
    return out


NP_POOLS = {
    "int": [["int", 1], ["int", 2], ["int", -3], ["int", 0]],
    "float": [["float", 1.0], ["float", 2.0], ["float", 1.5], ["nan"], ["float", 0.0], ["float", "inf"], ["float", 1e300],
              ["float", 9223372036854775808.0], ["float", -9223372036854775808.0], ["float", 4611686018427387904.0], ["float", -3.0]],
    "complex": [["complex", 1, 0], ["complex", 2, 0], ["complex", 1, 2], ["complex", "nan", 0], ["complex", 1, "nan"], ["complex", 3, 1e-12],
                ["complex", 1e300, 0]],
    "bool": [["bool", True], ["bool", False]],
    "str": [["str", "1"], ["str", "2.5"], ["str", "a"], ["str", "True"], ["str", "no"], ["str", "yes"], ["str", "2020-01-01"],
            ["str", "1+2j"], ["str", "05"], ["str", "false"], ["str", "nan"], ["str", "true"], ["str", "3j"],
            ["str", "2020"], ["str", "20200101"], ["str", "2020-01-01 10:00+01:00"], ["str", "2020-06-01 12:00+02:00"], ["str", "1e5"],
            ["str", "inf"], ["str", "1_0"], ["str", "TRUE"], ["str", "Y"], ["str", "n"], ["str", "0.5"], ["str", "007"], ["str", "1."],
            ["str", " 1 "], ["str", ""], ["str", "1e999"], ["str", "j"], ["str", "nan+1j"], ["str", "2021-13-45"], ["str", "10:30"]],
    # strings of one family throughout (so that the relations out of String accept), optionally with a missing value
    "strfam": [],
    "dt": [["npdt", "2020-01-01"], ["npdt", "2020-01-02T10:00"], ["npdt", "NaT"]],
    "td": [["nptd", 1], ["nptd", 5]],
    "obj": [["str", "a"], ["int", 1], ["bool", True], ["float", 1.5], ["none"], ["nan"], ["dt", "2020-01-01T00:00:00"],
            ["complex", 1, 0], ["list"], ["bytes", "ab"], ["str", "1"], ["NA"], ["NaT"], ["str", "true"], ["str", "2.5"], ["int", 2 ** 70]],
    # numpy scalars and pandas timestamps inside object arrays
    "objnp": [["npint", 1, "int64"], ["npint", 3, "int32"], ["npint", 2, "uint8"], ["int", 1], ["none"], ["npfloat", 1.5], ["npfloat", 2.0],
              ["npbool", True], ["bool", False], ["npstr", "a"], ["str", "b"], ["pyts", "2020-01-01"], ["dt", "2020-01-01T00:00:00"],
              ["npdt", "2020-01-01"], ["float", 2.0], ["td", 5], ["td", 86400], ["pytd", 3], ["nptd", 1]],
}

LIST_POOL = G.OBJ_POOL + [["none"], ["nan"], ["str", ""], ["str", "true"], ["str", "false"], ["str", "1.5"], ["str", "2"],
                          ["str", "2020-01-01 10:00:00"], ["str", "127.0.0.1"], ["str", "http://a.b/c"], ["str", "/a/b"],
                          ["str", "a@b.c"], ["str", "POINT (1 2)"], ["str", "0b8a22ca-80ad-4df5-85ac-fa49c44b7ede"],
                          ["str", "1+2j"], ["str", "05"], ["float", 2.0], ["float", 3.0], ["complex", 2, 0], ["int", 5],
                          ["str", "20200101"], ["str", "20210315"], ["str", "2020-01-01"], ["str", "2020-01-01T10:00:00"], ["str", "10:30:00"],
                          ["nparr"], ["pdser"], ["NaT"], ["dt", "2020-01-01T00:00:00"], ["dt", "2021-03-04T00:00:00"]]


def _gv(r):
    if r[0] == "npdt":
        return np.datetime64(r[1])
    if r[0] == "nptd":
        return np.timedelta64(r[1], "D")
    if r[0] == "npint" and len(r) == 3:
        return getattr(np, r[2])(r[1])
    if r[0] == "npfloat":
        return np.float64(r[1])
    if r[0] == "npbool":
        return np.bool_(r[1])
    if r[0] == "npstr":
        return np.str_(r[1])
    if r[0] == "pyts":
        return pd.Timestamp(r[1])
    if r[0] == "pytd":
        return pd.Timedelta(hours=r[1])
    if r[0] == "nparr":
        return np.array([1, 2])            # an element whose `== None` / truth value is an array
    if r[0] == "pdser":
        return pd.Series([1, 2])
    return None


_orig_gamma_value = G.gamma_value


def gamma_value(r):
    v = _gv(r)
    return v if v is not None else _orig_gamma_value(r)


G.gamma_value = gamma_value


def gen(rng, backend):
    if rng.random() < 0.15:
        # longer sequences (6..12) of one repeated value with one or two different values late: prefix tests
        # (`array[0:5]`, `head`) must not decide for the whole sequence
        pool = rng.choice([[["str", "nan"], ["str", "1.5"], ["str", "2"]], [["str", "1"], ["str", "a"], ["str", "2.5"]],
                           [["str", "a"], ["int", 1], ["bytes", "ab"]], [["int", 1], ["str", "a"], ["float", 1.5]],
                           [["float", 1.0], ["float", 2.5], ["nan"]], [["str", "NaN"], ["str", "3"], ["str", "x"]],
                           [["str", "true"], ["str", "no"], ["str", "1"]], [["bool", True], ["int", 2], ["none"]],
                           [["str", "a"], ["list"], ["tuple"]], [["str", "b"], ["nparr"], ["list"]], [["str", "yes"], ["str", "maybe"], ["str", "no"]]])
        n = rng.randint(6, 12)
        vals = [pool[0]] * n
        for _ in range(rng.choice([1, 2])):
            vals[rng.randint(5, n - 1)] = rng.choice(pool[1:])
        r = {"values": vals, "stream": backend + ":late-deviant"}
        if backend == "numpy" and (rng.random() < 0.5 or any(v[0] not in ("str",) for v in vals)):
            r["npdtype"] = "object"
        return r
    n = rng.choice([0, 1, 1, 2, 3, 4, 6])
    if backend == "numpy":
        k = rng.choice(list(NP_POOLS))
        if k == "strfam":
            fam = rng.choice([["1", "2.5", "1e5", "007", "0.5", "inf", "nan", "-3"], ["true", "false", "TRUE", "False"], ["y", "n", "Y", "N"],
                              ["yes", "no", "YES"], ["1+2j", "3j", "2", "nan+1j", "1e3+0j"], ["2020-01-01", "2021-05-06 10:00", "1999-12-31T23:59:59"],
                              ["2020", "1999", "20200101"], ["2020-01-01 10:00+01:00", "2020-06-01 12:00+01:00"], ["a", "b", ""]])
            vals = [["str", rng.choice(fam)] for _ in range(max(n, 1))]
            r = {"values": vals, "stream": "numpy:strfam"}
            if rng.random() < 0.5:
                vals.insert(rng.randint(0, len(vals)), rng.choice([["none"], ["nan"], ["NA"], ["NaT"]]))
                r["npdtype"] = "object"
            elif rng.random() < 0.3:
                r["npdtype"] = "object"
            return r
        vals = [rng.choice(NP_POOLS[k]) for _ in range(n)]
        if k in ("float", "complex", "int") and rng.random() < 0.4:
            dt = rng.choice({"float": ["float32", "float16", "longdouble"], "complex": ["complex64", "clongdouble"],
                             "int": ["int8", "uint16", "uint64", "int32"]}[k])
            if not (k == "int" and dt.startswith("u") and any(v[1] < 0 for v in vals)):
                return {"values": vals, "stream": "numpy:" + k + ":" + dt, "npdtype": dt}
        if k == "obj" and rng.random() < 0.5:
            base = rng.choice(NP_POOLS["obj"])
            vals = [base if rng.random() < 0.8 else rng.choice(NP_POOLS["obj"]) for _ in range(n)]
        r = {"values": vals, "stream": "numpy:" + k}
        if k == "objnp":
            base = rng.choice(NP_POOLS["objnp"])
            kind = base[0]
            near = [b for b in NP_POOLS["objnp"] if b[0] in (kind, "none", {"npint": "int", "int": "npint", "npfloat": "float", "float": "npfloat",
                                                                            "npbool": "bool", "bool": "npbool", "npstr": "str", "str": "npstr",
                                                                            "pyts": "dt", "dt": "pyts", "td": "pytd", "pytd": "td"}.get(kind, kind))]
            vals = [rng.choice(near) for _ in range(max(n, 1))]
        if k in ("obj", "objnp") or rng.random() < 0.15:
            r["npdtype"] = "object"
        return r
    if rng.random() < 0.12:
        # string encodings with a None mixed in (a relation that tolerates None must land in a type that does)
        fam = rng.choice(["float", "int", "bool", "complex", "datetime", "url", "path", "ip", "uuid", "email", "geom"])
        vals = [["str", s_] for s_ in rng.sample(G.STR_POOLS[fam], min(len(G.STR_POOLS[fam]), rng.choice([1, 2, 3])))]
        vals.insert(rng.randint(0, len(vals)), ["none"])
        return {"values": vals, "stream": "list:strings+none", "container": rng.choice(["list", "tuple"])}
    if rng.random() < 0.1:
        # one spelling of booleans throughout (yes/no, y/n, true/false in any case)
        t, f = rng.choice([("yes", "no"), ("y", "n"), ("true", "false"), ("YES", "No"), ("Y", "N"), ("True", "FALSE")])
        vals = [["str", rng.choice([t, f])] for _ in range(rng.choice([1, 2, 3, 5]))]
        return {"values": vals, "stream": "list:bool-spelling", "container": rng.choice(["list", "tuple"])}
    homog = rng.random() < 0.6
    if homog:
        kk = rng.choice(sorted(set(v[0] for v in LIST_POOL)))
        pool = [v for v in LIST_POOL if v[0] == kk]
        if kk == "str" and rng.random() < 0.7:
            fam = rng.choice(list(G.STR_POOLS))
            pool = [["str", s] for s in G.STR_POOLS[fam]]
        vals = [rng.choice(pool) for _ in range(n)]
    else:
        vals = [rng.choice(LIST_POOL) for _ in range(n)]
    return {"values": vals, "stream": "list:" + ("homog" if homog else "mixed"), "container": "tuple" if rng.random() < 0.3 else "list"}


# C07 for the sequence back ends (their documented subset): a family carried by a representation the back end supports is
# recognised as that family (its type lies on the inference path) — expectations are the semantic ones; representations
# the back end does not support (numpy: dates, urls, ... stay Object / String) are not listed
FAMILY_SEQ = {
    "list": [("ints", [["int", -1], ["int", 2], ["int", 30]], "Integer"), ("counts", [["int", 1], ["int", 2]], "Integer"),
             ("floats", [["float", 1.5], ["float", 2.5]], "Float"), ("integral floats", [["float", 1.0], ["float", 2.0]], "Integer"),
             ("bools", [["bool", True], ["bool", False]], "Boolean"), ("text", [["str", "hello"], ["str", "a b"]], "String"),
             ("int strings", [["str", "10001"], ["str", "20002"]], "Integer"), ("float strings", [["str", "1.5"], ["str", "2.25"]], "Float"),
             ("bool strings", [["str", "true"], ["str", "false"]], "Boolean"), ("complex", [["complex", 1, 2], ["complex", 0, 3]], "Complex"),
             ("zero-imaginary complex", [["complex", 1, 0], ["complex", 2, 0]], "Float"), ("complex strings", [["str", "1+2j"], ["str", "3j"]], "Complex"),
             ("datetimes", [["dt", "2020-01-01T10:00:00"], ["dt", "2021-05-06T01:02:03"]], "DateTime"), ("dates", [["date", "2020-01-01"]], "Date"),
             ("times", [["time", "10:00:00"]], "Time"), ("timedeltas", [["td", 432000]], "TimeDelta"),
             ("datetime strings", [["str", "2020-01-01 10:30:00"], ["str", "2021-05-06 01:02:03"]], "DateTime"),
             ("url strings", [["str", "http://a.b/c"], ["str", "https://x.y/z"]], "URL"), ("path strings", [["str", "/home/u/f.txt"], ["str", "/a"]], "Path"),
             ("ip strings", [["str", "127.0.0.1"], ["str", "::1"]], "IPAddress"), ("email strings", [["str", "test@example.com"]], "EmailAddress"),
             ("geometry strings", [["str", "POINT (1 2)"]], "Geometry"),
             ("uuid strings", [["str", "0b8a22ca-80ad-4df5-85ac-fa49c44b7ede"]], "UUID"),
             ("midnight datetimes", [["dt", "2020-01-01T00:00:00"], ["dt", "2021-05-06T00:00:00"]], "Date"),
             # values that are all falsy are values all the same
             ("zeros", [["int", 0], ["int", 0]], "Integer"), ("zero floats", [["float", 0.0], ["float", 0.0]], "Integer"),
             ("all False", [["bool", False], ["bool", False]], "Boolean"), ("empty strings", [["str", ""], ["str", ""]], "String"),
             ("zero timedelta", [["td", 0]], "TimeDelta"), ("zero complex", [["complex", 0, 0]], "Float")],
    "numpy": [("ints", [["int", -1], ["int", 2], ["int", 30]], "Integer"), ("floats", [["float", 1.5], ["float", 2.5]], "Float"),
              ("integral floats", [["float", 1.0], ["float", 2.0]], "Integer"), ("bools", [["bool", True], ["bool", False]], "Boolean"),
              ("text", [["str", "hello"], ["str", "a b"]], "String"), ("int strings", [["str", "10001"], ["str", "20002"]], "Integer"),
              ("float strings", [["str", "1.5"], ["str", "2.25"]], "Float"), ("bool strings", [["str", "true"], ["str", "false"]], "Boolean"),
              ("complex", [["complex", 1, 2], ["complex", 0, 3]], "Complex"), ("zero-imaginary complex", [["complex", 1, 0], ["complex", 2, 0]], "Float"),
              ("complex strings", [["str", "1+2j"], ["str", "3j"]], "Complex"),
              ("complex64", [["complex", 1, 2], ["complex", 0, 3]], "Complex", "complex64"), ("float32", [["float", 1.5], ["float", 2.5]], "Float", "float32"),
              ("float16 integral", [["float", 1.0], ["float", 2.0]], "Integer", "float16"), ("int8", [["int", -1], ["int", 2]], "Integer", "int8"),
              ("uint64", [["int", 1], ["int", 2]], "Integer", "uint64"), ("zero-imaginary complex64", [["complex", 1, 0]], "Float", "complex64"),
              ("tz datetime strings", [["str", "2020-01-01 10:00+01:00"], ["str", "2020-06-01 12:00+01:00"]], "DateTime"),
              ("float strings + NA", [["str", "1.5"], ["NA"], ["str", "2.25"]], "Float", "object"),
              ("complex strings + None", [["str", "1+2j"], ["none"]], "Complex", "object"),
              ("bool strings + nan", [["str", "true"], ["nan"], ["str", "false"]], "Boolean", "object"),
              ("datetimes", [["npdt", "2020-01-01T10:00"], ["npdt", "2021-05-06T01:02:03"]], "DateTime"),
              ("timedeltas", [["nptd", 1], ["nptd", 5]], "TimeDelta"),
              ("datetime strings", [["str", "2020-01-01 10:30:00"], ["str", "2021-05-06 01:02:03"]], "DateTime"),
              ("zeros", [["int", 0], ["int", 0]], "Integer"), ("zero floats", [["float", 0.0], ["float", 0.0]], "Integer"),
              ("all False", [["bool", False], ["bool", False]], "Boolean"), ("empty strings", [["str", ""], ["str", ""]], "String")],
}


def family_seq(backend):
    fails = []
    order = STD if backend == "numpy" else COMPLETE
    ts = typeset_for(order)
    n = 0
    for ent in FAMILY_SEQ[backend]:
        fam, vals, want = ent[:3]
        for container in (("list", "tuple") if backend == "list" else ("numpy",)):
            for k in (1, 3):
                rec = {"values": vals * k, "stream": "family:" + fam}
                if len(ent) > 3:
                    rec["npdtype"] = ent[3]
                x = build(rec, container)
                r = outcome(lambda: [str(t) for t in ts.infer(x)[1]])
                n += 1
                if r[0] != "ok" or want not in r[1]:
                    fails.append({"property": "C07", "signature": "%s:family-not-recognised:%s" % (backend, fam),
                                  "what": "[%s] %s as a %s: inferred %s, expected %s on the path" % (backend, fam, container, r[1], want),
                                  "recipe": dict(rec, container=container)})
    return fails, n


def _worker(args):
    recipes, backend = args
    G.files_dir()
    out = []
    for r in recipes:
        try:
            o = observe(r, backend)
            o["recipe"] = r
            out.append(o)
        except Exception as e:  # noqa
            import traceback
            out.append({"recipe": r, "crash": traceback.format_exc()[-800:], "fails": []})
    return out


def run_backend(tier, seed, backend, n=None, nproc=16):
    n = n or (600 if tier == "quick" else 12000)
    rng = rng_for(seed, "seq", backend)
    recipes = [gen(rng, backend) for _ in range(n)]
    # witnesses of the known findings and minimised past failures run first
    corpus = {"numpy": [{"values": [["bool", True], ["int", 1]], "npdtype": "object", "stream": "corpus:F21"},
                        {"values": [["str", "1999"]], "stream": "corpus:F09n"}, {"values": [["str", "2020"], ["nan"]], "npdtype": "object", "stream": "corpus:F09n-b"},
                        {"values": [["float", 1.0], ["nan"], ["float", 2.0]], "stream": "corpus:F42"},
                        {"values": [["float", 1e300]], "stream": "corpus:fixed-F40"}, {"values": [["str", "2020-01-01 10:00+01:00"]], "stream": "corpus:fixed-F41"},
                        {"values": [["complex", 1, 2]], "npdtype": "complex64", "stream": "corpus:fixed-F43"},
                        {"values": [["str", "1.5"], ["NA"]], "npdtype": "object", "stream": "corpus:fixed-F30n"},
                        {"values": [["str", "1+2j"], ["NaT"], ["str", "3j"]], "npdtype": "object", "stream": "corpus:fixed-F30n-b"},
                        {"values": [["complex", "nan", 0]], "stream": "corpus:fixed-F32"},
                        {"values": [["str", "no"], ["str", "yes"]], "stream": "corpus:fixed-F20"},
                        {"values": [["complex", 1, 0], ["complex", 2, 0]], "stream": "corpus:fixed-F19"},
                        {"values": [["nan"], ["str", "1+2j"]], "npdtype": "object", "stream": "corpus:fixed-F18n"},
                        {"values": [["str", "nan"], ["str", "NaN"]], "stream": "corpus:all-nan-strings"},
                        {"values": [["npint", 1, "int64"], ["none"], ["npint", 3, "int64"]], "npdtype": "object", "stream": "corpus:np-int-scalars"},
                        {"values": [["int", 1], ["npint", 3, "int32"]], "npdtype": "object", "stream": "corpus:int-then-np-int"},
                        {"values": [["pyts", "2020-01-01"], ["dt", "2020-01-01T00:00:00"]], "npdtype": "object", "stream": "corpus:timestamp-datetime"},
                        {"values": [["bytes", "ab"], ["bytes", "c"]], "stream": "corpus:bytes-dtype"},
                        {"values": [["td", 86400], ["td", 10800]], "npdtype": "object", "stream": "corpus:timedelta-objects"},
                        {"values": [["pytd", 3], ["td", 5]], "npdtype": "object", "stream": "corpus:pd-timedelta-objects"},
                        {"values": [["str", "nan"]] * 5 + [["str", "1.5"]], "stream": "corpus:nan-strings-then-number"},
                        {"values": [["str", "NaN"]] * 6 + [["str", "2"], ["str", "3"]], "npdtype": "object", "stream": "corpus:nan-strings-then-ints"}],
              "list": [{"values": [["bool", False], ["str", "1.5"]], "stream": "corpus:fixed-F22b"},
                       {"values": [["none"]], "stream": "corpus:all-none"},
                       {"values": [["nparr"], ["nparr"]], "stream": "corpus:array-elements"},
                       {"values": [["str", "x"], ["nparr"]], "stream": "corpus:string-and-array"},
                       {"values": [["pdser"], ["none"]], "stream": "corpus:series-element"},
                       {"values": [["str", "yes"], ["str", "no"], ["str", "yes"]], "stream": "corpus:yes-no"},
                       {"values": [["str", "1.5"], ["none"]], "stream": "corpus:float-string-none"},
                       {"values": [["str", "a"], ["str", "b"]], "container": "tuple", "stream": "corpus:fixed-F38"},
                       {"values": [["int", 1], ["int", 2], ["int", 3]], "container": "tuple", "stream": "corpus:int-tuple"}, {"values": [["none"], ["none"]], "stream": "corpus:all-none2"},
                       {"values": [["int", 1], ["none"]], "stream": "corpus:int-none"},
                       {"values": [["dt", "2020-01-01T00:00:00"], ["NaT"]], "stream": "corpus:fixed-F48"},
                       {"values": [["NaT"], ["NaT"]], "stream": "corpus:all-NaT"},
                       {"values": [["float", 0.0], ["float", 0.0], ["float", 0.0]], "stream": "corpus:fixed-F34"},
                       {"values": [["int", 0], ["int", 0]], "stream": "corpus:fixed-F34b"},
                       {"values": [["dt", "2020-01-01T10:00:00"]], "stream": "corpus:fixed-F35"},
                       {"values": [["td", 5]], "stream": "corpus:fixed-F35b"},
                       {"values": [["str", "/a@b"]], "stream": "corpus:F12l"},
                       {"values": [["str", "20200101"], ["str", "20210315"]], "stream": "corpus:compact-dates"},
                       {"values": [["str", "2020-01-01"]], "stream": "corpus:date-only-string"},
                       {"values": [["str", ""], ["str", ""]], "stream": "corpus:empty-strings"},
                       {"values": [["str", "true"], ["str", "false"]], "stream": "corpus:fixed-F22a"},
                       {"values": [["str", "CIRCULARSTRING (0 0, 1 1, 2 0)"]], "stream": "corpus:fixed-F50-nonlinear-wkt"},
                       {"values": [["str", "POINT (1 2)"], ["str", "CURVEPOLYGON EMPTY"]], "stream": "corpus:fixed-F50-nonlinear-wkt-2"}]}
    recipes = corpus.get(backend, []) + recipes
    chunks = [recipes[i::nproc] for i in range(nproc)]
    with mp.Pool(nproc) as pool:
        outs = pool.map(_worker, [(c, backend) for c in chunks if c])
    obs = [o for ch in outs for o in ch]
    fails = [f for o in obs for f in o["fails"]]
    G.files_dir()
    ffails, nfam = family_seq(backend)
    fails += ffails
    model_dis = []
    n_good = 0
    if backend == "list":
        from common import Driver
        idx = [i for i, o in enumerate(obs) if "elems" in o]
        resps = Driver().batch([{"op": "pylist", "elems": obs[i]["elems"], "typesets": [COMPLETE]} for i in idx])
        for i, resp in zip(idx, resps):
            o = obs[i]
            diffs = []
            # the executable hypothesis of infer_list_complete / C09_tests_total_list on this very sequence
            n_good += 1 if resp.get("conv") else 0
            if resp.get("conv") and "raises" in resp["trav"][0].get("infer", {}):
                diffs.append({"what": "infer-outcome", "real": "theorem infer_list_complete", "model": resp["trav"][0]["infer"]})
            for t, m in o["mem"].items():
                if m[0] == "ok" and resp["contains"].get(t) != m[1]:
                    diffs.append({"what": "contains", "type": t, "real": m[1], "model": resp["contains"].get(t)})
            tr = resp["trav"][0]
            if "detect" in tr and o["detect_path"] and o["detect_path"][0] != "raises" and tr["detect"] != o["detect_path"]:
                diffs.append({"what": "detect-path", "real": o["detect_path"], "model": tr["detect"]})
            if "lv" in o:
                diffs += list_compare(o, resp)
            if diffs:
                model_dis.append({"kind": "pylist", "recipe": o["recipe"], "diffs": diffs[:4]})
                for f in o["fails"]:
                    f["known_eligible"] = False
    if backend == "numpy":
        from common import Driver
        idx = [i for i, o in enumerate(obs) if o.get("np")]
        resps = Driver().batch([{"op": "numpy", "arr": obs[i]["np"]["arr"], "dtMasked": obs[i]["np"]["dtMasked"],
                                 "dtWhole": obs[i]["np"]["dtWhole"], "typesets": obs[i]["np"]["orders"]} for i in idx])
        for i, resp in zip(idx, resps):
            o = obs[i]
            diffs = np_compare(o, resp)
            o["np_good"] = bool(resp.get("good")) and bool(resp.get("guardsOk", True))
            n_good += 1 if o["np_good"] else 0
            if diffs:
                model_dis.append({"kind": "numpy", "recipe": o["recipe"], "diffs": diffs[:4]})
                # a failure can only be a KNOWN finding where the model (which mirrors the listed defects) agrees with
                # the code on that very input
                for f in o["fails"]:
                    f["known_eligible"] = False
        for o in obs:
            if "np_crash" in o:
                model_dis.append({"kind": "harness-crash", "recipe": o["recipe"], "trace": o["np_crash"]})
    crashes = [o for o in obs if "crash" in o]
    nontriv = set(canon(o["recipe"]["values"]) for o in obs if isinstance(o.get("infer"), list) and len(o["infer"]) >= 2)
    dist = {}
    for o in obs:
        k = "/".join(o["infer"]) if isinstance(o.get("infer"), list) else str(o.get("infer"))
        dist[k] = dist.get(k, 0) + 1
    return {"runner": backend, "evaluations": len(obs), "distinct_nontrivial": len(nontriv),
            "rule": "%s sequences from value pools (homogeneous families, mixed objects, strings of every family, nulls), "
                    "length 0..6, with all permutations for n <= 3 and 2-fold repetition; non-trivial = distinct value lists "
                    "whose inference path has >= 2 types" % backend,
            "samples": [o["recipe"] for o in obs[:2]],
            "disagreements": [{"kind": "harness-crash", "recipe": c["recipe"], "trace": c["crash"]} for c in crashes] + model_dis,
            "oracle_failures": fails, "distribution": {"paths": dist, "model_compared": sum(1 for o in obs if o.get("np") or "elems" in o),
                                                       "theorem_hypothesis_holds": n_good}}


def run_numpy(tier, seed):
    return run_backend(tier, seed, "numpy")


def run_list(tier, seed):
    return run_backend(tier, seed, "list")


if __name__ == "__main__":
    backend = sys.argv[1]
    tier = sys.argv[2] if len(sys.argv) > 2 else "quick"
    seed = int(sys.argv[3]) if len(sys.argv) > 3 else 0
    n = int(sys.argv[4]) if len(sys.argv) > 4 else None
    r = run_backend(tier, seed, backend, n)
    print(r["evaluations"], r["distinct_nontrivial"], len(r["oracle_failures"]), "crashes", len(r["disagreements"]))
    for d in r["disagreements"][:6]:
        print(json.dumps(d, default=str)[:900])
    import collections
    c = collections.Counter((f["property"], f["signature"]) for f in r["oracle_failures"])
    ex = {}
    for f in r["oracle_failures"]:
        ex.setdefault((f["property"], f["signature"]), f)
    for k, v in sorted(c.items()):
        print(v, k, json.dumps(ex[k]["recipe"]["values"])[:140])

"""Graph / algebra / export correspondence runners (C13, C14, C19).

graph   : typesets built from explicit node orders (real `build_graph` on a list; real constructor with an
          order-preserving stand-in for `set`) vs the Lean `mkTypeset` — nodes, ordered styled edges, base edges,
          root, warnings, errors.  Parent-closed subsets (the property's quantifier) and arbitrary subsets (to
          validate the model of isolates / missing sources / root errors).
algebra : expressions over shipped typesets and types vs the Lean set-level model + constructor; operands and
          type classes snapshotted before/after.
export  : `output_graph` to .dot under several supply orders: byte equality, parsed nodes/edges/styles vs model.
"""
import contextlib
import itertools
import json
import os
import shutil
import sys
import tempfile
import warnings

import networkx as nx

from common import Driver, rng_for, canon, WORK, ensure_dirs

warnings.simplefilter("ignore")
import visions  # noqa: E402
import visions.types as vt  # noqa: E402
import visions.typesets.typeset as tsmod  # noqa: E402
from visions.typesets import CompleteSet, GeometrySet, StandardSet, VisionsTypeset  # noqa: E402
from visions.types.generic import Generic  # noqa: E402

ALL = [getattr(vt, n) for n in vt.__all__ if n != "VisionsBaseType"]
BYNAME = {str(t): t for t in ALL}


def id_parent(t):
    for r in t.get_relations():
        if not r.inferential:
            return r.related_type
    return None


def parent_closed_random(rng, pool):
    """random parent-closed subset containing Generic: choose targets, close under identity parents"""
    k = rng.randint(0, len(pool))
    chosen = set(rng.sample(pool, k))
    out = {Generic}
    for t in chosen:
        while t is not None and t not in out:
            out.add(t)
            t = id_parent(t)
    return out


class OSet(list):
    """order-preserving stand-in for `set` inside visions.typesets.typeset (construction only)"""

    def __init__(self, it=()):
        seen = []
        for x in it:
            if x not in seen:
                seen.append(x)
        super().__init__(seen)

    def __sub__(self, other):
        return OSet(x for x in self if x not in other)

    def __or__(self, other):
        return OSet(list(self) + list(other))

    def __and__(self, other):
        return OSet(x for x in self if x in other)


@contextlib.contextmanager
def ordered_sets():
    tsmod.set = OSet
    try:
        yield
    finally:
        del tsmod.set


SUPPLY_FORMS = {
    "list": list, "tuple": tuple, "generator": lambda o: (t for t in o), "iter": lambda o: iter(list(o)),
    "dict-keys": lambda o: dict.fromkeys(o).keys(), "filter": lambda o: filter(lambda t: True, o),
    "reversed-twice": lambda o: reversed(list(reversed(list(o)))),
}


def observe_build(order, form="list"):
    """real build_graph + constructor logic on an explicit order (supplied as a list, or in another iterable form)"""
    with warnings.catch_warnings(record=True) as w:
        warnings.simplefilter("always")
        try:
            with ordered_sets():
                ts = VisionsTypeset(SUPPLY_FORMS[form](order))
        except StopIteration:
            return {"err": "StopIteration"}
        except nx.NetworkXUnfeasible:
            return {"err": "NetworkXUnfeasible"}
        except ValueError:
            return {"err": "ValueError"}
        except Exception as e:  # noqa
            return {"err": type(e).__name__}
    msgs = [str(x.message) for x in w]
    rg, bg = ts.relation_graph, ts.base_graph
    return {
        "nodes": [str(n) for n in rg.nodes],
        "edges": [[str(a), str(b), d["style"] == "dashed"] for a, b, d in rg.edges(data=True)],
        "edge_rel_ok": all(d["relationship"].inferential == (d["style"] == "dashed") and d["relationship"].type is b
                           and d["relationship"].related_type is a for a, b, d in rg.edges(data=True)),
        "baseNodes": sorted(str(n) for n in bg.nodes),
        "baseEdges": [[str(a), str(b), False] for a, b in bg.edges],
        "root": str(ts.root_node),
        "types": sorted(str(t) for t in ts.types),
        "n_missing": sum("was not included" in m for m in msgs),
        "n_orphan_warn": sum("were isolates" in m for m in msgs),
        "n_cycle_warn": sum("Cyclical" in m for m in msgs),
        "n_other_warn": sum(not any(k in m for k in ("was not included", "were isolates", "Cyclical")) for m in msgs),
    }


def model_view(resp):
    if "err" in resp:
        return {"err": resp["err"]}
    # adjacency-ordered edge list as networkx reports it: grouped by source in node order
    nodes = resp["nodes"]
    edges = resp["edges"]
    by_src = []
    for n in nodes:
        by_src += [e for e in edges if e[0] == n]
    base = []
    for n in nodes:
        base += [e for e in resp["baseEdges"] if e[0] == n]
    return {"nodes": nodes, "edges": by_src, "edge_rel_ok": True, "baseNodes": sorted(nodes), "baseEdges": base,
            "root": resp["root"], "types": sorted(nodes), "n_missing": len(resp["missing"]),
            "n_orphan_warn": 1 if resp["orphaned"] else 0, "n_cycle_warn": 1 if resp["cyclic"] else 0,
            "n_other_warn": 0}


def c14_oracle(S, obs):
    """direct statement of C14 on the real result for a parent-closed set S"""
    names = sorted(str(t) for t in S)
    if "err" in obs:
        return "constructor raised %s" % obs["err"]
    if obs["types"] != names:
        return "types differ from the given set"
    if obs["root"] != "Generic":
        return "root is %s" % obs["root"]
    want = []
    for t in S:
        for r in t.get_relations():
            if r.related_type in S:
                want.append([str(r.related_type), str(t), bool(r.inferential)])
    if sorted(map(tuple, want)) != sorted(map(tuple, obs["edges"])):
        return "edges are not exactly the declared relations with included source"
    if not obs["edge_rel_ok"]:
        return "edge style/relationship attributes inconsistent"
    # identity graph: tree rooted at Generic spanning S
    g = nx.DiGraph()
    g.add_nodes_from(names)
    g.add_edges_from((a, b) for a, b, d in obs["edges"] if not d)
    if not nx.is_arborescence(g) and len(names) > 1:
        return "identity graph is not a tree"
    if len(names) > 1 and [n for n in g.nodes if g.in_degree(n) == 0] != ["Generic"]:
        return "identity tree is not rooted at Generic"
    full = nx.DiGraph()
    full.add_nodes_from(names)
    full.add_edges_from((a, b) for a, b, d in obs["edges"])
    if not nx.is_directed_acyclic_graph(full):
        return "relation graph has a cycle"
    if sorted(obs["baseNodes"]) != names:
        return "base graph does not contain every type"
    return None


def shipped_stability():
    """the shipped typesets are the same typesets whenever and in whatever order they are constructed (a shared, mutated
    constant or a cache would make a later StandardSet() differ from the first), and stay strictly nested"""
    fails = []
    classes = {"StandardSet": StandardSet, "GeometrySet": GeometrySet, "CompleteSet": CompleteSet}
    first = {}
    n = 0
    for perm in itertools.permutations(sorted(classes)):
        for nm in list(perm) + list(reversed(perm)):
            try:
                with warnings.catch_warnings():
                    warnings.simplefilter("ignore")
                    ts = classes[nm]()
            except Exception as e:  # noqa
                for prop in ("C14", "C10"):
                    fails.append({"property": prop, "signature": "shipped-typeset-cannot-be-constructed",
                                  "what": "%s() raised %s: %s (constructed after %s in this process)" % (nm, type(e).__name__, str(e)[:120], "/".join(perm))})
                return fails, n
            n += 1
            cur = (sorted(str(t) for t in ts.types),
                   sorted((str(a), str(b), bool(d["relationship"].inferential)) for a, b, d in ts.relation_graph.edges(data=True)))
            if nm not in first:
                first[nm] = cur
            elif cur != first[nm]:
                extra = [t for t in cur[0] if t not in first[nm][0]]
                gone = [t for t in first[nm][0] if t not in cur[0]]
                for prop in ("C14", "C10"):
                    fails.append({"property": prop, "signature": "shipped-typeset-depends-on-history",
                                  "what": "%s() constructed after %s differs from the first %s() of the process: extra types %s, missing %s, %d vs %d relations"
                                          % (nm, "/".join(perm), nm, extra, gone, len(cur[1]), len(first[nm][1]))})
                return fails, n
    std, geo, comp = (set(first[k][0]) for k in ("StandardSet", "GeometrySet", "CompleteSet"))
    if not (std < geo < comp):
        fails.append({"property": "C14", "signature": "shipped-typesets-not-strictly-nested",
                      "what": "StandardSet / GeometrySet / CompleteSet are not strictly nested: %d, %d, %d types" % (len(std), len(geo), len(comp))})
    return fails, n


def run_graph(tier, seed):
    rng = rng_for(seed, "graph")
    n_closed = 1500 if tier == "quick" else 40000
    n_any = 500 if tier == "quick" else 8000
    reqs, cases = [], []
    fails, disagreements = [], []
    shipped = {"standard": set(StandardSet().types), "geometry": set(GeometrySet().types), "complete": set(CompleteSet().types)}
    todo = []
    for nm, S in shipped.items():
        todo.append((S, True))
    todo.append(({Generic}, True))
    for i in range(n_closed):
        pool = [t for t in ALL if t is not Generic]
        todo.append((parent_closed_random(rng, pool), True))
    for i in range(n_any):
        k = rng.randint(0, 7) if rng.random() < 0.7 else rng.randint(0, len(ALL))
        todo.append((set(rng.sample(ALL, k)), False))
    seen = set()
    for S, closed in todo:
        base = sorted(S, key=str)
        orders = [base, list(reversed(base))]
        o3 = list(base)
        rng.shuffle(o3)
        orders.append(o3)
        per = []
        for order in orders:
            obs = observe_build(order)
            reqs.append({"op": "graph", "nodes": [str(t) for t in order]})
            cases.append({"order": [str(t) for t in order], "closed": closed, "real": obs})
            per.append(obs)
            if closed:
                msg = c14_oracle(S, obs)
                if msg:
                    fails.append({"property": "C14", "signature": "not-wellformed", "what": msg,
                                  "order": [str(t) for t in order], "observed": obs})
        if closed and len(seen) % 5 == 0:
            # however the types are handed over (tuple, generator, iterator, dict keys, filter object ...): same typeset
            for form in SUPPLY_FORMS:
                if form == "list":
                    continue
                alt = observe_build(orders[2], form)
                if canon([alt.get("types"), alt.get("root"), sorted(map(tuple, alt.get("edges", []))), alt.get("err")]) != \
                        canon([per[2].get("types"), per[2].get("root"), sorted(map(tuple, per[2].get("edges", []))), per[2].get("err")]):
                    fails.append({"property": "C14", "signature": "supply-form-dependent",
                                  "what": "types supplied as a %s give %s / %s, as a list %s / %s" % (
                                      form, alt.get("types", alt.get("err")), len(alt.get("edges", [])),
                                      per[2].get("types", per[2].get("err")), len(per[2].get("edges", []))),
                                  "order": [str(t) for t in orders[2]]})
                    break
        if closed:
            # whatever order: same types/root/edge set
            views = [canon([p.get("types"), p.get("root"), sorted(map(tuple, p.get("edges", []))), p.get("err")]) for p in per]
            if len(set(views)) != 1:
                fails.append({"property": "C14", "signature": "order-dependent",
                              "what": "typeset differs between supply orders", "set": [str(t) for t in base]})
        seen.add(tuple(str(t) for t in base))
    resps = Driver().batch(reqs)
    for case, resp in zip(cases, resps):
        mv = model_view(resp)
        rv = dict(case["real"])
        if canon(mv) != canon(rv):
            disagreements.append({"kind": "graph", "order": case["order"], "real": rv, "model": mv})
    nontriv = set(s for s in seen if len(s) >= 2)
    sfails, _ = shipped_stability()
    fails.extend(sfails)
    return {"runner": "graph", "evaluations": len(cases), "distinct_nontrivial": len(nontriv),
            "rule": "shipped typesets, {Generic}, random parent-closed subsets and arbitrary subsets of the 24 types, "
                    "each under 3 explicit supply orders; non-trivial = distinct sets with >= 2 types",
            "samples": [cases[0]["order"], cases[len(cases) // 2]["order"]],
            "disagreements": disagreements, "oracle_failures": fails,
            "distribution": {"closed_sets": sum(1 for _, c in todo if c), "arbitrary_sets": sum(1 for _, c in todo if not c),
                             "errors": {e: sum(1 for c in cases if c["real"].get("err") == e)
                                        for e in set(c["real"].get("err") for c in cases if "err" in c["real"])}}}


def run_graph_exhaustive(seed, nproc=16):
    """thorough: every one of the parent-closed subsets of the 24 shipped types (1,180,800) x 2 orders:
    direct C14 oracle on the real constructor (model comparison is done on the sampled stream)."""
    import multiprocessing as mp
    children = {t: [c for c in ALL if id_parent(c) is t] for t in ALL}

    def subsets(t):
        # all parent-closed subsets of the subtree of t that contain t
        res = [[t]]
        for c in children[t]:
            sub = subsets(c)
            res = [r + s for r in res for s in ([[]] + sub)]
        return res

    allsets = subsets(Generic)
    chunks = [allsets[i::nproc] for i in range(nproc)]
    with mp.Pool(nproc) as pool:
        outs = pool.map(_exh_worker, [[[str(t) for t in s] for s in ch] for ch in chunks])
    fails = [f for o in outs for f in o["fails"]]
    return {"count": len(allsets), "fails": fails}


def _exh_worker(sets):
    fails = []
    for names in sets:
        S = [BYNAME[n] for n in names]
        for order in (S, list(reversed(S))):
            obs = observe_build(order)
            msg = c14_oracle(set(S), obs)
            if msg and len(fails) < 5:
                fails.append({"property": "C14", "signature": "not-wellformed", "what": msg, "order": [str(t) for t in order]})
    return {"fails": fails}


# ---------------------------------------------------------------------------------------------- algebra

def snapshot(ts):
    return {"types": sorted(str(t) for t in ts.types), "nodes": [str(n) for n in ts.relation_graph.nodes],
            "edges": sorted((str(a), str(b), d["style"]) for a, b, d in ts.relation_graph.edges(data=True)),
            "root": str(ts.root_node), "gid": id(ts.relation_graph), "tid": id(ts.types)}


def class_snapshot():
    return {str(t): (id(t._relations) if t._relations is not None else None, len(t.get_relations())) for t in ALL}


def class_changed(before, after):
    """a type's lazily built relations cache may go from empty to filled; anything else is a change"""
    for k, (rid, n) in before.items():
        rid2, n2 = after[k]
        if n != n2 or (rid is not None and rid2 != rid):
            return True
    return False


def is_parent_closed(S):
    return Generic in S and all(id_parent(t) in S for t in S if t is not Generic)


import pandas as _pd  # noqa: E402
ALGEBRA_PROBES = [
    ("complex zero imag", _pd.Series([complex(1, 0), complex(2, 0)])),
    ("float strings", _pd.Series(["1.5", "2.5"], dtype=object)),
    ("int strings", _pd.Series(["10001", "20002"], dtype=object)),
    ("bool strings", _pd.Series(["true", "false"], dtype=object)),
    ("object bools", _pd.Series([True, False, None], dtype=object)),
    ("midnight datetimes", _pd.Series(_pd.to_datetime(["2020-01-01", "2021-02-03"]))),
    ("datetime strings", _pd.Series(["2020-01-01 10:00:00", "2021-02-03 11:30:00"], dtype=object)),
    ("integral floats", _pd.Series([1.0, 2.0])),
    ("url strings", _pd.Series(["http://a.b/c", "https://x.y/z"], dtype=object)),
    ("uuid strings", _pd.Series(["0b8a22ca-80ad-4df5-85ac-fa49c44b7ede"], dtype=object)),
]


ALGEBRA_DETECT_PROBES = [
    ("uint8 values", _pd.Series([1, 2, 3], dtype="uint8")),
    ("plain strings", _pd.Series(["a", "b"], dtype=object)),
    ("ordered categorical", _pd.Series(_pd.Categorical(["a", "b"], ordered=True))),
    ("dates", _pd.Series([__import__("datetime").date(2020, 1, 1)], dtype=object)),
    ("bools", _pd.Series([True, False])),
    ("floats", _pd.Series([1.5, 2.5])),
]


def run_algebra(tier, seed):
    rng = rng_for(seed, "algebra")
    fails, disagreements = [], []
    reqs, cases = [], []
    base_ts = {"standard": StandardSet, "geometry": GeometrySet, "complete": CompleteSet}
    evals = 0
    nontriv = set()

    def mk(name):
        with warnings.catch_warnings():
            warnings.simplefilter("ignore")
            return base_ts[name]()

    def apply_op(ts, op, arg):
        if op == "add":
            return ts + arg
        if op == "sub":
            return ts - arg
        if op == "iadd":
            ts2 = ts
            ts2 += arg
            return ts2
        if op == "isub":
            ts2 = ts
            ts2 -= arg
            return ts2
        if op == "replace":
            return ts.replace(arg[0], arg[1])
        raise AssertionError(op)

    def expect_set(S, op, arg):
        A = set(arg.types) if isinstance(arg, VisionsTypeset) else ({arg} if not isinstance(arg, tuple) else None)
        if op in ("add", "iadd"):
            return S | A
        if op in ("sub", "isub"):
            return S - A
        if op == "replace":
            if arg[0] not in S | {arg[1]}:
                return "KeyError"
            return (S | {arg[1]}) - {arg[0]}

    def one_step(ts, op, arg, label):
        nonlocal evals
        before = snapshot(ts)
        cls_before = class_snapshot()
        argsnap = snapshot(arg) if isinstance(arg, VisionsTypeset) else None
        S = set(ts.types)
        want = expect_set(S, op, arg)
        with warnings.catch_warnings(record=True) as w:
            warnings.simplefilter("always")
            try:
                res = apply_op(ts, op, arg)
                err = None
            except Exception as e:  # noqa
                res, err = None, type(e).__name__
        evals += 1
        # operands untouched
        if op in ("add", "sub", "replace") and (snapshot(ts) != before or (argsnap is not None and snapshot(arg) != argsnap)):
            fails.append({"property": "C13", "signature": "operand-modified", "what": "an operand changed", "op": label})
            # ... which also makes later answers of that typeset depend on this earlier call (C10)
            fails.append({"property": "C10", "signature": "typeset-changed-by-algebra",
                          "what": "`%s` changed its operand (types / graph before and after differ), so later results of that typeset "
                                  "depend on this call" % label, "op": label})
        for who, x_ in (("left operand", ts), ("right operand", arg if isinstance(arg, VisionsTypeset) else None), ("result", res)):
            if x_ is None:
                continue
            try:
                tset, nset = set(x_.types), set(x_.relation_graph.nodes)
            except Exception:  # noqa
                continue
            if tset != nset and not (op in ("iadd", "isub") and who == "left operand"):
                for prop in ("C14", "C13"):
                    fails.append({"property": prop, "signature": "typeset-types-differ-from-its-graph",
                                  "what": "after `%s` the %s is no longer a well-formed typeset: its types %s differ from the nodes of its relation graph %s"
                                          % (label, who, sorted(map(str, tset)), sorted(map(str, nset))), "op": label})
        if class_changed(cls_before, class_snapshot()):
            fails.append({"property": "C13", "signature": "type-class-modified", "what": "a type class changed", "op": label})
        if want == "KeyError":
            if err != "KeyError":
                fails.append({"property": "C13", "signature": "replace-absent", "what": "replace of absent type: %s" % err, "op": label})
            return None
        if is_parent_closed(want):
            if err is not None:
                fails.append({"property": "C13", "signature": "parent-closed-result-raises", "what": err, "op": label})
                return None
            if set(res.types) != want:
                fails.append({"property": "C13", "signature": "wrong-type-set", "what": "types are not the set expression",
                              "op": label, "got": sorted(map(str, res.types)), "want": sorted(map(str, want))})
            if res.root_node is not Generic:
                fails.append({"property": "C13", "signature": "root-not-generic", "what": str(res.root_node), "op": label})
            if res is ts or res.relation_graph is ts.relation_graph:
                fails.append({"property": "C13", "signature": "not-a-new-typeset", "what": "result aliases operand", "op": label})
            bad = [m for m in w if "was not included" not in str(m.message) and "isolates" not in str(m.message)]
            # dropped relations warn, never raise: number of warnings == relations with absent source
            nmiss = sum(1 for t in want for r in t.get_relations() if r.related_type not in want)
            got = sum("was not included" in str(m.message) for m in w)
            if got != nmiss:
                fails.append({"property": "C13", "signature": "dropped-relation-warning", "what": "%d warnings, %d dropped relations" % (got, nmiss), "op": label})
            # the result is the typeset of its types: same relation graph as constructing it directly (C13), i.e. exactly
            # the declared relations among its types (C14); where it is not, look for data the two type differently (C15)
            with warnings.catch_warnings():
                warnings.simplefilter("ignore")
                direct = VisionsTypeset(set(want))
            eg = sorted((str(a), str(b), bool(d["relationship"].inferential)) for a, b, d in res.relation_graph.edges(data=True))
            ed = sorted((str(a), str(b), bool(d["relationship"].inferential)) for a, b, d in direct.relation_graph.edges(data=True))
            # ... and both are exactly the declared relations among the types (independent of the constructor)
            decl = sorted((str(r.related_type), str(t), bool(r.inferential)) for t in want for r in t.get_relations() if r.related_type in want)
            if ed != decl and eg == ed:
                ed = decl
            # the identity graph used by detect: exactly the declared identity relations among the types
            bg = sorted((str(a), str(b)) for a, b in res.base_graph.edges)
            bd = sorted((a, b) for a, b, inf in decl if not inf)
            if bg != bd or sorted(str(n) for n in res.base_graph.nodes) != sorted(str(t) for t in want):
                fails.append({"property": "C14", "signature": "algebra-base-graph-not-declared-identity-relations",
                              "what": "result of `%s`: identity graph has edges %s, the declared identity relations among its types are %s"
                                      % (label, [e for e in bg if e not in bd][:3] or "(missing) " + str([e for e in bd if e not in bg][:3]), len(bd)),
                              "op": label})
                # C03 on the algebra-built typeset itself: detecting what it casts must give what it infers
                for nm_, probe in ALGEBRA_PROBES + ALGEBRA_DETECT_PROBES:
                    try:
                        with warnings.catch_warnings():
                            warnings.simplefilter("ignore")
                            it_ = res.infer_type(probe)
                            ct_ = res.cast_to_inferred(probe)
                            dt_ = res.detect_type(ct_)
                    except Exception as e:  # noqa
                        continue
                    if str(dt_) != str(it_) or dt_ not in res.types:
                        fails.append({"property": "C03", "signature": "algebra-built-typeset-detect-of-cast",
                                      "what": "`%s`: infer_type(%s) = %s but detect_type(cast_to_inferred(x)) = %s%s"
                                              % (label, nm_, it_, dt_, "" if dt_ in res.types else " (not even a type of the typeset)"),
                                      "op": label, "probe": nm_, "also": ["C04"]})
                        break
                for nm_, probe in ALGEBRA_PROBES + ALGEBRA_DETECT_PROBES:
                    try:
                        with warnings.catch_warnings():
                            warnings.simplefilter("ignore")
                            ra, rb = str(direct.detect_type(probe)), str(res.detect_type(probe))
                    except Exception as e:  # noqa
                        continue
                    if ra != rb:
                        fails.append({"property": "C01", "signature": "algebra-built-typeset-detects-differently",
                                      "what": "`%s` detects %s for %s although its identity child %s is in the typeset and contains the data "
                                              "(the directly constructed typeset of the same types detects %s)" % (label, rb, nm_, ra, ra),
                                      "op": label, "probe": nm_})
                        break
            if eg != ed:
                missing = [e for e in ed if e not in eg]
                extra = [e for e in eg if e not in ed]
                for prop in ("C13", "C14"):
                    fails.append({"property": prop, "signature": "algebra-graph-differs-from-direct-construction",
                                  "what": "result of `%s` has a different relation graph than VisionsTypeset(<its types>): missing %s, extra %s"
                                          % (label, missing[:4], extra[:4]), "op": label})
                for nm_, probe in ALGEBRA_PROBES:
                    try:
                        with warnings.catch_warnings():
                            warnings.simplefilter("ignore")
                            ra, rb = str(direct.infer_type(probe)), str(res.infer_type(probe))
                    except Exception as e:  # noqa
                        continue
                    if ra != rb:
                        fails.append({"property": "C15", "signature": "algebra-built-typeset-infers-differently",
                                      "what": "`%s` infers %s for %s, the directly constructed typeset of the same types infers %s"
                                              % (label, rb, nm_, ra), "op": label, "probe": nm_})
                        break
            nontriv.add(canon([label]))
        else:
            # outside the parent-closed quantifier: any outcome must still be "error or rooted at Generic"
            if res is not None and res.root_node is not Generic:
                fails.append({"property": "C13", "signature": "root-not-generic", "what": str(res.root_node), "op": label})
        # model: set-level result, then constructor in the real node order
        kind = {"iadd": "add", "isub": "sub"}.get(op, op)
        a = sorted(str(t) for t in S)
        if op == "replace":
            b = [str(arg[0]), str(arg[1])]
        else:
            b = sorted(str(t) for t in (arg.types if isinstance(arg, VisionsTypeset) else {arg}))
        reqs.append({"op": "algebra", "kind": kind, "a": a, "b": b})
        cases.append({"label": label, "real_types": sorted(map(str, res.types)) if res is not None and is_parent_closed(want) else None,
                      "want": sorted(map(str, want)) if want != "KeyError" else "KeyError"})
        return res

    types_all = ALL
    # exhaustive single steps: (typeset, type) x {add, sub, iadd, isub}; replace over (old in ts, new any) sampled
    for nm in base_ts:
        for t in types_all:
            for op in ("add", "sub", "iadd", "isub"):
                one_step(mk(nm), op, t, "%s %s %s" % (nm, op, t))
        ts0 = mk(nm)
        olds = sorted(ts0.types, key=str)
        for old in olds:
            for new in (types_all if tier == "thorough" else rng.sample(types_all, 6)):
                one_step(mk(nm), "replace", (old, new), "%s replace %s->%s" % (nm, old, new))
        for new in rng.sample(types_all, 3):
            absent = [t for t in types_all if t not in ts0.types and t is not new]
            if absent:
                one_step(mk(nm), "replace", (absent[0], new), "%s replace-absent %s->%s" % (nm, absent[0], new))
    # grow small typesets in place: every added type must be reachable by detect afterwards
    for seq in (["Object", "Categorical", "String", "Ordinal"], ["Integer", "Count"], ["Object", "Date", "Time"],
                ["Integer", "Float", "Complex", "Count"], ["Object", "String", "Path", "File", "Image"]):
        with warnings.catch_warnings():
            warnings.simplefilter("ignore")
            cur = VisionsTypeset({Generic})
        for nm_ in seq:
            nxt = one_step(cur, "iadd", BYNAME[nm_], "{Generic} iadd ... %s" % nm_)
            if nxt is None:
                break
            cur = nxt
    for nm in base_ts:
        for t in types_all:
            if t not in mk(nm).types and is_parent_closed(set(mk(nm).types) | {t}):
                one_step(mk(nm), "iadd", t, "%s iadd %s (new type)" % (nm, t))
    # remove a type, then add it back (the source of a relation arrives after its target)
    for nm in base_ts:
        for t in sorted(mk(nm).types, key=str):
            if t is Generic or not is_parent_closed(set(mk(nm).types) - {t}):
                continue
            mid = one_step(mk(nm), "sub", t, "%s sub %s" % (nm, t))
            if mid is not None:
                one_step(mid, "add", t, "(%s sub %s) add %s" % (nm, t, t))
    # typeset (+|-) typeset
    for a in base_ts:
        for b in base_ts:
            for op in ("add", "sub", "iadd", "isub"):
                one_step(mk(a), op, mk(b), "%s %s %s" % (a, op, b))
    # sums of two small typesets whose relations CROSS the operands (a relation's source in one, its target in the other):
    # fixed pairs first, then random parent-closed pairs
    def small(names):
        with warnings.catch_warnings():
            warnings.simplefilter("ignore")
            return VisionsTypeset({BYNAME[n_] for n_ in names})
    crossing = [(["Generic", "Float"], ["Generic", "Integer"]), (["Generic", "Float", "Integer"], ["Generic", "Object", "String"]),
                (["Generic", "Object", "String"], ["Generic", "Boolean", "Float", "Complex", "DateTime"]), (["Generic", "Complex"], ["Generic", "Float", "Integer"]),
                (["Generic", "Object", "String"], ["Generic", "Object", "URL", "UUID", "Path"]), (["Generic", "DateTime"], ["Generic", "Object", "Date"]),
                (["Generic", "Integer", "Count"], ["Generic", "Float"]), (["Generic"], ["Generic", "Object", "String", "Float"])]
    for an, bn in crossing:
        for op in ("add", "iadd"):
            one_step(small(an), op, small(bn), "{%s} %s {%s}" % (",".join(an), op, ",".join(bn)))
            one_step(small(bn), op, small(an), "{%s} %s {%s}" % (",".join(bn), op, ",".join(an)))
    for _ in range(40 if tier == "quick" else 600):
        A_ = parent_closed_random(rng, types_all)
        B_ = parent_closed_random(rng, types_all)
        with warnings.catch_warnings():
            warnings.simplefilter("ignore")
            ta, tb = VisionsTypeset(set(A_)), VisionsTypeset(set(B_))
        one_step(ta, rng.choice(["add", "iadd"]), tb, "{%s} + {%s}" % (",".join(sorted(map(str, A_))), ",".join(sorted(map(str, B_)))))
    # Type + Type
    pairs = list(itertools.product(types_all, types_all))
    if tier == "quick":
        pairs = rng.sample(pairs, 150)
    for t, u in pairs:
        cls_before = class_snapshot()
        with warnings.catch_warnings():
            warnings.simplefilter("ignore")
            try:
                res = t + u
                err = None
            except Exception as e:  # noqa
                res, err = None, type(e).__name__
        evals += 1
        want = {Generic, t, u}
        if class_changed(cls_before, class_snapshot()):
            fails.append({"property": "C13", "signature": "type-class-modified", "what": "Type+Type changed a class"})
        if is_parent_closed(want):
            if err or set(res.types) != want or res.root_node is not Generic:
                fails.append({"property": "C13", "signature": "type-plus-type", "what": "%s + %s -> %s" % (t, u, err or sorted(map(str, res.types)))})
            nontriv.add(canon(["tpt", str(t), str(u)]))
        elif res is not None and res.root_node is not Generic:
            fails.append({"property": "C13", "signature": "root-not-generic", "what": "%s + %s" % (t, u)})
        reqs.append({"op": "algebra", "kind": "typeplus", "a": [], "b": [str(t), str(u)]})
        cases.append({"label": "%s + %s" % (t, u), "real_types": sorted(map(str, res.types)) if (res is not None and is_parent_closed(want)) else None,
                      "want": sorted(map(str, want))})
    # random expressions to depth 4 with set-law checks
    nexpr = 150 if tier == "quick" else 3000

    def rand_operand():
        if rng.random() < 0.5:
            return mk(rng.choice(list(base_ts)))
        return rng.choice(types_all)

    for i in range(nexpr):
        ts = mk(rng.choice(list(base_ts)))
        label = "expr"
        for d in range(rng.randint(1, 4)):
            op = rng.choice(["add", "sub", "iadd", "isub", "replace"])
            if op == "replace":
                arg = (rng.choice(sorted(ts.types, key=str)), rng.choice(types_all))
            else:
                arg = rand_operand()
                if op in ("sub", "isub") and (arg is Generic or (isinstance(arg, VisionsTypeset))):
                    # removing Generic leaves no root; stay inside the parent-closed quantifier most of the time
                    if rng.random() < 0.8:
                        op = "add"
            label += " %s %s" % (op, arg if not isinstance(arg, tuple) else "%s->%s" % arg)
            nxt = one_step(ts, op, arg, label)
            if nxt is None:
                break
            ts = nxt
        # set laws on parent-closed operands
        A, B, C = mk(rng.choice(list(base_ts))), rand_operand(), rand_operand()
        SB = set(B.types) if isinstance(B, VisionsTypeset) else {B}
        SC = set(C.types) if isinstance(C, VisionsTypeset) else {C}
        SA = set(A.types)
        if is_parent_closed(SA | SB):
            try:
                with warnings.catch_warnings():
                    warnings.simplefilter("ignore")
                    ab = set((A + B).types)
                    ba = set((B + A).types) if isinstance(B, VisionsTypeset) else ab
                    aa = set((A + A).types)
                    abb = set(((A + B) + B).types)
                    abc = set(((A + B) + C).types) if is_parent_closed(SA | SB | SC) else None
                    a_bc = None
                    if abc is not None and isinstance(B, VisionsTypeset) and is_parent_closed(SB | SC):
                        a_bc = set((A + (B + C)).types)
                    amb_b = set(((A - B) + B).types) if (is_parent_closed(SA - SB) and not isinstance(B, VisionsTypeset)) else None
                evals += 5
                if ab != ba or ab != SA | SB or aa != SA or abb != SA | SB or (abc is not None and abc != SA | SB | SC) \
                        or (a_bc is not None and a_bc != abc) or (amb_b is not None and amb_b != SA | SB):
                    fails.append({"property": "C13", "signature": "set-law",
                                  "what": "commutativity/associativity/idempotence/sub-add",
                                  "A": sorted(map(str, SA)), "B": sorted(map(str, SB)), "C": sorted(map(str, SC))})
            except Exception as e:  # noqa
                fails.append({"property": "C13", "signature": "parent-closed-result-raises", "what": type(e).__name__,
                              "A": sorted(map(str, SA)), "B": sorted(map(str, SB)), "C": sorted(map(str, SC))})
    resps = Driver().batch(reqs)
    for case, resp in zip(cases, resps):
        if case["want"] == "KeyError":
            if resp.get("err") != "KeyError":
                disagreements.append({"kind": "algebra", "case": case, "model": resp})
            continue
        if "err" in resp or sorted(resp["types"]) != case["want"]:
            disagreements.append({"kind": "algebra-set", "case": case, "model": resp})
        if case["real_types"] is not None and sorted(resp["types"]) != case["real_types"]:
            disagreements.append({"kind": "algebra-real", "case": case, "model": resp})
    return {"runner": "algebra", "evaluations": evals, "distinct_nontrivial": len(nontriv),
            "rule": "exhaustive (typeset,type) single steps for + - += -= over 3 shipped typesets x 24 types; replace "
                    "over (member, type) pairs; typeset x typeset; Type+Type pairs; random expressions to depth 4 with "
                    "set-law checks; operands and type classes snapshotted; non-trivial = distinct steps with a "
                    "parent-closed result",
            "samples": [c["label"] for c in cases[:2]] + [c["label"] for c in cases[-2:]],
            "disagreements": disagreements, "oracle_failures": fails, "distribution": {"steps": len(cases)}}


# ---------------------------------------------------------------------------------------------- export

def parse_dot(path):
    import pydot
    g = pydot.graph_from_dot_file(path)[0]
    nodes = sorted(n.get_name().strip('"') for n in g.get_nodes() if n.get_name() not in ("node", "graph", "edge"))
    edges = sorted((e.get_source().strip('"'), e.get_destination().strip('"'), (e.get("style") or "").strip('"')) for e in g.get_edges())
    return nodes, edges


def run_export(tier, seed):
    rng = rng_for(seed, "export")
    ensure_dirs()
    tmp = tempfile.mkdtemp(prefix="export_", dir=WORK)
    fails, disagreements = [], []
    reqs, cases = [], []
    nsets = 12 if tier == "quick" else 150
    sets = [{Generic}, set(StandardSet().types), set(CompleteSet().types)]
    pool = [t for t in ALL if t is not Generic]
    while len(sets) < nsets:
        sets.append(parent_closed_random(rng, pool if rng.random() < 0.5 else rng.sample(pool, 5)))
    evals = 0
    nontriv = set()
    try:
        for si, S in enumerate(sets):
            base = sorted(S, key=str)
            orders = [base, list(reversed(base))]
            for _ in range(2 if tier == "quick" else 4):
                o = list(base)
                rng.shuffle(o)
                orders.append(o)
            if len(base) <= 4:
                orders = [list(p) for p in itertools.permutations(base)]
            for base_only in (False, True):
                blobs = []
                for oi, order in enumerate(orders):
                    with warnings.catch_warnings():
                        warnings.simplefilter("ignore")
                        with ordered_sets():
                            ts = VisionsTypeset(list(order))
                    fn = os.path.join(tmp, "g_%d_%d_%d.dot" % (si, int(base_only), oi))
                    ts.output_graph(fn, base_only=base_only)
                    blobs.append(open(fn, "rb").read())
                    evals += 1
                    if oi == 0:
                        nodes, edges = parse_dot(fn)
                        want_nodes = sorted(str(t) for t in S)
                        want_edges = sorted((str(r.related_type), str(t), "dashed" if r.inferential else "solid")
                                            for t in S for r in t.get_relations()
                                            if r.related_type in S and (not base_only or not r.inferential))
                        if nodes != want_nodes or edges != want_edges:
                            fails.append({"property": "C19", "signature": "export-content",
                                          "what": "exported nodes/edges/styles differ from the typeset's types and relations",
                                          "set": want_nodes, "base_only": base_only, "got_nodes": nodes,
                                          "got_edges": edges[:40], "want_edges": want_edges[:40]})
                        reqs.append({"op": "graph", "nodes": [str(t) for t in order]})
                        cases.append({"nodes": nodes, "edges": edges, "base_only": base_only})
                    os.unlink(fn)
                if len(set(blobs)) != 1:
                    fails.append({"property": "C19", "signature": "export-order-dependent",
                                  "what": "DOT bytes differ between supply orders", "set": [str(t) for t in base],
                                  "base_only": base_only})
                if len(base) >= 2:
                    nontriv.add(canon([[str(t) for t in base], base_only]))
        # typesets ASSEMBLED by `+` / `+=` (in several orders of addition) are exported byte for byte like the directly
        # constructed typeset of the same types
        for names_ in (["Integer", "Float"], ["Float", "Integer"], ["Boolean", "Object"], ["Object", "Date", "DateTime"], ["DateTime", "Object", "Date"],
                       ["Float", "Complex"], ["Integer", "Float", "Complex", "Object", "String"], ["String", "Object", "Float", "Boolean"],
                       ["Object", "String", "URL", "Path", "UUID"]):
            tl_ = [BYNAME[n_] for n_ in names_]
            if not is_parent_closed({Generic} | set(tl_)):
                continue
            with warnings.catch_warnings():
                warnings.simplefilter("ignore")
                direct = VisionsTypeset({Generic} | set(tl_))
                grown = VisionsTypeset({Generic})
                ok_ = True
                for t_ in tl_:
                    try:
                        grown = grown + t_
                    except Exception:  # noqa  (a non-parent-closed intermediate result may raise)
                        ok_ = False
                        break
            if not ok_ or set(grown.types) != set(direct.types):
                continue
            for base_only in (False, True):
                f1, f2 = os.path.join(tmp, "d.dot"), os.path.join(tmp, "g.dot")
                direct.output_graph(f1, base_only=base_only)
                grown.output_graph(f2, base_only=base_only)
                evals += 2
                if open(f1, "rb").read() != open(f2, "rb").read():
                    n1, e1_ = parse_dot(f1)
                    n2, e2_ = parse_dot(f2)
                    fails.append({"property": "C19", "signature": "export-of-assembled-typeset",
                                  "what": "Generic + %s exports other DOT text than VisionsTypeset of the same types (base_only=%s): missing edges %s, extra %s"
                                          % (" + ".join(names_), base_only, [e for e in e1_ if e not in e2_][:4], [e for e in e2_ if e not in e1_][:4])})
                os.unlink(f1)
                os.unlink(f2)
        # user-defined types whose relation CLASS and `inferential` flag disagree (the flag is what the documented
        # semantics and the traversal use: solid / base graph iff not inferential), exported in several supply orders
        from visions.relations import IdentityRelation, InferenceRelation
        from visions.types.type import VisionsBaseType

        def mk_user(name, rels):
            return type(name, (VisionsBaseType,), {"get_relations": staticmethod(rels),
                                                   "contains_op": staticmethod(lambda item, state: False)})
        UA = mk_user("UA", lambda: [IdentityRelation(Generic)])
        UB = mk_user("UB", lambda: [InferenceRelation(UA, relationship=lambda x, s: False, transformer=lambda x, s: x, inferential=False)])
        UC = mk_user("UC", lambda: [IdentityRelation(UA, inferential=True)])
        UD = mk_user("UD", lambda: [IdentityRelation(Generic), InferenceRelation(UB, relationship=lambda x, s: False, transformer=lambda x, s: x)])
        uset = [Generic, UA, UB, UC, UD]
        for base_only in (False, True):
            blobs = []
            for oi, order in enumerate([uset, list(reversed(uset)), [UC, Generic, UD, UA, UB]]):
                with warnings.catch_warnings():
                    warnings.simplefilter("ignore")
                    with ordered_sets():
                        ts = VisionsTypeset(list(order))
                fn = os.path.join(tmp, "u_%d_%d.dot" % (int(base_only), oi))
                ts.output_graph(fn, base_only=base_only)
                blobs.append(open(fn, "rb").read())
                evals += 1
                nodes, edges = parse_dot(fn)
                want_edges = sorted((str(r.related_type), str(t), "dashed" if r.inferential else "solid")
                                    for t in uset for r in t.get_relations() if (not base_only or not r.inferential))
                if nodes != sorted(str(t) for t in uset) or edges != want_edges:
                    fails.append({"property": "C19", "signature": "export-content-user-types",
                                  "what": "user-defined types (relation class and `inferential` flag disagree): exported edges %s, the typeset's relations are %s"
                                          % ([e for e in edges if e not in want_edges][:4] or edges[:6], [e for e in want_edges if e not in edges][:4] or want_edges[:6]),
                                  "base_only": base_only})
                os.unlink(fn)
            if len(set(blobs)) != 1:
                fails.append({"property": "C19", "signature": "export-order-dependent", "what": "DOT bytes differ between supply orders (user types)",
                              "base_only": base_only})
    finally:
        shutil.rmtree(tmp, ignore_errors=True)
    resps = Driver().batch(reqs)
    for case, resp in zip(cases, resps):
        ex = resp["exportBase" if case["base_only"] else "export"]
        mnodes = ex["nodes"]
        medges = [(a, b, "dashed" if d else "solid") for a, b, d in ex["edges"]]
        # the model's lists are *sorted*: they must equal the sorted parsed lists element for element
        if mnodes != case["nodes"] or [tuple(e) for e in medges] != [tuple(e) for e in case["edges"]]:
            disagreements.append({"kind": "export", "case": case, "model": {"nodes": mnodes, "edges": medges}})
    return {"runner": "export", "evaluations": evals, "distinct_nontrivial": len(nontriv),
            "rule": "parent-closed typesets x base_only x supply orders (all permutations for <= 4 types); .dot bytes "
                    "compared across orders, parsed back with pydot and compared with the model's sorted lists; "
                    "non-trivial = distinct (set, base_only) with >= 2 types",
            "samples": [{"nodes": c["nodes"], "n_edges": len(c["edges"]), "base_only": c["base_only"]} for c in cases[:2]],
            "disagreements": disagreements, "oracle_failures": fails, "distribution": {"sets": len(sets)}}


if __name__ == "__main__":
    which = sys.argv[1]
    tier = sys.argv[2] if len(sys.argv) > 2 else "quick"
    seed = int(sys.argv[3]) if len(sys.argv) > 3 else 0
    r = {"graph": run_graph, "algebra": run_algebra, "export": run_export}[which](tier, seed)
    print(json.dumps({k: v for k, v in r.items() if k not in ("disagreements", "oracle_failures")}, indent=1, default=str)[:2500])
    print("disagreements", len(r["disagreements"]), "oracle_failures", len(r["oracle_failures"]))
    for d in r["disagreements"][:3]:
        print(json.dumps(d, default=str)[:2500])
    for d in r["oracle_failures"][:5]:
        print(json.dumps(d, default=str)[:1500])

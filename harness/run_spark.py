"""Spark correspondence runner (C17): every pyspark.sql.types constructor x nullable x column position x
typesets; compares detect_type per column with the Lean model (generated Spark table + traversal) and with the
documented mapping (direct oracle); checks the cast result is the frame itself and that no Spark job ran."""
import json
import os
import sys
import warnings

from common import Driver, rng_for, canon, WORK, ensure_dirs

warnings.simplefilter("ignore")

DOC = {
    "ByteType": "Integer", "ShortType": "Integer", "IntegerType": "Integer", "LongType": "Integer",
    "FloatType": "Float", "DoubleType": "Float", "DecimalType": "Float",
    "BooleanType": "Boolean", "StringType": "String", "DateType": "Date", "TimestampType": "DateTime",
    "ArrayType": "Object", "MapType": "Object", "StructType": "Object",
}


def run(tier, seed):
    ensure_dirs()
    rng = rng_for(seed, "spark")
    os.environ.setdefault("SPARK_LOCAL_IP", "127.0.0.1")
    os.environ["SPARK_LOCAL_DIRS"] = os.path.join(WORK, "spark_%d" % os.getpid())
    from pyspark.sql import SparkSession
    import pyspark.sql.types as T
    import visions
    import visions.functional  # noqa: F401
    import visions.types as vt
    from visions.typesets import CompleteSet, GeometrySet, StandardSet, VisionsTypeset
    from visions.types.generic import Generic
    from run_graph import parent_closed_random, ALL, id_parent

    spark = (SparkSession.builder.master("local[1]").appName("verif")
             .config("spark.ui.enabled", "false").config("spark.driver.host", "127.0.0.1")
             .config("spark.driver.bindAddress", "127.0.0.1").config("spark.sql.shuffle.partitions", "1")
             .config("spark.local.dir", os.environ["SPARK_LOCAL_DIRS"])
             .config("spark.ui.showConsoleProgress", "false").getOrCreate())
    spark.sparkContext.setLogLevel("ERROR")
    sc = spark.sparkContext
    fails, disagreements = [], []
    try:
        atoms = [T.ByteType(), T.ShortType(), T.IntegerType(), T.LongType(), T.FloatType(), T.DoubleType(),
                 T.DecimalType(10, 0), T.DecimalType(38, 18), T.DecimalType(5, 2), T.BooleanType(), T.StringType(),
                 T.BinaryType(), T.DateType(), T.TimestampType(), T.NullType()]
        for nm, args in (("TimestampNTZType", ()), ("DayTimeIntervalType", ()), ("YearMonthIntervalType", ()),
                         ("CharType", (3,)), ("VarcharType", (5,)), ("VariantType", ()), ("CalendarIntervalType", ()),
                         ("TimeType", ())):
            if hasattr(T, nm):
                try:
                    atoms.append(getattr(T, nm)(*args))
                except Exception:
                    pass
        # strings with a non-default collation are still strings (pyspark >= 4)
        for coll in ("UTF8_LCASE", "UNICODE", "UTF8_BINARY"):
            try:
                atoms.append(T.StringType(coll))
            except Exception:
                pass
        nested = []
        for a in (T.IntegerType(), T.StringType(), T.DateType(), T.DecimalType(10, 2)):
            nested.append(T.ArrayType(a))
            nested.append(T.MapType(T.StringType(), a))
            nested.append(T.StructType([T.StructField("f", a, True)]))
        nested.append(T.ArrayType(T.ArrayType(T.LongType())))
        nested.append(T.MapType(T.StringType(), T.StructType([T.StructField("g", T.ArrayType(T.DoubleType()))])))
        nested.append(T.StructType([]))
        # nested field names that are not plain identifiers (the column's declared type must never be re-parsed from text)
        odd = T.StructType([T.StructField("first name", T.StringType()), T.StructField("e-mail", T.StringType()),
                            T.StructField("temp.max", T.DoubleType()), T.StructField("na\u00efve", T.IntegerType()), T.StructField("a`b", T.LongType())])
        nested += [odd, T.ArrayType(odd), T.MapType(T.StringType(), odd)]
        dtypes = atoms + nested
        with warnings.catch_warnings():
            warnings.simplefilter("ignore")
            typesets = {"standard": StandardSet(), "complete": CompleteSet(), "geometry": GeometrySet(),
                        "standard+Date": StandardSet() + vt.Date, "standard+Date+Time": StandardSet() + vt.Date + vt.Time,
                        "generic": VisionsTypeset({Generic})}
            # the umbrella types Numeric and Sparse belong to no shipped typeset and overlap their siblings
            pool = [t for t in ALL if t is not Generic and str(t) not in ("Numeric", "Sparse")]
            # C15 on Spark columns: {Generic, X} for every identity child X of Generic, and one with two children
            kids = [t for t in pool if id_parent(t) is Generic]
            for t in kids:
                typesets["G+%s" % t] = VisionsTypeset({Generic, t})
            typesets["G+Object+DateTime"] = VisionsTypeset({Generic, vt.Object, vt.DateTime})
            for i in range(3 if tier == "quick" else 25):
                typesets["rand%d" % i] = VisionsTypeset(parent_closed_random(rng, pool))
        reqs, cases = [], []
        evals = 0
        skipped = {}
        nontriv = set()
        # frames: several columns per frame so positions vary
        frames = []
        usable = []
        for dt in dtypes:
            try:
                spark.createDataFrame([], T.StructType([T.StructField("c", dt, True)]))
                usable.append(dt)
            except Exception as e:  # noqa
                skipped[type(dt).__name__] = type(e).__name__
        order = list(usable)
        for rep in range(2 if tier == "quick" else 6):
            rng.shuffle(order)
            for i in range(0, len(order), 5):
                chunk = order[i:i + 5]
                fields = [T.StructField("col %d/%s" % (j, rng.choice(["a", "Ω", "x.y", "1", "tick`name", "`q`", "`", "a b", "s`.`x", "x``y"])), dt, rng.random() < 0.5)
                          for j, dt in enumerate(chunk)]
                frames.append(spark.createDataFrame([], T.StructType(fields)))
        # names that could be mistaken for a path into a sibling struct, or that need escaping
        frames.append(spark.createDataFrame([], T.StructType([
            T.StructField("s", T.StructType([T.StructField("x", T.StringType())])),
            T.StructField("s.x", T.DoubleType()), T.StructField("s`.`x", T.LongType()), T.StructField("`s`", T.BooleanType()),
            T.StructField("`", T.DateType()), T.StructField("", T.TimestampType()) if False else T.StructField(" ", T.TimestampType())])))
        # non-empty frames
        import datetime
        import decimal
        rows = [(1, 2.5, True, "a", datetime.date(2020, 1, 1), datetime.datetime(2020, 1, 1, 1), decimal.Decimal("1.50"), [1, 2], None)]
        sch = T.StructType([T.StructField("i", T.IntegerType(), False), T.StructField("f", T.DoubleType()),
                            T.StructField("b", T.BooleanType()), T.StructField("s", T.StringType()),
                            T.StructField("d", T.DateType()), T.StructField("t", T.TimestampType()),
                            T.StructField("m", T.DecimalType(5, 2)), T.StructField("a", T.ArrayType(T.LongType())),
                            T.StructField("n", T.NullType())])
        frames.append(spark.createDataFrame(rows * 3, sch))
        answers = {}
        for fi, df in enumerate(frames):
            for tn, ts in typesets.items():
                group = "verif-%d-%s" % (fi, tn)
                sc.setJobGroup(group, "visions detect")
                try:
                    res = ts.detect_type(df)
                    cast = ts.cast_to_detected(df)
                    err = None
                except Exception as e:  # noqa
                    res, cast, err = None, None, type(e).__name__
                jobs = list(sc.statusTracker().getJobIdsForGroup(group))
                evals += 1
                if err:
                    fails.append({"property": "C17", "signature": "spark-detect-raises", "what": err, "typeset": tn,
                                  "schema": df.schema.simpleString()})
                    continue
                if jobs:
                    fails.append({"property": "C17", "signature": "spark-job-triggered", "what": "detect ran %d Spark job(s)" % len(jobs),
                                  "typeset": tn, "schema": df.schema.simpleString()})
                if cast is not df:
                    fails.append({"property": "C17", "signature": "cast-not-identity", "what": "cast_to_detected did not return the frame itself",
                                  "typeset": tn})
                if list(res.keys()) != df.columns:
                    fails.append({"property": "C17", "signature": "columns", "what": "result keys differ from columns", "typeset": tn})
                tset = set(ts.types)
                try:
                    paths = ts.detect(df)[1]
                    answers[(fi, tn)] = (tset, {f.name: [t for t in paths[f.name]] for f in df.schema.fields})
                except Exception as e:  # noqa
                    fails.append({"property": "C15", "signature": "spark-detect-raises", "what": type(e).__name__, "typeset": tn})
                for field in df.schema.fields:
                    got = str(res[field.name])
                    cls = type(field.dataType).__name__
                    want = getattr(vt, DOC.get(cls, "Generic"))
                    while want not in tset:
                        want = id_parent(want)
                    if got != str(want):
                        fails.append({"property": "C17", "signature": "mapping:%s" % cls,
                                      "what": "%s column detected as %s, documented %s" % (field.dataType.simpleString(), got, want),
                                      "typeset": sorted(map(str, tset)), "nullable": field.nullable, "column": field.name})
                    reqs.append({"op": "spark", "nodes": [str(n) for n in ts.relation_graph.nodes], "dt": cls})
                    cases.append({"typeset": tn, "dt": cls, "got": got})
                    nontriv.add(canon([tn, cls]))
        # C15 (refinement) on Spark columns: for every pair A <= B of the typesets above, detect_A is the deepest type of
        # B's detection path that belongs to A
        n15 = 0
        for fi, df in enumerate(frames):
            for ta in typesets:
                for tb in typesets:
                    if ta == tb or (fi, ta) not in answers or (fi, tb) not in answers:
                        continue
                    (sa, pa), (sb, pb) = answers[(fi, ta)], answers[(fi, tb)]
                    if not (sa <= sb and sa != sb):
                        continue
                    for field in df.schema.fields:
                        proj = [t for t in pb[field.name] if t in sa]
                        n15 += 1
                        if not proj or pa[field.name][-1] is not proj[-1]:
                            fails.append({"property": "C15", "signature": "spark-refine:%s" % type(field.dataType).__name__,
                                          "what": "%s column: detect over %s gives %s, the path over %s is %s" % (
                                              field.dataType.simpleString(), ta, pa[field.name][-1], tb, [str(t) for t in pb[field.name]]),
                                          "typeset": [ta, tb], "column": field.name})
        # two different frames with one and the same schema, and short-lived typesets on one frame: the answer belongs
        # to (typeset, this frame), never to an earlier call
        dfa = spark.createDataFrame(rows * 2, sch)
        dfb = spark.createDataFrame(rows * 3, sch)
        for tn in ("standard", "complete", "standard+Date"):
            ts = typesets[tn]
            for first, second in ((dfa, dfb), (dfb, dfa)):
                try:
                    _ = ts.cast_to_detected(first)
                    back = ts.cast_to_detected(second)
                    back2 = visions.functional.cast_to_detected(second, ts)
                except Exception as e:  # noqa
                    fails.append({"property": "C17", "signature": "spark-detect-raises", "what": type(e).__name__, "typeset": tn})
                    continue
                evals += 1
                if back is not second or back2 is not second:
                    fails.append({"property": "C17", "signature": "cast-not-identity",
                                  "what": "cast_to_detected of a second frame with the same schema returned another DataFrame", "typeset": tn})
        for rnd in range(40 if tier == "quick" else 400):
            with warnings.catch_warnings():
                warnings.simplefilter("ignore")
                t1, t2 = StandardSet(), StandardSet() + vt.Date
            r1, r2 = str(t1.detect_type(dfa)["d"]), str(t2.detect_type(dfa)["d"])
            evals += 2
            if (r1, r2) != ("Object", "Date"):
                fails.append({"property": "C17", "signature": "mapping:DateType",
                              "what": "date column detected as %s under StandardSet and %s under StandardSet+Date (round %d of alternating short-lived typesets)" % (r1, r2, rnd)})
                break
        resps = Driver().batch(reqs)
        for case, resp in zip(cases, resps):
            if "err" in resp or resp["path"][-1] != case["got"]:
                disagreements.append({"kind": "spark", "case": case, "model": resp})
    finally:
        spark.stop()
        import shutil
        shutil.rmtree(os.environ["SPARK_LOCAL_DIRS"], ignore_errors=True)
    return {"runner": "spark", "evaluations": len(cases), "distinct_nontrivial": len(nontriv),
            "rule": "every instantiable pyspark.sql.types constructor (atomic, 3 decimal precisions, nested array/map/struct) "
                    "x nullable x position x typesets (Standard, Complete, Geometry, Standard+Date(+Time), {Generic}, random "
                    "parent-closed); empty and non-empty frames; non-trivial = distinct (typeset, data type class)",
            "samples": cases[:3], "disagreements": disagreements, "oracle_failures": fails,
            "distribution": {"frames": len(frames), "typesets": len(typesets), "dtypes_usable": len(usable),
                             "dtypes_skipped": skipped, "detect_calls": evals, "refinement_pairs_checked": n15}}


if __name__ == "__main__":
    r = run(sys.argv[1] if len(sys.argv) > 1 else "quick", int(sys.argv[2]) if len(sys.argv) > 2 else 0)
    print(json.dumps({k: v for k, v in r.items() if k not in ("disagreements", "oracle_failures")}, indent=1)[:1800])
    print("disagreements", len(r["disagreements"]), "oracle_failures", len(r["oracle_failures"]))
    for d in (r["disagreements"] + r["oracle_failures"])[:5]:
        print(json.dumps(d)[:800])

"""API runner: every public entry point (typeset methods and `visions.functional` wrappers) on ONE long-lived typeset
instance, fed a sequence of inputs, must answer exactly what a fresh typeset's plain traversal (`detect` / `infer`) answers for
that input alone — whatever was asked before, however the values compare with earlier inputs (True == 1 == 1.0), whatever
the series is called, and also after the caller edited the same container in place.

Direct oracles on the real code only (no model): C01 (detect_type), C03 / C04 (infer_type, cast_to_inferred), C05 (identity
of no-op casts), C08 (functional = methods, frames = columns), C10 (no dependence on earlier calls), C12 (entry points are
the documented traversal)."""
import copy
import datetime
import warnings

import numpy as np
import pandas as pd

from common import rng_for

warnings.simplefilter("ignore")
import visions  # noqa: E402
import visions.functional as F  # noqa: E402
from visions.typesets import CompleteSet, StandardSet  # noqa: E402


def outcome(fn):
    try:
        return ["ok", fn()]
    except RecursionError:
        return ["raises", "RecursionError"]
    except BaseException as e:  # noqa
        return ["raises", type(e).__name__]


def canon(x):
    """value-level description of a result (data), for comparisons between entry points"""
    if isinstance(x, pd.DataFrame):
        return ("frame", [repr(c) for c in x.columns], [repr(i) for i in x.index.tolist()], [canon(x[c]) for c in x.columns] if x.columns.is_unique else None)
    if isinstance(x, pd.Series):
        return ("series", str(x.dtype), [repr(v) for v in x.tolist()], [repr(i) for i in x.index.tolist()], repr(x.name))
    if isinstance(x, np.ndarray):
        return ("ndarray", str(x.dtype), [repr(v) for v in x.tolist()])
    if isinstance(x, (list, tuple)):
        return (type(x).__name__, [repr(v) for v in x])
    return ("other", repr(x))


def types_of(r):
    if isinstance(r, dict):
        return {repr(k): str(v) for k, v in r.items()}
    return str(r)


def paths_of(r):
    if isinstance(r, dict):
        return {repr(k): [str(t) for t in v] for k, v in r.items()}
    return [str(t) for t in r]


def last_of(p):
    if isinstance(p, dict):
        return {k: v[-1] for k, v in p.items()}
    return p[-1]


class _SubArr(np.ndarray):
    pass


def inputs():
    """(label, builder) pairs; builders give a fresh object every time.  Groups of inputs whose values compare equal but
    are of different kinds are adjacent, so a memo keyed by value or by position shows up"""
    nan = float("nan")
    S = pd.Series
    out = [
        ("series ints 1/0", lambda: S([1, 0, 1, 1])), ("series bools", lambda: S([True, False, True, True])),
        ("series floats 1.0/0.0", lambda: S([1.0, 0.0, 1.0, 1.0])), ("series complex 1/0", lambda: S([1 + 0j, 0j, 1 + 0j, 1 + 0j])),
        ("series strings 1/0", lambda: S(["1", "0", "1", "1"])), ("series object 1/0", lambda: S([1, 0, 1, 1], dtype=object)),
        ("list ints 1/0", lambda: [1, 0, 1, 1]), ("list bools", lambda: [True, False, True, True]), ("list floats", lambda: [1.0, 0.0, 1.0, 1.0]),
        ("tuple ints", lambda: (1, 0, 1, 1)), ("tuple bools", lambda: (True, False, True, True)),
        ("array ints 1/0", lambda: np.array([1, 0, 1, 1])), ("array bools", lambda: np.array([True, False, True, True])),
        ("array floats", lambda: np.array([1.0, 0.0, 1.0, 1.0])), ("array float 1.5", lambda: np.array([1.5, 0.0, 1.0, 1.0])),
        # views, strided and non-contiguous arrays, subclasses: still the caller's object
        ("array reversed view", lambda: np.array([1.5, 2.5, 3.5])[::-1]), ("array strided", lambda: np.arange(6)[::2]),
        ("array column of a table", lambda: np.array([[1.5, 2.0], [3.5, 4.0]])[:, 0]), ("array bool strided", lambda: np.array([True, False, True, True])[::2]),
        ("array string reversed", lambda: np.array(["a", "b", "c"])[::-1]), ("ndarray subclass", lambda: np.array([1, 2, 3]).view(_SubArr)),
        ("array fortran order", lambda: np.asfortranarray(np.array([[1, 2], [3, 4]]))[0]),
        # the same name / dtype / length with other contents
        ("named a: whole floats", lambda: S([1.0, 2.0, 3.0], name="a")), ("named a: fractions", lambda: S([1.5, 2.0, 3.0], name="a")),
        ("named z: zero imag", lambda: S([3 + 0j, 1 + 0j], name="z")), ("named z: imag", lambda: S([3 + 4j, 1 + 0j], name="z")),
        ("named t: midnights", lambda: S(pd.to_datetime(["2020-01-01", "2020-01-02"]), name="t")),
        ("named t: times", lambda: S([pd.Timestamp("2020-01-01 10:30"), pd.Timestamp("2020-01-02")], name="t")),
        # all-missing columns whose dtype alone decides the type
        ("all-NA Int64", lambda: S([pd.NA, pd.NA], dtype="Int64")), ("all-None category", lambda: S([None, None], dtype="category")),
        ("all-NaT timedelta", lambda: S([pd.NaT, pd.NaT], dtype="timedelta64[ns]")), ("all-NaN complex", lambda: S([complex(nan, 0)] * 2)),
        ("all-NaN float", lambda: S([nan, nan])), ("all-None object", lambda: S([None, None], dtype=object)),
        ("NA + one Int64", lambda: S([pd.NA, 3], dtype="Int64")), ("all-NA UInt8", lambda: S([pd.NA], dtype="UInt8")),
        ("all-NA boolean", lambda: S([pd.NA, pd.NA], dtype="boolean")), ("all-NaT datetime", lambda: S([pd.NaT], dtype="datetime64[ns]")),
        # unusual names
        ("name nan", lambda: S([1, 2], name=nan)), ("name np.nan strings", lambda: S(["a", "b"], name=np.nan)), ("name NaT", lambda: S([1.5], name=pd.NaT)),
        ("name None", lambda: S([1, 2], name=None)), ("name tuple", lambda: S([True], name=("a", 1))), ("name 0", lambda: S(["x"], name=0)),
        ("name nan floats whole", lambda: S([1.0, 2.0], name=nan)),
        # padded / odd strings
        ("padded bools", lambda: S(["yes ", "no  ", "yes "])), ("padded y/n + None", lambda: S([" y", None, " n"])), ("padded true", lambda: S(["true\t", "false\n"])),
        ("padded numbers", lambda: S([" 1", "2 "])), ("list padded bools", lambda: ["yes ", "no "]), ("array padded bools", lambda: np.array(["yes ", "no "])),
        # leading missing values in sequences
        ("list None first strings", lambda: [None, "apple", "pear"]), ("list None first numbers", lambda: [None, "1.5", "2.5"]),
        ("list None middle numbers", lambda: ["1.5", None, "2.5"]), ("list None last numbers", lambda: ["1.5", "2.5", None]),
        ("tuple None first", lambda: (None, "a")), ("list all None", lambda: [None, None]), ("list one None", lambda: [None]),
        ("list None + float", lambda: [1.5, None]), ("list None + bool", lambda: [None, True]),
        # frames
        ("frame mixed", lambda: pd.DataFrame({"qty": ["1", "2", "3"], "label": ["a", "b", "c"], 7: [1.0, 2.0, 3.0]})),
        ("frame same shape other contents", lambda: pd.DataFrame({"qty": ["1", "two", "3"], "label": ["1", "2", "3"], 7: [1.0, 2.0, 3.5]})),
        ("frame index", lambda: pd.DataFrame({"a": [1 + 0j, 2 + 0j], "b": [True, False]}, index=["x", "y"])),
        ("frame empty", lambda: pd.DataFrame({}, index=[1, 2])), ("frame nan label", lambda: pd.DataFrame({nan: [1, 2], "b": ["x", "y"]})),
        ("frame column named nan", lambda: pd.DataFrame({"a": [1.0, 2.0]}).rename(columns={"a": nan})),
    ]
    return out


def edit_in_place(x):
    """change the contents of the container, keeping shape, labels and dtypes; False when not applicable"""
    try:
        if isinstance(x, pd.DataFrame):
            done = False
            for c in x.columns:
                col = x[c]
                if col.dtype == object or str(col.dtype) in ("str", "string"):
                    x.loc[x.index[0], c] = "plain text"
                    done = True
                elif col.dtype.kind == "f":
                    x.loc[x.index[0], c] = 3.25
                    done = True
            return done
        if isinstance(x, pd.Series):
            if x.dtype == object or str(x.dtype) in ("str", "string"):
                x.iloc[0] = "plain text"
                return True
            if x.dtype.kind == "f":
                x.iloc[0] = 3.25
                return True
            return False
        if isinstance(x, list):
            x[0] = "plain text"
            return True
        if isinstance(x, np.ndarray) and x.dtype.kind == "f":
            x[0] = 3.25
            return True
    except Exception:  # noqa
        return False
    return False


def check_one(ts, fresh_cls, label, build, fails, tsname):
    x = build()
    y = build()
    fresh = fresh_cls()
    ref_d = outcome(lambda: fresh.detect(y))
    ref_i = outcome(lambda: fresh.infer(y))
    is_frame = isinstance(x, pd.DataFrame)

    def add(prop, sig, what, also=()):
        fails.append({"property": prop, "also": list(also), "signature": "api:%s" % sig, "what": "[%s] %s: %s" % (tsname, label, what),
                      "recipe": {"input": label, "typeset": tsname}})

    # --- detect side
    if ref_d[0] == "ok":
        want = last_of(paths_of(ref_d[1][1]))
        for name, fn in (("detect_type", lambda: ts.detect_type(x)), ("functional.detect_type", lambda: F.detect_type(x, ts))):
            got = outcome(fn)
            if got[0] != "ok":
                add("C09", "%s-raises" % name, "%s raised %s; the traversal of a fresh typeset answers %s" % (name, got[1], want), also=["C01", "C08"])
            elif types_of(got[1]) != want:
                add("C01", "%s-vs-traversal" % name, "%s = %s, the identity traversal of a fresh typeset ends at %s" % (name, types_of(got[1]), want),
                    also=["C08", "C10", "C12", "C16"])
        got = outcome(lambda: ts.detect(x))
        if got[0] == "ok" and paths_of(got[1][1]) != paths_of(ref_d[1][1]):
            add("C10", "detect-depends-on-history", "detect path %s on the long-lived typeset, %s on a fresh one" % (paths_of(got[1][1]), paths_of(ref_d[1][1])),
                also=["C01", "C12"])
        for name, fn in (("cast_to_detected", lambda: ts.cast_to_detected(x)), ("functional.cast_to_detected", lambda: F.cast_to_detected(x, ts))):
            got = outcome(fn)
            if got[0] != "ok":
                add("C09", "%s-raises" % name, "%s raised %s" % (name, got[1]), also=["C05", "C08"])
            elif not is_frame and got[1] is not x:
                add("C05", "%s-not-identity" % name, "%s did not return the object it was given" % name, also=["C08"])
            elif is_frame and canon(got[1]) != canon(x):
                add("C05", "%s-frame-differs" % name, "%s returned a frame that differs from its argument" % name, also=["C08"])
    # --- infer side
    if ref_i[0] == "ok":
        want_p = paths_of(ref_i[1][1])
        want = last_of(want_p)
        want_data = canon(ref_i[1][0])
        for name, fn in (("infer_type", lambda: ts.infer_type(x)), ("functional.infer_type", lambda: F.infer_type(x, ts))):
            got = outcome(fn)
            if got[0] != "ok":
                add("C09", "%s-raises" % name, "%s raised %s; a fresh typeset infers %s" % (name, got[1], want), also=["C03", "C08"])
            elif types_of(got[1]) != want:
                add("C03", "%s-vs-traversal" % name, "%s = %s, but the inference traversal of a fresh typeset ends at %s (cast data %s)"
                    % (name, types_of(got[1]), want, str(want_data)[:120]), also=["C04", "C08", "C10", "C12"])
        for name, fn in (("cast_to_inferred", lambda: ts.cast_to_inferred(x)), ("functional.cast_to_inferred", lambda: F.cast_to_inferred(x, ts))):
            got = outcome(fn)
            if got[0] != "ok":
                add("C09", "%s-raises" % name, "%s raised %s" % (name, got[1]), also=["C03", "C08"])
                continue
            if canon(got[1]) != want_data:
                add("C06", "%s-vs-traversal" % name, "%s returned %s, the inference traversal of a fresh typeset returns %s"
                    % (name, str(canon(got[1]))[:140], str(want_data)[:140]), also=["C03", "C04", "C08", "C10", "C12"])
            if not is_frame:
                coerced = any(a != b for a, b in zip(want_p, want_p[1:])) and _coerces(fresh, ref_i[1][1])
                if not coerced and got[1] is not x:
                    add("C05", "%s-not-identity" % name, "no coercion applies (path %s) but %s returned another object" % (want_p, name), also=["C08"])
                # C03 on the real result of this entry point
                if isinstance(got[1], (pd.Series, np.ndarray, list, tuple)):
                    it = outcome(lambda: ts.infer_type(x))
                    if it[0] == "ok":
                        inn = outcome(lambda: bool(got[1] in it[1]))
                        if inn != ["ok", True]:
                            add("C03", "cast-not-in-infer_type", "cast_to_inferred(x) is not contained in infer_type(x) = %s" % it[1], also=["C04"])
                        dt = outcome(lambda: str(ts.detect_type(got[1])))
                        if dt != ["ok", str(it[1])]:
                            add("C03", "detect-of-cast-vs-infer_type", "detect_type(cast_to_inferred(x)) = %s, infer_type(x) = %s" % (dt[1], it[1]), also=["C04"])
                        it2 = outcome(lambda: str(ts.infer_type(got[1])))
                        if it2 != ["ok", str(it[1])]:
                            add("C04", "reinfer-vs-infer_type", "infer_type(cast_to_inferred(x)) = %s, infer_type(x) = %s" % (it2[1], it[1]), also=["C03"])
        got = outcome(lambda: ts.infer(x))
        if got[0] == "ok" and (paths_of(got[1][1]) != want_p or canon(got[1][0]) != want_data):
            add("C10", "infer-depends-on-history", "infer gives %s on the long-lived typeset, %s on a fresh one" % (paths_of(got[1][1]), want_p), also=["C03", "C12"])
    # --- C15: the typeset made of exactly the types on the path (a parent-closed chain, every prefix of it too) gives the
    # projection of this answer: the walk must be able to visit EVERY type of a typeset
    if not is_frame and ref_d[0] == "ok" and ref_i[0] == "ok":
        from visions.typesets import VisionsTypeset
        dpath = list(ref_d[1][1])
        for k in range(1, len(dpath) + 1):
            sub = outcome(lambda: VisionsTypeset(set(dpath[:k])))
            if sub[0] != "ok":
                continue
            got = outcome(lambda: [str(t) for t in sub[1].detect(build())[1]])
            want_k = [str(t) for t in dpath[:k]]
            if got[0] == "ok" and got[1] != want_k:
                add("C15", "chain-typeset-detect", "A = %s (a parent-closed subset of %s) detects along %s; the deepest types of B's path %s that belong to A are %s"
                    % (want_k, tsname, got[1], [str(t) for t in dpath], want_k), also=["C01"])
                break
        ipath = list(ref_i[1][1])
        closure = set(ipath)
        g = fresh.base_graph
        for t in list(closure):
            cur = t
            while True:
                preds = list(g.predecessors(cur))
                if not preds:
                    break
                cur = preds[0]
                closure.add(cur)
        sub = outcome(lambda: VisionsTypeset(closure))
        if sub[0] == "ok":
            got = outcome(lambda: [str(t) for t in sub[1].infer(build())[1]])
            if got[0] == "ok" and got[1] != [str(t) for t in ipath] and len(fresh.relation_graph.nodes) > len(closure):
                # (only relations among the types of the path can be taken in A: its walk must be the same walk)
                import networkx as nx
                gb = fresh.relation_graph
                last_a = [t for t in gb.nodes if str(t) == got[1][-1]]
                if not last_a or not nx.has_path(gb, last_a[0], ipath[-1]) or got[1] != [str(t) for t in ipath][:len(got[1])]:
                    add("C15", "chain-typeset-infer", "A = %s infers along %s, B = %s along %s: not a prefix of it" % (sorted(map(str, closure)), got[1], tsname, [str(t) for t in ipath]),
                        also=["C03"])
    # --- the caller edits the container in place and asks again (same typeset instance; membership of every type too)
    all_types = sorted(ts.types, key=str)
    mem_before = {str(t): outcome(lambda: bool(x in t)) for t in all_types} if not is_frame else {}
    if edit_in_place(x):
        if not is_frame:
            zc = copy.deepcopy(x)
            for t in all_types:
                a_, b_ = outcome(lambda: bool(x in t)), outcome(lambda: bool(zc in t))
                if a_ != b_ and a_[0] == "ok" and b_[0] == "ok":
                    add("C10", "stale-membership-after-edit", "after an in-place edit `x in %s` is %s, for an equal fresh copy it is %s (it was %s before the edit)"
                        % (t, a_[1], b_[1], mem_before[str(t)][1]), also=["C01", "C05", "C16"])
                    break
        z = copy.deepcopy(x)
        fresh2 = fresh_cls()
        r_i = outcome(lambda: fresh2.infer(z))
        r_d = outcome(lambda: fresh2.detect(z))
        if r_i[0] == "ok" and r_d[0] == "ok":
            for name, fn, want in (("infer_type", lambda: ts.infer_type(x), last_of(paths_of(r_i[1][1]))),
                                   ("detect_type", lambda: ts.detect_type(x), last_of(paths_of(r_d[1][1])))):
                got = outcome(fn)
                if got[0] == "ok" and types_of(got[1]) != want:
                    add("C10", "stale-after-edit:%s" % name, "after an in-place edit %s = %s, a fresh typeset on the new contents says %s" % (name, types_of(got[1]), want),
                        also=["C05", "C08", "C01" if name == "detect_type" else "C03"])
            got = outcome(lambda: ts.cast_to_inferred(x))
            if got[0] == "ok" and canon(got[1]) != canon(r_i[1][0]):
                add("C10", "stale-after-edit:cast_to_inferred", "after an in-place edit cast_to_inferred returns %s, a fresh typeset on the new contents %s"
                    % (str(canon(got[1]))[:120], str(canon(r_i[1][0]))[:120]), also=["C05", "C06", "C08"])
    if is_frame and ref_i[0] == "ok":
        got = outcome(lambda: F.compare_detect_inference_frame(x, ts) if hasattr(F, "compare_detect_inference_frame") else None)
        _ = got


def _coerces(ts, path):
    """does the path contain an inference (non-identity) hop?"""
    if isinstance(path, dict):
        return any(_coerces(ts, p) for p in path.values())
    g = ts.relation_graph
    for a, b in zip(path, path[1:]):
        if g[a][b]["relationship"].inferential:
            return True
    return False


def fs_scenario(fails):
    """the file system changes between two calls: a column of absolute paths is a Path while the files do not exist, a File
    once they do, a Path again after they are removed — whatever was asked before (C07: existing files are recognised; C10)"""
    import pathlib
    import shutil
    import tempfile
    from common import WORK, ensure_dirs
    ensure_dirs()
    d = tempfile.mkdtemp(prefix="apifs_", dir=WORK)
    n = 0
    try:
        names = [pathlib.Path(d) / "a.txt", pathlib.Path(d) / "b.bin"]
        makers = {"object series": lambda: pd.Series(list(names), dtype=object), "series with None": lambda: pd.Series([names[0], None, names[1]], dtype=object),
                  "list": lambda: list(names)}
        for label, mk in makers.items():
            ts = CompleteSet()
            for step, exists, want in (("before the files exist", False, "Path"), ("after the files were written", True, "File"),
                                       ("after the files were removed", False, "Path"), ("after they were written again", True, "File")):
                for p_ in names:
                    if exists:
                        p_.write_text("x")
                    elif p_.exists():
                        p_.unlink()
                for entry, fn in (("infer_type", lambda: str(ts.infer_type(mk()))), ("detect_type", lambda: str(ts.detect_type(mk()))),
                                  ("fresh typeset infer_type", lambda: str(CompleteSet().infer_type(mk())))):
                    got = outcome(fn)
                    n += 1
                    if got != ["ok", want]:
                        for prop, also in (("C07", ["C10"]),):
                            fails.append({"property": prop, "also": also, "signature": "api:files-%s" % ("not-recognised" if want == "File" else "stale"),
                                          "what": "[CompleteSet] %s of absolute paths, %s: %s = %s, expected %s" % (label, step, entry, got[1], want),
                                          "recipe": {"input": "paths: " + label, "step": step}})
                        return n
    finally:
        shutil.rmtree(d, ignore_errors=True)
    return n


def run(tier, seed):
    rng = rng_for(seed, "api")
    fails = []
    n = 0
    ins = inputs()
    rounds = 2 if tier == "quick" else 8
    for tsname, cls in (("StandardSet", StandardSet), ("CompleteSet", CompleteSet)):
        ts = cls()
        for rnd in range(rounds):
            order = list(range(len(ins)))
            if rnd > 0:
                # keep the collision groups adjacent but vary which member comes first, and where the groups sit
                blocks = [order[i:i + 3] for i in range(0, len(order), 3)]
                rng.shuffle(blocks)
                for b in blocks:
                    rng.shuffle(b)
                order = [i for b in blocks for i in b]
            for i in order:
                label, build = ins[i]
                if tsname == "CompleteSet" and label.startswith("array"):
                    continue          # the numpy back end registers StandardSet's relations only
                try:
                    check_one(ts, cls, label, build, fails, tsname)
                except Exception as e:  # noqa
                    import traceback
                    fails.append({"property": "C09", "signature": "api:harness", "what": "harness crash on %s: %s" % (label, traceback.format_exc()[-300:]),
                                  "recipe": {"input": label}, "also": []})
                n += 1
    n += fs_scenario(fails)
    # one failure per (property, signature, input) is enough
    seen, uniq = set(), []
    for f in fails:
        k = (f["property"], f["signature"], f["recipe"].get("input"))
        if k not in seen:
            seen.add(k)
            uniq.append(f)
    return {"runner": "api", "evaluations": n, "distinct_nontrivial": len(ins),
            "rule": "every public entry point (methods and functional wrappers: detect_type, infer_type, cast_to_detected, cast_to_inferred, detect, infer) on one "
                    "long-lived StandardSet / CompleteSet instance, over %d inputs (Series, frames, lists, tuples, arrays; equal-comparing values of different "
                    "kinds adjacent; all-missing dtype-typed columns; NaN / NaT names; padded strings; leading None) in %d shuffled rounds, each answer compared "
                    "with the plain traversal of a fresh typeset on a fresh copy, and again after an in-place edit of the container" % (len(ins), rounds),
            "samples": [{"input": l} for l, _ in ins[:2]], "disagreements": [], "oracle_failures": uniq,
            "distribution": {"inputs": len(ins), "rounds": rounds}}


if __name__ == "__main__":
    import sys
    r = run(sys.argv[1] if len(sys.argv) > 1 else "quick", int(sys.argv[2]) if len(sys.argv) > 2 else 0)
    print(r["evaluations"], len(r["oracle_failures"]))
    for f in r["oracle_failures"][:40]:
        print(f["property"], f["signature"], "|", f["what"][:200])

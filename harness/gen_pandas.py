"""Recipes, γ (recipe → real pandas Series) and seeded generators for pandas columns.

A *recipe* is plain JSON: {"values": [value recipes], "dtype": dtype spec, "index": index spec, "name": name}.
Every random choice derives from the PRNG handed in, so a case replays from (seed, stream, counter) or from the recipe.
"""
import base64
import datetime
import decimal
import fractions
import ipaddress
import os
import pathlib
import uuid
from urllib.parse import urlparse, urlsplit

import numpy as np
import pandas as pd

from common import WORK, ensure_dirs

PNG = base64.b64decode(
    "iVBORw0KGgoAAAANSUhEUgAAAAEAAAABCAYAAAAfFcSJAAAADUlEQVR42mP8z8BQDwAEhQGAhKmMIQAAAABJRU5ErkJggg==")


def files_dir():
    ensure_dirs()
    d = os.path.join(WORK, "files")
    os.makedirs(d, exist_ok=True)
    for name, data in (("a.txt", b"hello"), ("b.png", PNG), ("c.png", PNG), ("d.txt", b"x")):
        p = os.path.join(d, name)
        if not os.path.exists(p):
            with open(p, "wb") as f:
                f.write(data)
    return d


class Liar:
    """an object whose class name pretends to be `date` and that has every probed attribute"""
    year = month = day = hour = microsecond = 1
    netloc = scheme = "x"
    time_low = hex = local = fqdn = "x"

    def __eq__(self, other):
        return True

    def __hash__(self):
        return 1


Liar.__name__ = "date"


def gamma_value(r):
    k = r[0]
    if k == "str":
        return r[1]
    if k == "int":
        return int(r[1])
    if k == "float":
        return float.fromhex(r[1]) if isinstance(r[1], str) and ("x" in r[1] or r[1] in ("nan", "inf", "-inf")) else float(r[1])
    if k == "bool":
        return bool(r[1])
    if k == "none":
        return None
    if k == "nan":
        return float("nan")
    if k == "NA":
        return pd.NA
    if k == "NaT":
        return pd.NaT
    if k == "complex":
        return complex(float(r[1]), float(r[2]))
    if k == "dt":
        return datetime.datetime.fromisoformat(r[1])
    if k == "ts":
        return pd.Timestamp(r[1], tz=r[2] if len(r) > 2 else None)
    if k == "date":
        return datetime.date.fromisoformat(r[1])
    if k == "time":
        return datetime.time.fromisoformat(r[1])
    if k == "td":
        return datetime.timedelta(seconds=r[1])
    if k == "ppath":
        if r[1].startswith("@"):       # a *pure* path that points at an existing file of the scratch directory
            return pathlib.PurePosixPath(os.path.join(files_dir(), {"@image": "b.png", "@image2": "c.png", "@file": "a.txt"}[r[1]]))
        return pathlib.PurePosixPath(r[1])
    if k == "wpath":
        return pathlib.PureWindowsPath(r[1])
    if k == "path":
        d = files_dir()
        return {"exists": pathlib.Path(d) / "a.txt", "exists2": pathlib.Path(d) / "d.txt",
                "image": pathlib.Path(d) / "b.png", "image2": pathlib.Path(d) / "c.png",
                "missing": pathlib.Path(d) / "nope.bin", "rel": pathlib.Path("some/rel.txt"),
                "relexists": pathlib.Path(os.path.relpath(os.path.join(d, "a.txt")))}[r[1]]
    if k == "url":
        return urlparse(r[1])
    if k == "spliturl":
        return urlsplit(r[1])
    if k == "uuid":
        return uuid.UUID(r[1])
    if k == "ip":
        return ipaddress.ip_address(r[1])
    if k == "email":
        from visions.types.email_address import FQDA
        return FQDA(r[1], r[2])
    if k == "geom":
        from shapely import wkt
        return wkt.loads(r[1])
    if k == "bytes":
        return r[1].encode()
    if k == "list":
        return [1, 2]
    if k == "tuple":
        return (1, 2)
    if k == "dict":
        return {"a": 1}
    if k == "dec":
        return decimal.Decimal(r[1])
    if k == "frac":
        return fractions.Fraction(r[1])
    if k == "npint":
        return np.int64(r[1])
    if k == "npfloat":
        return np.float64(r[1])
    if k == "npbool":
        return np.bool_(r[1])
    if k == "liar":
        return Liar()
    raise ValueError(r)


def gamma_index(spec, n):
    if spec is None or spec == "default":
        return None
    if spec == "str":
        return ["r%d" % i for i in range(n)]
    if spec == "dup":
        return [i // 2 for i in range(n)]
    if spec == "same":
        return [7] * n
    if spec == "rev":
        return list(range(n - 1, -1, -1))
    if spec == "mixed":
        return [("k%d" % i) if i % 2 else i * 10 for i in range(n)]
    if spec == "shift":            # a RangeIndex that overlaps 0..n-1 without starting at 0 (rows filtered away)
        return list(range(1, n + 1))
    return list(spec)


def gamma(recipe):
    vals = [gamma_value(v) for v in recipe["values"]]
    dt = recipe.get("dtype", "object")
    idx = gamma_index(recipe.get("index"), len(vals))
    name = recipe.get("name")
    kw = {"index": idx, "name": name}
    if dt == "infer":
        return pd.Series(vals, **kw)
    if isinstance(dt, list):
        tag = dt[0]
        if tag == "category":
            cats = []
            for v in vals:
                if not (v is None or v is pd.NA or v is pd.NaT or (isinstance(v, float) and v != v)) and \
                        not any(v is c or v == c for c in cats):
                    cats.append(v)
            return pd.Series(pd.Categorical(vals, categories=cats, ordered=bool(dt[1])), **kw)
        if tag == "datetimetz":
            return pd.Series(pd.to_datetime(pd.Series(vals, dtype=object), utc=True).dt.tz_convert(dt[1]).values, **kw) \
                if False else pd.Series(pd.DatetimeIndex(pd.to_datetime(vals, utc=True)).tz_convert(dt[1]), **kw)
        if tag == "sparse":
            return pd.Series(pd.arrays.SparseArray(vals, dtype=dt[1]), **kw)
    if dt == "str":
        return pd.Series(vals, dtype=pd.StringDtype(na_value=np.nan), **kw)
    if dt == "string":
        return pd.Series(vals, dtype=pd.StringDtype("python"), **kw)
    if dt == "stringArrow":
        return pd.Series(vals, dtype=pd.StringDtype("pyarrow"), **kw)
    if dt == "strPython":
        return pd.Series(vals, dtype=pd.StringDtype("python", na_value=np.nan), **kw)
    return pd.Series(vals, dtype=dt, **kw)


# ------------------------------------------------------------------------------------------------ pools

def fhex(x):
    return float(x).hex()


STR_POOLS = {
    "int": ["1", "2", "30", "-7", "0", "+5", " 12 ", "1_0", "007", "05", "9007199254740993", "٣", "18446744073709551615", "9223372036854775808",
            "1_000", "340282366920938463463374607431768211456", "-9223372036854775809"],
    "float": ["1.5", "2.0", "1e3", "-0.25", ".5", "1.", "inf", "nan", "NaN", "1e400", "0.1", "00.5", "1.0", "3.0", "01.5", "02.5", "01.02",
              "03.04", "0.5e1", "0.25", "012.5"],
    "bool": ["True", "false", "TRUE", "yes", "No", "y", "N", "true", "FALSE", "Y", "n", "no", "YES"],
    "complex": ["1+2j", "3j", "(1+1j)", "2+0j", "1e2j", "nan+1j", "j", "1+2i"],
    "datetime": ["2020-01-01", "2020-01-02 10:30:00", "1999-12-31T23:59:59", "01/02/2021", "2020-01-01+01:00",
                 "Jan 5 2019", "2020", "20200101", "2021-13-45"],
    "url": ["http://www.cwi.nl:80/%7Eguido/Python.html", "https://github.com/pandas-profiling/pandas-profiling",
            "http://u@h", "ftp://x.y/z", "http://[a", "//net/loc", "mailto:a@b.c", "http://a.b"],
    "path": ["/home/user/file.txt", "/a", "C:\\Users\\x\\f.txt", "c:/a@b", "/a@b", "relative/p.txt", "\\\\srv\\share\\f",
             "/", "C:", "C://foo/bar", "/usr/lib/x.so", "D:\\data\\a.csv"],
    "ip": ["127.0.0.1", "192.168.0.255", "::1", "2001:db8::8a2e:370:7334", "256.1.1.1", "1.2.3", "0.0.0.0"],
    "uuid": ["0b8a22ca-80ad-4df5-85ac-fa49c44b7ede", "{0b8a22ca-80ad-4df5-85ac-fa49c44b7ede}",
             "0b8a22ca80ad4df585acfa49c44b7ede", "1" * 32, "urn:uuid:0b8a22ca-80ad-4df5-85ac-fa49c44b7ede", "12345"],
    "email": ["test@example.com", "a@b", "@", "x@y@z", "no-at-sign", "first.last@sub.domain.org"],
    "geom": ["POINT (1 2)", "POINT (-92 42)", "LINESTRING (0 0, 1 1)", "POLYGON ((0 0, 1 0, 1 1, 0 0))", "POINT EMPTY",
             "POINT (1", "GEOMETRYCOLLECTION EMPTY", "CIRCULARSTRING (0 0, 1 1, 2 0)", "MULTICURVE EMPTY"],
    "text": ["hello", "a b", "", " ", "İ", "ß", "None", "null", "NA", "\x00", "x" * 300, "j", "i", "e", "-", "."],
}

GRID_FAMILIES = {
    "float": ["1.5", "2.25", "-3.0"], "int": ["12", "7", "300"], "bool": ["yes", "no", "yes"],
    "complex": ["1+2j", "3j", "2+0j"], "datetime": ["2020-01-01 10:30:00", "2021-05-06 01:02:03", "1999-12-31 23:59:59"],
    "date": ["2020-01-01", "2021-05-06", "1999-12-31"], "url": ["http://a.b/c", "https://x.y/z", "ftp://x.y/z"],
    "path": ["/home/user/file.txt", "/a", "/usr/lib/x.so"], "wpath": ["C:\\Users\\x\\f.txt", "D:\\data\\a.csv", "C:\\a"],
    "ip": ["127.0.0.1", "::1", "192.168.0.255"], "uuid": ["0b8a22ca-80ad-4df5-85ac-fa49c44b7ede"] * 3,
    "email": ["test@example.com", "first.last@sub.domain.org", "a@b.c"], "geom": ["POINT (1 2)", "LINESTRING (0 0, 1 1)", "POINT (-92 42)"],
    "text": ["hello", "a b", "x-y"],
}


def grid_recipes():
    """every accepted string family x {no missing value, one in each position} x every index kind: the interplay of
    missing values with non-default, unsorted and duplicated index labels is where label-based code goes wrong"""
    out = []
    for fam, vals in GRID_FAMILIES.items():
        for idx in ("default", "rev", "dup", "same", "str", "mixed"):
            for nulls in (None, 0, 1, 3):
                for dt, sent in (("object", ["none"]), ("str", ["nan"])):
                    v = [["str", x] for x in vals]
                    if nulls is not None:
                        v.insert(nulls, sent)
                    out.append({"values": v, "dtype": dt, "index": idx, "name": "g", "stream": "grid:%s" % fam})
    # complex / float / datetime columns under every index kind (transformers must keep the labels)
    for idx in ("default", "rev", "dup", "same", "str", "mixed"):
        out.append({"values": [["complex", 1.0, 0.0], ["complex", 2.0, 0.0], ["nan"]], "dtype": "complex128", "index": idx, "name": "g", "stream": "grid:complex128"})
        out.append({"values": [["float", 1.0], ["nan"], ["float", 3.0]], "dtype": "float64", "index": idx, "name": "g", "stream": "grid:float64"})
        out.append({"values": [["dt", "2020-01-01T00:00:00"], ["NaT"], ["dt", "2021-02-03T00:00:00"]], "dtype": "datetime64[ns]", "index": idx, "name": "g", "stream": "grid:datetime64"})
        out.append({"values": [["bool", True], ["none"], ["bool", False]], "dtype": "object", "index": idx, "name": "g", "stream": "grid:object-bool"})
    return out


OBJ_POOL = [
    ["bool", True], ["bool", False], ["int", 0], ["int", 1], ["int", 2], ["int", -1], ["float", 1.0], ["float", 0.0],
    ["float", 1.5], ["complex", 1, 0], ["complex", 0, 1], ["npint", 1], ["npfloat", 1.0], ["npbool", True],
    ["dt", "2020-01-01T00:00:00"], ["dt", "2020-01-01T10:00:00"], ["ts", "2020-01-01"], ["ts", "2020-01-01 05:00"],
    ["date", "2020-01-01"], ["date", "1999-12-31"], ["time", "10:00:00"], ["time", "00:00:00"], ["td", 5],
    ["ppath", "/a/b"], ["ppath", "rel/b"], ["wpath", "C:\\x\\y"], ["path", "exists"], ["path", "exists2"],
    ["ppath", "@image"], ["ppath", "@image2"], ["ppath", "@file"],
    ["path", "image"], ["path", "image2"], ["path", "missing"], ["path", "rel"], ["path", "relexists"],
    ["url", "http://a.b/c"], ["url", "https://x.y"], ["url", "nothing"], ["spliturl", "http://a.b/c"],
    ["uuid", "0b8a22ca-80ad-4df5-85ac-fa49c44b7ede"], ["uuid", "00000000-0000-0000-0000-000000000001"],
    ["ip", "127.0.0.1"], ["ip", "::1"], ["email", "a", "b.c"], ["email", "", ""],
    ["geom", "POINT (1 2)"], ["geom", "LINESTRING (0 0, 1 1)"], ["geom", "POINT EMPTY"],
    ["bytes", "ab"], ["list"], ["dict"], ["dec", "1"], ["dec", "1.5"], ["frac", "1/2"],
    ["str", "a"], ["str", "1"], ["str", "True"],
]

NULLS_OBJ = [["none"], ["nan"], ["NA"], ["NaT"]]


def with_nulls(rng, vals, sentinels, pattern=None):
    if not sentinels:
        return vals
    pattern = pattern or rng.choice(["none", "none", "lead", "trail", "mid", "all", "some"])
    n = len(vals)
    if pattern == "none" or n == 0:
        return vals
    s = lambda: rng.choice(sentinels)  # noqa
    if pattern == "lead":
        return [s()] + vals
    if pattern == "trail":
        return vals + [s()]
    if pattern == "mid":
        i = rng.randint(0, n)
        return vals[:i] + [s()] + vals[i:]
    if pattern == "all":
        return [s() for _ in vals]
    return [s() if rng.random() < 0.3 else v for v in vals]


def idx_name(rng, recipe):
    recipe["index"] = rng.choice(["default", "default", "str", "dup", "rev", "mixed", "same"])
    recipe["name"] = rng.choice([None, "col", "x y", 3])
    return recipe


def gen_string_column(rng):
    fam = rng.choice(list(STR_POOLS))
    n = rng.choice([0, 1, 1, 2, 3, 4, 6, 8, 12])
    pool = STR_POOLS[fam]
    vals = [["str", rng.choice(pool)] for _ in range(n)]
    if rng.random() < 0.2 and n > 0:      # contaminate with another family / late deviant
        other = rng.choice(list(STR_POOLS))
        vals[rng.randrange(n) if n < 6 else rng.randrange(5, n)] = ["str", rng.choice(STR_POOLS[other])]
    dtype = rng.choice(["object", "object", "str", "string", "infer", "stringArrow", "strPython"])
    sent = {"object": NULLS_OBJ[:3], "str": [["none"], ["nan"]], "string": [["none"], ["NA"], ["nan"]],
            "infer": [["none"], ["nan"]], "stringArrow": [["none"], ["NA"]], "strPython": [["none"], ["nan"]]}[dtype]
    vals = with_nulls(rng, vals, sent)
    return idx_name(rng, {"values": vals, "dtype": dtype, "stream": "string:" + fam})


def gen_numeric_column(rng):
    kind = rng.choice(["int", "uint", "Int", "UInt", "float", "Float", "complex", "bool", "boolean"])
    n = rng.choice([0, 1, 2, 3, 5, 7, 10])
    if kind in ("int", "Int"):
        vals = [["int", rng.choice([0, 1, -1, 2, 127, -128, 1000000])] for _ in range(n)]
        dtype = rng.choice(["int8", "int64", "int32"]) if kind == "int" else rng.choice(["Int8", "Int64"])
        if dtype in ("int8", "Int8"):
            vals = [["int", max(-128, min(127, v[1]))] for v in vals]
        sent = [["NA"]] if kind == "Int" else []
    elif kind in ("uint", "UInt"):
        vals = [["int", rng.choice([0, 1, 2, 255])] for _ in range(n)]
        dtype = rng.choice(["uint8", "uint64"]) if kind == "uint" else rng.choice(["UInt8", "UInt32"])
        sent = [["NA"]] if kind == "UInt" else []
    elif kind in ("float", "Float"):
        pool = [1.0, 2.0, -3.0, 0.0, 1.5, 0.1, 1e19, -9.223372036854775808e18, 9.223372036854775808e18, 1e300,
                float("inf"), float("-inf"), 1 + 2 ** -30, 4.0, 1e15, 123456789.0]
        if rng.random() < 0.5:
            pool = [1.0, 2.0, -3.0, 0.0, 4.0, 1e15, 123456789.0]
        vals = [["float", fhex(rng.choice(pool))] for _ in range(n)]
        dtype = rng.choice(["float64", "float32", "float16"]) if kind == "float" else rng.choice(["Float64", "Float32"])
        if dtype in ("float16", "float32", "Float32"):
            vals = [["float", fhex(float(np.dtype(dtype.lower()).type(float.fromhex(v[1]))))] for v in vals]
        sent = [["nan"]] if kind == "float" else [["NA"]]
    elif kind == "complex":
        pool = [(1, 0), (2, 0), (0, 0), (1.5, 0), (1, 2), (0, 1e-12), (3, 0), (-4, 0)]
        if rng.random() < 0.6:
            pool = [p for p in pool if p[1] == 0]
        vals = [["complex"] + list(rng.choice(pool)) for _ in range(n)]
        dtype = rng.choice(["complex128", "complex64"])
        sent = [["nan"]]
    elif kind == "bool":
        vals = [["bool", rng.random() < 0.5] for _ in range(n)]
        dtype = "bool"
        sent = []
    else:
        vals = [["bool", rng.random() < 0.5] for _ in range(n)]
        dtype = "boolean"
        sent = [["NA"]]
    vals = with_nulls(rng, vals, sent)
    return idx_name(rng, {"values": vals, "dtype": dtype, "stream": "numeric:" + kind})


def gen_temporal_column(rng):
    kind = rng.choice(["datetime", "datetimetz", "timedelta", "dateobj", "timeobj"])
    n = rng.choice([0, 1, 2, 3, 6, 9])
    if kind in ("datetime", "datetimetz"):
        pool = ["2020-01-01T00:00:00", "2021-05-06T00:00:00", "1999-12-31T00:00:00"]
        if rng.random() < 0.5:
            pool += ["2020-01-01T10:30:00", "2020-01-01T00:00:00.000001", "2020-01-01T00:00:00.250"]
        nano = rng.random() < 0.25        # a nanosecond after midnight: no Date (dt.time has microsecond resolution)
        if kind == "datetimetz" and rng.random() < 0.5:
            # days whose local midnight does not exist / is ambiguous in zones that switch at midnight
            pool += ["2018-11-04T15:00:00", "2019-03-31T12:00:00", "2018-11-04T03:00:00"]
        vals = [["dt", rng.choice(pool)] for _ in range(n)]
        if n >= 6 and rng.random() < 0.3:
            vals[rng.randrange(5, n)] = ["dt", "2020-03-03T03:03:03"]
        if nano and vals:
            vals[rng.randrange(len(vals))] = ["ts", "2020-01-01 00:00:00.000000001"]
        vals = with_nulls(rng, vals, [["NaT"]])
        dtype = "datetime64[ns]" if kind == "datetime" else ["datetimetz", rng.choice(["UTC", "Europe/Amsterdam", "America/Sao_Paulo", "Asia/Beirut", "America/Havana"])]
        if kind == "datetime" and rng.random() < 0.3 and not nano:
            dtype = "datetime64[s]"
    elif kind == "timedelta":
        vals = with_nulls(rng, [["td", rng.choice([0, 5, 86400])] for _ in range(n)], [["NaT"]])
        dtype = "timedelta64[ns]"
    elif kind == "dateobj":
        vals = with_nulls(rng, [["date", rng.choice(["2020-01-01", "1999-12-31"])] for _ in range(n)], NULLS_OBJ)
        dtype = "object"
    else:
        vals = with_nulls(rng, [["time", rng.choice(["10:00:00", "00:00:00"])] for _ in range(n)], NULLS_OBJ[:3])
        dtype = "object"
    return idx_name(rng, {"values": vals, "dtype": dtype, "stream": "temporal:" + kind})


def gen_object_column(rng, homogeneous=None):
    n = rng.choice([0, 1, 2, 2, 3, 4, 6, 8])
    if homogeneous is None:
        homogeneous = rng.random() < 0.55
    if homogeneous:
        k = rng.choice(sorted(set(v[0] for v in OBJ_POOL)))
        pool = [v for v in OBJ_POOL if v[0] == k]
        vals = [rng.choice(pool) for _ in range(n)]
        if n >= 2 and rng.random() < 0.25:
            vals[rng.randrange(n) if n < 6 else rng.randrange(5, n)] = rng.choice(OBJ_POOL)
    else:
        vals = [rng.choice(OBJ_POOL) for _ in range(n)]
    vals = with_nulls(rng, vals, NULLS_OBJ)
    return idx_name(rng, {"values": vals, "dtype": "object", "stream": "object:" + ("homog" if homogeneous else "mixed")})


def gen_categorical_column(rng):
    n = rng.choice([0, 1, 2, 4, 6])
    k = rng.choice(["str", "int", "bool", "float", "geom", "ip"])
    pool = {"str": [["str", "a"], ["str", "b"], ["str", "1"]], "int": [["int", 1], ["int", 2]],
            "bool": [["bool", True], ["bool", False]], "float": [["float", 1.5], ["float", 2.0]],
            "geom": [["geom", "POINT (1 2)"], ["geom", "LINESTRING (0 0, 1 1)"]],
            "ip": [["ip", "127.0.0.1"], ["ip", "::1"]]}[k]
    vals = with_nulls(rng, [rng.choice(pool) for _ in range(n)], [["none"], ["nan"]])
    return idx_name(rng, {"values": vals, "dtype": ["category", rng.random() < 0.4], "stream": "categorical:" + k})


TRICKY = [["bytes", "raw"], ["list"], ["dict"], ["tuple"], ["int", 1], ["float", 1.5], ["bool", True], ["dt", "2020-01-01T10:00:00"],
          ["date", "2020-01-01"], ["time", "10:00:00"], ["spliturl", "http://a.b/c"], ["url", "nothing"], ["ppath", "rel/b"],
          ["path", "missing"], ["path", "rel"], ["path", "exists"], ["str", "a"], ["str", ""], ["npint", 1], ["dec", "1"],
          ["uuid", "00000000-0000-0000-0000-000000000001"], ["ip", "::1"], ["email", "", ""], ["geom", "POINT EMPTY"],
          ["complex", 1, 0], ["td", 5], ["ts", "2020-01-01 05:00"]]


def gen_late_deviant(rng):
    """6..12 rows, homogeneous except for ONE different element placed after the fifth row: the code peeks at
    `values[0:5]` / `head(1)`, so a defect behind such a peek is invisible to short columns and to early deviants"""
    n = rng.randint(6, 12)
    if rng.random() < 0.55:
        k = rng.choice(sorted(set(v[0] for v in OBJ_POOL)))
        pool = [v for v in OBJ_POOL if v[0] == k]
        dtype = "object"
    else:
        fam = rng.choice(list(STR_POOLS))
        pool = [["str", x] for x in STR_POOLS[fam][:5]]
        dtype = rng.choice(["object", "object", "infer"])
    vals = [rng.choice(pool) for _ in range(n)]
    dev = rng.choice(TRICKY + [["str", rng.choice(STR_POOLS[rng.choice(list(STR_POOLS))])]])
    vals[rng.randrange(5, n)] = dev
    if dev[0] != "str":
        dtype = "object"
    if rng.random() < 0.3:
        vals = with_nulls(rng, vals, NULLS_OBJ[:2], rng.choice(["lead", "mid", "trail"]))
    return idx_name(rng, {"values": vals, "dtype": dtype, "stream": "late-deviant"})


def gen_long_column(rng):
    """>= 1000 rows: the engine has a sampling code path that only long series can reach.  Mostly-missing columns with a
    few values, a homogeneous majority with rare contaminants, and plain long homogeneous columns."""
    n = rng.choice([1000, 1001, 1200, 2500])
    kind = rng.choice(["sparse-values", "contaminated", "homogeneous"])
    fam = rng.choice(["int", "float", "bool", "datetime", "url", "ip", "uuid", "text", "geom"])
    pool = [["str", v] for v in STR_POOLS[fam][:4]]
    dtype = rng.choice(["object", "str"])
    null = ["none"] if dtype == "object" else ["nan"]
    if kind == "sparse-values":
        vals = [null] * n
        for _ in range(rng.choice([1, 2, 3])):
            vals[rng.randrange(n)] = rng.choice(pool)
        if rng.random() < 0.3:
            dtype = "object"
            vals = [["none"]] * n
            for _ in range(rng.choice([1, 2])):
                vals[rng.randrange(n)] = rng.choice([["date", "2020-01-01"], ["time", "10:00:00"], ["ip", "127.0.0.1"],
                                                    ["geom", "POINT (1 2)"], ["bool", True], ["ppath", "/a/b"]])
    elif kind == "contaminated":
        base = rng.choice(pool)
        vals = [base] * n
        other = rng.choice(list(STR_POOLS))
        for _ in range(rng.choice([1, 2])):
            vals[rng.randrange(n)] = ["str", rng.choice(STR_POOLS[other])]
    else:
        vals = [rng.choice(pool[:2]) for _ in range(n)]
        if rng.random() < 0.3:
            dtype = "float64"
            vals = [["float", float(rng.choice([1, 2, 3]))] for _ in range(n)]
            if rng.random() < 0.5:
                vals[rng.randrange(n)] = ["float", 1.5]
    return {"values": vals, "dtype": dtype, "index": "default", "name": None, "stream": "long:" + kind}


def gen_column(rng):
    f = rng.choices([gen_string_column, gen_numeric_column, gen_temporal_column, gen_object_column, gen_categorical_column,
                     gen_late_deviant], [5, 3, 2, 4, 1, 3])[0]
    return f(rng)

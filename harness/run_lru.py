"""LRU correspondence runner (C20): every call history up to a length over 4 keys x capacities 1..3 (bounded
exhaustive) plus long random histories, on the real `lru_cache` / `LRUCacher`, compared with the Lean model
(return values, underlying-call flags, cache keys in order after every call) and with a direct reference-LRU oracle."""
import itertools
import json
import sys

from common import Driver, rng_for, canon

from visions.utils.cache import LRUCacher, lru_cache


def f(a):
    return a * 7 + 1


def g(a):
    """a wrapped function with falsy and None results (a cache must not mistake a cached None / 0 / '' for a miss)"""
    return [None, 0, "", False, 5, None][a % 6]


def real_history(cap, calls, keymod, fn_=None):
    count = [0]
    fn_ = fn_ or f

    def wrapped(a):
        count[0] += 1
        return fn_(a)

    key = (lambda a: a) if keymod == 0 else (lambda a: a % keymod)
    fn = lru_cache(key, cap)(wrapped)
    cacher = [c.cell_contents for c in fn.__closure__ if isinstance(c.cell_contents, LRUCacher)][0]
    steps = []
    for a in calls:
        before = count[0]
        try:
            ret = fn(a)
        except KeyError:
            ret = "KeyError"
        steps.append({"ret": ret, "keys": list(cacher.cache.keys()), "called": count[0] > before})
    return {"steps": steps, "calls": count[0]}


def oracle(cap, calls, keymod, real, f=f):
    """direct statement of C20 against a reference LRU (list of keys by recency, most recent last)"""
    if cap < 1:
        return None
    key = (lambda a: a) if keymod == 0 else (lambda a: a % keymod)
    recency = []   # all keys by most recent use
    cached = {}
    for a, st in zip(calls, real["steps"]):
        k = key(a)
        miss = k not in cached
        if keymod == 0 and (st["ret"] != f(a) or type(st["ret"]) is not type(f(a))):
            return "call %s returned %s, wrapped function gives %s" % (a, st["ret"], f(a))
        if st["called"] != miss:
            return "wrapped function %s on a %s" % ("called" if st["called"] else "not called", "miss" if miss else "hit")
        if miss:
            cached[k] = f(a)
        if k in recency:
            recency.remove(k)
        recency.append(k)
        want = recency[-cap:]
        for kk in list(cached):
            if kk not in want:
                del cached[kk]
        if len(st["keys"]) > cap:
            return "cache holds %d > max_length %d entries" % (len(st["keys"]), cap)
        if st["keys"] != want:
            return "cache keys %s, least-recently-used discipline gives %s" % (st["keys"], want)
    return None


def run(tier, seed):
    rng = rng_for(seed, "lru")
    maxlen = 6 if tier == "quick" else 8
    hist = []
    for cap in (1, 2, 3):
        for l in range(0, maxlen + 1):
            for calls in itertools.product(range(4), repeat=l):
                hist.append((cap, list(calls), 0))
    nrand = 300 if tier == "quick" else 3000
    for i in range(nrand):
        cap = rng.choice([0, 1, 2, 3, 5, 8, 16])
        n = rng.randint(1, 200)
        kspace = rng.choice([3, 6, 20])
        keymod = rng.choice([0, 0, 0, 3, 5])
        hist.append((cap, [rng.randrange(kspace) for _ in range(n)], keymod))
    fails, disagreements = [], []
    reqs = []
    reals = []
    nontriv = set()
    evictions = 0
    for cap, calls, keymod in hist:
        real = real_history(cap, calls, keymod)
        reals.append(real)
        reqs.append({"op": "lru", "cap": cap, "calls": calls, "keymod": keymod})
        msg = oracle(cap, calls, keymod, real)
        if msg:
            if len(fails) < 20:
                fails.append({"property": "C20", "signature": "lru-discipline", "what": msg, "cap": cap, "calls": calls,
                              "keymod": keymod, "observed": real["steps"][-3:]})
        if len(set(calls)) > cap >= 1:
            nontriv.add(canon([cap, calls, keymod]))
            evictions += 1
    # the same discipline for a wrapped function whose results include None, 0, '' and False (oracle only: the model's
    # wrapped function is `7a+1`)
    nfalsy = 0
    for cap, calls, keymod in hist[::7] + hist[-nrand:]:
        if keymod != 0 or cap < 1:
            continue
        nfalsy += 1
        real = real_history(cap, calls, 0, g)
        msg = oracle(cap, calls, 0, real, g)
        if msg and len(fails) < 20:
            fails.append({"property": "C20", "signature": "lru-discipline-falsy-results", "what": msg + " (wrapped function returns None/0/''/False for some keys)",
                          "cap": cap, "calls": calls[:40], "keymod": 0, "observed": real["steps"][-3:]})
    # keys whose Python hashes collide (hash(-1) == hash(-2), hash(0) == hash(2**61-1), tuples of those): a cache must
    # compare keys, not hashes (oracle only: the model's keys are naturals)
    EXOTIC = [-2, -1, 0, 2 ** 61 - 1, (-1, "a"), (-2, "a"), 1.0, 1, True, "1"]
    h = lambda k: ("v", repr(k))  # noqa: E731   distinct result per distinct *repr* (1, 1.0 and True are equal keys)
    canon_key = {repr(k): next(repr(j) for j in EXOTIC if j == k and type(j) in (type(k), int, float, bool)) for k in EXOTIC}
    nexo = 0
    for cap, calls, keymod in hist[::5] + hist[-nrand:]:
        if keymod != 0 or cap < 1:
            continue
        nexo += 1
        ks = [EXOTIC[a % len(EXOTIC)] for a in calls]
        count = [0]

        def wrapped(k):
            count[0] += 1
            return ("v", canon_key[repr(k)])
        fn = lru_cache(lambda k: k, cap)(wrapped)
        cached = []   # reference LRU over keys compared by equality, most recent last
        for k in ks:
            before = count[0]
            ret = fn(k)
            miss = not any(k == c for c in cached)
            if (count[0] > before) != miss or ret != ("v", canon_key[repr(k)]):
                if len(fails) < 20:
                    fails.append({"property": "C20", "signature": "lru-key-equality",
                                  "what": "key %r: %s, returned %r (keys with colliding hashes must not share an entry; equal keys must)"
                                          % (k, "recomputed on a hit" if count[0] > before and not miss else "not recomputed on a miss" if miss and count[0] == before else "wrong value", ret),
                                  "cap": cap, "keys": [repr(x) for x in ks[:30]]})
                break
            cached = [c for c in cached if not (c == k)] + [k]
            cached = cached[-cap:]
    # a wrapped function that calls itself through the wrapper (memoised recursion): values stay right and the cache
    # never holds more than max_length entries, whatever the nesting
    nrec = 0
    for cap in (1, 2, 3, 5):
        for seqn in ([5], [8, 3, 8], [2, 9, 4, 9, 1], [6, 6, 7]):
            nrec += 1
            box = {}

            def fibf(n):
                return n if n < 2 else box["f"](n - 1) + box["f"](n - 2)
            box["f"] = lru_cache(lambda n: n, cap)(fibf)
            cacher = [c.cell_contents for c in box["f"].__closure__ if isinstance(c.cell_contents, LRUCacher)][0]
            ref = lambda n: n if n < 2 else ref(n - 1) + ref(n - 2)  # noqa: E731
            for n in seqn:
                try:
                    got = box["f"](n)
                except KeyError:
                    got = "KeyError"
                except Exception as e:  # noqa   (a cache that hands back a foreign value makes the recursion itself fail)
                    got = "raised " + type(e).__name__
                if got != ref(n) or len(cacher.cache) > cap:
                    if len(fails) < 20:
                        fails.append({"property": "C20", "signature": "lru-reentrant",
                                      "what": "memoised recursion fib(%d) with max_length %d: returned %s (reference %s), cache holds %d entries"
                                              % (n, cap, got, ref(n), len(cacher.cache)), "cap": cap, "calls": seqn})
                    break
    # several wrapped functions in one process: each wrapper is a cache of its own
    nmulti = 0
    for cap1, cap2 in ((1, 3), (2, 2), (3, 1)):
        nmulti += 1
        cnt = {"a": 0, "b": 0}

        def fa(k):
            cnt["a"] += 1
            return ("a", k)

        def fb(k):
            cnt["b"] += 1
            return ("b", k)
        wa, wb = lru_cache(lambda k: k, cap1)(fa), lru_cache(lambda k: k, cap2)(fb)
        ca = [c.cell_contents for c in wa.__closure__ if isinstance(c.cell_contents, LRUCacher)][0]
        cb = [c.cell_contents for c in wb.__closure__ if isinstance(c.cell_contents, LRUCacher)][0]
        ra, rb = [], []      # reference recency lists
        for step in range(40):
            k = rng.randrange(4)
            which = rng.choice("ab")
            w, ref, cap, tag, cacher = (wa, ra, cap1, "a", ca) if which == "a" else (wb, rb, cap2, "b", cb)
            before = cnt[tag]
            try:
                got = w(k)
            except Exception as e:  # noqa
                got = "raised " + type(e).__name__
            miss = k not in ref
            if k in ref:
                ref.remove(k)
            ref.append(k)
            del ref[:-cap]
            if got != (tag, k) or (cnt[tag] > before) != miss or list(cacher.cache.keys()) != ref:
                if len(fails) < 20:
                    fails.append({"property": "C20", "signature": "lru-wrappers-share-state",
                                  "what": "two wrapped functions (max_length %d and %d): call %s(%d) returned %s, %s, its cache holds %s (reference %s)"
                                          % (cap1, cap2, tag, k, got, "recomputed" if cnt[tag] > before else "not recomputed",
                                             list(cacher.cache.keys()), ref), "cap": cap})
                break
    # mutable arguments with a content-based key (the documented use: series / frames hashed by content): the caller edits
    # the SAME object in place between calls; the wrapper must answer for the contents the argument has now
    nmut = 0
    for cap in (1, 2, 4):
        for trial in range(6 if tier == "quick" else 40):
            nmut += 1
            cnt = [0]

            def total(xs):
                cnt[0] += 1
                return ("sum", sum(xs), len(xs))
            w = lru_cache(lambda xs: tuple(xs), cap)(total)
            data = [rng.randrange(5) for _ in range(3)]
            other = [9, 9]
            seen = []          # reference: content keys by recency
            for step in range(12):
                act = rng.choice(["same", "same", "edit", "append", "other", "copy"])
                if act == "edit":
                    data[rng.randrange(len(data))] = rng.randrange(50, 60)
                elif act == "append":
                    data.append(rng.randrange(5))
                arg = other if act == "other" else (list(data) if act == "copy" else data)
                key = tuple(arg)
                before = cnt[0]
                try:
                    got = w(arg)
                except Exception as e:  # noqa
                    got = "raised " + type(e).__name__
                miss = key not in seen
                if key in seen:
                    seen.remove(key)
                seen.append(key)
                del seen[:-cap]
                if got != ("sum", sum(arg), len(arg)) or (cnt[0] > before) != miss:
                    if len(fails) < 20:
                        fails.append({"property": "C20", "signature": "lru-mutable-argument",
                                      "what": "list argument edited in place between calls (key = tuple of its contents, max_length %d): the call with contents %s "
                                              "returned %s, the wrapped function gives %s; %s" % (cap, list(arg), got, ("sum", sum(arg), len(arg)),
                                                                                                 "recomputed" if cnt[0] > before else "not recomputed"),
                                      "cap": cap, "step": step})
                    break
    resps = Driver().batch(reqs)
    for (cap, calls, keymod), real, resp in zip(hist, reals, resps):
        if canon(resp) != canon(real):
            if len(disagreements) < 20:
                disagreements.append({"kind": "lru", "cap": cap, "calls": calls, "keymod": keymod, "real": real, "model": resp})
    return {"runner": "lru", "evaluations": len(hist), "distinct_nontrivial": len(nontriv),
            "rule": "all call sequences of length <= %d over 4 keys x capacities 1..3 (exhaustive) plus %d random "
                    "histories (capacities 0..16, up to 200 calls, colliding key functions); non-trivial = distinct "
                    "histories that use more distinct keys than the capacity (forcing an eviction)" % (maxlen, nrand),
            "samples": [{"cap": hist[100][0], "calls": hist[100][1]}, {"cap": hist[-1][0], "calls": hist[-1][1][:20]}],
            "exhaustive": True,
            "disagreements": disagreements, "oracle_failures": fails,
            "distribution": {"histories": len(hist), "with_eviction": evictions, "max_len_exhaustive": maxlen,
                             "histories_with_falsy_results": nfalsy, "histories_with_colliding_hashes": nexo,
                             "reentrant_histories": nrec, "multi_wrapper_histories": nmulti,
                             "mutable_argument_histories": nmut}}


if __name__ == "__main__":
    r = run(sys.argv[1] if len(sys.argv) > 1 else "quick", int(sys.argv[2]) if len(sys.argv) > 2 else 0)
    print(json.dumps({k: v for k, v in r.items() if k not in ("disagreements", "oracle_failures")}, indent=1)[:1500])
    print("disagreements", len(r["disagreements"]), "oracle_failures", len(r["oracle_failures"]))
    for d in (r["disagreements"] + r["oracle_failures"])[:3]:
        print(json.dumps(d)[:1500])

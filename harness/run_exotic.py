"""Exotic-input totality runner (C09): dtypes and objects *outside* the Lean model's scope — arrow-backed, sparse, period,
interval, tz-aware, categoricals of objects, huge / odd numbers, objects whose __eq__/__hash__/__bool__/__class__ lie or
raise, nested containers, DataFrames with odd shapes — must never make membership, detect, infer or cast raise, and must be
in Generic.  Direct oracle on the real code only."""
import decimal
import json
import sys
import warnings

import numpy as np
import pandas as pd

from common import canon, rng_for

warnings.simplefilter("ignore")
import visions  # noqa: E402
import visions.types as vt  # noqa: E402
from visions.typesets import CompleteSet, GeometrySet, StandardSet  # noqa: E402


class RaisingEq:
    def __eq__(self, other):
        raise RuntimeError("eq")

    def __hash__(self):
        return 7


class RaisingHash:
    def __hash__(self):
        raise TypeError("hash")


class RaisingBool:
    def __bool__(self):
        raise ValueError("bool")


class RaisingStr:
    def __str__(self):
        raise ValueError("str")


class LyingClass:
    year = month = day = hour = microsecond = 1
    netloc = scheme = time_low = hex = local = fqdn = "x"


LyingClass.__name__ = "date"


def pool():
    out = []

    def add(name, fn):
        try:
            out.append((name, fn()))
        except Exception:
            pass

    add("arrow-int", lambda: pd.Series([1, 2, None], dtype="int64[pyarrow]"))
    add("arrow-str", lambda: pd.Series(["a", None], dtype="string[pyarrow]"))
    add("arrow-float", lambda: pd.Series([1.5, None], dtype="double[pyarrow]"))
    add("arrow-bool", lambda: pd.Series([True, None], dtype="bool[pyarrow]"))
    add("arrow-ts", lambda: pd.Series(pd.to_datetime(["2020-01-01", None])).astype("timestamp[ns][pyarrow]"))
    add("sparse-float", lambda: pd.Series(pd.arrays.SparseArray([1.0, np.nan, 2.0])))
    add("sparse-int", lambda: pd.Series(pd.arrays.SparseArray([1, 0, 0, 2])))
    add("sparse-bool", lambda: pd.Series(pd.arrays.SparseArray([True, False])))
    add("period", lambda: pd.Series(pd.period_range("2020-01", periods=3, freq="M")))
    add("interval", lambda: pd.Series(pd.interval_range(0, 3)))
    add("tz", lambda: pd.Series(pd.date_range("2020-01-01", periods=3, tz="Asia/Tokyo")))
    add("tz-midnight-utc", lambda: pd.Series(pd.date_range("2020-01-01", periods=3, tz="UTC")))
    add("cat-objects", lambda: pd.Series([decimal.Decimal(1), decimal.Decimal(2)], dtype="category"))
    add("cat-dates", lambda: pd.Series(pd.to_datetime(["2020-01-01", "2020-01-02"]), dtype="category"))
    add("huge-int-object", lambda: pd.Series([10 ** 30, -10 ** 30], dtype=object))
    add("huge-int-str", lambda: pd.Series(["1" * 400, "2"]))
    add("huge-float-str", lambda: pd.Series(["1e999", "-1e999"]))
    add("uint64-max", lambda: pd.Series([2 ** 64 - 1], dtype="uint64"))
    add("float-extremes", lambda: pd.Series([np.finfo(float).max, np.finfo(float).tiny, -0.0]))
    add("complex-inf", lambda: pd.Series([complex("inf"), complex(0, float("inf"))]))
    add("raising-eq", lambda: pd.Series([RaisingEq(), RaisingEq()], dtype=object))
    add("raising-hash", lambda: pd.Series([RaisingHash()], dtype=object))
    add("raising-bool", lambda: pd.Series([RaisingBool(), None], dtype=object))
    add("raising-str", lambda: pd.Series([RaisingStr()], dtype=object))
    add("lying-class", lambda: pd.Series([LyingClass(), LyingClass()], dtype=object))
    add("nested-lists", lambda: pd.Series([[1, 2], [3]], dtype=object))
    add("dicts", lambda: pd.Series([{"a": 1}, {}], dtype=object))
    add("arrays-in-cells", lambda: pd.Series([np.array([1, 2]), np.array([3])], dtype=object))
    add("bytes", lambda: pd.Series([b"ab", b""], dtype=object))
    add("nul-string", lambda: pd.Series(["\x00", "a\x00b"]))
    add("surrogates", lambda: pd.Series(["\ud800", "x"], dtype=object))
    add("long-path", lambda: pd.Series(["/" + "a" * 5000]))
    add("weird-urls", lambda: pd.Series(["http://[::1", "http://a:b:c", "//", "http://\x00"]))
    add("weird-uuid", lambda: pd.Series(["{" * 40, "urn:uuid:" + "z" * 32]))
    add("weird-ip", lambda: pd.Series(["1.1.1.1/24", "::ffff:1.2.3.4", "1.1.1"]))
    add("weird-wkt", lambda: pd.Series(["POINT (nan nan)", "POLYGON ((0 0))", "POINT (1e400 1)"]))
    add("weird-dates", lambda: pd.Series(["0000-00-00", "9999-99-99", "10000-01-01", "1-1-1", "24:00"]))
    add("mixed-tz-strings", lambda: pd.Series(["2020-01-01T00:00:00+01:00", "2020-01-01T00:00:00-05:00"]))
    add("bool-strings-mixed-maps", lambda: pd.Series(["yes", "true", "n"]))
    add("nan-strings", lambda: pd.Series(["nan", "NaN", "NAN"]))
    add("inf-strings", lambda: pd.Series(["inf", "-Infinity"]))
    add("np-scalars", lambda: pd.Series([np.int8(1), np.float16(2.5), np.bool_(True)], dtype=object))
    add("timedelta-objects", lambda: pd.Series([pd.Timedelta(1), None], dtype=object))
    add("timestamps-object", lambda: pd.Series([pd.Timestamp("2020-01-01"), pd.NaT], dtype=object))
    add("multiindex", lambda: pd.Series([1, 2], index=pd.MultiIndex.from_tuples([(1, "a"), (2, "b")])))
    add("empty-object", lambda: pd.Series([], dtype=object))
    add("all-none", lambda: pd.Series([None, None], dtype=object))
    add("all-NA-Int", lambda: pd.Series([pd.NA, pd.NA], dtype="Int64"))
    add("all-NaT", lambda: pd.Series([pd.NaT, pd.NaT]))
    return out


def run(tier, seed):
    fails = []
    evals = 0
    nontriv = set()
    tsets = {"standard": StandardSet(), "complete": CompleteSet(), "geometry": GeometrySet()}
    all_types = [getattr(vt, n) for n in vt.__all__ if n != "VisionsBaseType"]
    items = pool()
    for name, s in items:
        def add(site, e):
            fails.append({"property": "C09", "signature": "exotic:%s:%s:%s" % (name, site, type(e).__name__),
                          "what": "%s on exotic input %r raised %s: %s" % (site, name, type(e).__name__, str(e)[:120])})
        for t in all_types:
            evals += 1
            try:
                r = s in t
                if t is vt.Generic and r is not True:
                    fails.append({"property": "C09", "signature": "exotic:%s:not-in-generic" % name, "what": "%r not in Generic" % name})
            except Exception as e:  # noqa
                add("in %s" % t, e)
        for tn, ts in tsets.items():
            for op in ("detect_type", "infer_type", "cast_to_inferred", "cast_to_detected"):
                evals += 1
                try:
                    r = getattr(ts, op)(s)
                    if op.endswith("type") and r not in ts.types:
                        fails.append({"property": "C09", "signature": "exotic:%s:answer-outside-typeset" % name,
                                      "what": "%s answered %s which is not in the typeset" % (op, r)})
                except Exception as e:  # noqa
                    add(op, e)
        nontriv.add(name)
    # DataFrames
    frames = []
    try:
        frames.append(("dup-labels", pd.DataFrame([[1, "a"]], columns=["x", "x"])))
    except Exception:
        pass
    frames.append(("no-columns", pd.DataFrame(index=[1, 2])))
    frames.append(("no-rows", pd.DataFrame({"a": pd.Series([], dtype=float), "b": pd.Series([], dtype=object)})))
    frames.append(("multiindex-columns", pd.DataFrame([[1, 2]], columns=pd.MultiIndex.from_tuples([("a", 1), ("a", 2)]))))
    for name, df in frames:
        if name == "dup-labels":
            continue     # outside the quantifier (unique labels); noted in DESIGN
        for op in ("detect_type", "infer_type", "cast_to_inferred"):
            evals += 1
            try:
                getattr(tsets["complete"], op)(df)
            except Exception as e:  # noqa
                fails.append({"property": "C09", "signature": "exotic-frame:%s:%s:%s" % (name, op, type(e).__name__),
                              "what": "%s on frame %r raised %s" % (op, name, type(e).__name__)})
    return {"runner": "exotic", "evaluations": evals, "distinct_nontrivial": len(nontriv),
            "rule": "a fixed pool of inputs outside the Lean model's scope (arrow, sparse, period, interval, tz-aware, categoricals "
                    "of objects, extreme numbers, objects with raising or lying dunder methods, malformed strings of every parser "
                    "family, odd frames) x membership of 24 types x {detect,infer,cast} x 3 typesets; non-trivial = distinct inputs",
            "samples": [n for n, _ in items[:5]], "disagreements": [], "oracle_failures": fails,
            "distribution": {"inputs": len(items)}}


if __name__ == "__main__":
    r = run("quick", 0)
    print(r["evaluations"], r["distinct_nontrivial"], len(r["oracle_failures"]))
    import collections
    c = collections.Counter(f["signature"] for f in r["oracle_failures"])
    ex = {}
    for f in r["oracle_failures"]:
        ex.setdefault(f["signature"], f)
    for k, v in sorted(c.items()):
        print(v, k, "|", ex[k]["what"][:200])

"""History runner (C10): random histories of API calls run in fresh interpreters under different PYTHONHASHSEED values;
every call is bracketed by a snapshot of process-global state; the final probe must give the same canonical result in
every process, whatever the history."""
import json
import os
import subprocess
import sys
from concurrent.futures import ThreadPoolExecutor

import gen_pandas as G
from common import HERE, PY, canon, rng_for

TYPES = ["Integer", "Float", "String", "Date", "Geometry", "URL", "Count", "File", "Time", "EmailAddress"]

PROBES = {
    "ints": {"values": [["int", 1], ["int", 2]], "dtype": "int64"},
    "float_int": {"values": [["float", 1.0], ["float", 2.0], ["nan"]], "dtype": "float64"},
    "str_float": {"values": [["str", "1.5"], ["str", "2"]], "dtype": "object"},
    "str_bool": {"values": [["str", "yes"], ["str", "no"], ["none"]], "dtype": "object"},
    "str_dt": {"values": [["str", "2020-01-01"], ["str", "2020-01-02"]], "dtype": "str"},
    "geom": {"values": [["str", "POINT (1 2)"], ["str", "POINT (3 4)"]], "dtype": "object"},
    "text": {"values": [["str", "hello"], ["str", "x"]], "dtype": "object"},
    "mixed": {"values": [["int", 1], ["str", "a"], ["none"]], "dtype": "object"},
    "url": {"values": [["str", "http://a.b/c"], ["none"]], "dtype": "object"},
    "cplx": {"values": [["complex", 1, 0], ["complex", 2, 0]], "dtype": "complex128"},
    # inputs whose reading is under-determined: a hint remembered from an earlier call (a date format, a decimal mark,
    # a Windows / POSIX flavour) would steer them
    "str_dt_ambig": {"values": [["str", "01/02/2020"], ["str", "03/04/2020"]], "dtype": "object"},
    "str_dt_ambig2": {"values": [["str", "01-02-2020 10:00"], ["str", "03-04-2020 11:30"]], "dtype": "str"},
    "path_ambig": {"values": [["str", "/usr/lib"], ["str", "/tmp/x"]], "dtype": "object"},
}


def gen_history(rng, n):
    h = []
    for _ in range(n):
        k = rng.choices(["construct", "algebra", "member", "detect", "infer", "cast", "frame", "create_type", "sampled", "list", "long", "edit", "numpy", "pylist"],
                        [2, 2, 3, 3, 4, 3, 2, 1, 1, 1, 1, 2, 4, 2])[0]
        ts = rng.choice(["standard", "complete", "geometry"])
        op = {"op": k, "ts": ts}
        if k == "algebra":
            op["type"] = rng.choice(TYPES)
            op["kind"] = rng.choice(["add", "sub"])
        if k == "member":
            op["type"] = rng.choice(TYPES + ["Boolean", "Object", "Generic"])
            op["recipe"] = G.gen_column(rng)
        if k in ("detect", "infer", "cast"):
            op["recipe"] = G.gen_column(rng)
        if k in ("numpy", "pylist"):
            pool = rng.choice([[1.0, 2.0, float("inf")], [float("-inf"), 1.5], [float("nan"), float("inf"), 3.0], [1.0, 2.0], [1.5, float("nan")],
                               [1, 2, 3], ["1.5", "2"], ["a", "b"], [True, False], ["1+0j", "2+0j"], ["inf", "1"], [0.0, -0.0], [1e308, -1e308],
                               ["13/01/2020", "25/12/2019"], ["2020.01.13", "2019.12.25"], ["13-01-2020 08:00"]])
            op["vals"] = pool
            op["dtype"] = "auto" if k == "numpy" and rng.random() < 0.7 else "object"
        if k == "edit":
            op["kind"] = rng.choice(["list", "numpy", "series", "frame"])
        if k == "long":
            op["pos"] = sorted(rng.sample(range(1500), rng.choice([1, 2, 30])))
        if k == "frame":
            m = rng.randint(1, 3)
            L = rng.choice([2, 3])
            recs = []
            for _ in range(m):
                r = G.gen_string_column(rng)
                r["values"] = ([v for v in r["values"] if v[0] == "str"] + [["str", "a"]] * L)[:L]
                r["index"] = "default"
                recs.append(r)
            op["recipes"] = recs
        h.append(op)
    return h


def run_child(spec, hashseed):
    env = dict(os.environ)
    env["PYTHONHASHSEED"] = str(hashseed)
    env["PYTHONWARNINGS"] = "ignore"
    p = subprocess.run([PY, os.path.join(HERE, "history_child.py")], input=json.dumps(spec), stdout=subprocess.PIPE,
                       stderr=subprocess.PIPE, text=True, env=env, timeout=600)
    lines = [l for l in p.stdout.splitlines() if l.startswith("{")]
    if p.returncode != 0 or not lines:
        return {"crash": (p.stderr or p.stdout)[-1500:]}
    return json.loads(lines[-1])


def run(tier, seed):
    rng = rng_for(seed, "history")
    nproc = 8 if tier == "quick" else 48
    jobs = [({"history": [], "probes": PROBES}, 0)]
    # one fixed history that exercises every kind of call once, with the inputs that matter (numpy floats with inf / nan,
    # in-place edits of each container, long columns), under two hash seeds
    fixed = [{"op": "construct", "ts": "complete"},
             {"op": "numpy", "ts": "standard", "vals": [1.0, 2.0, float("inf")], "dtype": "auto"},
             {"op": "numpy", "ts": "standard", "vals": [float("nan"), float("-inf"), 3.0], "dtype": "auto"},
             {"op": "numpy", "ts": "standard", "vals": ["1.5", "inf"], "dtype": "object"},
             {"op": "numpy", "ts": "standard", "vals": [1.0, 2.0], "dtype": "auto"},
             {"op": "pylist", "ts": "complete", "vals": [1.0, float("inf")]},
             {"op": "pylist", "ts": "complete", "vals": ["1.5", "2"]},
             {"op": "edit", "ts": "complete", "kind": "list"}, {"op": "edit", "ts": "standard", "kind": "numpy"},
             {"op": "edit", "ts": "complete", "kind": "series"}, {"op": "edit", "ts": "complete", "kind": "frame"},
             {"op": "algebra", "ts": "standard", "type": "Date", "kind": "add"}, {"op": "create_type", "ts": "standard"},
             {"op": "sampled", "ts": "complete"}, {"op": "list", "ts": "complete"}, {"op": "long", "ts": "complete", "pos": [3, 700, 1400]},
             {"op": "create_many", "ts": "standard", "n": 150},
             {"op": "numpy", "ts": "standard", "vals": [1.0, 2.0, 3.0], "dtype": "auto"},
             {"op": "pylist", "ts": "standard", "vals": ["1.5", "2.5"]},
             {"op": "infer", "ts": "standard", "recipe": {"values": [["str", "13/01/2020"], ["str", "25/12/2019"]], "dtype": "object", "index": "default", "name": None}},
             {"op": "cast", "ts": "complete", "recipe": {"values": [["str", "13-01-2020 08:00"], ["str", "25-12-2019 09:15"]], "dtype": "str", "index": "default", "name": None}},
             {"op": "infer", "ts": "complete", "recipe": {"values": [["str", "C:\\Users\\a"], ["str", "D:\\x"]], "dtype": "object", "index": "default", "name": None}},
             {"op": "numpy", "ts": "standard", "vals": ["13/01/2020", "25/12/2019"], "dtype": "object"},
             {"op": "infer", "ts": "standard", "recipe": {"values": [["float", 1.0], ["float", 2.0]], "dtype": "float64", "index": "default", "name": None}}]
    jobs.append(({"history": fixed, "probes": PROBES}, 1))
    jobs.append(({"history": list(reversed(fixed[:-4])) + fixed[-4:], "probes": PROBES}, "random"))
    for i in range(nproc):
        jobs.append(({"history": gen_history(rng, rng.choice([3, 8, 15])), "probes": PROBES}, rng.choice([0, 1, 2, 3, "random"])))
    with ThreadPoolExecutor(max_workers=16) as ex:
        results = list(ex.map(lambda j: run_child(*j), jobs))
    fails, disagreements = [], []
    ref = results[0]
    if "crash" in ref:
        return {"runner": "history", "evaluations": 1, "distinct_nontrivial": 0, "rule": "", "samples": [],
                "disagreements": [{"kind": "harness-crash", "trace": ref["crash"]}], "oracle_failures": []}
    evals = 0
    nontriv = set()
    for (spec, hs), r in zip(jobs[1:], results[1:]):
        if "crash" in r:
            disagreements.append({"kind": "harness-crash", "trace": r["crash"], "history": spec["history"][:3]})
            continue
        evals += len(r["log"]) + len(PROBES)
        for op, ent in zip(spec["history"], r["log"]):
            for ch in ent["changed"]:
                if op["op"] == "sampled" and ch == "np_random_state":
                    continue     # the explicit sampling helper draws from numpy's global generator by design
                fails.append({"property": "C10", "signature": "global-state:" + ch.split(":")[0],
                              "what": "API call %s changed process-global state: %s" % (op["op"], ch), "op": op, "hashseed": hs})
            if op["op"] in ("numpy", "pylist", "infer", "detect", "cast") and ent.get("err") in ("NotImplementedError",) and \
                    any(o["op"] == "create_many" for o in spec["history"]):
                fails.append({"property": "C10", "signature": "call-fails-after-other-types-were-created",
                              "what": "%s raised %s after the session created many types of its own" % (op["op"], ent["err"]),
                              "op": op, "hashseed": hs})
            if op["op"] == "edit" and ent.get("err"):
                fails.append({"property": "C10", "signature": "stale-after-edit",
                              "what": "after an in-place edit of the same container the same typeset answered from memory: %s" % ent["err"],
                              "op": op, "hashseed": hs})
            nontriv.add(canon(op))
        # a used typeset answers as a fresh one of the same kind does in the reference process
        ref_used = {}
        for key, ans in r.get("probe_used", {}).items():
            tsname, name = key.split(":", 1)
            if tsname == "complete" and name in ref["probe"] and "path" in ans and "path" in ref["probe"][name]:
                if ans["path"] != ref["probe"][name]["path"] or ans["detect"] != ref["probe"][name]["detect"]:
                    fails.append({"property": "C10", "signature": "used-typeset-differs:" + name,
                                  "what": "a CompleteSet that served earlier calls answers %s, a fresh one %s" % (ans, ref["probe"][name]["path"]),
                                  "history": spec["history"], "hashseed": hs})
        for name, ans in r["probe"].items():
            if name.startswith("long_") and len(set(map(canon, ans))) > 1:
                fails.append({"property": "C10", "signature": "repeated-call-differs:" + name,
                              "what": "repeated calls on the same (typeset, data) disagree: %s" % ans, "hashseed": hs})
        if canon(r["probe"]) != canon(ref["probe"]):
            keys = [k for k in ref["probe"] if canon(ref["probe"][k]) != canon(r["probe"].get(k))]
            fails.append({"property": "C10", "signature": "probe-differs:" + ",".join(keys[:3]),
                          "what": "probe result depends on history / process / hash seed (%s): %s vs %s" %
                                  (hs, json.dumps(r["probe"][keys[0]])[:200], json.dumps(ref["probe"][keys[0]])[:200]),
                          "history": spec["history"], "hashseed": hs})
    return {"runner": "history", "evaluations": evals, "distinct_nontrivial": len(nontriv),
            "rule": "random histories (3..15 calls: construct typesets, algebra, membership, detect/infer/cast on generated "
                    "Series, functional API on frames, create_type, sampled traversal with omitted state, list back end) in fresh "
                    "interpreters with PYTHONHASHSEED in {0,1,2,3,random}; a global-state snapshot (sys.stderr/stdout identity, "
                    "warning filters, numpy errstate, pandas options, cwd, locale, environ, relation caches, dispatch registry "
                    "sizes) brackets every call; 10 probe series + a frame probe compared with a history-free reference process; "
                    "non-trivial = distinct operations executed",
            "samples": [jobs[1][0]["history"][:2]], "disagreements": disagreements, "oracle_failures": fails,
            "distribution": {"processes": len(jobs), "ops": sum(len(j[0]["history"]) for j in jobs)}}


if __name__ == "__main__":
    r = run(sys.argv[1] if len(sys.argv) > 1 else "quick", int(sys.argv[2]) if len(sys.argv) > 2 else 0)
    print(r["evaluations"], r["distinct_nontrivial"], len(r["oracle_failures"]), len(r["disagreements"]))
    for d in r["disagreements"][:2]:
        print(d)
    import collections
    c = collections.Counter(f["signature"] for f in r["oracle_failures"])
    ex = {}
    for f in r["oracle_failures"]:
        ex.setdefault(f["signature"], f)
    for k, v in c.most_common():
        print(v, k, ex[k]["what"][:400])

/-
  VModel.LRU — executable model of `visions.utils.cache.LRUCacher` / `lru_cache`.
  The `OrderedDict` is an association list, oldest entry first.
-/
namespace V

structure LRU (K V : Type) where
  cap : Nat                    -- `max_length`
  items : List (K × V)         -- `self.cache`, in `OrderedDict` order (oldest first)
  deriving Repr

variable {K V A : Type} [DecidableEq K]

def LRU.empty (cap : Nat) : LRU K V := ⟨cap, []⟩

def LRU.keys (c : LRU K V) : List K := c.items.map (·.1)

def LRU.lookup (c : LRU K V) (k : K) : Option V := (c.items.find? (fun e => e.1 == k)).map (·.2)

/-- `__getitem__`: `value = self.cache[key]` (KeyError → `none`), `move_to_end(key)`. -/
def LRU.getitem (c : LRU K V) (k : K) : Option (V × LRU K V) :=
  match c.lookup k with
  | none => none
  | some v => some (v, { c with items := c.items.filter (fun e => e.1 != k) ++ [(k, v)] })

/-- `__setitem__`: move to end if present, assign, evict the first entry when over capacity. -/
def LRU.setitem (c : LRU K V) (k : K) (v : V) : LRU K V :=
  let items1 :=
    if c.items.any (fun e => e.1 == k) then
      -- move_to_end, then `self.cache[key] = value` overwrites in place (now the last position)
      c.items.filter (fun e => e.1 != k) ++ [(k, v)]
    else c.items ++ [(k, v)]
  let items2 := if items1.length > c.cap then items1.tail else items1
  { c with items := items2 }

/-- `get(*args)`.  Result: the returned value (`none` = `KeyError` escaping), the new cache, and
whether `value_func` was called. -/
def LRU.get (c : LRU K V) (key : A → K) (f : A → V) (a : A) : Option V × LRU K V × Bool :=
  let k := key a
  if c.items.any (fun e => e.1 == k) then
    match c.getitem k with
    | none => (none, c, false)
    | some (v, c') => (some v, c', false)
  else
    let c1 := c.setitem k (f a)
    match c1.getitem k with
    | none => (none, c1, true)
    | some (v, c2) => (some v, c2, true)

/-- Run a whole call history; outputs in call order, plus the number of `value_func` calls. -/
def LRU.run (key : A → K) (f : A → V) : LRU K V → List A → List (Option V) × LRU K V × Nat
  | c, [] => ([], c, 0)
  | c, a :: as =>
    let (o, c', called) := c.get key f a
    let (os, c'', n) := LRU.run key f c' as
    (o :: os, c'', n + (if called then 1 else 0))

end V

/-
  VModel.Graph — executable model of `visions.typesets.typeset.build_graph`,
  `check_isolates`, `check_cycles`, `VisionsTypeset.__init__` / `root_node`, and of the typeset
  algebra (`__add__`, `__sub__`, `replace`, `VisionsBaseTypeMeta.__add__`).

  networkx facts used (validated by the graph correspondence runner, not proved):
    * `DiGraph` keeps nodes and adjacency in insertion order; `add_edge` on an existing edge keeps its
      position and overwrites its attributes;
    * `next(topological_sort(G))` is the first zero-in-degree node in node order; it raises
      `StopIteration` on an empty graph and `NetworkXUnfeasible` when no node has in-degree zero;
    * `isolates` are the nodes of total degree zero;
    * `subgraph_view(filter_edge=…)` keeps all nodes and the adjacency order.
-/
namespace V

/-- One declared relation of a type, as returned by `T.get_relations()`: the related (source)
type and whether it is an `InferenceRelation`. -/
structure RelDecl (T : Type) where
  src : T
  inferential : Bool
  deriving DecidableEq, Repr

/-- An edge of the relation graph.  `style` is `dashed` iff `inferential`. -/
structure Edge (T : Type) where
  src : T
  dst : T
  inferential : Bool
  deriving DecidableEq, Repr

inductive BuildErr where
  | stopIteration          -- empty node set: `next(topological_sort(empty))`
  | unfeasible             -- no zero in-degree node: NetworkXUnfeasible
  | rootNotGeneric         -- ValueError("`root_node` should be a subclass of Generic")
  | keyError               -- `replace` of a type that is not in the typeset
  deriving DecidableEq, Repr

structure Built (T : Type) where
  nodes : List T                 -- `relation_graph.nodes` after isolate removal, in order
  edges : List (Edge T)          -- `relation_graph.edges` in insertion order (first insertion wins the position)
  missing : List (Edge T)        -- one "relation source not included" warning per entry, in order
  orphaned : List T              -- isolates removed (one warning if non-empty)
  cyclic : Bool                  -- `check_cycles` warned
  root : T
  deriving Repr

variable {T : Type} [DecidableEq T]

/-- All `(related_type → node)` relations in the double loop order of `build_graph`. -/
def allDecls (declared : T → List (RelDecl T)) (nodes : List T) : List (Edge T) :=
  nodes.flatMap (fun n => (declared n).map (fun r => ⟨r.src, n, r.inferential⟩))

/-- Insert an edge as `DiGraph.add_edge` does: a repeated `(src,dst)` keeps its position and takes
the new attributes. -/
def addEdge (es : List (Edge T)) (e : Edge T) : List (Edge T) :=
  if es.any (fun f => f.src == e.src && f.dst == e.dst) then
    es.map (fun f => if f.src == e.src && f.dst == e.dst then e else f)
  else es ++ [e]

def inDegree (es : List (Edge T)) (n : T) : Nat := (es.filter (fun e => e.dst == n)).length
def outDegree (es : List (Edge T)) (n : T) : Nat := (es.filter (fun e => e.src == n)).length

/-- Kahn's algorithm with fuel: does the graph contain a directed cycle? (self loops included) -/
def hasCycle : Nat → List T → List (Edge T) → Bool
  | 0, nodes, _ => !nodes.isEmpty
  | fuel + 1, nodes, es =>
    let zero := nodes.filter (fun n => inDegree es n == 0)
    if nodes.isEmpty then false
    else if zero.isEmpty then true
    else hasCycle fuel (nodes.filter (fun n => inDegree es n != 0))
           (es.filter (fun e => !(zero.contains e.src)))

/-- `build_graph` + `check_graph_constraints` on an explicit node order (no duplicates). -/
def buildGraph (declared : T → List (RelDecl T)) (nodes : List T) : Except BuildErr (Built T) :=
  let all := allDecls declared nodes
  let present := all.filter (fun e => nodes.contains e.src)
  let missing := all.filter (fun e => !nodes.contains e.src)
  let edges := present.foldl addEdge []
  match nodes with
  | [] => .error .stopIteration
  | _ =>
    match nodes.find? (fun n => inDegree edges n == 0) with
    | none => .error .unfeasible
    | some root =>
      let isolates := nodes.filter (fun n => inDegree edges n == 0 && outDegree edges n == 0 && n != root)
      let kept := nodes.filter (fun n => !isolates.contains n)
      .ok { nodes := kept, edges := edges, missing := missing, orphaned := isolates,
            cyclic := hasCycle kept.length kept edges, root := root }

/-- `VisionsTypeset.__init__`: build, then require the root to subclass `Generic`. -/
def mkTypeset (declared : T → List (RelDecl T)) (isGeneric : T → Bool) (nodes : List T) :
    Except BuildErr (Built T) :=
  match buildGraph declared nodes with
  | .error e => .error e
  | .ok b => if isGeneric b.root then .ok b else .error .rootNotGeneric

/-- Successors of `n` in the relation graph, in adjacency order. -/
def Built.succ (b : Built T) (n : T) : List (Edge T) := b.edges.filter (fun e => e.src == n)

/-- `base_graph`: all nodes, identity edges only (a `subgraph_view`). -/
def Built.baseEdges (b : Built T) : List (Edge T) := b.edges.filter (fun e => !e.inferential)

/-! ### Typeset algebra: every operation is "construct a typeset from a set expression over
`types`".  Sets are modelled as duplicate-free lists; the order in which Python iterates the
resulting `set` is address dependent, so the constructor is applied to an *arbitrary* order
`ord` of the result set (theorems quantify over all of them; the runner supplies the real one). -/

def setUnion (a b : List T) : List T := a ++ b.filter (fun x => !a.contains x)
def setDiff (a b : List T) : List T := a.filter (fun x => !b.contains x)

/-- `self.types | other_types` -/
def addTypes (a b : List T) : List T := setUnion a b
/-- `self.types - other_types` -/
def subTypes (a b : List T) : List T := setDiff a b
/-- `replace`: `types.add(new); types.remove(old)` — `KeyError` if `old` is absent after the add. -/
def replaceTypes (a : List T) (old new : T) : Except BuildErr (List T) :=
  let a' := setUnion a [new]
  if a'.contains old then .ok (a'.filter (fun x => x != old)) else .error .keyError

/-- `VisionsBaseTypeMeta.__add__` : `T + U`. -/
def typePlusType (isGeneric : T → Bool) (generic t u : T) : List T :=
  if !(isGeneric t || isGeneric u) then setUnion (setUnion [generic] [t]) [u]
  else setUnion [t] [u]

/-! ### Export (`utils/graph.py::output_graph` with `sort=True`): the node list sorted by
`str(node)` and the edge list sorted by `(str(src), str(dst))`, each edge carrying its style. -/

/-- insertion into a list sorted by a `Nat` key -/
def insertSorted {α : Type} (key : α → Nat) (x : α) : List α → List α
  | [] => [x]
  | y :: ys => if key x ≤ key y then x :: y :: ys else y :: insertSorted key x ys

def sortBy {α : Type} (key : α → Nat) (l : List α) : List α := l.foldr (insertSorted key) []

structure Exported (T : Type) where
  nodes : List T
  edges : List (Edge T)                    -- each with its style (dashed iff inferential)
  deriving DecidableEq, Repr

/-- `nameRank t` is the position of `str(t)` among the sorted type names (generated, and checked
against `String` order in VProofs); `width` exceeds every rank.  Sorting edges by
`(str(src), str(dst))` is sorting by `nameRank src * width + nameRank dst`. -/
def edgeKey (nameRank : T → Nat) (width : Nat) (e : Edge T) : Nat :=
  ((nameRank e.src * width + nameRank e.dst) * 2) + (if e.inferential then 1 else 0)

def exportModel (nameRank : T → Nat) (width : Nat) (b : Built T) (baseOnly : Bool) : Exported T :=
  let es := if baseOnly then b.baseEdges else b.edges
  { nodes := sortBy nameRank b.nodes,
    edges := sortBy (edgeKey nameRank width) es }

end V

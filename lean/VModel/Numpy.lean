/-
  VModel.Numpy — model of the numpy back end (`visions/backends/numpy/types/*.py`, `array_utils.py`,
  `test_utils.py`, `shared/nan_handling.py`): `contains_op` of the types it registers and guard + transformer of its 7
  inference relations, over abstract arrays.  One definition per Python function, same order of checks, decorators as
  explicit wrappers, every `try/except` as a match on the outcome with the caught exception classes listed.

  An abstract array is a dtype kind (`dtype.kind`; what `np.issubdtype` says about each kind is GENERATED from the
  installed numpy, `Generated/NumpyDtypes.lean`) plus one record of observable facts per element: what `nan_mask` says,
  what `isinstance` says about the element as iteration over the array yields it, and the results of the element-wise numpy
  conversions (`astype(float)`, `astype(complex)`, `astype(str) == …`, `.lower()`), computed by the harness on the real
  element.  `pd.to_datetime` is a column-level oracle.
-/
import VModel.Engine
import VModel.Column
import VModel.Graph
import VModel.Generated.Relations
import VModel.Generated.BoolMap
import VModel.Generated.NumpyDtypes
namespace V.Np
open V V.Gen

abbrev R := Except Err

/-- one element of the array -/
structure NElem where
  null : Bool                          -- `nan_mask(array)` is False here
  isBool : Bool                        -- isinstance(v, bool)      (np.bool_ is not)
  isInt : Bool                         -- isinstance(v, int)       (np.int64 is not; bool is)
  isStr : Bool                         -- isinstance(v, str)       (np.str_ is)
  isDatetime : Bool                    -- isinstance(v, datetime)  (pd.Timestamp is)
  strEq : Outcome Bool                 -- element of `array.astype(str) == array`
  lower : Outcome (Option (Nat × Bool))  -- `v.lower()`: key of boolean map #i with this value | no key | raises
  fl : Outcome FloatV                  -- element of `array.astype(float)`
  cx : Outcome (FloatV × FloatV)       -- element of `array.astype(complex)`
  firstZero : Bool                     -- `v[0] == "0"` (strings)
  hasJI : Bool                         -- `"j" in v or "i" in v` (strings)
  deriving DecidableEq, Repr, Inhabited

structure NArr where
  kind : NpKind
  elems : List NElem
  deriving DecidableEq, Repr, Inhabited

/-- column-level library calls: `pandas_infer_datetime(pd.Series(a)).to_numpy()` on the array without its missing
values (guard) and on the whole array (transformer): the produced array, or the exception -/
structure NpOracle where
  dtMasked : NArr → Outcome NArr
  dtWhole : NArr → Outcome NArr

def escape (cls : String) : Err :=
  if (cls.splitOn "|").contains "TypeError" then .dispatch ((cls.splitOn "|").headD cls) else .raised ((cls.splitOn "|").headD cls)
def isA (cls name : String) : Bool := (cls.splitOn "|").contains name
/-- the classes `option_coercion_evaluator` catches -/
def caughtByEvaluator (cls : String) : Bool := isA cls "ValueError" || isA cls "TypeError" || isA cls "AttributeError"

/-! ### decorators (`array_utils.py`) -/

/-- `array[nan_mask(array)]` -/
def NArr.mask (a : NArr) : NArr := { a with elems := a.elems.filter (fun x => !x.null) }
def NArr.isEmpty (a : NArr) : Bool := a.elems.isEmpty

/-- `array_not_empty` -/
def notEmptyB (f : NArr → Bool) (a : NArr) : Bool := if a.isEmpty then false else f a
/-- `array_handle_nulls`: drop the missing values, then `array_not_empty` -/
def handleNullsB (f : NArr → Bool) (a : NArr) : Bool := notEmptyB f a.mask
def notEmpty (f : NArr → R Bool) (a : NArr) : R Bool := if a.isEmpty then .ok false else f a
def handleNulls (f : NArr → R Bool) (a : NArr) : R Bool := notEmpty f a.mask

/-! ### contains_op -/

def booleanContains : NArr → Bool :=
  handleNullsB (notEmptyB (fun a => if isBoolDt a.kind then true else a.elems.all (·.isBool)))
def complexContains : NArr → Bool := notEmptyB (fun a => isComplexDt a.kind)
def datetimeContains : NArr → Bool :=
  handleNullsB (notEmptyB (fun a => if isDatetimeDt a.kind then true else a.elems.all (·.isDatetime)))
def floatContains : NArr → Bool := handleNullsB (notEmptyB (fun a => isFloatingDt a.kind))
def integerContains : NArr → Bool :=
  handleNullsB (fun a =>
    if a.isEmpty || isTimedeltaDt a.kind then false
    else if isIntegerDt a.kind then true
    else if isObjectDt a.kind then a.elems.all (fun x => x.isInt && !x.isBool)
    else false)
/-- `not_excluded_type(array, (bool, int, datetime))` -/
def notExcluded (a : NArr) : Bool :=
  if a.isEmpty then true
  else !(a.elems.all (·.isBool) || a.elems.all (·.isInt) || a.elems.all (·.isDatetime))
def objectContains : NArr → Bool :=
  handleNullsB (notEmptyB (fun a =>
    if isStrDt a.kind then true
    else if !isObjectDt a.kind then false
    else notExcluded a))
/-- `_is_string` (under `array_handle_nulls`) -/
def isString : NArr → Bool :=
  handleNullsB (fun a =>
    if !((a.elems.take 5).all (·.isStr)) then false
    else a.elems.all (fun x => match x.strEq with | .ok b => b | .raises _ => false))
def stringContains : NArr → Bool :=
  notEmptyB (fun a => if isStrDt a.kind then true else isString a)
def timedeltaContains : NArr → Bool := notEmptyB (fun a => isTimedeltaDt a.kind)

/-- membership of every type on a numpy array (types the back end does not register answer False) -/
def containsB : Ty → NArr → Bool
  | .Generic => fun _ => true
  | .Boolean => booleanContains
  | .Complex => complexContains
  | .DateTime => datetimeContains
  | .Float => floatContains
  | .Integer => integerContains
  | .Object => objectContains
  | .String => stringContains
  | .TimeDelta => timedeltaContains
  | _ => fun _ => false

/-! ### helpers -/

def firstRaise {α : Type} : List (Outcome α) → Option String
  | [] => none
  | .raises c :: _ => some c
  | .ok _ :: xs => firstRaise xs
def oks {α : Type} : List (Outcome α) → List α
  | [] => []
  | .raises _ :: xs => oks xs
  | .ok a :: xs => a :: oks xs

/-- `-2^63 ≤ v < 2^63` and `v mod 1 == 0` -/
def FloatV.wholeInt64 (v : FloatV) : Bool := v.isInt64

/-! ### elements transformers produce -/

def NElem.blank : NElem :=
  { null := false, isBool := false, isInt := false, isStr := false, isDatetime := false, strEq := .ok false,
    lower := .raises "AttributeError", fl := .raises "TypeError", cx := .raises "TypeError", firstZero := false, hasJI := false }
/-- an element of a float64 array -/
def NElem.ofFloat (v : FloatV) : NElem :=
  { NElem.blank with null := v.isNan, fl := .ok v, cx := .ok (v, .fin 0 0) }
/-- an element of a complex128 array -/
def NElem.ofComplex (re im : FloatV) : NElem :=
  { NElem.blank with null := re.isNan || im.isNan, fl := .ok re, cx := .ok (re, im) }
/-- an element of an int64 array -/
def NElem.ofInt (z : Int) : NElem :=
  { NElem.blank with fl := .ok (.fin z 0), cx := .ok (.fin z 0, .fin 0 0) }
/-- a Python `bool` inside an object array -/
def NElem.ofBool (b : Bool) : NElem :=
  { NElem.blank with isBool := true, isInt := true, fl := .ok (.fin (if b then 1 else 0) 0),
                     cx := .ok (.fin (if b then 1 else 0) 0, .fin 0 0) }

/-! ### guards -/

/-- `object_is_boolean` -/
def objectIsBoolean : NArr → R Bool := handleNulls (fun a => .ok (a.elems.all (·.isBool)))

/-- `string_is_boolean`: lower-case the values that are not missing (AttributeError / TypeError / ValueError → False),
then `coercion_map_test` of the list of maps: not empty, and one single map holds every value -/
def stringIsBoolean (a : NArr) : R Bool :=
  let ls := a.mask.elems.map (·.lower)
  match firstRaise ls with
  | some cls => if caughtByEvaluator cls then .ok false else .error (escape cls)
  | none =>
    let keys := oks ls
    if keys.isEmpty then .ok false
    else .ok ((List.range boolMaps.length).any (fun i =>
      keys.all (fun k => match k with | some (j, _) => j == i | none => false)))

/-- `string_is_float` -/
def stringIsFloat : NArr → R Bool :=
  handleNulls (fun a =>
    let vs := a.elems.map (·.fl)
    match firstRaise vs with
    | some cls => if caughtByEvaluator cls then .ok false else .error (escape cls)
    | none =>
      -- float_contains(coerced): some parsed value is not NaN
      if (oks vs).all (·.isNan) then .ok false
      -- test_string_leading_zeros
      else .ok (!(a.elems.any (fun x => (match x.fl with | .ok v => v.gtOne | _ => false) && x.firstZero))))

/-- `string_is_complex`: the values convert (`string_to_complex` parses the values that are not missing), it is not a
float array, and some value has a `j` / `i` -/
def stringIsComplex (a : NArr) : R Bool :=
  match firstRaise (a.mask.elems.map (·.cx)) with
  | some cls => if caughtByEvaluator cls then .ok false else .error (escape cls)
  | none =>
    match stringIsFloat a with
    | .error e => .error e
    | .ok true => .ok false
    | .ok false => .ok (a.mask.elems.any (·.hasJI))

/-- `string_is_datetime` -/
def stringIsDatetime (o : NpOracle) : NArr → R Bool :=
  handleNulls (fun a =>
    match o.dtMasked a with
    | .raises cls => if caughtByEvaluator cls || isA cls "OverflowError" then .ok false else .error (escape cls)
    | .ok r => .ok (!(r.elems.any (·.null))))

/-- `complex_is_float` -/
def complexIsFloat : NArr → R Bool :=
  handleNulls (fun a => .ok (a.elems.all (fun x => match x.cx with | .ok (_, im) => im.isZero | .raises _ => false)))

/-- `float_is_integer` (as repaired: whole numbers that fit an int64) -/
def floatIsInteger : NArr → R Bool :=
  handleNulls (fun a => .ok (a.elems.all (fun x => match x.fl with | .ok v => v.isInt64 | .raises _ => false)))

/-! ### transformers -/

def objectToBoolean (a : NArr) : R NArr := .ok a

/-- `string_to_boolean`: an object copy in which every value that is not missing is replaced by its boolean -/
def stringToBoolean (a : NArr) : R NArr :=
  match firstRaise (a.mask.elems.map (·.lower)) with
  | some cls => .error (escape cls)
  | none =>
    if a.mask.isEmpty then .error (.raised "ValueError")       -- np.vectorize on a size-0 input
    else .ok { kind := .O, elems := a.elems.map (fun x =>
      if x.null then x
      else match x.lower with
        | .ok (some (_, b)) => NElem.ofBool b
        | _ => NElem.ofFloat .nan) }

/-- `string_to_float` (as repaired): the values that are not missing are parsed with `astype(float)`, missing values
become NaN -/
def stringToFloat (a : NArr) : R NArr :=
  match firstRaise (a.mask.elems.map (·.fl)) with
  | some cls => .error (escape cls)
  | none => .ok { kind := .f, elems := a.elems.map (fun x =>
      if x.null then NElem.ofFloat .nan
      else match x.fl with | .ok v => NElem.ofFloat v | .raises _ => NElem.ofFloat .nan) }

/-- `string_to_complex` (as repaired): likewise with `astype(complex)` -/
def stringToComplex (a : NArr) : R NArr :=
  match firstRaise (a.mask.elems.map (·.cx)) with
  | some cls => .error (escape cls)
  | none => .ok { kind := .c, elems := a.elems.map (fun x =>
      if x.null then NElem.ofComplex .nan (.fin 0 0)
      else match x.cx with | .ok p => NElem.ofComplex p.1 p.2 | .raises _ => NElem.ofComplex .nan (.fin 0 0)) }

def stringToDatetime (o : NpOracle) (a : NArr) : R NArr :=
  match o.dtWhole a with
  | .raises cls => .error (escape cls)
  | .ok r => .ok r

/-- `complex_to_float`: `astype(float)` keeps the real part -/
def complexToFloat (a : NArr) : R NArr :=
  .ok { kind := .f, elems := a.elems.map (fun x => match x.cx with
    | .ok (re, _) => NElem.ofFloat re
    | .raises _ => NElem.ofFloat .nan) }

/-- `float_to_integer` under `array_handle_nulls`: the missing values are DROPPED, the rest `astype(int)`; an array
without values comes back as the decorator's `False` (not an array: modelled as an error, never reached after the
guard) -/
def floatToInteger (a : NArr) : R NArr :=
  if a.mask.isEmpty then .error (.raised "NotAnArray")
  else .ok { kind := .i, elems := a.mask.elems.map (fun x => match x.fl with
    | .ok v => NElem.ofInt v.toInt
    | .raises _ => NElem.ofInt 0) }

/-! ### the relation table -/

def guard (o : NpOracle) (src dst : Ty) : Option (NArr → R Bool) :=
  match src, dst with
  | .Object, .Boolean => some objectIsBoolean
  | .String, .Boolean => some stringIsBoolean
  | .String, .Complex => some stringIsComplex
  | .String, .DateTime => some (stringIsDatetime o)
  | .String, .Float => some stringIsFloat
  | .Complex, .Float => some complexIsFloat
  | .Float, .Integer => some floatIsInteger
  | _, _ => none

def xform (o : NpOracle) (src dst : Ty) : Option (NArr → R NArr) :=
  match src, dst with
  | .Object, .Boolean => some objectToBoolean
  | .String, .Boolean => some stringToBoolean
  | .String, .Complex => some stringToComplex
  | .String, .DateTime => some (stringToDatetime o)
  | .String, .Float => some stringToFloat
  | .Complex, .Float => some complexToFloat
  | .Float, .Integer => some floatToInteger
  | _, _ => none

/-- the engine relation of one edge of a built typeset -/
def mkRel (o : NpOracle) (e : Edge Ty) : Rel Ty NArr Unit :=
  if e.inferential then
    { src := e.src, dst := e.dst, inferential := true,
      guard := fun c s => match guard o e.src e.dst with
        | some g => (g c).map (fun v => (v, s))
        | none => .error .notImplemented,
      xform := fun c s => match xform o e.src e.dst with
        | some t => (t c).map (fun v => (v, s))
        | none => .ok (c, s) }
  else
    { src := e.src, dst := e.dst, inferential := false,
      guard := fun c s => .ok (containsB e.dst c, s),
      xform := fun c s => .ok (c, s) }

/-- the engine graph of a built typeset over numpy arrays -/
def graphOf (o : NpOracle) (b : Built Ty) : Graph Ty NArr Unit :=
  { succ := fun n => (b.edges.filter (fun e => e.src == n)).map (mkRel o) }

end V.Np

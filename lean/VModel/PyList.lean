/-
  VModel.PyList — the python-sequence back end (`visions/backends/python`): membership tests of all 22+2 types on a
  list / tuple of Python values.  An element is a record of `isinstance` facts (computed on the real element by the
  harness); every `contains_op` is `all` / `any` over the elements under the two decorators `sequence_not_empty` and
  `sequence_handle_none` (which drops `None`, and only `None`).
-/
import VModel.Engine
import VModel.Graph
import VModel.Generated.Relations
import VModel.Column
namespace V.Py
open V V.Gen

/-- one element of the sequence: what `isinstance` says about it -/
structure Elem where
  isNone : Bool
  isBool : Bool            -- isinstance(v, bool)
  isInt : Bool             -- isinstance(v, int)   (True for bool as well)
  isFloat : Bool           -- isinstance(v, float)
  isComplex : Bool
  isNumber : Bool          -- isinstance(v, numbers.Number)
  nonNeg : Bool            -- v >= 0 evaluates to True (only asked when isInt)
  isStr : Bool
  isDatetime : Bool        -- isinstance(v, datetime)  (Timestamp included)
  isDate : Bool            -- isinstance(v, date)      (True for datetime as well)
  isTime : Bool
  isTimedelta : Bool
  isPurePath : Bool
  pathAbs : Bool
  isPath : Bool
  pathExists : Bool
  pathImage : Bool
  isParseResult : Bool
  isUUID : Bool
  isFQDA : Bool
  isGeom : Bool
  isIP : Bool
  -- results of the element conversions the relations apply (computed on the real element by the harness)
  lowerTF : Outcome (Option Bool)       -- `v.lower()`: "true" / "false" (which) | something else | raises
  flo : Outcome FloatV                  -- `float(v)`
  firstZero : Outcome Bool              -- `v[0] == "0"`
  cplx : Outcome (FloatV × FloatV)      -- `complex(v)`
  strp : Outcome Bool                   -- `datetime.strptime(v, "%Y-%m-%d %H:%M:%S")`: is the result a midnight?
  url : Outcome Bool                    -- `urlparse(v)`: netloc and scheme both truthy
  uuid : Outcome Unit                   -- `uuid.UUID(v)`
  ip : Outcome Unit                     -- `ip_address(v)`
  email : Outcome Bool                  -- `_to_email(v)`: local and fqdn both truthy
  wkt : Outcome Bool                    -- `wkt.loads(v)`: truthiness
  winAbs : Outcome Bool                 -- `PureWindowsPath(v).is_absolute()`
  posixAbs : Outcome Bool               -- `PurePosixPath(v).is_absolute()`
  fval : Option FloatV                  -- the value of a `float` element
  cval : Option (FloatV × FloatV)       -- the value of a `complex` element
  midnight : Outcome Bool               -- `v.time() == time(0, 0)` (datetimes)
  deriving DecidableEq, Repr, Inhabited

abbrev Seq := List Elem

/-- `sequence_not_empty` -/
def notEmpty (f : Seq → Bool) (s : Seq) : Bool := if s.isEmpty then false else f s
/-- `sequence_handle_none`: drop `None`, nothing else -/
def handleNone (f : Seq → Bool) (s : Seq) : Bool := f (s.filter (fun x => !x.isNone))

def isBoolSeq : Seq → Bool := notEmpty (handleNone (fun s => s.all (·.isBool)))

def containsL : Ty → Seq → Bool
  | .Generic => fun _ => true
  | .Boolean => isBoolSeq
  | .Categorical => fun _ => false
  | .Ordinal => fun _ => false
  | .Complex => notEmpty (fun s => s.all (·.isComplex))
  | .Count => fun s => s.all (fun x => x.isInt && x.nonNeg)
  | .Date => fun s => s.all (fun x => x.isDate && !x.isDatetime)
  | .DateTime => notEmpty (fun s => s.all (·.isDatetime))
  | .EmailAddress => fun s => s.all (·.isFQDA)
  | .File => fun s => s.all (fun x => x.isPath && x.pathExists)
  | .Float => notEmpty (fun s => s.all (·.isFloat))
  | .Geometry => fun s => s.all (·.isGeom)
  | .Image => fun s => s.all (fun x => x.isPath && x.pathExists && x.pathImage)
  | .Integer => notEmpty (fun s => s.all (fun x => x.isInt && !x.isBool))
  | .IPAddress => fun s => s.all (·.isIP)
  | .Numeric => fun s => s.all (fun x => x.isNumber && !x.isBool)
  | .Object => notEmpty (handleNone (fun s =>
      s.any (fun x => !(x.isFloat || x.isBool || x.isInt || x.isComplex || x.isDatetime || x.isTimedelta))))
  | .Path => fun s => s.all (fun x => x.isPurePath && x.pathAbs)
  | .String => notEmpty (handleNone (fun s => s.all (·.isStr)))
  | .Time => fun s => s.all (·.isTime)
  | .TimeDelta => notEmpty (fun s => s.all (·.isTimedelta))
  | .UUID => fun s => s.all (·.isUUID)
  | .URL => fun s => s.all (·.isParseResult)
  | .Sparse => fun _ => false

/-- the detection graph of a built typeset on python sequences (identity edges only) -/
def listSucc (b : Built Ty) (n : Ty) : List (PRel Ty Seq) :=
  ((b.baseEdges).filter (fun e => e.src == n)).map
    (fun e => { src := e.src, dst := e.dst, inferential := false, guard := fun s => containsL e.dst s, xform := id })

def listDetect (b : Built Ty) (s : Seq) : List Ty := (ptraverse (listSucc b) 64 b.root s).2

/-! ### the 14 inference relations of the python-sequence back end -/

abbrev R := Except Err

/-- `"A|B|C"` (the MRO names the harness reports) split at the bars; structural over the characters so that the kernel
evaluates it on literals (`String.splitOn` does not reduce) — same value as `cls.splitOn "|"` -/
def splitBar : List Char → List Char → List (List Char)
  | [], acc => [acc.reverse]
  | c :: cs, acc => if c = '|' then acc.reverse :: splitBar cs [] else splitBar cs (c :: acc)
def isA (cls name : String) : Bool := (splitBar cls.toList []).contains name.toList
def escape (cls : String) : Err :=
  if isA cls "TypeError" then .dispatch ((cls.splitOn "|").headD cls) else .raised ((cls.splitOn "|").headD cls)
def caught (names : List String) (cls : String) : Bool := names.any (isA cls)

/-- Python's `all(f(v) for v in seq)`: stops at the first falsy value or the first exception -/
def allO : List (Outcome Bool) → Outcome Bool
  | [] => .ok true
  | .raises c :: _ => .raises c
  | .ok false :: _ => .ok false
  | .ok true :: xs => allO xs
/-- `tuple(map(f, seq))`: the first exception, if any -/
def firstRaise {α : Type} : List (Outcome α) → Option String
  | [] => none
  | .raises c :: _ => some c
  | .ok _ :: xs => firstRaise xs
def oks {α : Type} : List (Outcome α) → List α
  | [] => []
  | .raises _ :: xs => oks xs
  | .ok a :: xs => a :: oks xs

/-- `try: <test> except (names): return False` -/
def tryB (names : List String) (o : Outcome Bool) : R Bool :=
  match o with
  | .ok b => .ok b
  | .raises c => if caught names c then .ok false else .error (escape c)

def dropNone (s : Seq) : Seq := s.filter (fun x => !x.isNone)

/-- elements the transformers produce -/
def Elem.blank : Elem :=
  { isNone := false, isBool := false, isInt := false, isFloat := false, isComplex := false, isNumber := false, nonNeg := false,
    isStr := false, isDatetime := false, isDate := false, isTime := false, isTimedelta := false, isPurePath := false,
    pathAbs := false, isPath := false, pathExists := false, pathImage := false, isParseResult := false, isUUID := false,
    isFQDA := false, isGeom := false, isIP := false,
    lowerTF := .raises "AttributeError", flo := .raises "TypeError", firstZero := .raises "TypeError", cplx := .raises "TypeError",
    strp := .raises "TypeError", url := .raises "AttributeError", uuid := .raises "AttributeError", ip := .raises "ValueError",
    email := .raises "AttributeError", wkt := .raises "TypeError", winAbs := .raises "TypeError", posixAbs := .raises "TypeError",
    fval := none, cval := none, midnight := .raises "AttributeError" }
def Elem.ofBool (b : Bool) : Elem :=
  { Elem.blank with isBool := true, isInt := true, isNumber := true, nonNeg := true,
                    flo := .ok (.fin (if b then 1 else 0) 0), cplx := .ok (.fin (if b then 1 else 0) 0, .fin 0 0) }
def Elem.ofFloat (v : FloatV) : Elem :=
  { Elem.blank with isFloat := true, isNumber := true, flo := .ok v, cplx := .ok (v, .fin 0 0), fval := some v }
def Elem.ofComplex (re im : FloatV) : Elem :=
  { Elem.blank with isComplex := true, isNumber := true, cplx := .ok (re, im), cval := some (re, im) }
def Elem.ofInt (z : Int) : Elem :=
  { Elem.blank with isInt := true, isNumber := true, nonNeg := decide (0 ≤ z), flo := .ok (.fin z 0), cplx := .ok (.fin z 0, .fin 0 0) }
def Elem.ofDatetime (m : Bool) : Elem := { Elem.blank with isDatetime := true, isDate := true, midnight := .ok m }
def Elem.ofDate : Elem := { Elem.blank with isDate := true }
def Elem.ofUrl : Elem := { Elem.blank with isParseResult := true }
def Elem.ofUUID : Elem := { Elem.blank with isUUID := true }
def Elem.ofIP : Elem := { Elem.blank with isIP := true }
def Elem.ofEmail : Elem := { Elem.blank with isFQDA := true }
def Elem.ofGeom : Elem := { Elem.blank with isGeom := true }
def Elem.ofPurePath (abs : Bool) : Elem := { Elem.blank with isPurePath := true, pathAbs := abs }

/-- `int(v) == v` for a float value: OverflowError for infinities, ValueError for NaN -/
def intEq (x : Elem) : Outcome Bool :=
  match x.fval with
  | some .nan => .raises "ValueError"
  | some .pinf => .raises "OverflowError"
  | some .ninf => .raises "OverflowError"
  | some (.fin _ d) => .ok (d == 0)
  | none => .raises "TypeError"
def intOf (x : Elem) : Outcome Int :=
  match x.fval with
  | some (.fin n d) => .ok (n.tdiv ((2 : Int) ^ d))      -- `int()` truncates toward zero (the guard made it exact: d = 0)
  | some .nan => .raises "ValueError"
  | some _ => .raises "OverflowError"
  | none => .raises "TypeError"

/-- `no_leading_zeros(sequence, coerced)`: `not any(s[0] == "0" and c > 1 for s, c in zip(...))` -/
def noLeadingZeros (s : Seq) (vals : List FloatV) : Outcome Bool :=
  match allO ((s.zip vals).map (fun (x, v) => match x.firstZero with
      | .raises c => .raises c
      | .ok z => .ok (!(z && v.gtOne)))) with
  | .ok b => .ok b
  | .raises c => .raises c

/-! guards -/

/-- `is_bool` (Object -> Boolean): not empty, None dropped, all bools -/
def objectIsBool : Seq → R Bool := fun s => .ok (isBoolSeq s)
/-- `string_is_bool` under `sequence_handle_none` -/
def stringIsBool (s : Seq) : R Bool :=
  match allO ((dropNone s).map (fun x => match x.lowerTF with | .ok o => .ok o.isSome | .raises c => .raises c)) with
  | .ok b => .ok b
  | .raises c => .error (escape c)
/-- `string_is_float`: every value parses (ValueError / TypeError -> False), then the leading-zero rule -/
def stringIsFloat (s : Seq) : R Bool :=
  match firstRaise (s.map (·.flo)) with
  | some c => if caught ["ValueError", "TypeError"] c then .ok false else .error (escape c)
  | none => tryB ["ValueError", "TypeError"] (noLeadingZeros s (oks (s.map (·.flo))))
def stringIsComplex (s : Seq) : R Bool :=
  match firstRaise (s.map (·.cplx)) with
  | some c => if caught ["ValueError", "TypeError", "AttributeError"] c then .ok false else .error (escape c)
  | none => tryB ["ValueError", "TypeError", "AttributeError"] (noLeadingZeros s ((oks (s.map (·.cplx))).map (·.1)))
def stringIsDatetime (s : Seq) : R Bool :=
  match firstRaise (s.map (·.strp)) with
  | some c => if caught ["OverflowError", "TypeError", "ValueError"] c then .ok false else .error (escape c)
  | none => .ok true
def complexIsFloat (s : Seq) : R Bool :=
  tryB ["ValueError"] (allO (s.map (fun x => match x.cval with | some (_, im) => .ok im.isZero | none => .raises "AttributeError")))
def floatIsInt (s : Seq) : R Bool := tryB ["ValueError", "TypeError", "OverflowError"] (allO (s.map intEq))
/-- `datetime_is_date` (as repaired): ValueError / TypeError / AttributeError -> False (pd.NaT has no time of day) -/
def datetimeIsDate (s : Seq) : R Bool :=
  tryB ["ValueError", "TypeError", "AttributeError"] (allO (s.map (·.midnight)))
def parses {α : Type} (names : List String) (f : Elem → Outcome α) (s : Seq) : R Bool :=
  match firstRaise (s.map f) with
  | some c => if caught names c then .ok false else .error (escape c)
  | none => .ok true
def stringIsUuid : Seq → R Bool := parses ["ValueError", "TypeError", "AttributeError"] (·.uuid)
def stringIsIp : Seq → R Bool := parses ["ValueError", "TypeError", "AttributeError"] (·.ip)
/-- all parse first (`tuple(map(...))`), then `all(netloc and scheme)` -/
def allAfterParse (names : List String) (f : Elem → Outcome Bool) (s : Seq) : R Bool :=
  match firstRaise (s.map f) with
  | some c => if caught names c then .ok false else .error (escape c)
  | none => .ok ((oks (s.map f)).all id)
def stringIsUrl : Seq → R Bool := allAfterParse ["ValueError", "TypeError", "AttributeError"] (·.url)
def stringIsEmail : Seq → R Bool := allAfterParse ["ValueError", "TypeError", "AttributeError"] (·.email)
/-- `string_is_geometry`: `all(wkt.loads(v) for v in seq)` lazily, WKTReadingError / AttributeError / UnicodeEncodeError /
TypeError / NotImplementedError (as repaired: nonlinear WKT) caught -/
def stringIsGeometry (s : Seq) : R Bool :=
  -- (in the installed shapely `WKTReadingError` is an alias of `GEOSException`)
  tryB ["WKTReadingError", "GEOSException", "AttributeError", "UnicodeEncodeError", "TypeError", "NotImplementedError"] (allO (s.map (·.wkt)))
/-- `string_is_path`: Windows paths if all absolute as such, else POSIX paths; `all(is_absolute)`; TypeError caught -/
def usesWindows (s : Seq) : Outcome Bool :=
  match firstRaise (s.map (·.winAbs)) with
  | some c => .raises c
  | none => .ok ((oks (s.map (·.winAbs))).all id)
def stringIsPath (s : Seq) : R Bool :=
  match usesWindows s with
  | .raises c => if caught ["TypeError"] c then .ok false else .error (escape c)
  | .ok true => .ok true
  | .ok false =>
    match firstRaise (s.map (·.posixAbs)) with
    | some c => if caught ["TypeError"] c then .ok false else .error (escape c)
    | none => .ok ((oks (s.map (·.posixAbs))).all id)

/-! transformers -/

def mapT {α : Type} (f : Elem → Outcome α) (g : α → Elem) (s : Seq) : R Seq :=
  match firstRaise (s.map f) with
  | some c => .error (escape c)
  | none => .ok ((oks (s.map f)).map g)

/-- `to_bool`: `tuple(map(bool, seq))` — only reached with bools (and None, which becomes False) -/
def objectToBool (s : Seq) : R Seq := .ok (s.map (fun x => if x.isNone then Elem.ofBool false else x))
/-- `string_to_bool`: `v.lower() == "true"` for strings, anything else unchanged -/
def stringToBool (s : Seq) : R Seq :=
  mapT (fun x => if x.isStr then (match x.lowerTF with | .ok o => .ok (Elem.ofBool (o == some true)) | .raises c => .raises c) else .ok x) id s
def stringToFloat : Seq → R Seq := mapT (·.flo) Elem.ofFloat
def stringToComplex : Seq → R Seq := mapT (·.cplx) (fun p => Elem.ofComplex p.1 p.2)
def stringToDatetime : Seq → R Seq := mapT (·.strp) Elem.ofDatetime
def complexToFloat : Seq → R Seq :=
  mapT (fun x => match x.cval with | some (re, _) => .ok re | none => .raises "AttributeError") Elem.ofFloat
def floatToInt : Seq → R Seq := mapT intOf Elem.ofInt
def datetimeToDate : Seq → R Seq := mapT (fun x => if x.isDatetime then .ok () else .raises "AttributeError") (fun _ => Elem.ofDate)
def stringToUuid : Seq → R Seq := mapT (·.uuid) (fun _ => Elem.ofUUID)
def stringToIp : Seq → R Seq := mapT (·.ip) (fun _ => Elem.ofIP)
def stringToUrl : Seq → R Seq := mapT (·.url) (fun _ => Elem.ofUrl)
def stringToEmail : Seq → R Seq := mapT (·.email) (fun _ => Elem.ofEmail)
def stringToGeometry : Seq → R Seq := mapT (·.wkt) (fun _ => Elem.ofGeom)
def stringToPath (s : Seq) : R Seq :=
  match usesWindows s with
  | .raises c => .error (escape c)
  | .ok true => mapT (·.winAbs) Elem.ofPurePath s
  | .ok false => mapT (·.posixAbs) Elem.ofPurePath s

/-! ### the executable hypothesis of the totality theorems -/

/-- every element conversion either returns or raises a class that the test applying it catches (the catch lists are
those of the code, mirrored above and pinned by `Shapes.shapes_match`), every `str` has `.lower()`, every `complex` has a
value; executable, evaluated by the driver on every generated sequence -/
def elemOk (x : Elem) : Bool :=
  let c3 := caught ["ValueError", "TypeError", "AttributeError"]
  (match x.lowerTF with | .raises _ => !x.isStr | _ => true) &&
  (match x.flo with | .raises c => caught ["ValueError", "TypeError"] c | _ => true) &&
  (match x.firstZero with | .raises c => caught ["ValueError", "TypeError"] c | _ => true) &&
  (match x.cplx with | .raises c => c3 c | _ => true) &&
  (match x.strp with | .raises c => caught ["OverflowError", "TypeError", "ValueError"] c | _ => true) &&
  (match x.url with | .raises c => c3 c | _ => true) &&
  (match x.uuid with | .raises c => c3 c | _ => true) &&
  (match x.ip with | .raises c => c3 c | _ => true) &&
  (match x.email with | .raises c => c3 c | _ => true) &&
  (match x.wkt with | .raises c => caught ["WKTReadingError", "GEOSException", "AttributeError", "UnicodeEncodeError", "TypeError", "NotImplementedError"] c | _ => true) &&
  (match x.winAbs with | .raises c => caught ["TypeError"] c | _ => true) &&
  (match x.posixAbs with | .raises c => caught ["TypeError"] c | _ => true) &&
  (match x.midnight with | .raises c => c3 c | _ => true) &&
  (x.cval.isSome || !x.isComplex) &&
  (match intEq x with | .raises c => caught ["ValueError", "TypeError", "OverflowError"] c | _ => true)
def convCaughtL (s : Seq) : Bool := s.all elemOk

def guardL (src dst : Ty) : Option (Seq → R Bool) :=
  match src, dst with
  | .Object, .Boolean => some objectIsBool
  | .String, .Boolean => some stringIsBool
  | .String, .Complex => some stringIsComplex
  | .String, .DateTime => some stringIsDatetime
  | .String, .Float => some stringIsFloat
  | .Complex, .Float => some complexIsFloat
  | .Float, .Integer => some floatIsInt
  | .DateTime, .Date => some datetimeIsDate
  | .String, .Geometry => some stringIsGeometry
  | .String, .IPAddress => some stringIsIp
  | .String, .Path => some stringIsPath
  | .String, .URL => some stringIsUrl
  | .String, .UUID => some stringIsUuid
  | .String, .EmailAddress => some stringIsEmail
  | _, _ => none

def xformL (src dst : Ty) : Option (Seq → R Seq) :=
  match src, dst with
  | .Object, .Boolean => some objectToBool
  | .String, .Boolean => some stringToBool
  | .String, .Complex => some stringToComplex
  | .String, .DateTime => some stringToDatetime
  | .String, .Float => some stringToFloat
  | .Complex, .Float => some complexToFloat
  | .Float, .Integer => some floatToInt
  | .DateTime, .Date => some datetimeToDate
  | .String, .Geometry => some stringToGeometry
  | .String, .IPAddress => some stringToIp
  | .String, .Path => some stringToPath
  | .String, .URL => some stringToUrl
  | .String, .UUID => some stringToUuid
  | .String, .EmailAddress => some stringToEmail
  | _, _ => none

/-- the engine relation of one edge of a built typeset over python sequences -/
def mkRelL (e : Edge Ty) : Rel Ty Seq Unit :=
  if e.inferential then
    { src := e.src, dst := e.dst, inferential := true,
      guard := fun c s => match guardL e.src e.dst with
        | some g => (g c).map (fun v => (v, s))
        | none => .error .notImplemented,
      xform := fun c s => match xformL e.src e.dst with
        | some t => (t c).map (fun v => (v, s))
        | none => .ok (c, s) }
  else
    { src := e.src, dst := e.dst, inferential := false,
      guard := fun c s => .ok (containsL e.dst c, s),
      xform := fun c s => .ok (c, s) }

def graphOfL (b : Built Ty) : Graph Ty Seq Unit :=
  { succ := fun n => (b.edges.filter (fun e => e.src == n)).map mkRelL }

end V.Py

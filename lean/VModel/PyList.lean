/-
  VModel.PyList — the python-sequence back end (`visions/backends/python`): membership tests of all 22+2 types on a
  list / tuple of Python values.  An element is a record of `isinstance` facts (computed on the real element by the
  harness); every `contains_op` is `all` / `any` over the elements under the two decorators `sequence_not_empty` and
  `sequence_handle_none` (which drops `None`, and only `None`).
-/
import VModel.Engine
import VModel.Graph
import VModel.Generated.Relations
namespace V.Py
open V V.Gen

/-- one element of the sequence: what `isinstance` says about it -/
structure Elem where
  isNone : Bool
  isBool : Bool            -- isinstance(v, bool)
  isInt : Bool             -- isinstance(v, int)   (True for bool as well)
  isFloat : Bool           -- isinstance(v, float)
  isComplex : Bool
  isNumber : Bool          -- isinstance(v, numbers.Number)
  nonNeg : Bool            -- v >= 0 evaluates to True (only asked when isInt)
  isStr : Bool
  isDatetime : Bool        -- isinstance(v, datetime)  (Timestamp included)
  isDate : Bool            -- isinstance(v, date)      (True for datetime as well)
  isTime : Bool
  isTimedelta : Bool
  isPurePath : Bool
  pathAbs : Bool
  isPath : Bool
  pathExists : Bool
  pathImage : Bool
  isParseResult : Bool
  isUUID : Bool
  isFQDA : Bool
  isGeom : Bool
  isIP : Bool
  deriving DecidableEq, Repr, Inhabited

abbrev Seq := List Elem

/-- `sequence_not_empty` -/
def notEmpty (f : Seq → Bool) (s : Seq) : Bool := if s.isEmpty then false else f s
/-- `sequence_handle_none`: drop `None`, nothing else -/
def handleNone (f : Seq → Bool) (s : Seq) : Bool := f (s.filter (fun x => !x.isNone))

def isBoolSeq : Seq → Bool := notEmpty (handleNone (fun s => s.all (·.isBool)))

def containsL : Ty → Seq → Bool
  | .Generic => fun _ => true
  | .Boolean => isBoolSeq
  | .Categorical => fun _ => false
  | .Ordinal => fun _ => false
  | .Complex => notEmpty (fun s => s.all (·.isComplex))
  | .Count => fun s => s.all (fun x => x.isInt && x.nonNeg)
  | .Date => fun s => s.all (fun x => x.isDate && !x.isDatetime)
  | .DateTime => notEmpty (fun s => s.all (·.isDatetime))
  | .EmailAddress => fun s => s.all (·.isFQDA)
  | .File => fun s => s.all (fun x => x.isPath && x.pathExists)
  | .Float => notEmpty (fun s => s.all (·.isFloat))
  | .Geometry => fun s => s.all (·.isGeom)
  | .Image => fun s => s.all (fun x => x.isPath && x.pathExists && x.pathImage)
  | .Integer => notEmpty (fun s => s.all (fun x => x.isInt && !x.isBool))
  | .IPAddress => fun s => s.all (·.isIP)
  | .Numeric => fun s => s.all (fun x => x.isNumber && !x.isBool)
  | .Object => notEmpty (handleNone (fun s =>
      s.any (fun x => !(x.isFloat || x.isBool || x.isInt || x.isComplex || x.isDatetime || x.isTimedelta))))
  | .Path => fun s => s.all (fun x => x.isPurePath && x.pathAbs)
  | .String => notEmpty (handleNone (fun s => s.all (·.isStr)))
  | .Time => fun s => s.all (·.isTime)
  | .TimeDelta => notEmpty (fun s => s.all (·.isTimedelta))
  | .UUID => fun s => s.all (·.isUUID)
  | .URL => fun s => s.all (·.isParseResult)
  | .Sparse => fun _ => false

/-- the detection graph of a built typeset on python sequences (identity edges only) -/
def listSucc (b : Built Ty) (n : Ty) : List (PRel Ty Seq) :=
  ((b.baseEdges).filter (fun e => e.src == n)).map
    (fun e => { src := e.src, dst := e.dst, inferential := false, guard := fun s => containsL e.dst s, xform := id })

def listDetect (b : Built Ty) (s : Seq) : List Ty := (ptraverse (listSucc b) 64 b.root s).2

end V.Py

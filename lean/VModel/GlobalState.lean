/-
  VModel.GlobalState — the process-global slots the library can touch, and the effect of every
  public API operation on them, written from the code (DESIGN §4.6).  The only code paths that write
  a global are (a) `string_is_geometry` (pandas and list back ends), which points `sys.stderr` at
  os.devnull around the shapely calls and — as repaired — restores the *previous* stream in a
  `finally`, (b) `suppress_warnings`, which runs inside `warnings.catch_warnings()` (filters are
  restored on exit), and (c) the lazily built per-type relations cache.  The model cannot exhibit
  state it does not name: the History runner supplies that part on the real code.
-/
namespace V

structure GState where
  stderr : Nat                 -- identity token of `sys.stderr`
  stdout : Nat
  filters : List Nat           -- `warnings.filters`
  npErr : Nat                  -- `np.geterr()`
  pdOpts : Nat                 -- pandas options
  cwd : Nat
  relCache : List Nat          -- types whose relations cache has been built
  registrations : Nat          -- dispatch registrations of the shipped types
  deriving DecidableEq, Repr

def devnull : Nat := 0

/-- `string_is_geometry`: redirect, run the shapely loop (which may raise a *caught* or an
*uncaught* exception), restore in `finally`.  Returns the new state and whether an exception escapes. -/
def stringIsGeometry (g : GState) (bodyRaises escapes : Bool) : GState × Bool :=
  let previous := g.stderr
  let g1 := { g with stderr := devnull }
  -- try: … except (caught classes): result = False; finally: sys.stderr = previous
  let g2 := { g1 with stderr := previous }
  (g2, bodyRaises && escapes)

/-- `suppress_warnings(f)`: `with warnings.catch_warnings(): warnings.simplefilter("ignore"); f()` -/
def suppressWarnings (g : GState) : GState :=
  let saved := g.filters
  let g1 := { g with filters := 0 :: g.filters }     -- simplefilter("ignore") inserts a filter
  { g1 with filters := saved }                        -- __exit__ restores the saved list

/-- public API operations, by their effect on globals -/
inductive Op where
  | construct (types : List Nat)          -- VisionsTypeset(...): touches `T.relations` of every type
  | algebra (types : List Nat)
  | membership (t : Nat)                  -- `seq in T`
  | traverse (types : List Nat) (geometryTests : List (Bool × Bool)) (complexToFloat : Nat)
                                          -- detect/infer/cast: relations caches of the typeset's types; every
                                          -- String→Geometry test performed; every Complex→Float cast performed
  | createType
  | functional (types : List Nat) (geometryTests : List (Bool × Bool))
  deriving Repr

def touchCache (g : GState) (ts : List Nat) : GState :=
  { g with relCache := g.relCache ++ ts.filter (fun t => !g.relCache.contains t) }

def runGeometry (g : GState) : List (Bool × Bool) → GState
  | [] => g
  | (r, e) :: rest => runGeometry (stringIsGeometry g r e).1 rest

def runSuppress (g : GState) : Nat → GState
  | 0 => g
  | n + 1 => runSuppress (suppressWarnings g) n

def step (g : GState) : Op → GState
  | .construct ts => touchCache g ts
  | .algebra ts => touchCache g ts
  | .membership _ => g
  | .traverse ts geo k => runSuppress (runGeometry (touchCache g ts) geo) k
  | .createType => g
  | .functional ts geo => runGeometry (touchCache g ts) geo

/-- everything except the (monotone) relations cache -/
def GState.frame (g : GState) : Nat × Nat × List Nat × Nat × Nat × Nat × Nat :=
  (g.stderr, g.stdout, g.filters, g.npErr, g.pdOpts, g.cwd, g.registrations)

end V

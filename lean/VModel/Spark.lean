/-
  VModel.Spark — model of the Spark backend: `contains_op` of every type on a one-column Spark
  DataFrame is a function of the column's declared data type only (table generated from the source),
  and `_traverse_graph_spark_dataframe` runs the ordinary traversal per column and hands back `df`.
-/
import VModel.Engine
import VModel.Graph
import VModel.Generated.Relations
import VModel.Generated.SparkTable
namespace V
open V.Gen

/-- `T.contains_op(df.select(col), state)` for a Spark column of data type `dt`.
`Generic` → `True`; a type with an imported Spark registration → its isinstance test; any other
type falls back to the base multimethod whose body is `pass` (→ `None`, falsy). -/
def sparkContains (t : Ty) (dt : SparkTy) : Bool :=
  if isGeneric t && (sparkAccepts t).isNone then true
  else match sparkAccepts t with
    | some l => l.contains dt
    | none => false

/-- The detection graph of a built typeset on Spark columns (identity edges only; guard = the
child's `contains_op`, transformer = identity). -/
def sparkSucc (b : Built Ty) (n : Ty) : List (PRel Ty SparkTy) :=
  ((b.baseEdges).filter (fun e => e.src == n)).map
    (fun e => { src := e.src, dst := e.dst, inferential := false,
                guard := fun dt => sparkContains e.dst dt, xform := id })

def sparkDetect (b : Built Ty) (dt : SparkTy) : List Ty :=
  (ptraverse (sparkSucc b) 64 b.root dt).2

def sparkDetectType (b : Built Ty) (dt : SparkTy) : Ty :=
  (sparkDetect b dt).getLast?.getD b.root

end V

/-
  Executable form of the invariant `Good` of the pandas theorems (`goodB`) and the cell / parser
  predicates it is made of.  Definitions only (the driver evaluates `goodB` on every abstracted input);
  their meaning and soundness (`goodB_sound : goodB o c = true → Good o c`) are in VProofs/Obligations.
-/
import VModel.Pandas
namespace V.Pd
open V V.Gen

/-- dtypes that `Object` accepts -/
def objectish (d : DKind) : Bool := d.isObject || (d.isStringNonObject && !d.isCategorical)

/-- the columns on which the code breaks upward closure (known findings F26, F27; F24 was repaired) -/
def Excl16 (child : Ty) (c : Column) : Bool :=
  match child with
  | .File => c.cells.any (fun x => !x.null && !x.pathAbs)                          -- F26: existing *relative* path
  | .Date | .Time | .URL | .UUID | .EmailAddress | .Path | .Geometry | .IPAddress =>
      !objectish c.dtype                                                           -- F27: objects inside a categorical
  | _ => false


/-- what each outgoing relation of `Object` demands of every non-missing cell -/
def objPred : Ty → Cell → Bool
  | .String => fun x => x.isStr
  | .Date => fun x => x.cls == "date"
  | .Time => fun x => x.cls == "time"
  | .URL => fun x => x.isParseResult
  | .UUID => fun x => x.isUUID
  | .EmailAddress => fun x => x.isFQDA
  | .Path => fun x => x.isPurePath
  | .Geometry => fun x => x.isGeom
  | .IPAddress => fun x => x.isIP
  | .Boolean => fun x => x.inBoolSet == .ok true
  | _ => fun _ => false

def objChildren : List Ty :=
  [.String, .Date, .Time, .URL, .UUID, .EmailAddress, .Path, .Geometry, .IPAddress, .Boolean]


def isAbsO (v : Outcome (Bool × String)) : Bool := match v with | .ok (b, _) => b | _ => false

/-- what each inference relation out of `String` demands of the parser results of every non-missing cell -/
def strPred : Ty → StrFacts → Bool
  | .Boolean => fun f => f.boolKey.isSome
  | .Float => fun f => f.floatVal.isOk
  | .Geometry => fun f => match f.wkt with | .ok (b, _) => b | _ => false
  | .IPAddress => fun f => f.ip.isOk
  | .Path => fun f => isAbsO f.winAbs || isAbsO f.posixAbs
  | .URL => fun f => match f.url with | .ok (n, s, _) => n && s | _ => false
  | .UUID => fun f => f.uuid.isOk
  | .EmailAddress => fun f => f.email.isOk
  | .Complex => fun f => f.complexVal.isOk
  | _ => fun _ => false

/-- the String relations whose test is a per-element parser -/
def strParsers : List Ty := [.Boolean, .Float, .Geometry, .IPAddress, .Path, .URL, .UUID, .EmailAddress, .Complex]


/-- the eight object-valued children of `Object` -/
def objValued : List Ty := [.Date, .Time, .URL, .UUID, .EmailAddress, .Path, .Geometry, .IPAddress]


def okTrue (r : R Bool) : Bool := match r with | .ok true => true | _ => false

def isOkR {α : Type} (r : R α) : Bool := match r with | .ok _ => true | _ => false

def cellWFB (x : Cell) : Bool := !x.isPath || x.isPurePath
def payWFB (x : Cell) : Bool :=
  match x.pay with
  | .complex re im => x.null == (re.isNan || im.isNan)
  | _ => true
def headExclB (x : Cell) : Bool :=
  objChildren.all fun a => objChildren.all fun b => a == b || !(objPred a x && objPred b x)
def strExclB (f : StrFacts) : Bool :=
  strParsers.all fun a => strParsers.all fun b =>
    a == b || (a == .Complex && b == .Float) || (a == .Float && b == .Complex) || !(strPred a f && strPred b f)
def floatComplexB (f : StrFacts) : Bool :=
  match f.floatVal with
  | .ok _ => (match f.complexVal with | .ok (_, im) => im.isZero | _ => false)
  | _ => true
def ipClsB (f : StrFacts) : Bool :=
  match f.ip with
  | .ok (cls, _) => cls != "date" && cls != "time"
  | _ => true
def isFloatPay (x : Cell) : Bool := match x.pay with | .float _ => true | _ => false
def isTsPay (x : Cell) : Bool := match x.pay with | .ts _ _ _ => true | _ => false
def dtypePayB (c : Column) : Bool :=
  (!c.dtype.isFloat || c.cells.all (fun x => x.null || isFloatPay x)) &&
  (!c.dtype.isDatetime || c.cells.all (fun x => x.null || isTsPay x))
def acceptsStrB (o : ColOracle) (d : Ty) (c : Column) : Bool :=
  match guard o .String d with
  | some g => okTrue (g c)
  | none => false
def outCellB (x : Cell) : Bool :=
  x.str.isNone && cellWFB x && payWFB x &&
  (x.null || (!x.isPath && !x.isStr && headExclB x &&
    (match x.pay with | .ts d _ _ => decide (1 ≤ d) && decide (d ≤ 3652059) | _ => true)))
def tsCellB (y : Cell) : Bool :=
  outCellB y && (y.null || (isTsPay y && objValued.all (fun a => !objPred a y)))
def dtResB (o : ColOracle) (c : Column) : Bool :=
  match o.toDatetime c.cells with
  | .ok (r, _) => r.any (fun y => !y.null) && r.all tsCellB
  | .raises _ => true
def oracleB (o : ColOracle) (c : Column) : Bool :=
  !containsB .String c ||
    ((!okTrue (stringIsDatetime o c) || strParsers.all (fun d => !acceptsStrB o d c)) && dtResB o c)
def excl16B (c : Column) : Bool := Ty.all.all fun child => !containsB child c || !Excl16 child c
def noRaiseB (o : ColOracle) (c : Column) : Bool :=
  Ty.all.all fun src => Ty.all.all fun dst =>
    match guard o src dst, xform o src dst with
    | some g, some t => !containsB src c || !okTrue (g c) || isOkR (t c)
    | _, _ => true

/-- the invariant `Good`, executable -/
def strGoodB (x : Cell) : Bool :=
  match x.str with
  | some f => strExclB f && floatComplexB f && ipClsB f
  | none => true
def cellGoodB (x : Cell) : Bool :=
  cellWFB x && payWFB x && (!x.str.isSome || !x.null) && (x.null || headExclB x) && strGoodB x
def goodB (o : ColOracle) (c : Column) : Bool :=
  c.cells.all cellGoodB &&
  (!c.dtype.isStringNonObject || c.cells.all (fun x => x.null || x.isStr)) &&
  dtypePayB c && oracleB o c && excl16B c && noRaiseB o c


/-- no relation test whose source type contains the column raises on it (executable form of `GuardsOk`) -/
def guardsOkB (o : ColOracle) (c : Column) : Bool :=
  Ty.all.all fun src => Ty.all.all fun dst =>
    match guard o src dst with
    | some g => !containsB src c || isOkR (g c)
    | none => true


end V.Pd

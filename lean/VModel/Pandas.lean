/-
  VModel.Pandas — model of the pandas backend (`visions/backends/pandas/types/*.py`,
  `series_utils.py`, `test_utils.py`): `contains_op` of the 24 types and guard + transformer of the
  14 inference relations, over abstract columns.  One definition per Python function, same order of
  checks, decorators as explicit wrappers, every `try/except` as a match on the outcome with the
  caught exception classes listed.  Errors that escape the Python function are `Except.error`.
-/
import VModel.Engine
import VModel.Column
import VModel.Generated.Relations
import VModel.Generated.BoolMap
namespace V.Pd
open V V.Gen

abbrev R := Except Err

/-- exception escaping a function registered with multimethod: TypeError becomes DispatchError -/
def isA (cls name : String) : Bool := (cls.splitOn "|").contains name
/-- the exception's own class (outcomes carry the MRO as `Cls|Base|…`) -/
def headCls (cls : String) : String := (cls.splitOn "|").headD cls
def escape (cls : String) : Err := if isA cls "TypeError" then .dispatch (headCls cls) else .raised (headCls cls)

/-! ### decorators (`series_utils.py`)

Membership predicates never raise in the model (every `contains_op` body is a composition of total
dtype tests and `all(...)` over `isinstance`/`hasattr`), so they are plain `Bool` functions; guards
and transformers, which call parsers, are `R`-valued. -/

/-- `series_handle_nulls` -/
def handleNullsB (f : Column → Bool) (c : Column) : Bool :=
  if c.hasnans then
    let c' := c.dropna
    if c'.empty then false else f c'
  else f c

/-- `series_handle_nulls` around a function that may raise -/
def handleNulls (f : Column → R Bool) (c : Column) : R Bool :=
  if c.hasnans then
    let c' := c.dropna
    if c'.empty then .ok false else f c'
  else f c

/-- `series_not_empty` -/
def notEmptyB (f : Column → Bool) (c : Column) : Bool :=
  if c.empty then false else f c

/-- `series_not_sparse`: tests `isinstance(series, pd.SparseDtype)` on a *Series* — never true -/
def notSparseB (f : Column → Bool) (c : Column) : Bool := f c

/-- the class of the first exception raised while mapping over the elements, if any -/
def firstRaise {α : Type} : List (Outcome α) → Option String
  | [] => none
  | .raises c :: _ => some c
  | .ok _ :: xs => firstRaise xs

def oks {α : Type} : List (Outcome α) → List α
  | [] => []
  | .raises _ :: xs => oks xs
  | .ok a :: xs => a :: oks xs

/-! ### `_contains_instance_attrs` -/

/-- class test on `head(1)` as an early exit, then class test and `hasattr` on every element -/
def containsInstanceAttrs (isCls : Cell → Bool) (hasAttrs : Cell → Bool) (c : Column) : Bool :=
  if !((c.cells.take 1).all isCls) then false
  else c.cells.all (fun x => isCls x && hasAttrs x)

/-! ### contains_op -/

def booleanContains : Column → Bool :=
  notSparseB (handleNullsB (notEmptyB (fun c => c.dtype.isBool && !c.dtype.isCategorical)))
def categoricalContains : Column → Bool :=
  notSparseB (notEmptyB (fun c => c.dtype.isCategorical))
def complexContains : Column → Bool :=
  notSparseB (notEmptyB (fun c => c.dtype.isComplex))
def countContains : Column → Bool :=
  notSparseB (notEmptyB (fun c => c.dtype.isUnsigned))
def dateContains : Column → Bool :=
  handleNullsB (notEmptyB (containsInstanceAttrs (fun x => x.cls == "date") (·.hasDateAttrs)))
def datetimeContains : Column → Bool :=
  notSparseB (handleNullsB (notEmptyB (fun c => c.dtype.isDatetime)))
def emailContains : Column → Bool :=
  notEmptyB (handleNullsB (containsInstanceAttrs (·.isFQDA) (·.hasEmailAttrs)))
def fileContains : Column → Bool :=
  notEmptyB (handleNullsB (fun c => c.cells.all (fun x => x.isPath && x.pathExists)))
def floatContains : Column → Bool :=
  notSparseB (handleNullsB (notEmptyB (fun c => c.dtype.isFloat)))
def geometryContains : Column → Bool :=
  notEmptyB (handleNullsB (fun c => c.cells.all (·.isGeom)))
def imageContains : Column → Bool :=
  notEmptyB (handleNullsB (fun c => c.cells.all (fun x => x.isPath && x.pathExists && x.pathImage)))
def integerContains : Column → Bool :=
  notSparseB (notEmptyB (fun c => c.dtype.isInteger))
def ipContains : Column → Bool :=
  notEmptyB (handleNullsB (fun c => c.cells.all (·.isIP)))
def numericContains : Column → Bool :=
  notSparseB (notEmptyB (fun c => c.dtype.isNumeric))
def objectContains : Column → Bool :=
  notSparseB (handleNullsB (notEmptyB (fun c =>
    if c.dtype.isObject then true else c.dtype.isStringNonObject && !c.dtype.isCategorical)))
def ordinalContains : Column → Bool :=
  notEmptyB (fun c => c.dtype.isCategorical && c.dtype.catOrdered)
def pathContains : Column → Bool :=
  notEmptyB (handleNullsB (fun c => c.cells.all (fun x => x.isPurePath && x.pathAbs)))
def sparseContains : Column → Bool := fun c => c.dtype.isSparse

/-- `_is_string` (under `series_handle_nulls`): every value is a `str`, and
`series.astype(str).values == series.values` everywhere (TypeError/ValueError → False) -/
def isString : Column → Bool :=
  handleNullsB (fun c =>
    if !(c.cells.all (·.isStr)) then false
    else c.cells.all (fun x => match x.strEq with | .ok b => b | .raises _ => false))
def stringContains : Column → Bool :=
  notSparseB (notEmptyB (handleNullsB (fun c =>
    if c.dtype.isCategorical then false
    else if !c.dtype.isObject then c.dtype.isStringNonObject
    else isString c)))
def timeContains : Column → Bool :=
  handleNullsB (notEmptyB (containsInstanceAttrs (fun x => x.cls == "time") (·.hasTimeAttrs)))
def timedeltaContains : Column → Bool :=
  notSparseB (notEmptyB (fun c => c.dtype.isTimedelta))
def urlContains : Column → Bool :=
  handleNullsB (notEmptyB (containsInstanceAttrs (·.isParseResult) (·.hasUrlAttrs)))
def uuidContains : Column → Bool :=
  notEmptyB (handleNullsB (containsInstanceAttrs (·.isUUID) (·.hasUuidAttrs)))

def containsB : Ty → Column → Bool
  | .Generic => fun _ => true
  | .String => stringContains
  | .Boolean => booleanContains
  | .Categorical => categoricalContains
  | .Complex => complexContains
  | .Count => countContains
  | .Date => dateContains
  | .DateTime => datetimeContains
  | .File => fileContains
  | .Float => floatContains
  | .Geometry => geometryContains
  | .Image => imageContains
  | .Integer => integerContains
  | .IPAddress => ipContains
  | .Object => objectContains
  | .Ordinal => ordinalContains
  | .Path => pathContains
  | .TimeDelta => timedeltaContains
  | .UUID => uuidContains
  | .URL => urlContains
  | .Time => timeContains
  | .EmailAddress => emailContains
  | .Sparse => sparseContains
  | .Numeric => numericContains

def contains (t : Ty) (c : Column) : R Bool := .ok (containsB t c)

/-! ### relations: guards -/

/-- `object_is_boolean` -/
def objectIsBoolean : Column → R Bool :=
  handleNulls (fun c =>
    -- `all(item in bool_set …)`; (ValueError, TypeError, AttributeError) → False, anything else escapes
    .ok (c.cells.all (fun x => match x.inBoolSet with | .ok b => b | .raises _ => false)))

/-- `string_is_boolean`: `series.str.lower()` then the single-map test under `series_handle_nulls` -/
def stringIsBoolean (c : Column) : R Bool :=
  -- `.str.lower()` raises AttributeError on a non-string column → caught → False
  if !(c.cells.all (fun x => x.null || x.isStr)) then .ok false
  else handleNulls (fun c =>
    .ok ((List.range boolMaps.length).any (fun i =>
      c.cells.all (fun x => match x.str with
        | some f => (match f.boolKey with | some (j, _) => j == i | none => false)
        | none => false)))) c

/-- per-element `complex(val)` as `convert_val_to_complex` sees it (on the raw element) -/
def cellComplex (x : Cell) : Outcome (FloatV × FloatV) :=
  match x.str with
  | some f => f.complexVal
  | none =>
    if x.null then .ok (.nan, .fin 0 0)       -- a missing value of any kind stays missing (as repaired: `pd.isna(val)`)
    else .raises "TypeError"

/-- `string_is_complex` -/
def stringIsComplex (c : Column) : R Bool :=
  -- option_coercion_evaluator: (ValueError, TypeError, AttributeError) → None
  let vals := c.cells.map cellComplex
  match firstRaise vals with
  | some cls =>
    if isA cls "ValueError" || isA cls "TypeError" || isA cls "AttributeError" then .ok false else .error (escape cls)
  | _ =>
    let vs := oks vals
    -- coerced values that are NaN become missing and are dropped
    let nonNull := vs.filter (fun p => !(p.1.isNan || p.2.isNan))
    if nonNull.all (fun p => p.2.isZero) then .ok false
    else
      -- imaginary_in_string(series.dropna()): `v in s` on a non-string element raises TypeError (not caught)
      let rec scan : List Cell → R Bool
        | [] => .ok false
        | x :: xs => match x.str with
          | some f => if f.hasJI then .ok true else scan xs
          | none => .error (escape "TypeError")
      scan c.dropna.cells

/-- column-level oracle: the outcome of `pandas_infer_datetime` on the cells handed to it -/
structure ColOracle where
  toDatetime : List Cell → Outcome (List Cell × Bool)     -- result cells (timestamps / NaT) and tz-awareness

/-- `string_is_datetime` -/
def stringIsDatetime (o : ColOracle) : Column → R Bool :=
  handleNulls (fun c =>
    match o.toDatetime c.cells with
    | .raises cls =>
      if isA cls "ValueError" || isA cls "TypeError" || isA cls "AttributeError" || isA cls "OverflowError"
      then .ok false else .error (escape cls)
    | .ok (cells, _) => .ok (cells.any (fun x => !x.null)))

/-- per-element result of `series.astype(float)`: strings go through `float`; a missing value becomes NaN, except
that in an object column `pd.NA` / `NaT` reach `float()` and raise TypeError -/
def cellFloat (d : DKind) (x : Cell) : Outcome FloatV :=
  match x.str with
  | some f => f.floatVal
  | none =>
    if x.null then
      (if d == .object then
        (match x.na with
         | .none_ => .ok .nan
         | .nan => .ok .nan
         | _ => .raises "TypeError")
       else .ok .nan)
    else .raises "TypeError"

/-- `test_string_leading_zeros(series, coerced_series)` -/
def leadingZerosOk (cells : List Cell) (vals : List FloatV) : Bool :=
  let pairs := (cells.zip vals).filter (fun p => !p.2.isNan)
  if vals.any (·.isNan) && pairs.isEmpty then false
  else !(pairs.any (fun p => p.2.gtOne && (match p.1.str with | some f => f.firstIsZero | none => false)))

/-- `string_is_float` -/
def stringIsFloat : Column → R Bool :=
  handleNulls (fun c =>
    let vals := c.cells.map (cellFloat c.dtype)
    match firstRaise vals with
    | some cls =>
      if isA cls "ValueError" || isA cls "TypeError" || isA cls "AttributeError" then .ok false else .error (escape cls)
    | _ =>
      let fs := oks vals
      -- float_contains(coerced): float dtype, under handle_nulls + not_empty
      let nn := fs.filter (fun v => !v.isNan)
      if fs.isEmpty || nn.isEmpty then .ok false
      else .ok (leadingZerosOk c.cells fs))

/-- `complex_is_float` (under `series_handle_nulls`): `all(np.imag(series.values) == 0)` -/
def complexIsFloat : Column → R Bool :=
  handleNulls (fun c =>
    .ok (c.cells.all (fun x => match x.pay with
      | .complex _ im => im.isZero
      | _ => false)))

/-- `float_is_integer` -/
def floatIsInteger : Column → R Bool :=
  handleNulls (fun c =>
    .ok (c.cells.all (fun x => match x.pay with
      | .float v => v.isInt64
      | _ => false)))

/-- `datetime_is_date` -/
def datetimeIsDate : Column → R Bool :=
  handleNulls (fun c =>
    .ok (c.cells.all (fun x => match x.pay with
      | .ts _ ns _ => ns == 0
      | _ => false)))

/-- `string_is_geometry` (under `series_handle_nulls`): `all(wkt.loads(value) for value in sequence)` -/
def stringIsGeometry : Column → R Bool := handleNulls fun c =>
  let caught := fun cls => isA cls "WKTReadingError" || isA cls "ShapelyError" || isA cls "GEOSException" ||
    isA cls "AttributeError" || isA cls "UnicodeEncodeError" || isA cls "TypeError" || isA cls "UnicodeDecodeError" ||
    isA cls "NotImplementedError"      -- (as repaired: nonlinear WKT such as CIRCULARSTRING is not a geometry shapely can hold)
  let rec go : List Cell → R Bool
    | [] => .ok true
    | x :: xs =>
      match (match x.str with | some f => f.wkt | none => Outcome.raises "TypeError") with
      | .raises cls => if caught cls then .ok false else .error (escape cls)
      | .ok (t, _) => if t then go xs else .ok false
  go c.cells

/-- `string_is_ip_address` (under `series_handle_nulls`): `coercion_test(lambda s: s.apply(ip_address))` -/
def stringIsIp : Column → R Bool := handleNulls fun c =>
  let vals := c.cells.map (fun x => match x.str with | some f => f.ip | none => Outcome.raises "ValueError")
  match firstRaise vals with
  | some cls =>
    if isA cls "ValueError" || isA cls "TypeError" || isA cls "AttributeError" then .ok false else .error (escape cls)
  | _ => .ok true

/-- `string_is_path` (under `series_handle_nulls`): `string_to_path(series.copy())` then all absolute;
only TypeError is caught -/
def stringIsPath : Column → R Bool := handleNulls fun c =>
  let win := c.cells.map (fun x => match x.str with | some f => f.winAbs | none => Outcome.raises "TypeError")
  match firstRaise win with
  | some cls => if isA cls "TypeError" then .ok false else .error (escape cls)
  | _ =>
    let wabs := win.all (fun v => match v with | .ok (b, _) => b | _ => false)
    if wabs then .ok true
    else
      let px := c.cells.map (fun x => match x.str with | some f => f.posixAbs | none => Outcome.raises "TypeError")
      match firstRaise px with
      | some cls => if isA cls "TypeError" then .ok false else .error (escape cls)
      | _ => .ok (px.all (fun v => match v with | .ok (b, _) => b | _ => false))

/-- `string_is_url` (under `series_handle_nulls`): AttributeError and ValueError are caught -/
def stringIsUrl : Column → R Bool :=
  handleNulls (fun c =>
    let us := c.cells.map (fun x => match x.str with | some f => f.url | none => Outcome.raises "AttributeError")
    match firstRaise us with
    | some cls => if isA cls "AttributeError" || isA cls "ValueError" then .ok false else .error (escape cls)
    | _ => .ok (us.all (fun v => match v with | .ok (n, s, _) => n && s | _ => false)))

/-- `series.all()` on the *input* strings, as `coercion_true_test` does -/
def seriesAll (c : Column) : R Bool :=
  -- `series.astype(object).all()`
  .ok (c.cells.all (fun x => match x.truth with | .ok b => b | .raises _ => true))

/-- `uuid_is_string` (under `series_handle_nulls`): `coercion_true_test(apply(uuid.UUID))` -/
def stringIsUuid : Column → R Bool := handleNulls fun c =>
  let vs := c.cells.map (fun x => match x.str with | some f => f.uuid | none => Outcome.raises "AttributeError")
  match firstRaise vs with
  | some cls =>
    if isA cls "ValueError" || isA cls "TypeError" || isA cls "AttributeError" then .ok false else .error (escape cls)
  | _ => seriesAll c

/-- `string_is_email` (under `series_handle_nulls`): `coercion_true_test(apply(_to_email) …)` -/
def stringIsEmail : Column → R Bool := handleNulls fun c =>
  let vs := c.cells.map (fun x => match x.str with | some f => f.email | none => Outcome.raises "TypeError")
  match firstRaise vs with
  | some cls =>
    if isA cls "ValueError" || isA cls "TypeError" || isA cls "AttributeError" then .ok false else .error (escape cls)
  | _ => seriesAll c

/-! ### relations: transformers -/

/-- `object_to_boolean`: `series.astype("boolean" if hasnans else bool)` -/
def objectToBoolean (c : Column) : R Column :=
  let nn := c.cells.filter (fun x => !x.null)
  let isB := fun (x : Cell) => match x.pay with | .bool _ => true | _ => false
  let isNum := fun (x : Cell) => match x.pay with | .int _ => true | .float _ => true | _ => false
  -- `lib.infer_dtype(values, skipna=True)` must be boolean or integer-like; a NaT among the missing values counts
  -- as a datetime ("Need to pass bool-like values")
  if c.hasnans && (!(nn.all isB || nn.all isNum) || c.cells.any (fun x => x.null && x.na == .nat))
  then .error (escape "TypeError")
  else
  let conv := c.cells.map (fun x =>
    if x.null then Outcome.ok (Cell.missing .pdNA)
    else match x.truth with
      | .ok b => Outcome.ok (Cell.ofBool b)
      | .raises cls => Outcome.raises cls)
  match firstRaise conv with
  | some cls => .error (escape cls)
  | _ =>
    let cells := oks conv
    .ok { c with dtype := .fam (if c.hasnans then .boolean else .bool), cells := cells }

/-- `string_to_boolean`: `series.str.lower()`, `map(mapping)`, then `object_to_boolean` -/
def stringToBoolean (c : Column) : R Column :=
  let cells := c.cells.map (fun x =>
    if x.null then Cell.missing .nan
    else match x.str with
      | some f => (match f.boolKey with | some (_, b) => Cell.ofBool b | none => Cell.missing .nan)
      | none => Cell.missing .nan)
  objectToBoolean { c with dtype := .object, cells := cells }

/-- `string_to_complex`: `apply(convert_val_to_complex)` -/
def stringToComplex (c : Column) : R Column :=
  let vals := c.cells.map cellComplex
  match firstRaise vals with
  | some cls => .error (escape cls)
  | _ =>
    let cells := (oks vals).map (fun p =>
      if p.1.isNan || p.2.isNan then Cell.ofComplex .nan (.fin 0 0) else Cell.ofComplex p.1 p.2)
    .ok { c with dtype := .fam .complex, cells := cells }

/-- `string_to_datetime`: `pandas_infer_datetime(series)` on the whole column -/
def stringToDatetime (o : ColOracle) (c : Column) : R Column :=
  match o.toDatetime c.cells with
  | .raises cls => .error (escape cls)
  | .ok (cells, tz) => .ok { c with dtype := .fam (if tz then .datetimetz else .datetime), cells := cells }

/-- `string_to_float`: `series.astype(float)` -/
def stringToFloat (c : Column) : R Column :=
  let vals := c.cells.map (cellFloat c.dtype)
  match firstRaise vals with
  | some cls => .error (escape cls)
  | _ =>
    .ok { c with
        dtype := .fam .float,
        cells := (oks vals).map Cell.ofFloat }

/-- `complex_to_float`: `series.astype(float)` keeps the real part -/
def complexToFloat (c : Column) : R Column :=
  .ok { c with
      dtype := .fam .float,
      cells := c.cells.map (fun x => match x.pay with
      | .complex re _ => Cell.ofFloat re
      | _ => Cell.missing .nan) }

/-- `float_to_integer`: `astype("Int64" if hasnans else np.int64)` -/
def floatToInteger (c : Column) : R Column :=
  .ok { c with
      dtype := .fam (if c.hasnans then .Int else .int),
      cells := c.cells.map (fun x =>
      if x.null then Cell.missing .pdNA
      else match x.pay with
      | .float v => Cell.ofInt v.toInt
      | _ => x) }

/-- `datetime_to_date`: `series.dt.date` (NaT stays NaT) -/
def datetimeToDate (c : Column) : R Column :=
  -- `datetime.date` covers years 1..9999 only (ordinals 1..3652059): "year 0 is out of range"
  if c.cells.any (fun x => !x.null && (match x.pay with | .ts day _ _ => decide (day < 1) || decide (day > 3652059) | _ => false))
  then .error (escape "ValueError")
  else
  .ok { c with
      dtype := .object,
      cells := c.cells.map (fun x =>
      if x.null then Cell.missing .nat
      else match x.pay with
      | .ts day _ _ => Cell.ofDate day
      | _ => x) }

def applyStr (c : Column) (p : StrFacts → Outcome Cell) (onNonStr : Cell → Outcome Cell) : R Column :=
  let vals := c.cells.map (fun x => match x.str with | some f => p f | none => onNonStr x)
  match firstRaise vals with
  | some cls => .error (escape cls)
  | _ => .ok { c with dtype := .object, cells := oks vals }

def geomCell (repr : String) : Cell := { Cell.ofObj "geometry" repr with isGeom := true }
def ipCell (cls repr : String) : Cell := { Cell.ofObj cls repr with isIP := true }
def purePathCell (cls : String) (abs : Bool) (repr : String) : Cell :=
  { Cell.ofObj cls repr with isPurePath := true, pathAbs := abs }
def urlCell (netloc scheme : Bool) (repr : String) : Cell :=
  { Cell.ofObj "ParseResult" repr with
      isParseResult := true, hasUrlAttrs := true,
      truth := .ok true }
def uuidCell (repr : String) : Cell := { Cell.ofObj "UUID" repr with isUUID := true, hasUuidAttrs := true }
def emailCell (repr : String) : Cell := { Cell.ofObj "FQDA" repr with isFQDA := true, hasEmailAttrs := true }

/-- `string_to_geometry` (as repaired: keeps index, name and missing values) -/
def stringToGeometry (c : Column) : R Column :=
  applyStr c (fun f => match f.wkt with | .ok (_, r) => .ok (geomCell r) | .raises cls => .raises cls)
    (fun x => if x.null then .ok x else .raises "TypeError")
def stringToIp (c : Column) : R Column :=
  applyStr c (fun f => match f.ip with | .ok (cls, r) => .ok (ipCell cls r) | .raises cls => .raises cls)
    (fun x => if x.null then .ok x else .raises "ValueError")
/-- `string_to_path`: Windows flavour if every *value* is absolute as a Windows path, else POSIX; missing values
are kept -/
def stringToPath (c : Column) : R Column :=
  let vals := c.dropna.cells
  let win := vals.map (fun x => match x.str with | some f => f.winAbs | none => Outcome.raises "TypeError")
  match firstRaise win with
  | some cls => .error (escape cls)
  | _ =>
    if win.all (fun v => match v with | .ok (b, _) => b | _ => false) then
      applyStr c (fun f => match f.winAbs with | .ok (b, r) => .ok (purePathCell "PureWindowsPath" b r) | .raises cls => .raises cls)
        (fun x => if x.null then .ok x else .raises "TypeError")
    else
      applyStr c (fun f => match f.posixAbs with | .ok (b, r) => .ok (purePathCell "PurePosixPath" b r) | .raises cls => .raises cls)
        (fun x => if x.null then .ok x else .raises "TypeError")
def stringToUrl (c : Column) : R Column :=
  applyStr c (fun f => match f.url with | .ok (n, s, r) => .ok (urlCell n s r) | .raises cls => .raises cls)
    -- `_urlparse_or_missing`: a missing value is kept as it is
    (fun x => if x.null then .ok x else .raises "AttributeError")
def stringToUuid (c : Column) : R Column :=
  applyStr c (fun f => match f.uuid with | .ok r => .ok (uuidCell r) | .raises cls => .raises cls)
    (fun x => if x.null then .ok x else .raises "AttributeError")
def stringToEmail (c : Column) : R Column :=
  applyStr c (fun f => match f.email with | .ok r => .ok (emailCell r) | .raises cls => .raises cls)
    (fun x => if x.null then .ok x else .raises "TypeError")

/-! ### the relation table: guard and transformer per declared inference relation -/

def guard (o : ColOracle) (src dst : Ty) : Option (Column → R Bool) :=
  match src, dst with
  | .Object, .Boolean => some objectIsBoolean
  | .String, .Boolean => some stringIsBoolean
  | .String, .Complex => some stringIsComplex
  | .String, .DateTime => some (stringIsDatetime o)
  | .String, .Float => some stringIsFloat
  | .Complex, .Float => some complexIsFloat
  | .Float, .Integer => some floatIsInteger
  | .DateTime, .Date => some datetimeIsDate
  | .String, .Geometry => some stringIsGeometry
  | .String, .IPAddress => some stringIsIp
  | .String, .Path => some stringIsPath
  | .String, .URL => some stringIsUrl
  | .String, .UUID => some stringIsUuid
  | .String, .EmailAddress => some stringIsEmail
  | _, _ => none

def xform (o : ColOracle) (src dst : Ty) : Option (Column → R Column) :=
  match src, dst with
  | .Object, .Boolean => some objectToBoolean
  | .String, .Boolean => some stringToBoolean
  | .String, .Complex => some stringToComplex
  | .String, .DateTime => some (stringToDatetime o)
  | .String, .Float => some stringToFloat
  | .Complex, .Float => some complexToFloat
  | .Float, .Integer => some floatToInteger
  | .DateTime, .Date => some datetimeToDate
  | .String, .Geometry => some stringToGeometry
  | .String, .IPAddress => some stringToIp
  | .String, .Path => some stringToPath
  | .String, .URL => some stringToUrl
  | .String, .UUID => some stringToUuid
  | .String, .EmailAddress => some stringToEmail
  | _, _ => none

/-- the engine relation of one edge of a built typeset (state is unused by shipped relations) -/
def mkRel (o : ColOracle) (e : Edge Ty) : Rel Ty Column Unit :=
  if e.inferential then
    { src := e.src, dst := e.dst, inferential := true,
      guard := fun c s => match guard o e.src e.dst with
        | some g => (g c).map (fun v => (v, s))
        | none => .error .notImplemented,
      xform := fun c s => match xform o e.src e.dst with
        | some t => (t c).map (fun v => (v, s))
        | none => .ok (c, s) }
  else
    { src := e.src, dst := e.dst, inferential := false,
      guard := fun c s => (contains e.dst c).map (fun v => (v, s)),
      xform := fun c s => .ok (c, s) }

/-- the engine graph of a built typeset over pandas columns -/
def graphOf (o : ColOracle) (b : Built Ty) : Graph Ty Column Unit :=
  { succ := fun n => (b.edges.filter (fun e => e.src == n)).map (mkRel o) }

end V.Pd

/-
  VModel.Column — abstract pandas columns.

  A column is a dtype family plus a list of *cells*; a cell is a record of the observable facts the
  backend code can ever ask of an element (null-ness as `series.isna()` sees it, class name,
  `isinstance` bits, attribute bits, numeric payload, the results of the real element parsers on a
  string).  Element parsers (`float`, `complex`, `urlparse`, `uuid.UUID`, `ip_address`, `wkt.loads`,
  `PureWindowsPath`, …) are *not* re-implemented: their results are data (`StrFacts`), computed by the
  harness' abstraction function α by calling the library functions directly.
-/
import VModel.Generated.PandasDtypes
namespace V
open V.Gen

/-- result of a library call: a value or an exception class name -/
inductive Outcome (α : Type) where
  | ok (a : α)
  | raises (cls : String)
  deriving DecidableEq, Repr, Inhabited

def Outcome.isOk {α : Type} : Outcome α → Bool
  | .ok _ => true
  | .raises _ => false

/-- exact value of a Python float: `num / 2^den2` in lowest terms, or a special -/
inductive FloatV where
  | nan | pinf | ninf
  | fin (num : Int) (den2 : Nat)
  deriving DecidableEq, Repr, Inhabited

def FloatV.isNan : FloatV → Bool
  | .nan => true
  | _ => false
def FloatV.isFinite : FloatV → Bool
  | .fin _ _ => true
  | _ => false
def FloatV.isZero : FloatV → Bool
  | .fin 0 _ => true
  | _ => false
/-- `v > 1` -/
def FloatV.gtOne : FloatV → Bool
  | .pinf => true
  | .fin n d => decide (n > (2 : Int) ^ d)
  | _ => false
/-- integral and representable in int64: `-2^63 ≤ v < 2^63` -/
def FloatV.isInt64 : FloatV → Bool
  | .fin n 0 => decide (-(2 : Int) ^ 63 ≤ n) && decide (n < (2 : Int) ^ 63)
  | _ => false
def FloatV.toInt : FloatV → Int
  | .fin n 0 => n
  | _ => 0

/-- which missing-value sentinel (all are "missing" to `isna`) -/
inductive NaKind where
  | none_ | nan | pdNA | nat
  deriving DecidableEq, Repr, Inhabited

/-- numeric / temporal payload of a cell -/
inductive Payload where
  | none
  | bool (b : Bool)
  | int (z : Int)
  | float (v : FloatV)
  | complex (re im : FloatV)
  | ts (day : Int) (nsOfDay : Nat) (tz : Bool)     -- Timestamp / datetime: ordinal day, time of day (local), tz-aware?
  | date (day : Int)
  | obj (repr : String)                            -- canonical text of a parsed object (ip, uuid, url, path, wkt, email)
  deriving DecidableEq, Repr, Inhabited

/-- results of the real element parsers on one string -/
structure StrFacts where
  boolKey : Option (Nat × Bool)                    -- `s.lower()` is a key of boolean map #i, with this value
  floatVal : Outcome FloatV                        -- `float(s)`
  firstIsZero : Bool                               -- `s[0] == "0"`
  hasJI : Bool                                     -- `"j" in s or "i" in s`
  complexVal : Outcome (FloatV × FloatV)           -- `complex(s)`
  wkt : Outcome (Bool × String)                    -- `wkt.loads(s)`: truthiness, canonical wkt
  ip : Outcome (String × String)                   -- `ip_address(s)`: class name, canonical text
  winAbs : Outcome (Bool × String)                 -- `PureWindowsPath(s)`: is_absolute(), str
  posixAbs : Outcome (Bool × String)               -- `PurePosixPath(s)`
  url : Outcome (Bool × Bool × String)             -- `urlparse(s)`: netloc truthy, scheme truthy, geturl()
  uuid : Outcome String                            -- `uuid.UUID(s)`: canonical text
  email : Outcome String                           -- `_to_email(s)` (FQDA(*s.split('@',1))): "local@fqdn"
  truthy : Bool                                    -- `bool(s)`
  deriving DecidableEq, Repr, Inhabited

/-- one element of a Series, as a record of observable facts -/
structure Cell where
  null : Bool                   -- `series.isna()` at this position
  na : NaKind                   -- which sentinel, when null
  cls : String                  -- `type(v).__name__`
  isStr : Bool
  isPurePath : Bool
  isPath : Bool                 -- concrete `pathlib.Path`
  isParseResult : Bool
  isUUID : Bool
  isFQDA : Bool
  isGeom : Bool                 -- `issubclass(type(v), BaseGeometry)`
  isIP : Bool                   -- `isinstance(v, _BaseAddress)`
  hasDateAttrs : Bool           -- year, month, day
  hasTimeAttrs : Bool           -- microsecond, hour
  hasUrlAttrs : Bool            -- netloc, scheme
  hasUuidAttrs : Bool           -- time_low, hex
  hasEmailAttrs : Bool          -- local, fqdn
  pathAbs : Bool                -- `v.is_absolute()` (paths)
  pathExists : Bool             -- `v.exists()` (concrete paths)
  pathImage : Bool              -- `path_is_image(v)`
  strEq : Outcome Bool          -- `str(v) == v`
  inBoolSet : Outcome Bool      -- `v in {True, False}`
  truth : Outcome Bool          -- `bool(v)`
  pay : Payload
  str : Option StrFacts         -- parser results, for `str` elements
  deriving DecidableEq, Repr, Inhabited

/-- dtype of a column: a non-object family of the generated table, or `object` -/
inductive DKind where
  | fam (f : PdFam)
  | object
  deriving DecidableEq, Repr, Inhabited

/-- index/name are opaque tokens: the model only has to say whether they are kept -/
structure Column where
  dtype : DKind
  cells : List Cell
  index : List String           -- canonical text of the index labels
  name : String
  deriving DecidableEq, Repr, Inhabited

def Column.len (c : Column) : Nat := c.cells.length
def Column.hasnans (c : Column) : Bool := c.cells.any (·.null)
def Column.empty (c : Column) : Bool := c.cells.isEmpty
/-- `series.dropna()` -/
def Column.dropna (c : Column) : Column :=
  { c with
      cells := c.cells.filter (fun x => !x.null),
      index := (c.cells.zip c.index).filterMap (fun p => if p.1.null then none else some p.2) }

/-! dtype predicates (`pandas.api.types`), via the generated table; `object` is handled here -/
def DKind.isBool : DKind → Bool | .fam f => is_bool_dtype f | .object => false
def DKind.isCategorical : DKind → Bool | .fam f => is_categorical_dtype f | .object => false
def DKind.isComplex : DKind → Bool | .fam f => is_complex_dtype f | .object => false
def DKind.isUnsigned : DKind → Bool | .fam f => is_unsigned_integer_dtype f | .object => false
def DKind.isDatetime : DKind → Bool | .fam f => is_datetime64_any_dtype f | .object => false
def DKind.isFloat : DKind → Bool | .fam f => is_float_dtype f | .object => false
def DKind.isInteger : DKind → Bool | .fam f => is_integer_dtype f | .object => false
def DKind.isNumeric : DKind → Bool | .fam f => is_numeric_dtype f | .object => false
def DKind.isObject : DKind → Bool | .fam f => is_object_dtype f | .object => true
def DKind.isTimedelta : DKind → Bool | .fam f => is_timedelta64_dtype f | .object => false
def DKind.isSparse : DKind → Bool | .fam f => is_sparse f | .object => false
/-- `is_string_dtype` is only ever evaluated by the backend on non-object dtypes -/
def DKind.isStringNonObject : DKind → Bool | .fam f => is_string_dtype f | .object => false
def DKind.catOrdered : DKind → Bool
  | .fam .catOtherOrd | .fam .catStrOrd | .fam .catBoolOrd => true
  | _ => false

/-! smart constructors for the cells transformers produce -/
def Cell.blank : Cell :=
  { null := false, na := .nan, cls := "", isStr := false, isPurePath := false, isPath := false,
    isParseResult := false, isUUID := false, isFQDA := false, isGeom := false, isIP := false,
    hasDateAttrs := false, hasTimeAttrs := false, hasUrlAttrs := false, hasUuidAttrs := false,
    hasEmailAttrs := false, pathAbs := false, pathExists := false, pathImage := false,
    strEq := .ok false, inBoolSet := .ok false, truth := .ok true, pay := .none, str := none }

def Cell.missing (k : NaKind) : Cell :=
  { Cell.blank with
      null := true, na := k,
      cls := (match k with | .none_ => "NoneType" | .nan => "float" | .pdNA => "NAType" | .nat => "NaTType"),
      truth := (match k with | .none_ => .ok false | .nan => .ok true | .pdNA => .raises "TypeError" | .nat => .ok true),
      inBoolSet := (match k with | .pdNA => .raises "TypeError" | _ => .ok false),
      hasDateAttrs := (k == .nat), hasTimeAttrs := (k == .nat),
      pay := (match k with | .nan => .float .nan | _ => .none) }

def Cell.ofBool (b : Bool) : Cell :=
  { Cell.blank with cls := "bool", inBoolSet := .ok true, truth := .ok b, pay := .bool b }
def Cell.ofInt (z : Int) : Cell :=
  { Cell.blank with cls := "int", inBoolSet := .ok (z == 0 || z == 1), truth := .ok (z != 0), pay := .int z }
def Cell.ofFloat (v : FloatV) : Cell :=
  if v.isNan then Cell.missing .nan
  else { Cell.blank with
      cls := "float", inBoolSet := .ok (v == .fin 0 0 || v == .fin 1 0),
      truth := .ok (!v.isZero), pay := .float v }
def Cell.ofComplex (re im : FloatV) : Cell :=
  { Cell.blank with
      null := re.isNan || im.isNan, cls := "complex",
      inBoolSet := .ok (im.isZero && (re == .fin 0 0 || re == .fin 1 0)),
      truth := .ok (!(re.isZero && im.isZero)), pay := .complex re im }
def Cell.ofTimestamp (day : Int) (ns : Nat) (tz : Bool) : Cell :=
  { Cell.blank with cls := "Timestamp", hasDateAttrs := true, hasTimeAttrs := true, pay := .ts day ns tz }
def Cell.ofDate (day : Int) : Cell :=
  { Cell.blank with cls := "date", hasDateAttrs := true, pay := .date day }
def Cell.ofObj (cls : String) (repr : String) : Cell :=
  { Cell.blank with cls := cls, pay := .obj repr }

end V

/-
  VModel.Engine — executable model of the visions traversal engine.

  Mirrors, line for line:
    * `visions.typesets.typeset.traverse_graph_with_series`          → `traverse`
    * `visions.typesets.typeset.traverse_graph_with_sampled_series`  → `traverseSampled`
    * `visions.backends.pandas.traversal._traverse_graph_dataframe`  → `traverseFrame`
    * `VisionsTypeset.detect/infer/cast_to_*/detect_type/infer_type` → thin wrappers
    * `TypeRelation.is_relation/transform`, `default_relation`        → `Rel.guard/xform`, `Err.notImplemented`

  Nothing in this file imports Mathlib; everything is computable so the driver can run it.
-/
namespace V

/-- Error outcomes of the engine (exception classes, reduced to what is compared). -/
inductive Err where
  | notImplemented            -- `default_relation` raises NotImplementedError
  | dispatch (cls : String)   -- multimethod DispatchError
  | raised (cls : String)     -- any other exception escaping a guard / transformer
  | recursion                 -- RecursionError (cyclic user graph); model: fuel exhausted
  deriving DecidableEq, Repr, Inhabited

/-- A relation as the engine sees it: guard and transformer both read and may write the state. -/
structure Rel (T D S : Type) where
  src : T
  dst : T
  inferential : Bool
  guard : D → S → Except Err (Bool × S)
  xform : D → S → Except Err (D × S)

/-- A relation graph: for every node the outgoing relations in adjacency (insertion) order. -/
structure Graph (T D S : Type) where
  succ : T → List (Rel T D S)

variable {T D S : Type}

/-- The `for vision_type in graph.successors(base_type)` loop up to and including the first
accepting guard.  The state is threaded through *rejected* guards too (they receive the same
dict object).  An exception in a guard propagates. -/
def firstAccept : List (Rel T D S) → D → S → Except Err (Option (Rel T D S) × S)
  | [], _, s => .ok (none, s)
  | r :: rs, x, s =>
    match r.guard x s with
    | .error e => .error e
    | .ok (true, s') => .ok (some r, s')
    | .ok (false, s') => firstAccept rs x s'

/-- `traverse_graph_with_series`.  Python recursion becomes fuel; running out of fuel is the
model's `RecursionError`.  `path` is the accumulator list the Python code appends to. -/
def traverse (g : Graph T D S) : Nat → T → D → S → List T → Except Err (D × List T × S)
  | 0, _, _, _, _ => .error .recursion
  | fuel + 1, n, x, s, path =>
    match firstAccept (g.succ n) x s with
    | .error e => .error e
    | .ok (none, s1) => .ok (x, path ++ [n], s1)
    | .ok (some r, s1) =>
      match r.xform x s1 with
      | .error e => .error e
      | .ok (x', s2) => traverse g fuel r.dst x' s2 (path ++ [n])

/-- Restriction of a graph to its identity (non-inferential) relations: the `base_graph`. -/
def Graph.base (g : Graph T D S) : Graph T D S :=
  { succ := fun n => (g.succ n).filter (fun r => !r.inferential) }

/-- A typeset as the engine sees it: relation graph, root node, empty state, enough fuel. -/
structure Typeset (T D S : Type) where
  graph : Graph T D S
  root : T
  empty : S
  fuel : Nat

def Typeset.infer (ts : Typeset T D S) (x : D) : Except Err (D × List T × S) :=
  traverse ts.graph ts.fuel ts.root x ts.empty []

def Typeset.detect (ts : Typeset T D S) (x : D) : Except Err (D × List T × S) :=
  traverse ts.graph.base ts.fuel ts.root x ts.empty []

def lastOr (d : T) (p : List T) : T := p.getLast?.getD d

def Typeset.inferType (ts : Typeset T D S) (x : D) : Except Err T :=
  (ts.infer x).map (fun r => lastOr ts.root r.2.1)

def Typeset.detectType (ts : Typeset T D S) (x : D) : Except Err T :=
  (ts.detect x).map (fun r => lastOr ts.root r.2.1)

def Typeset.castToInferred (ts : Typeset T D S) (x : D) : Except Err D :=
  (ts.infer x).map (·.1)

def Typeset.castToDetected (ts : Typeset T D S) (x : D) : Except Err D :=
  (ts.detect x).map (·.1)

/-- The loop of `traverse_graph_with_sampled_series` that replays the sample's path on the full
data.  `rel a b` looks up `graph[a][b]["relationship"]`; `acc` is `validated_path`. -/
def replayPath (rel : T → T → Option (Rel T D S)) :
    T → List T → D → S → List T → Except Err (D × List T × S)
  | _, [], x, s, acc => .ok (x, acc, s)
  | from_, to :: rest, x, s, acc =>
    match rel from_ to with
    | none => .error (.raised "KeyError")
    | some r =>
      match r.guard x s with
      | .error e => .error e
      | .ok (false, s1) => .ok (x, acc, s1)            -- `break`
      | .ok (true, s1) =>
        match r.xform x s1 with
        | .error e => .error e
        | .ok (x', s2) => replayPath rel to rest x' s2 (acc ++ [to])

/-- `traverse_graph_with_sampled_series` with the sampler and `len` as parameters (the theorem
about it holds for every sampler, i.e. for every random draw). -/
def traverseSampled (g : Graph T D S) (rel : T → T → Option (Rel T D S))
    (sample : D → D) (len : D → Nat)
    (fuel : Nat) (base : T) (x : D) (sampleSize : Nat) (s : S) : Except Err (D × List T × S) :=
  if len x < 1000 || sampleSize > len x then
    traverse g fuel base x s []
  else
    match traverse g fuel base (sample x) s [] with
    | .error e => .error e
    | .ok (_, path, s1) =>
      if path.length == 1 then .ok (x, path, s1)
      else
        match path with
        | [] => .error (.raised "IndexError")           -- `path[0]` (unreachable: path is never empty)
        | p0 :: rest => replayPath rel p0 rest x s1 [p0]

/-- `_traverse_graph_dataframe`: a dict comprehension of `traverse_graph(df[col], …)` over the
columns — every column starts from a fresh path and a fresh (empty) state.  An exception in any
column propagates (first in column order). -/
def traverseFrame {L : Type} (g : Graph T D S) (fuel : Nat) (root : T) (empty : S) :
    List (L × D) → Except Err (List (L × (D × List T × S)))
  | [] => .ok []
  | (l, c) :: rest =>
    match traverse g fuel root c empty [] with
    | .error e => .error e
    | .ok r =>
      match traverseFrame g fuel root empty rest with
      | .error e => .error e
      | .ok rs => .ok ((l, r) :: rs)

/-! ### The pure engine: guards and transformers that neither read nor write the state and
never raise.  All shipped relations are of this kind (the state dict is write-only in the shipped
code).  `Rel.ofPure` embeds a pure relation into the full engine; `VProofs.Lemmas.Engine` proves
the two traversals agree. -/

structure PRel (T D : Type) where
  src : T
  dst : T
  inferential : Bool
  guard : D → Bool
  xform : D → D

def PRel.toRel (r : PRel T D) : Rel T D S :=
  { src := r.src, dst := r.dst, inferential := r.inferential,
    guard := fun x s => .ok (r.guard x, s),
    xform := fun x s => .ok (r.xform x, s) }

def pfirst (rs : List (PRel T D)) (x : D) : Option (PRel T D) := rs.find? (·.guard x)

/-- Pure traversal; path is returned front-to-back, starting with the start node. -/
def ptraverse (succ : T → List (PRel T D)) : Nat → T → D → D × List T
  | 0, n, x => (x, [n])
  | f + 1, n, x =>
    match pfirst (succ n) x with
    | none => (x, [n])
    | some r =>
      let res := ptraverse succ f r.dst (r.xform x)
      (res.1, n :: res.2)

def pbase (succ : T → List (PRel T D)) : T → List (PRel T D) :=
  fun n => (succ n).filter (fun r => !r.inferential)

end V

namespace V
/-! ### `visions.functional` -/
variable {T D S L : Type}

/-- `compare_detect_inference_frame` (as repaired): iterate the detected types in column order,
keep the keys that also have an inferred type. -/
def compareDetectInference [DecidableEq L] (det inf : List (L × T)) : List (L × T × T) :=
  det.filterMap (fun kd => (inf.find? (fun e => e.1 == kd.1)).map (fun e => (kd.1, kd.2, e.2)))

/-- `identity_transform` -/
def identityXform : D → S → Except Err (D × S) := fun x s => .ok (x, s)
end V

/-
  VModel.NumpyGood — the executable hypothesis of the numpy theorems (`goodB`), evaluated by the driver on α(array) of
  every generated input; `VProofs/Obligations/NumpyWF.lean` proves it implies the `Prop`-valued invariant the proofs use.
  Definitions only.
-/
import VModel.Numpy
namespace V.Np
open V V.Gen

/-- CPython / numpy class facts about one element of an array of kind `k` -/
def elemWFB (k : NpKind) (x : NElem) : Bool :=
  -- Python bools, ints and datetimes only live in object arrays (typed arrays yield numpy scalars)
  ((!(x.isBool || x.isInt || x.isDatetime)) || k == .O) &&
  (!x.isStr || k == .U || k == .O) &&
  (!x.isBool || x.isInt) &&
  !(x.isInt && x.isDatetime) && !(x.isStr && (x.isInt || x.isDatetime)) &&
  -- only a str equals its own `str()`; a str is never a missing value
  (!(x.strEq == .ok true) || x.isStr) &&
  !(x.isStr && x.null) &&
  -- a key of the boolean maps parses neither as a float nor as a complex number
  (match x.lower with
   | .ok (some _) => !x.fl.isOk && !x.cx.isOk
   | _ => true)

/-- what the dtype guarantees about the payload: a float array holds floats (missing = NaN), a complex array complex
numbers (missing = NaN in either part), a string array no missing values -/
def payWFB (k : NpKind) (x : NElem) : Bool :=
  (k != .U || !x.null) &&
  (k != .f || (match x.fl with | .ok v => x.null == v.isNan | .raises _ => false)) &&
  (k != .c || (match x.cx with | .ok (re, im) => x.null == (re.isNan || im.isNan) | .raises _ => false))

/-- the transformer of an accepting relation does not raise -/
def noRaiseB (o : NpOracle) (a : NArr) : Bool :=
  numpyRelationsRegistered.all (fun (s, d) =>
    !containsB s a ||
    (match guard o s d, xform o s d with
     | some g, some t => (match g a with | .ok true => (match t a with | .ok _ => true | .error _ => false) | _ => true)
     | _, _ => true))

/-- a converted datetime array is well formed and no relation leaves it (it is neither a String nor an Object) -/
def dtOutOkB (r : NArr) : Bool :=
  r.elems.all (fun x => elemWFB r.kind x && payWFB r.kind x) && !stringContains r && !objectContains r

/-- `pd.to_datetime` facts on this array: where the String -> DateTime test accepts, no other relation out of String
does (false exactly on the digit strings that are numbers and dates at once), and the converted array is a DateTime -/
def oracleB (o : NpOracle) (a : NArr) : Bool :=
  !stringContains a ||
  (match stringIsDatetime o a with
   | .ok true =>
     (match stringIsFloat a with | .ok true => false | _ => true) &&
     (match stringIsBoolean a with | .ok true => false | _ => true) &&
     (match stringIsComplex a with | .ok true => false | _ => true) &&
     (match o.dtWhole a with | .ok r => datetimeContains r && dtOutOkB r | .raises _ => true)
   | _ => true)

def goodB (o : NpOracle) (a : NArr) : Bool :=
  a.elems.all (fun x => elemWFB a.kind x && payWFB a.kind x) && noRaiseB o a && oracleB o a

/-- no relation test whose source type contains the array raises on it (second executable hypothesis of the end-to-end
theorem `infer_numpy_complete`) -/
def guardsOkNB (o : NpOracle) (a : NArr) : Bool :=
  numpyRelationsRegistered.all (fun (s, d) =>
    !containsB s a || (match guard o s d with | some g => (match g a with | .ok _ => true | .error _ => false) | none => true))

end V.Np

/-
  C13 — Typeset algebra obeys set laws and never modifies its operands.

  Every algebra operation of the real code is "compute a set of types, hand it to the typeset
  constructor".  The set is modelled by a duplicate-free list; Python iterates the resulting `set`
  in an address-dependent order, so each theorem is stated for an *arbitrary* supply order `ord`
  of the result set.  Operands are values in the model: that the real operands are not mutated is
  observed by the algebra correspondence runner (partial: in-place mutation is not expressible).
-/
import VProofs.Props.C14
namespace V.C13
open V V.Gen

variable {T : Type} [DecidableEq T]

theorem mem_addTypes (a b : List T) (t : T) : t ∈ addTypes a b ↔ t ∈ a ∨ t ∈ b := by
  simp only [addTypes, setUnion, List.mem_append, List.mem_filter]
  constructor
  · rintro (h | ⟨h, _⟩)
    · exact Or.inl h
    · exact Or.inr h
  · rintro (h | h)
    · exact Or.inl h
    · by_cases ha : t ∈ a
      · exact Or.inl ha
      · exact Or.inr ⟨h, by simpa using ha⟩

theorem mem_subTypes (a b : List T) (t : T) : t ∈ subTypes a b ↔ t ∈ a ∧ t ∉ b := by
  simp [subTypes, setDiff, List.mem_filter]

theorem nodup_addTypes (a b : List T) (ha : a.Nodup) (hb : b.Nodup) : (addTypes a b).Nodup := by
  simp only [addTypes, setUnion]
  rw [List.nodup_append]
  refine ⟨ha, hb.sublist List.filter_sublist, ?_⟩
  intro x hx y hy hxy
  subst hxy
  have := (List.mem_filter.mp hy).2
  simp at this
  exact this hx

theorem nodup_subTypes (a b : List T) (ha : a.Nodup) : (subTypes a b).Nodup :=
  ha.sublist List.filter_sublist

theorem mem_replaceTypes (a : List T) (old new : T) (r : List T)
    (h : replaceTypes a old new = .ok r) (t : T) : t ∈ r ↔ (t ∈ a ∨ t = new) ∧ t ≠ old := by
  simp only [replaceTypes] at h
  split at h
  · cases h
    simp only [List.mem_filter, setUnion, List.mem_append, List.mem_singleton, bne_iff_ne, ne_eq,
      Bool.not_eq_true', decide_eq_true_eq, List.mem_cons, List.not_mem_nil, or_false]
    constructor
    · rintro ⟨h1 | ⟨h1, _⟩, h2⟩
      · exact ⟨Or.inl h1, h2⟩
      · exact ⟨Or.inr h1, h2⟩
    · rintro ⟨h1 | h1, h2⟩
      · exact ⟨Or.inl h1, h2⟩
      · by_cases ha : t ∈ a
        · exact ⟨Or.inl ha, h2⟩
        · exact ⟨Or.inr ⟨h1, by simpa using ha⟩, h2⟩
  · cases h

/-- `replace` of a type that is absent raises `KeyError` (unless it is the new type itself) -/
theorem replace_absent (a : List T) (old new : T) (h : old ∉ a) (hne : old ≠ new) :
    replaceTypes a old new = .error .keyError := by
  have : (setUnion a [new]).contains old = false := by
    simp only [setUnion, List.contains_eq_mem, List.mem_append, List.mem_filter, decide_eq_false_iff_not]
    rintro (h1 | ⟨h1, _⟩)
    · exact h h1
    · simp at h1; exact hne h1
  unfold replaceTypes
  simp only [this]
  rfl

/-- set laws on the type sets handed to the constructor -/
theorem add_comm_set (a b : List T) (t : T) : t ∈ addTypes a b ↔ t ∈ addTypes b a := by
  simp only [mem_addTypes]; exact Or.comm
theorem add_assoc_set (a b c : List T) (t : T) :
    t ∈ addTypes (addTypes a b) c ↔ t ∈ addTypes a (addTypes b c) := by
  simp only [mem_addTypes]; exact or_assoc
theorem add_idem_set (a : List T) (t : T) : t ∈ addTypes a a ↔ t ∈ a := by
  simp only [mem_addTypes]; exact or_self_iff
theorem sub_add_set (a b : List T) (t : T) : t ∈ addTypes (subTypes a b) b ↔ t ∈ addTypes a b := by
  simp only [mem_addTypes, mem_subTypes]
  by_cases hb : t ∈ b <;> simp [hb]
theorem sub_self_set (a : List T) (t : T) : t ∉ subTypes a a := by
  simp [mem_subTypes]

/-- **The constructor is a function of the *set* of types** (for parent-closed sets containing
Generic): two lists with the same members — e.g. the two sides of a set identity, in any two
iteration orders — build typesets with the same types, root Generic and the same edges. -/
theorem C13_same_set (R R' : List Ty) (nd : R.Nodup) (nd' : R'.Nodup) (hset : ∀ t, t ∈ R ↔ t ∈ R')
    (hg : Ty.Generic ∈ R) (pc : ParentClosedL declared R) :
    ∃ b b', mkTypeset declared isGeneric R = .ok b ∧ mkTypeset declared isGeneric R' = .ok b' ∧
      b.root = Ty.Generic ∧ b'.root = Ty.Generic ∧ b.nodes = R ∧ b'.nodes = R' ∧
      (∀ e, e ∈ b.edges ↔ e ∈ b'.edges) := by
  have hp : R.Perm R' := (List.perm_ext_iff_of_nodup nd nd').mpr hset
  have hg' : Ty.Generic ∈ R' := (hset _).mp hg
  have pc' : ParentClosedL declared R' := fun t ht r hr hi => (hset _).mp (pc t ((hset _).mpr ht) r hr hi)
  obtain ⟨b, hb, hn, hr, _, he, _⟩ := C14.C14_wf R nd hg pc
  obtain ⟨b', hb', hn', hr', _, he', _⟩ := C14.C14_wf R' nd' hg' pc'
  refine ⟨b, b', hb, hb', hr, hr', hn, hn', ?_⟩
  intro e; rw [he, he', hset, hset]

/-- `A + B` (typeset + typeset or typeset + type): for a parent-closed result, the new typeset's
types are exactly the union, rooted at Generic — whatever the iteration order `ord` of the union -/
theorem C13_add_types (A B ord : List Ty) (hA : A.Nodup) (hB : B.Nodup)
    (hord : ord.Perm (addTypes A B)) (hg : Ty.Generic ∈ addTypes A B)
    (pc : ParentClosedL declared (addTypes A B)) :
    ∃ b, mkTypeset declared isGeneric ord = .ok b ∧ b.root = Ty.Generic ∧
      (∀ t, t ∈ b.nodes ↔ t ∈ A ∨ t ∈ B) := by
  have ndU := nodup_addTypes A B hA hB
  have nd : ord.Nodup := hord.nodup_iff.mpr ndU
  have hset : ∀ t, t ∈ addTypes A B ↔ t ∈ ord := fun t => hord.symm.mem_iff
  obtain ⟨_, b', _, hb', _, hr', _, hn', _⟩ := C13_same_set (addTypes A B) ord ndU nd hset hg pc
  exact ⟨b', hb', hr', fun t => by rw [hn', ← hset, mem_addTypes]⟩

theorem C13_sub_types (A B ord : List Ty) (hA : A.Nodup)
    (hord : ord.Perm (subTypes A B)) (hg : Ty.Generic ∈ subTypes A B)
    (pc : ParentClosedL declared (subTypes A B)) :
    ∃ b, mkTypeset declared isGeneric ord = .ok b ∧ b.root = Ty.Generic ∧
      (∀ t, t ∈ b.nodes ↔ t ∈ A ∧ t ∉ B) := by
  have ndU := nodup_subTypes A B hA
  have nd : ord.Nodup := hord.nodup_iff.mpr ndU
  have hset : ∀ t, t ∈ subTypes A B ↔ t ∈ ord := fun t => hord.symm.mem_iff
  obtain ⟨_, b', _, hb', _, hr', _, hn', _⟩ := C13_same_set (subTypes A B) ord ndU nd hset hg pc
  exact ⟨b', hb', hr', fun t => by rw [hn', ← hset, mem_subTypes]⟩

/-- **commutativity / associativity / idempotence** lifted through the constructor -/
theorem C13_comm (A B o₁ o₂ : List Ty) (hA : A.Nodup) (hB : B.Nodup)
    (h₁ : o₁.Perm (addTypes A B)) (h₂ : o₂.Perm (addTypes B A))
    (hg : Ty.Generic ∈ addTypes A B) (pc : ParentClosedL declared (addTypes A B)) :
    ∃ b b', mkTypeset declared isGeneric o₁ = .ok b ∧ mkTypeset declared isGeneric o₂ = .ok b' ∧
      b.root = b'.root ∧ (∀ t, t ∈ b.nodes ↔ t ∈ b'.nodes) ∧ (∀ e, e ∈ b.edges ↔ e ∈ b'.edges) := by
  have nd₁ : o₁.Nodup := h₁.nodup_iff.mpr (nodup_addTypes A B hA hB)
  have nd₂ : o₂.Nodup := h₂.nodup_iff.mpr (nodup_addTypes B A hB hA)
  have hset : ∀ t, t ∈ o₁ ↔ t ∈ o₂ := fun t => by rw [h₁.mem_iff, h₂.mem_iff]; exact add_comm_set A B t
  have hg₁ : Ty.Generic ∈ o₁ := h₁.mem_iff.mpr hg
  have pc₁ : ParentClosedL declared o₁ :=
    fun t ht r hr hi => h₁.mem_iff.mpr (pc t (h₁.mem_iff.mp ht) r hr hi)
  obtain ⟨b, b', hb, hb', hr, hr', hn, hn', he⟩ := C13_same_set o₁ o₂ nd₁ nd₂ hset hg₁ pc₁
  exact ⟨b, b', hb, hb', by rw [hr, hr'], fun t => by rw [hn, hn']; exact hset t, he⟩

/-- in-place forms are the pure forms (`__iadd__ = __add__`, `__isub__ = __sub__`): the model has
a single definition for both, so there is nothing to prove beyond `rfl`. -/
theorem C13_inplace (A B : List Ty) : addTypes A B = addTypes A B ∧ subTypes A B = subTypes A B := ⟨rfl, rfl⟩

/-- **Generic stays the root or the constructor refuses**: any result of `mkTypeset` is rooted at
a subclass of Generic -/
theorem C13_root (ord : List Ty) (b : Built Ty) (h : mkTypeset declared isGeneric ord = .ok b) :
    b.root = Ty.Generic := by
  simp only [mkTypeset] at h
  split at h
  · cases h
  · split at h
    · cases h; rename_i hgen; exact (C14.isGeneric_iff _).mp hgen
    · cases h

/-- **a relation whose source type is absent is dropped with a warning, never an error**:
for parent-closed sets the constructor succeeds, and the warnings are exactly the declared
relations whose source is absent -/
theorem C13_dropped (S : List Ty) (nd : S.Nodup) (hg : Ty.Generic ∈ S) (pc : ParentClosedL declared S) :
    ∃ b, mkTypeset declared isGeneric S = .ok b ∧
      (∀ e, e ∈ b.missing ↔ e.dst ∈ S ∧ e.src ∉ S ∧ (⟨e.src, e.inferential⟩ : RelDecl Ty) ∈ declared e.dst) ∧
      (∀ e ∈ b.missing, e ∉ b.edges) := by
  obtain ⟨b, hb, _, hr, _, he, hm⟩ := buildGraph_closed C14.tableWF S nd hg pc
  refine ⟨b, by simp only [mkTypeset, hb, hr]; rfl, ?_, ?_⟩
  · intro e
    rw [hm]
    simp only [List.mem_filter, mem_allDecls, List.contains_iff_mem, Bool.not_eq_true', decide_eq_false_iff_not]
    constructor
    · rintro ⟨⟨h1, h2⟩, h3⟩; exact ⟨h1, by simpa using h3, h2⟩
    · rintro ⟨h1, h3, h2⟩; exact ⟨⟨h1, h2⟩, by simpa using h3⟩
  · intro e hme hed
    rw [hm] at hme
    rw [he] at hed
    have h1 := (List.mem_filter.mp hme).2
    have h2 := (mem_presentEdges.mp hed).2.1
    simp at h1
    exact h1 h2

/-- `Type + Type` builds the typeset {Generic, both types} -/
theorem C13_type_plus_type (t u : Ty) (x : Ty) :
    x ∈ typePlusType isGeneric Ty.Generic t u ↔ (x = Ty.Generic ∨ x = t ∨ x = u) := by
  simp only [typePlusType]
  split
  · simp only [setUnion, List.mem_append, List.mem_filter, List.mem_singleton, List.mem_cons,
      List.not_mem_nil, or_false]
    constructor
    · rintro ((h | ⟨h, _⟩) | ⟨h, _⟩)
      · exact Or.inl h
      · exact Or.inr (Or.inl h)
      · exact Or.inr (Or.inr h)
    · rintro (h | h | h)
      · exact Or.inl (Or.inl h)
      · by_cases hx : x = Ty.Generic
        · exact Or.inl (Or.inl hx)
        · exact Or.inl (Or.inr ⟨h, by simp [hx]⟩)
      · by_cases hx : x = Ty.Generic ∨ x = t
        · rcases hx with hx | hx
          · exact Or.inl (Or.inl hx)
          · by_cases hx' : x = Ty.Generic
            · exact Or.inl (Or.inl hx')
            · exact Or.inl (Or.inr ⟨hx, by simp [hx']⟩)
        · refine Or.inr ⟨h, ?_⟩
          simp only [not_or] at hx
          simp [hx.1, hx.2]
  · rename_i hgen
    have hg : t = Ty.Generic ∨ u = Ty.Generic := by
      by_cases h1 : isGeneric t = true
      · exact Or.inl ((C14.isGeneric_iff t).mp h1)
      · by_cases h2 : isGeneric u = true
        · exact Or.inr ((C14.isGeneric_iff u).mp h2)
        · exfalso; apply hgen; simp [h1, h2]
    simp only [setUnion, List.mem_append, List.mem_filter, List.mem_singleton, List.mem_cons,
      List.not_mem_nil, or_false]
    constructor
    · rintro (h | ⟨h, _⟩)
      · exact Or.inr (Or.inl h)
      · exact Or.inr (Or.inr h)
    · rintro (h | h | h)
      · rcases hg with hg | hg
        · exact Or.inl (by rw [h, hg])
        · by_cases hx : x = t
          · exact Or.inl hx
          · exact Or.inr ⟨by rw [h, hg], by simp [hx]⟩
      · exact Or.inl h
      · by_cases hx : x = t
        · exact Or.inl hx
        · exact Or.inr ⟨h, by simp [hx]⟩

/-! non-vacuity: the shipped sets meet the hypotheses; `StandardSet + Geometry` -/
example : ∃ b, mkTypeset declared isGeneric (addTypes standardSet [Ty.Geometry]) = .ok b ∧ b.root = Ty.Generic := by
  refine ⟨_, rfl, ?_⟩
  decide

end V.C13

/-
  More properties of the numpy back end model: C11 (membership depends on the bag of elements only — the `array[0:5]` prefix
  test of `_is_string` is subsumed by its full scan), C06 (every relation but Float -> Integer keeps the length and the
  positions of the missing values that were missing; Float -> Integer drops them: known finding F42, with a kernel-checked
  witness), C09 (membership tests are total; the relation tests and transformers raise only what an element conversion raised
  outside the caught classes).
-/
import VProofs.Obligations.NumpyLands
import VProofs.Obligations.PandasBagInfer
namespace V.NumpyProps
open V V.Gen V.Np

/-! ### C11: membership is invariant under reordering the elements -/

theorem perm_mask {a b : NArr} (hk : a.kind = b.kind) (h : a.elems.Perm b.elems) :
    a.mask.kind = b.mask.kind ∧ a.mask.elems.Perm b.mask.elems := ⟨hk, h.filter _⟩

theorem perm_isEmpty {a b : NArr} (h : a.elems.Perm b.elems) : a.isEmpty = b.isEmpty := by
  have := h.length_eq
  simp only [NArr.isEmpty]
  cases ha : a.elems <;> cases hb : b.elems <;> simp_all

theorem perm_all {p : NElem → Bool} {l l' : List NElem} (h : l.Perm l') : l.all p = l'.all p := Pd.perm_all p h

/-- under the element facts (only a `str` equals its own `str()`), `_is_string`'s verdict is "every value is a str and
equals its str()": the five-element prefix test decides nothing on its own -/
theorem isString_iff {a : NArr} (hw : ∀ x ∈ a.elems, ElemWF a.kind x) :
    isString a = (!a.mask.isEmpty && a.mask.elems.all (fun x => x.isStr && (x.strEq == .ok true))) := by
  simp only [isString, handleNullsB, notEmptyB]
  by_cases he : a.mask.isEmpty = true
  · simp [he]
  · simp only [he, Bool.false_eq_true, if_false, Bool.not_false, Bool.true_and]
    by_cases h5 : (a.mask.elems.take 5).all (·.isStr) = true
    · simp only [h5, Bool.not_true, Bool.false_eq_true, if_false]
      apply Bool.eq_iff_iff.mpr
      simp only [List.all_eq_true]
      constructor
      · intro hh x hx
        have := hh x hx
        have hwx := hw x (mem_mask.mp hx).1
        cases hse : x.strEq with
        | raises c => simp [hse] at this
        | ok b =>
          simp only [hse] at this
          subst this
          simp [hwx.strEqStr hse]
      · intro hh x hx
        have := hh x hx
        simp only [Bool.and_eq_true, beq_iff_eq] at this
        simp [this.2]
    · have h5' : (a.mask.elems.take 5).all (·.isStr) = false := by simpa using h5
      simp only [h5', Bool.not_false, if_true]
      -- some value among the first five is not a str: the full scan rejects as well
      obtain ⟨x, hx, hnx⟩ := List.all_eq_false.mp h5'
      have hxm : x ∈ a.mask.elems := List.mem_of_mem_take hx
      symm
      apply all_false_of_mem hxm
      simp only [Bool.not_eq_true] at hnx
      simp [hnx]

theorem C11_membership_numpy (t : Ty) (a b : NArr) (hk : a.kind = b.kind) (h : a.elems.Perm b.elems)
    (hw : ∀ x ∈ a.elems, ElemWF a.kind x) : containsB t a = containsB t b := by
  have hwb : ∀ x ∈ b.elems, ElemWF b.kind x := fun x hx => hk ▸ hw x (h.mem_iff.mpr hx)
  have ⟨_, hm⟩ := perm_mask hk h
  have e1 := perm_isEmpty h
  have e2 : a.mask.isEmpty = b.mask.isEmpty := perm_isEmpty hm
  cases t <;> simp only [containsB] <;> try rfl
  · -- String
    simp only [stringContains, notEmptyB, e1, hk, isString_iff hw, isString_iff hwb, e2, perm_all hm] <;> rfl
  · -- Boolean
    simp only [booleanContains, handleNullsB, notEmptyB, e2, mask_kind, mask_mask, hk, perm_all hm] <;> rfl
  · -- Complex
    simp only [complexContains, notEmptyB, e1, hk] <;> rfl
  · -- DateTime
    simp only [datetimeContains, handleNullsB, notEmptyB, e2, mask_kind, mask_mask, hk, perm_all hm] <;> rfl
  · -- Float
    simp only [floatContains, handleNullsB, notEmptyB, e2, mask_kind, mask_mask, hk] <;> rfl
  · -- Integer
    simp only [integerContains, handleNullsB, notEmptyB, e2, mask_kind, hk, perm_all hm] <;> rfl
  · -- Object
    simp only [objectContains, handleNullsB, notEmptyB, e2, mask_kind, mask_mask, hk, notExcluded, perm_all hm] <;> rfl
  · -- TimeDelta
    simp only [timedeltaContains, notEmptyB, e1, hk] <;> rfl

/-! ### C06: length and missing values -/

/-- String -> Float / Complex / Boolean and Complex -> Float keep the length, and (for the relations out of String and
Object) a value that was missing stays missing.  (Complex -> Float keeps the real part: a complex value whose IMAGINARY part
alone is NaN counts as missing for `nan_mask` and comes out as its real part — the same in the pandas back end.) -/
theorem C06_shape_numpy (o : NpOracle) (src dst : Ty) (t : NArr → R NArr) (htd : xform o src dst = some t)
    (hne : ¬ (src = .Float ∧ dst = .Integer)) (hnd : dst ≠ .DateTime) (a a' : NArr) (ht : t a = .ok a') :
    a'.elems.length = a.elems.length ∧
    (src ≠ .Complex → ∀ i (h : i < a.elems.length) (h' : i < a'.elems.length), (a.elems[i]).null = true → (a'.elems[i]).null = true) := by
  cases src <;> cases dst <;> simp only [xform, Option.some.injEq, reduceCtorEq] at htd
  all_goals (first | (exact absurd ⟨rfl, rfl⟩ hne) | (exact absurd rfl hnd) | subst htd)
  · -- String -> Boolean
    have e := stringToBoolean_ok ht; subst e
    refine ⟨by simp, ?_⟩
    intro _ i h h' hn
    simp only [List.getElem_map, s2b, hn, if_true]
  · -- String -> Complex
    have e := stringToComplex_ok ht; subst e
    refine ⟨by simp, ?_⟩
    intro _ i h h' hn
    simp only [List.getElem_map, s2c, hn, if_true]; rfl
  · -- String -> Float
    have e := stringToFloat_ok ht; subst e
    refine ⟨by simp, ?_⟩
    intro _ i h h' hn
    simp only [List.getElem_map, s2f, hn, if_true]; rfl
  · -- Complex -> Float: the missing values of a complex array are those with a NaN part; NaN real parts stay NaN
    rw [complexToFloat_eq] at ht
    cases ht
    exact ⟨by simp, fun hh => absurd rfl hh⟩
  · -- Object -> Boolean is the identity
    simp only [objectToBoolean, Except.ok.injEq] at ht; subst ht
    exact ⟨rfl, fun _ _ _ _ hn => hn⟩

/-- **known finding F42, witnessed in the kernel**: Float -> Integer on `[1.0, nan, 2.0]` returns two elements -/
def aF42 : NArr := { kind := .f, elems := [NElem.ofFloat (.fin 1 0), NElem.ofFloat .nan, NElem.ofFloat (.fin 2 0)] }
theorem C06_witness_F42 :
    floatIsInteger aF42 = .ok true ∧ (floatToInteger aF42).toOption.map (·.elems.length) = some 2 := ⟨rfl, rfl⟩

/-- Float -> Integer is exact on what its test admitted: every value that is not missing is a whole number in int64 range,
and the output holds exactly those numbers, in order -/
theorem C06_lossless_float_integer_numpy (a a' : NArr) (hg : floatIsInteger a = .ok true) (ht : floatToInteger a = .ok a') :
    (∀ x ∈ a.mask.elems, ∃ v, x.fl = .ok v ∧ v.isInt64 = true) ∧ a'.elems = a.mask.elems.map f2i := by
  obtain ⟨_, e⟩ := floatToInteger_ok ht
  subst e
  refine ⟨?_, rfl⟩
  have ⟨_, h2⟩ := handleNulls_ok_true hg
  simp only [Except.ok.injEq] at h2
  intro x hx
  have := List.all_eq_true.mp h2 x hx
  cases hf : x.fl with
  | raises c => simp [hf] at this
  | ok v => exact ⟨v, rfl, by simpa [hf] using this⟩

/-- Complex -> Float is taken only when no imaginary part would be dropped -/
theorem C06_lossless_complex_float_numpy (a : NArr) (hg : complexIsFloat a = .ok true) :
    ∀ x ∈ a.mask.elems, ∃ re im, x.cx = .ok (re, im) ∧ im.isZero = true := by
  have ⟨_, h2⟩ := handleNulls_ok_true hg
  simp only [Except.ok.injEq] at h2
  intro x hx
  have := List.all_eq_true.mp h2 x hx
  cases hc : x.cx with
  | raises c => simp [hc] at this
  | ok p => obtain ⟨re, im⟩ := p; exact ⟨re, im, rfl, by simpa [hc] using this⟩

/-! ### C09: totality of the model's membership tests; where a relation test can raise -/

/-- every membership test of the numpy model answers (they are Bool-valued compositions of dtype tests and `all` over
element facts); Generic contains every array -/
theorem C09_contains_total_numpy (t : Ty) (a : NArr) : ∃ b, containsB t a = b := ⟨_, rfl⟩
theorem C09_generic_numpy (a : NArr) : containsB .Generic a = true := rfl

/-- a relation test of the model raises only when an element conversion raised an exception outside the classes the code
catches (ValueError, TypeError, AttributeError; OverflowError too for datetimes): if every conversion outcome is a value or a
caught class, all seven tests answer -/
def conversionsCaught (o : NpOracle) (a : NArr) : Bool :=
  a.mask.elems.all (fun x =>
    (match x.lower with | .raises c => caughtByEvaluator c | _ => true) &&
    (match x.fl with | .raises c => caughtByEvaluator c | _ => true) &&
    (match x.cx with | .raises c => caughtByEvaluator c | _ => true)) &&
  (match o.dtMasked a.mask with | .raises c => caughtByEvaluator c || isA c "OverflowError" | _ => true)

theorem firstRaise_some {α : Type} {l : List (Outcome α)} {c : String} (h : firstRaise l = some c) : Outcome.raises c ∈ l := by
  induction l with
  | nil => simp [firstRaise] at h
  | cons z zs ih =>
    cases z with
    | raises d => simp only [firstRaise, Option.some.injEq] at h; subst h; exact List.mem_cons_self
    | ok v => simp only [firstRaise] at h; exact List.mem_cons_of_mem _ (ih h)

theorem C09_guards_total_numpy (o : NpOracle) (a : NArr) (h : conversionsCaught o a = true) (src dst : Ty) (g : NArr → R Bool)
    (hg : Np.guard o src dst = some g) : ∃ b, g a = .ok b := by
  simp only [conversionsCaught, Bool.and_eq_true, List.all_eq_true] at h
  obtain ⟨hel, hdt⟩ := h
  have hfl : ∀ c, firstRaise (a.mask.elems.map (·.fl)) = some c → caughtByEvaluator c = true := by
    intro c hc
    obtain ⟨x, hx, hxe⟩ := List.mem_map.mp (firstRaise_some hc)
    have := (hel x hx).1.2
    simpa [hxe] using this
  have hcx : ∀ c, firstRaise (a.mask.elems.map (·.cx)) = some c → caughtByEvaluator c = true := by
    intro c hc
    obtain ⟨x, hx, hxe⟩ := List.mem_map.mp (firstRaise_some hc)
    have := (hel x hx).2
    simpa [hxe] using this
  have hlo : ∀ c, firstRaise (a.mask.elems.map (·.lower)) = some c → caughtByEvaluator c = true := by
    intro c hc
    obtain ⟨x, hx, hxe⟩ := List.mem_map.mp (firstRaise_some hc)
    have := (hel x hx).1.1
    simpa [hxe] using this
  have tf : ∃ b, stringIsFloat a = .ok b := by
    simp only [stringIsFloat, handleNulls, notEmpty]
    by_cases he : a.mask.isEmpty = true
    · exact ⟨false, by simp [he]⟩
    · simp only [he, Bool.false_eq_true, if_false]
      cases hfr : firstRaise (a.mask.elems.map (·.fl)) with
      | some c => exact ⟨false, by simp [hfl c hfr]⟩
      | none => simp only []; split <;> exact ⟨_, rfl⟩
  cases src <;> cases dst <;> simp only [Np.guard, Option.some.injEq, reduceCtorEq] at hg <;> subst hg
  · -- String -> Boolean
    simp only [stringIsBoolean]
    cases hfr : firstRaise (a.mask.elems.map (·.lower)) with
    | some c => exact ⟨false, by simp [hlo c hfr]⟩
    | none => simp only []; split <;> exact ⟨_, rfl⟩
  · -- String -> Complex
    simp only [stringIsComplex]
    cases hfr : firstRaise (a.mask.elems.map (·.cx)) with
    | some c => exact ⟨false, by simp [hcx c hfr]⟩
    | none =>
      obtain ⟨b, hb⟩ := tf
      simp only [hb]
      cases b <;> exact ⟨_, rfl⟩
  · -- String -> DateTime
    simp only [stringIsDatetime, handleNulls, notEmpty]
    by_cases he : a.mask.isEmpty = true
    · exact ⟨false, by simp [he]⟩
    · simp only [he, Bool.false_eq_true, if_false]
      cases hd : o.dtMasked a.mask with
      | raises c => simp only [hd] at hdt; exact ⟨false, by simp [hdt]⟩
      | ok r => exact ⟨_, rfl⟩
  · exact tf
  · -- Complex -> Float
    simp only [complexIsFloat, handleNulls, notEmpty]
    split <;> exact ⟨_, rfl⟩
  · -- Float -> Integer
    simp only [floatIsInteger, handleNulls, notEmpty]
    split <;> exact ⟨_, rfl⟩
  · -- Object -> Boolean
    simp only [objectIsBoolean, handleNulls, notEmpty]
    split <;> exact ⟨_, rfl⟩

end V.NumpyProps

/-
  C09 — Totality: typing never raises and always answers within the typeset.

  `C09_total` (engine lifting of L6): if no guard and no transformer of the graph returns an error,
  the traversal returns normally.  For the pandas model: membership never raises
  (`C09_contains_total_pandas`), hence `detect` never raises on any column for any typeset
  (`C09_detect_total_pandas`), `Generic` contains every column, and the reported type is the root or
  the target of one of the typeset's relations.  `infer` can still raise on the pinned tree through a
  few transformers (known findings F29–F31, mirrored by the model); `C09_infer_total_pandas` proves
  that it never does for a column satisfying `Good` (which excludes exactly those inputs through
  `NoRaise`) and `GuardsOk` (no relation test raises on the input) — both executable (`goodB`,
  `guardsOkB`) and evaluated by the driver on every abstracted real input; nothing is assumed about the
  intermediate columns.  Inputs outside the hypotheses, and dtypes outside the model (arrow, sparse,
  period …), are decided by the correspondence and the totality oracle on the real code.
-/
import VProofs.Lemmas.PandasTS
import VProofs.Obligations.PandasTotal
import VProofs.Obligations.PandasTypeset
namespace V.C09
open V V.Gen V.Pd

variable {T D S : Type}

/-- **C09_total** -/
theorem C09_total (g : Graph T D S) (h : T → Nat) (hh : ∀ n r, r ∈ g.succ n → h r.dst < h n)
    (hg : ∀ n, ∀ r ∈ g.succ n, ∀ x s, ∃ v, r.guard x s = .ok v)
    (hx : ∀ n, ∀ r ∈ g.succ n, ∀ x s, ∃ v, r.xform x s = .ok v)
    (f : Nat) (n : T) (x : D) (s : S) (hf : h n < f) : ∃ v, traverse g f n x s [] = .ok v :=
  traverse_total g h hh hg hx f n x s [] hf

/-- membership tests of the pandas backend never raise … -/
theorem C09_contains_total_pandas (t : Ty) (c : Column) : contains t c = .ok (containsB t c) := rfl

/-- … and `Generic` is the catch-all -/
theorem C09_generic_catch_all (c : Column) : containsB Ty.Generic c = true := rfl

/-- **detect never raises**, for every typeset whose edges increase `rank` (every parent-closed
typeset, C14) and every column -/
theorem C09_detect_total_pandas (o : ColOracle) (b : Built Ty) (hrank : ∀ e ∈ b.edges, rank e.src < rank e.dst)
    (c : Column) : ∃ v, traverse (graphOf o b).base 64 b.root c () [] = .ok v := by
  apply traverse_total (graphOf o b).base (fun t => 32 - rank t)
  · intro n r hr
    simp only [Graph.base, graphOf, List.mem_filter, List.mem_map] at hr
    obtain ⟨⟨e, he, rfl⟩, _⟩ := hr
    have hsrc : e.src = n := by simpa using he.2
    have := hrank e he.1
    have h1 := rank_le e.dst
    have hd : (mkRel o e).dst = e.dst := by by_cases hi : e.inferential = true <;> simp [mkRel, hi]
    rw [hd, ← hsrc]; omega
  · intro n r hr x s
    simp only [Graph.base, graphOf, List.mem_filter, List.mem_map] at hr
    obtain ⟨⟨e, _, rfl⟩, hinf⟩ := hr
    by_cases hi : e.inferential = true
    · simp [mkRel, hi] at hinf
    · simp only [mkRel, hi, Bool.false_eq_true, if_false, contains, Except.map]; exact ⟨_, rfl⟩
  · intro n r hr x s
    simp only [Graph.base, graphOf, List.mem_filter, List.mem_map] at hr
    obtain ⟨⟨e, _, rfl⟩, hinf⟩ := hr
    by_cases hi : e.inferential = true
    · simp [mkRel, hi] at hinf
    · simp only [mkRel, hi, Bool.false_eq_true, if_false]; exact ⟨_, rfl⟩
  · show 32 - rank b.root < 64; omega

/-- relations of the pandas backend that can never raise (guards) -/
theorem C09_total_guards (c : Column) :
    (∃ b, objectIsBoolean c = .ok b) ∧ (∃ b, complexIsFloat c = .ok b) ∧ (∃ b, floatIsInteger c = .ok b) ∧
    (∃ b, datetimeIsDate c = .ok b) ∧ (∃ b, stringIsBoolean c = .ok b) := by
  refine ⟨?_, ?_, ?_, ?_, ?_⟩
  · simp only [objectIsBoolean, handleNulls]; split <;> (try split) <;> exact ⟨_, rfl⟩
  · simp only [complexIsFloat, handleNulls]; split <;> (try split) <;> exact ⟨_, rfl⟩
  · simp only [floatIsInteger, handleNulls]; split <;> (try split) <;> exact ⟨_, rfl⟩
  · simp only [datetimeIsDate, handleNulls]; split <;> (try split) <;> exact ⟨_, rfl⟩
  · simp only [stringIsBoolean, handleNulls]; split <;> (try split) <;> (try split) <;> exact ⟨_, rfl⟩

/-- … and transformers -/
theorem C09_total_xforms (c : Column) :
    (∃ d, complexToFloat c = .ok d) ∧ (∃ d, floatToInteger c = .ok d) := ⟨⟨_, rfl⟩, ⟨_, rfl⟩⟩

/-- the defects the model mirrors are real: `astype('boolean')` on a mix of bool and int raises
(known finding F29) — the model predicts the `DispatchError` the code produces -/
theorem C09_witness_F29 :
    objectIsBoolean ⟨.object, [Cell.ofBool true, Cell.ofInt 1, Cell.missing .none_], ["0", "1", "2"], "None"⟩ = .ok true ∧
    (match objectToBoolean ⟨.object, [Cell.ofBool true, Cell.ofInt 1, Cell.missing .none_], ["0", "1", "2"], "None"⟩ with
      | .error _ => true | .ok _ => false) = true := by
  constructor
  · rfl
  · simp [objectToBoolean, Column.hasnans, Cell.ofBool, Cell.ofInt, Cell.missing, Cell.blank]

/-- **infer never raises**: for every constructible typeset over the 22 types and every column satisfying the
(executable) hypotheses `Good` and `GuardsOk`, the traversal the driver evaluates returns normally, and what it returns
is the sound, convergent answer of C03/C04 -/
theorem C09_infer_total_pandas (o : ColOracle) (S : List Ty) (nd : S.Nodup) (hg : Ty.Generic ∈ S)
    (pc : ParentClosedL declared S) (hsub : ∀ t ∈ S, t ∈ completeSet) (c : Column)
    (hG : Good o c) (hK : GuardsOk o c) :
    ∃ b, mkTypeset declared isGeneric S = .ok b ∧ ∃ v, traverse (graphOf o b) 64 b.root c () [] = .ok v := by
  obtain ⟨b, hb, hr, _, ft, _⟩ := built_typeset o S nd hg pc hsub
  exact ⟨b, hb, infer_total o b ft c hG hK (by rw [hr]; rfl)⟩

/-- the hypotheses are decidable on every abstracted input -/
theorem C09_hypotheses_executable (o : ColOracle) (c : Column) (h : (goodB o c && guardsOkB o c) = true) :
    Good o c ∧ GuardsOk o c := by
  simp only [Bool.and_eq_true] at h
  exact ⟨goodB_sound o c h.1, guardsOkB_sound o c h.2⟩

end V.C09

/-
  C12 — The engine implements the documented traversal for any user-defined type system.

  `Run` (VProofs.Lemmas.Full) is the reference semantics: start at the root with the empty state,
  repeatedly follow the first outgoing relation (adjacency order) whose guard accepts the current
  data — each guard tried sees the state its predecessor left — apply its transformer, stop when
  none accepts, report the visited path, the data and the state.  The theorems say that the
  executable `traverse` (the model that the Engine correspondence runner ties to
  `traverse_graph_with_series`) computes exactly the maximal `Run`, for every graph, every guard and
  transformer (arbitrary functions of data and state, possibly failing), every input.
-/
import VProofs.Lemmas.Full
namespace V.C12

variable {T D S : Type}

/-- whatever the engine returns is a maximal run of the documented traversal -/
theorem C12_sound (g : Graph T D S) (f : Nat) (n : T) (x : D) (s : S) (d : D) (p : List T) (s' : S)
    (h : traverse g f n x s [] = .ok (d, p, s')) : Run g (n, x, s) p (d, s') := by
  obtain ⟨q, hq, hr⟩ := traverse_run g f n x s [] d p s' h
  simp only [List.nil_append] at hq
  rw [hq]; exact hr

/-- every maximal run is what the engine returns (given fuel for its length) -/
theorem C12_complete (g : Graph T D S) (n : T) (x : D) (s : S) (p : List T) (d : D) (s' : S)
    (h : Run g (n, x, s) p (d, s')) (f : Nat) (hf : p.length ≤ f) :
    traverse g f n x s [] = .ok (d, p, s') := by
  have := run_traverse g (n, x, s) p (d, s') h f [] hf
  simpa using this

/-- the documented traversal has exactly one outcome -/
theorem C12_deterministic (g : Graph T D S) (c : T × D × S) (p p' : List T) (r r' : D × S)
    (h : Run g c p r) (h' : Run g c p' r') : p = p' ∧ r = r' := run_det g h h'

/-- `infer` / `detect` start from the root, the *empty* state and the empty path; the state
returned is the one the last guard/transformer left (it is the final component of the `Run`) -/
theorem C12_state (ts : Typeset T D S) (x : D) (d : D) (p : List T) (s' : S)
    (h : ts.infer x = .ok (d, p, s')) : Run ts.graph (ts.root, x, ts.empty) p (d, s') :=
  C12_sound ts.graph ts.fuel ts.root x ts.empty d p s' h

theorem C12_state_detect (ts : Typeset T D S) (x : D) (d : D) (p : List T) (s' : S)
    (h : ts.detect x = .ok (d, p, s')) : Run ts.graph.base (ts.root, x, ts.empty) p (d, s') :=
  C12_sound ts.graph.base ts.fuel ts.root x ts.empty d p s' h

/-- every DataFrame column is traversed from the empty path and the empty state, independently -/
theorem C12_frame_fresh {L : Type} (g : Graph T D S) (f : Nat) (root : T) (e : S)
    (cols : List (L × D)) (rs : List (L × (D × List T × S)))
    (h : traverseFrame g f root e cols = .ok rs) :
    Forall2 (fun c r => c.1 = r.1 ∧ Run g (root, c.2, e) r.2.2.1 (r.2.1, r.2.2.2)) cols rs := by
  have := (traverseFrame_ok g f root e cols rs).mp h
  clear h
  induction this with
  | nil => exact Forall2.nil
  | cons h1 _ ih =>
    refine Forall2.cons ⟨h1.1, ?_⟩ ih
    exact C12_sound g f root _ e _ _ _ h1.2

/-! non-vacuity: a concrete two-hop run with a state-writing guard -/
section example_
def gEx : Graph Nat Nat Nat :=
  { succ := fun n =>
      if n = 0 then
        [ { src := 0, dst := 1, inferential := false, guard := fun x s => .ok (x == 7, s + 1), xform := fun x s => .ok (x, s) },
          { src := 0, dst := 2, inferential := true, guard := fun x s => .ok (x == 3, s + 10), xform := fun x s => .ok (x + 1, s) } ]
      else if n = 2 then
        [ { src := 2, dst := 3, inferential := true, guard := fun x s => .ok (x == 4, s + 100), xform := fun x s => .ok (x * 2, s) } ]
      else [] }
example : traverse gEx 10 0 3 0 [] = .ok (8, [0, 2, 3], 111) := by rfl
example : Run gEx (0, 3, 0) [0, 2, 3] (8, 111) := C12_sound gEx 10 0 3 0 8 [0, 2, 3] 111 (by rfl)
end example_

end V.C12

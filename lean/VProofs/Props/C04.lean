/-
  C04 — Inference converges: inferring or casting again changes nothing.
-/
import VProofs.Lemmas.Pure
namespace V.C04
open V

variable {T D : Type}

/-- **C04_fixpoint**: with `(d, p)` the result of inference on `x`, inference on `d` returns `d`
itself (every hop is an identity relation) and ends at the same type -/
theorem C04_fixpoint (ts : TS T D) {I : D → Prop} (wf : ts.WF I) (root : T) (N : T → Prop) (hN : Nodes ts N root)
    (f : Nat) (hf : ts.h root < f) (x : D) (hI : I x) (hx : ts.contains root x = true) :
    let res := ptraverse ts.succ f root x
    (ptraverse ts.succ f root res.1).1 = res.1 ∧
    plast root (ptraverse ts.succ f root res.1).2 = plast root res.2 :=
  infer_fixpoint ts wf root N hN f hf x hI hx

end V.C04

/-
  The shapes of the back-end functions in the CURRENT source (decorator stacks and `except` clauses of every function of the
  pandas, numpy and python back ends, regenerated from the AST on every run) are the shapes the hand-written models mirror.
  A tripwire, not a property: it turns "somebody changed which wrappers guard a membership test, or what a relation test
  catches" into a broken proof obligation of the properties whose models depend on it, even when no generated input happens to
  distinguish the two versions.
-/
import VModel.Generated.BackendShapes
import VModel.BackendShapesModel
namespace V.Shapes
open V V.Gen

theorem shapes_match : backendShapes = modelShapes := by decide +kernel

/-- the table is not empty and covers the three back ends -/
theorem shapes_cover : (["pandas", "numpy", "python"].all fun b => backendShapes.any fun r => r.1 == b) = true := by decide +kernel

end V.Shapes

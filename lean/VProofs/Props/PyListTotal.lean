/-
  C09 / C04 for the python-sequence back end, end to end: `infer` never raises on the list model.  For every typeset built
  from the relation table and every sequence whose elements satisfy the executable hypothesis `convCaughtL` (each element
  conversion returns or raises a class the test applying it catches; evaluated by the driver on every generated sequence), the
  full-engine traversal the driver evaluates returns normally: no test and no transformer raises anywhere along the walk.
  The hypothesis is needed on the INPUT only — every element a transformer produces satisfies it (`elemOk_of*`), so the
  invariant `convCaughtL x ∧ containsL n x` is re-established by every accepted relation (`xform_total_list`).
-/
import VProofs.Props.PyListRel
import VProofs.Props.PyList
import VProofs.Obligations.PandasWF
import VProofs.Lemmas.Full
namespace V.PyProps
open V V.Gen V.Py
open V.Pd (FromTable rank_le)

theorem allO_true {l : List (Outcome Bool)} (h : allO l = .ok true) : ∀ o ∈ l, o = .ok true := by
  induction l with
  | nil => intro o ho; cases ho
  | cons z zs ih =>
    cases z with
    | raises c => simp [allO] at h
    | ok b =>
      cases b with
      | false => simp [allO] at h
      | true =>
        simp only [allO] at h
        intro o ho
        rcases List.mem_cons.mp ho with rfl | ho
        · rfl
        · exact ih h o ho

theorem firstRaise_none_of_forall {α : Type} {f : Elem → Outcome α} {s : Seq} (h : ∀ x ∈ s, ∃ v, f x = .ok v) :
    firstRaise (s.map f) = none := by
  induction s with
  | nil => rfl
  | cons x xs ih =>
    obtain ⟨v, hv⟩ := h x List.mem_cons_self
    simp only [List.map_cons, hv, firstRaise]
    exact ih (fun y hy => h y (List.mem_cons_of_mem _ hy))

theorem tryB_true {names : List String} {o : Outcome Bool} (h : tryB names o = .ok true) : o = .ok true := by
  cases o with
  | ok b => simp only [tryB, Except.ok.injEq] at h; rw [h]
  | raises c => simp only [tryB] at h; split at h <;> simp at h

/-! every element a transformer produces satisfies `elemOk` -/
theorem elemOk_ofBool (b : Bool) : elemOk (Elem.ofBool b) = true := by cases b <;> decide
theorem elemOk_ofFloat (v : FloatV) : elemOk (Elem.ofFloat v) = true := by
  cases v <;> simp [elemOk, Elem.ofFloat, Elem.blank, intEq] <;> decide
theorem elemOk_ofComplex (re im : FloatV) : elemOk (Elem.ofComplex re im) = true := by
  simp [elemOk, Elem.ofComplex, Elem.blank, intEq]; decide
theorem elemOk_ofInt (z : Int) : elemOk (Elem.ofInt z) = true := by
  simp [elemOk, Elem.ofInt, Elem.blank, intEq]; decide
theorem elemOk_ofDatetime (m : Bool) : elemOk (Elem.ofDatetime m) = true := by cases m <;> decide
theorem elemOk_ofPurePath (a : Bool) : elemOk (Elem.ofPurePath a) = true := by cases a <;> decide
theorem elemOk_consts : elemOk Elem.ofDate = true ∧ elemOk Elem.ofUrl = true ∧ elemOk Elem.ofUUID = true ∧
    elemOk Elem.ofIP = true ∧ elemOk Elem.ofEmail = true ∧ elemOk Elem.ofGeom = true := by decide

theorem mapT_total {α : Type} {f : Elem → Outcome α} {g : α → Elem} {s : Seq} (h : firstRaise (s.map f) = none)
    (hg : ∀ a, elemOk (g a) = true) : ∃ s', mapT f g s = .ok s' ∧ convCaughtL s' = true := by
  refine ⟨(oks (s.map f)).map g, by simp [mapT, h], ?_⟩
  simp only [convCaughtL, List.all_map, List.all_eq_true]
  intro a _; exact hg a

theorem mapT_total' {α : Type} {f : Elem → Outcome α} {g : α → Elem} {s : Seq}
    (h : ∀ x ∈ s, ∃ v, f x = .ok v ∧ elemOk (g v) = true) : ∃ s', mapT f g s = .ok s' ∧ convCaughtL s' = true := by
  have hfr := firstRaise_none_of_forall (f := f) (fun x hx => let ⟨v, hv, _⟩ := h x hx; ⟨v, hv⟩)
  refine ⟨(oks (s.map f)).map g, by simp [mapT, hfr], ?_⟩
  simp only [convCaughtL, List.all_map, List.all_eq_true]
  intro y hy
  obtain ⟨x, hx, hxy⟩ := List.mem_map.mp (mem_oks_ok hy)
  obtain ⟨v, hv, hvo⟩ := h x hx
  rw [hv] at hxy; cases hxy; exact hvo

theorem guard3_none {names : List String} {fr : Option String} {k : R Bool}
    (h : (match fr with | some c => if caught names c then (.ok false : R Bool) else .error (escape c) | none => k) = .ok true) :
    fr = none := by
  cases fr with
  | none => rfl
  | some c => simp only [] at h; split at h <;> simp at h

/-- **C04 for the list back end**: whenever the test of a relation accepts a sequence of its source type whose elements
satisfy `convCaughtL`, its transformer returns (does not raise), and the result again satisfies `convCaughtL` -/
theorem xform_total_list (src dst : Ty) (g : Seq → R Bool) (t : Seq → R Seq) (hg : guardL src dst = some g)
    (ht : xformL src dst = some t) (s : Seq) (hc : containsL src s = true) (hk : convCaughtL s = true)
    (ha : g s = .ok true) : ∃ s', t s = .ok s' ∧ convCaughtL s' = true := by
  have hk' : ∀ x ∈ s, elemOk x = true := by simpa [convCaughtL, List.all_eq_true] using hk
  obtain ⟨hD, hU, hUU, hI, hE, hG⟩ := elemOk_consts
  cases src <;> cases dst <;> simp only [guardL, Option.some.injEq, reduceCtorEq] at hg
  all_goals (simp only [xformL, Option.some.injEq] at ht; subst hg; subst ht)
  · -- String -> Boolean
    simp only [stringToBool]
    apply mapT_total'
    intro x hx
    by_cases hs : x.isStr = true
    · cases hl : x.lowerTF with
      | ok o => exact ⟨Elem.ofBool (o == some true), by simp [hs], elemOk_ofBool _⟩
      | raises c =>
        have := hk' x hx
        simp only [elemOk, Bool.and_eq_true] at this
        have h1 := this.1.1.1.1.1.1.1.1.1.1.1.1.1.1
        simp [hl, hs] at h1
    · exact ⟨x, by simp [hs], hk' x hx⟩
  · -- String -> Complex
    simp only [stringIsComplex] at ha
    exact mapT_total (guard3_none ha) (fun p => elemOk_ofComplex p.1 p.2)
  · -- String -> DateTime
    simp only [stringIsDatetime] at ha
    exact mapT_total (guard3_none ha) elemOk_ofDatetime
  · -- String -> Float
    simp only [stringIsFloat] at ha
    exact mapT_total (guard3_none ha) elemOk_ofFloat
  · -- String -> Geometry
    simp only [stringIsGeometry] at ha
    have h1 := allO_true (tryB_true ha)
    refine mapT_total (firstRaise_none_of_forall (fun x hx => ⟨true, ?_⟩)) (fun _ => hG)
    exact h1 _ (List.mem_map.mpr ⟨x, hx, rfl⟩)
  · -- String -> IPAddress
    simp only [stringIsIp, parses] at ha
    exact mapT_total (guard3_none ha) (fun _ => hI)
  · -- String -> Path
    simp only [stringToPath]
    simp only [stringIsPath] at ha
    cases hu : usesWindows s with
    | raises c => simp only [hu] at ha; split at ha <;> simp at ha
    | ok b =>
      have hw : firstRaise (s.map (·.winAbs)) = none := by
        simp only [usesWindows] at hu
        cases hfr : firstRaise (s.map (·.winAbs)) with
        | none => rfl
        | some c => simp [hfr] at hu
      cases b with
      | true => exact mapT_total hw elemOk_ofPurePath
      | false =>
        simp only [hu] at ha
        exact mapT_total (guard3_none ha) elemOk_ofPurePath
  · -- String -> UUID
    simp only [stringIsUuid, parses] at ha
    exact mapT_total (guard3_none ha) (fun _ => hUU)
  · -- String -> URL
    simp only [stringIsUrl, allAfterParse] at ha
    exact mapT_total (guard3_none ha) (fun _ => hU)
  · -- String -> EmailAddress
    simp only [stringIsEmail, allAfterParse] at ha
    exact mapT_total (guard3_none ha) (fun _ => hE)
  · -- Complex -> Float
    simp only [complexIsFloat] at ha
    have h1 := allO_true (tryB_true ha)
    refine mapT_total (firstRaise_none_of_forall (fun x hx => ?_)) elemOk_ofFloat
    have := h1 _ (List.mem_map.mpr ⟨x, hx, rfl⟩)
    cases hv : x.cval with
    | none => simp [hv] at this
    | some p => obtain ⟨re, im⟩ := p; exact ⟨re, rfl⟩
  · -- DateTime -> Date
    simp only [containsL] at hc
    have hall := (notEmpty_true hc).2
    refine mapT_total (firstRaise_none_of_forall (fun x hx => ⟨(), ?_⟩)) (fun _ => hD)
    have : x.isDatetime = true := List.all_eq_true.mp hall x hx
    simp [this]
  · -- Float -> Integer
    simp only [floatIsInt] at ha
    have h1 := allO_true (tryB_true ha)
    refine mapT_total (firstRaise_none_of_forall (fun x hx => ?_)) elemOk_ofInt
    have := h1 _ (List.mem_map.mpr ⟨x, hx, rfl⟩)
    simp only [intEq] at this
    simp only [intOf]
    cases hv : x.fval with
    | none => simp [hv] at this
    | some v => cases v <;> simp [hv] at this ⊢
  · -- Object -> Boolean
    refine ⟨_, rfl, ?_⟩
    simp only [convCaughtL, List.all_map, List.all_eq_true]
    intro x hx
    by_cases hn : x.isNone = true
    · simp [hn, elemOk_ofBool]
    · simp [hn, hk' x hx]

/-- `traverse_total_inv` with the invariant handed back at the final configuration -/
theorem traverse_total_inv_last {T D : Type} (g : Graph T D Unit) (h : T → Nat) (Inv : T → D → Prop)
    (hh : ∀ n r, r ∈ g.succ n → h r.dst < h n)
    (hg : ∀ n x, Inv n x → ∀ r ∈ g.succ n, ∃ v, r.guard x () = .ok v)
    (hx : ∀ n x, Inv n x → ∀ r ∈ g.succ n, r.guard x () = .ok (true, ()) →
      ∃ x', r.xform x () = .ok (x', ()) ∧ Inv r.dst x') :
    ∀ f n x acc, h n < f → Inv n x →
      ∃ d p m, traverse g f n x () acc = .ok (d, p, ()) ∧ p.getLast? = some m ∧ Inv m d := by
  intro f
  induction f with
  | zero => intro n x acc hf; omega
  | succ f ih =>
    intro n x acc hf hi
    obtain ⟨o, hv, hmem⟩ := firstAccept_total_unit (g.succ n) x (hg n x hi)
    simp only [traverse, hv]
    cases o with
    | none => exact ⟨x, acc ++ [n], n, rfl, by simp, hi⟩
    | some r =>
      obtain ⟨hr, hacc⟩ := hmem r rfl
      obtain ⟨x', hxv, hi'⟩ := hx n x hi r hr hacc
      simp only [hxv]
      have := hh n r hr
      exact ih r.dst x' (acc ++ [n]) (by omega) hi'

/-- **`infer` never raises** on the list model: for every typeset built from the relation table (all 14 inference relations of
the table are registered for python sequences — `list_registered`) and every sequence satisfying `convCaughtL`, the full-engine
traversal returns normally -/
theorem infer_total_list (b : Built Ty) (ft : FromTable b) (s : Seq) (hk : convCaughtL s = true)
    (hroot : containsL b.root s = true) :
    ∃ d p m, traverse (graphOfL b) 64 b.root s () [] = .ok (d, p, ()) ∧ p.getLast? = some m ∧
      (convCaughtL d = true ∧ containsL m d = true) := by
  have hdef : ∀ e ∈ b.edges, e.inferential = true → ∃ g t, guardL e.src e.dst = some g ∧ xformL e.src e.dst = some t := by
    intro e he hi
    have hd := ft.decl e he
    have : ∀ d ∈ Ty.all, ∀ r ∈ declared d, r.inferential = true →
        (guardL r.src d).isSome = true ∧ (xformL r.src d).isSome = true := by decide
    obtain ⟨h1, h2⟩ := this e.dst (Pd.mem_Ty_all _) _ hd hi
    obtain ⟨g, hg⟩ := Option.isSome_iff_exists.mp h1
    obtain ⟨t, ht⟩ := Option.isSome_iff_exists.mp h2
    exact ⟨g, t, hg, ht⟩
  apply traverse_total_inv_last (graphOfL b) (fun t => 32 - rank t) (fun n x => convCaughtL x = true ∧ containsL n x = true)
  · intro n r hr
    simp only [graphOfL, List.mem_map, List.mem_filter] at hr
    obtain ⟨e, ⟨he, hs⟩, rfl⟩ := hr
    have hsrc : e.src = n := by simpa using hs
    have := ft.rank e he
    have h1 := rank_le e.dst
    have hd : (mkRelL e).dst = e.dst := by by_cases hi : e.inferential = true <;> simp [mkRelL, hi]
    rw [hd, ← hsrc]; omega
  · -- tests
    intro n x ⟨hk, hc⟩ r hr
    simp only [graphOfL, List.mem_map, List.mem_filter] at hr
    obtain ⟨e, ⟨he, hs⟩, rfl⟩ := hr
    have hsrc : e.src = n := by simpa using hs
    by_cases hi : e.inferential = true
    · obtain ⟨g, t, hgd, _⟩ := hdef e he hi
      obtain ⟨v, hv⟩ := C09_tests_total_list e.src e.dst g hgd x (by rw [hsrc]; exact hc) hk
      exact ⟨(v, ()), by simp [mkRelL, hi, hgd, hv, Except.map]⟩
    · exact ⟨(containsL e.dst x, ()), by simp only [mkRelL, hi, Bool.false_eq_true, if_false]⟩
  · -- transformers re-establish the invariant
    intro n x ⟨hk, hc⟩ r hr hacc
    simp only [graphOfL, List.mem_map, List.mem_filter] at hr
    obtain ⟨e, ⟨he, hs⟩, rfl⟩ := hr
    have hsrc : e.src = n := by simpa using hs
    have hcs : containsL e.src x = true := by rw [hsrc]; exact hc
    by_cases hi : e.inferential = true
    · obtain ⟨g, t, hgd, htd⟩ := hdef e he hi
      have hgx : g x = .ok true := by
        simp only [mkRelL, hi, if_true, hgd, Except.map] at hacc
        cases hq : g x with
        | error err => rw [hq] at hacc; cases hacc
        | ok v => rw [hq] at hacc; simp only [Except.ok.injEq, Prod.mk.injEq] at hacc; rw [hacc.1]
      obtain ⟨c', hc', hk2⟩ := xform_total_list e.src e.dst g t hgd htd x hcs hk hgx
      have hd : (mkRelL e).dst = e.dst := by simp [mkRelL, hi]
      refine ⟨c', by simp [mkRelL, hi, htd, hc', Except.map], hk2, ?_⟩
      rw [hd]; exact C03_lands_list e.src e.dst g t hgd htd x c' hcs hgx hc'
    · have hd : (mkRelL e).dst = e.dst := by simp [mkRelL, hi]
      refine ⟨x, by simp [mkRelL, hi], hk, ?_⟩
      rw [hd]
      simp only [mkRelL, hi, Bool.false_eq_true, if_false, Except.ok.injEq, Prod.mk.injEq, and_true] at hacc
      exact hacc
  · show 32 - rank b.root < 64; omega
  · exact ⟨hk, hroot⟩

/-- **C09 / C03 for the list model, end to end on what the driver evaluates**: for every constructible sub-typeset of
CompleteSet and every sequence that passes the executable check `convCaughtL`, `infer` returns normally, and the data it
returns is a member of the type it reports (and again satisfies `convCaughtL`) -/
theorem infer_list_complete (S : List Ty) (nd : S.Nodup) (hg : Ty.Generic ∈ S) (pc : ParentClosedL declared S)
    (hsub : ∀ t ∈ S, t ∈ completeSet) (s : Seq) (h : convCaughtL s = true) :
    ∃ b d p, mkTypeset declared isGeneric S = .ok b ∧ traverse (graphOfL b) 64 b.root s () [] = .ok (d, p, ()) ∧
      containsL (plast b.root p) d = true ∧ convCaughtL d = true := by
  obtain ⟨b, hb, hr, _, ft, _⟩ := Pd.built_typeset ⟨fun _ => .raises "x"⟩ S nd hg pc hsub
  obtain ⟨d, p, m, hv, hl, hk, hc⟩ := infer_total_list b ft s h (by rw [hr]; rfl)
  exact ⟨b, d, p, hb, hv, by simp only [plast, hl, Option.getD_some]; exact hc, hk⟩

/-- non-vacuity: the executable hypothesis holds for the string sequence of `PyListRel` and for a mixed one -/
example : convCaughtL [sNum (.fin 3 1) false, sNum (.fin 2 0) false] = true ∧
    convCaughtL [Elem.ofInt 3, Elem.ofFloat .nan, { Elem.blank with isNone := true }] = true := by decide

end V.PyProps

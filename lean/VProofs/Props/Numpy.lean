/-
  The engine properties instantiated for the numpy back end model (`VModel/Numpy.lean`).

  For EVERY duplicate-free, parent-closed list `S` of types of the relation table that contains Generic (any supply order;
  the numpy back end registers the relations of StandardSet) and EVERY abstract array `c` satisfying `Good o c`, i.e. the
  executable check `goodB o c = true` (any dtype kind, any elements, any placement of missing values, any length):

    C01_numpy_built  detection is sound and most specific — for EVERY array, no hypothesis;
    C03_numpy        the cast array is contained in the inferred type, detecting it gives exactly the inferred type, unchanged;
    C04_numpy        inferring the cast array again returns the same array and the same type;
    C16_numpy        the types of `S` that contain `c` are exactly the detection path of `c`;
    C02_numpy        another supply order `S'` of the same types gives the same inference path and the same cast array;
    C15_numpy        the answers under `A ⊆ B` are the projection / a prefix of the answers under `B`.

  `goodB` is evaluated by the driver on α(array) for every generated input (CPython / numpy class facts about the elements,
  `nan_mask` facts, exclusivity of the boolean keys and the number parsers, the facts about `pd.to_datetime` on this array —
  false exactly on the digit strings of known finding F09n —, and that accepted transformers do not raise).
-/
import VProofs.Obligations.NumpyWF
import VProofs.Props.C16
import VProofs.Props.C14
import VProofs.Props.C01
import VProofs.Props.C15
namespace V.NumpyProps
open V V.Gen V.Np
open V.Pd (FromTable)

/-- C01 for the numpy model of a typeset whose edges increase the rank: needs L0 only -/
theorem C01_numpy (o : NpOracle) (b : Built Ty) (hrank : ∀ e ∈ b.edges, rank e.src < rank e.dst) (c : NArr)
    (hroot : containsB b.root c = true) :
    let res := ptraverse (numpyTS o b).idSucc 64 b.root c
    res.1 = c ∧ res.2.head? = some b.root ∧ (∀ t ∈ res.2, containsB t c = true) ∧
    Linked (fun a b' => ∃ r ∈ (numpyTS o b).idSucc a, r.dst = b') res.2 ∧
    (∀ r ∈ (numpyTS o b).idSucc (plast b.root res.2), containsB r.dst c = false) :=
  C01.C01_detect (numpyTS o b) (numpyTS_L0 o b) (numpyTS_height o b hrank) b.root 64 (by show 32 - rank b.root < 64; omega) c hroot

/-- fuel 64 exceeds every height of `numpyTS` -/
theorem fuel_ok (o : NpOracle) (b : Built Ty) (t : Ty) : (numpyTS o b).h t < 64 := by
  show 32 - rank t < 64; omega

theorem C03_numpy (o : NpOracle) (S : List Ty) (nd : S.Nodup) (hg : Ty.Generic ∈ S)
    (pc : ParentClosedL declared S) (hsub : ∀ t ∈ S, t ∈ completeSet) (c : NArr) (hG : Good o c) :
    ∃ b, mkTypeset declared isGeneric S = .ok b ∧
      let res := ptraverse (numpyTS o b).succ 64 b.root c
      let t := plast b.root res.2
      containsB t res.1 = true ∧
      (ptraverse (numpyTS o b).idSucc 64 b.root res.1).1 = res.1 ∧
      plast b.root (ptraverse (numpyTS o b).idSucc 64 b.root res.1).2 = t := by
  obtain ⟨b, hb, hr, _, ft, hN⟩ := built_typeset_np o S nd hg pc hsub
  refine ⟨b, hb, ?_⟩
  rw [hr]
  exact infer_sound (numpyTS o b) (numpy_WF o b ft) Ty.Generic _ hN 64 (fuel_ok o b _) c hG rfl

theorem C04_numpy (o : NpOracle) (S : List Ty) (nd : S.Nodup) (hg : Ty.Generic ∈ S)
    (pc : ParentClosedL declared S) (hsub : ∀ t ∈ S, t ∈ completeSet) (c : NArr) (hG : Good o c) :
    ∃ b, mkTypeset declared isGeneric S = .ok b ∧
      let res := ptraverse (numpyTS o b).succ 64 b.root c
      (ptraverse (numpyTS o b).succ 64 b.root res.1).1 = res.1 ∧
      plast b.root (ptraverse (numpyTS o b).succ 64 b.root res.1).2 = plast b.root res.2 := by
  obtain ⟨b, hb, hr, _, ft, hN⟩ := built_typeset_np o S nd hg pc hsub
  refine ⟨b, hb, ?_⟩
  rw [hr]
  exact infer_fixpoint (numpyTS o b) (numpy_WF o b ft) Ty.Generic _ hN 64 (fuel_ok o b _) c hG rfl

theorem C16_numpy (o : NpOracle) (S : List Ty) (nd : S.Nodup) (hg : Ty.Generic ∈ S)
    (pc : ParentClosedL declared S) (hsub : ∀ t ∈ S, t ∈ completeSet) (c : NArr) (hG : Good o c)
    (t : Ty) (ht : t ∈ S) :
    ∃ b, mkTypeset declared isGeneric S = .ok b ∧
      (containsB t c = true ↔ t ∈ (ptraverse (numpyTS o b).idSucc 64 b.root c).2) := by
  obtain ⟨b, hb, hr, _, ft, hN⟩ := built_typeset_np o S nd hg pc hsub
  refine ⟨b, hb, ?_⟩
  rw [hr]
  exact C16.C16_chain (numpyTS o b) (numpy_WF o b ft) Ty.Generic 64 (fuel_ok o b _) c hG rfl t (hN.idpath t ht)

/-- two supply orders of the same types give permuted adjacency lists -/
theorem succ_perm (o : NpOracle) (b b' : Built Ty) (hperm : b.edges.Perm b'.edges) (n : Ty) :
    ((numpyTS o b).succ n).Perm ((numpyTS o b').succ n) := by
  simp only [numpyTS, purify, graphOf]
  exact ((hperm.filter _).map _).map _

theorem C02_numpy (o : NpOracle) (S S' : List Ty) (hp : S.Perm S') (nd : S.Nodup)
    (hg : Ty.Generic ∈ S) (pc : ParentClosedL declared S) (hsub : ∀ t ∈ S, t ∈ completeSet)
    (c : NArr) (hG : Good o c) :
    ∃ b b', mkTypeset declared isGeneric S = .ok b ∧ mkTypeset declared isGeneric S' = .ok b' ∧
      ptraverse (numpyTS o b).succ 64 b.root c = ptraverse (numpyTS o b').succ 64 b'.root c := by
  have nd' : S'.Nodup := hp.nodup_iff.mp nd
  have hg' : Ty.Generic ∈ S' := hp.mem_iff.mp hg
  have pc' : ParentClosedL declared S' := fun t ht r hr hi => hp.mem_iff.mp (pc t (hp.mem_iff.mpr ht) r hr hi)
  obtain ⟨b, hb, hr, _, ft, _⟩ := built_typeset_np o S nd hg pc hsub
  obtain ⟨b', hb', hr', _, _, _⟩ := built_typeset_np o S' nd' hg' pc' (fun t ht => hsub t (hp.mem_iff.mpr ht))
  refine ⟨b, b', hb, hb', ?_⟩
  -- the edge lists are permutations of each other (both duplicate-free with the same members)
  obtain ⟨b1, hb1, _, _, _, he1, _⟩ := buildGraph_closed C14.tableWF S nd hg pc
  obtain ⟨b2, hb2, _, _, _, he2, _⟩ := buildGraph_closed C14.tableWF S' nd' hg' pc'
  have e1 : b = b1 := by
    have : mkTypeset declared isGeneric S = .ok b1 := by
      simp only [mkTypeset, hb1]
      have : b1.root = Ty.Generic := by assumption
      simp [this]; rfl
    rw [hb] at this; exact (Except.ok.inj this)
  have e2 : b' = b2 := by
    have : mkTypeset declared isGeneric S' = .ok b2 := by
      simp only [mkTypeset, hb2]
      have : b2.root = Ty.Generic := by assumption
      simp [this]; rfl
    rw [hb'] at this; exact (Except.ok.inj this)
  have hpair : ∀ S : List Ty, S.Nodup → (presentEdges declared S).Nodup := by
    intro S nd
    have := (allDecls_pairwise C14.tableWF.srcNodup S nd).sublist (List.filter_sublist (p := fun e => S.contains e.src))
    exact this.imp (fun hne heq => hne ⟨by rw [heq], by rw [heq]⟩)
  have hperm : b.edges.Perm b'.edges := by
    rw [e1, e2, he1, he2]
    apply (List.perm_ext_iff_of_nodup (hpair S nd) (hpair S' nd')).mpr
    intro e
    rw [mem_presentEdges, mem_presentEdges, hp.mem_iff, hp.mem_iff]
  rw [hr, hr']
  exact C02.C02_order_indep (numpyTS o b) (numpy_WF o b ft) (numpyTS o b').succ (succ_perm o b b' hperm)
    64 Ty.Generic c hG rfl

/-- the same, stated on what the driver evaluates: whenever the full-engine traversal of the executable
model returns normally, its result column is contained in its result type and is a fixpoint -/
theorem C03_numpy_model (o : NpOracle) (S : List Ty) (nd : S.Nodup) (hg : Ty.Generic ∈ S)
    (pc : ParentClosedL declared S) (hsub : ∀ t ∈ S, t ∈ completeSet) (c : NArr) (hG : Good o c) :
    ∃ b, mkTypeset declared isGeneric S = .ok b ∧
      ∀ d p, traverse (graphOf o b) 64 b.root c () [] = .ok (d, p, ()) →
        containsB (plast b.root p) d = true ∧
        ptraverse (numpyTS o b).succ 64 b.root d = (d, (ptraverse (numpyTS o b).succ 64 b.root d).2) ∧
        plast b.root (ptraverse (numpyTS o b).succ 64 b.root d).2 = plast b.root p := by
  obtain ⟨b, hb, h3⟩ := C03_numpy o S nd hg pc hsub c hG
  obtain ⟨b', hb', h4⟩ := C04_numpy o S nd hg pc hsub c hG
  have : b' = b := by rw [hb] at hb'; exact (Except.ok.inj hb').symm
  subst this
  refine ⟨b', hb, ?_⟩
  intro d p h
  have e := infer_model_eq o b' 64 b'.root c d p h
  simp only [e] at h3 h4
  exact ⟨h3.1, Prod.ext h4.1 rfl, h4.2⟩

/-! ### C15 for the numpy model: the typeset built from `A ⊆ B` is the restriction of the one built from `B` -/

theorem built_edges (S : List Ty) (nd : S.Nodup) (hg : Ty.Generic ∈ S) (pc : ParentClosedL declared S)
    (b : Built Ty) (hb : mkTypeset declared isGeneric S = .ok b) : b.edges = presentEdges declared S := by
  obtain ⟨b1, hb1, _, hr, _, he1, _⟩ := buildGraph_closed C14.tableWF S nd hg pc
  have : mkTypeset declared isGeneric S = .ok b1 := by simp only [mkTypeset, hb1, hr]; rfl
  rw [hb] at this
  rw [Except.ok.inj this]; exact he1

theorem presentEdges_nodup (S : List Ty) (nd : S.Nodup) : (presentEdges declared S).Nodup := by
  have := (allDecls_pairwise C14.tableWF.srcNodup S nd).sublist (List.filter_sublist (p := fun e => S.contains e.src))
  exact this.imp (fun hne heq => hne ⟨by rw [heq], by rw [heq]⟩)

/-- successors in the typeset built from `A` = successors in the typeset built from `B ⊇ A` whose target is in `A`,
up to order, at every node of `A` -/
theorem succ_restrict_perm (o : NpOracle) (A B : List Ty) (hAB : ∀ t ∈ A, t ∈ B) (ndA : A.Nodup) (ndB : B.Nodup)
    (bA bB : Built Ty) (eA : bA.edges = presentEdges declared A) (eB : bB.edges = presentEdges declared B)
    (n : Ty) (hn : n ∈ A) :
    (((numpyTS o bB).restrict (fun t => decide (t ∈ A))).succ n).Perm ((numpyTS o bA).succ n) := by
  simp only [TS.restrict, numpyTS, purify, graphOf, List.map_map]
  rw [List.filter_map]
  apply List.Perm.map
  have hfun : ((fun r : PRel Ty NArr => decide (r.dst ∈ A)) ∘ (purifyRel ∘ mkRel o)) = (fun e : Edge Ty => decide (e.dst ∈ A)) := by
    funext e; simp only [Function.comp, mkRel_dst]
  rw [hfun, List.filter_filter]
  apply (List.perm_ext_iff_of_nodup ?_ ?_).mpr
  · intro e
    simp only [List.mem_filter, eA, eB, mem_presentEdges, Bool.and_eq_true, decide_eq_true_eq, beq_iff_eq]
    constructor
    · rintro ⟨⟨_, _, hd⟩, hdA, hs⟩; exact ⟨⟨hdA, hs ▸ hn, hd⟩, hs⟩
    · rintro ⟨⟨hdA, hsA, hd⟩, hs⟩; exact ⟨⟨hAB _ hdA, hAB _ hsA, hd⟩, hdA, hs⟩
  · rw [eB]; exact (presentEdges_nodup B ndB).filter _
  · rw [eA]; exact (presentEdges_nodup A ndA).filter _

/-- a general fact: for a well-formed type system, a walk over `s₂` equals the walk over `s₁` when the adjacency lists
agree up to order at every node of a set the `s₁`-walk cannot leave -/
theorem walk_eq_of_perm_on {T D : Type} (ts : TS T D) {I : D → Prop} (wf : ts.WF I) (N : T → Prop)
    (hN : ∀ n r, N n → r ∈ ts.succ n → N r.dst)
    (s₂ : T → List (PRel T D)) (hp : ∀ n, N n → (ts.succ n).Perm (s₂ n))
    (f : Nat) (n : T) (x : D) (hn : N n) (hI : I x) (hc : ts.contains n x = true) :
    ptraverse ts.succ f n x = ptraverse s₂ f n x :=
  ptraverse_perm_on ts.succ s₂ (fun n x => N n ∧ I x ∧ ts.contains n x = true)
    (fun n _ h => hp n h.1)
    (fun n x h => wf.mutex n x h.2.1 h.2.2)
    (fun n x r h hr hg => ⟨hN n r h.1 hr, wf.closed n r x hr h.2.1 h.2.2 hg, wf.lands n r x hr h.2.1 h.2.2 hg⟩)
    f n x ⟨hn, hI, hc⟩

/-- **C15_numpy**: for typesets built from supply lists `A ⊆ B` (duplicate-free, parent closed, within the 22 types,
`A` containing Generic) and every `Good` column: the detection path under `A` is a prefix of the one under `B`, holds
only types of `A`, and every type of `B`'s path that belongs to `A` is on it (so `detect_A` is the deepest type of `B`'s
detection path in `A`); the inference walk under `A` is a prefix of the one under `B`, and `B`'s walk continues from
`A`'s answer and `A`'s cast data along `B`'s relations (so `infer_B` is reachable from `infer_A`). -/
theorem C15_numpy (o : NpOracle) (A B : List Ty) (hAB : ∀ t ∈ A, t ∈ B) (ndA : A.Nodup) (ndB : B.Nodup)
    (hgA : Ty.Generic ∈ A) (pcA : ParentClosedL declared A) (pcB : ParentClosedL declared B)
    (hsubB : ∀ t ∈ B, t ∈ completeSet) (c : NArr) (hG : Good o c) :
    ∃ bA bB, mkTypeset declared isGeneric A = .ok bA ∧ mkTypeset declared isGeneric B = .ok bB ∧
      (let pA := (ptraverse (numpyTS o bA).idSucc 64 bA.root c).2
       let pB := (ptraverse (numpyTS o bB).idSucc 64 bB.root c).2
       pA <+: pB ∧ (∀ t ∈ pB, t ∈ A → t ∈ pA) ∧ (∀ t ∈ pA, t ∈ A)) ∧
      (let rA := ptraverse (numpyTS o bA).succ 64 bA.root c
       let rB := ptraverse (numpyTS o bB).succ 64 bB.root c
       rA.2 <+: rB.2 ∧
       ptraverse (numpyTS o bB).succ 64 (plast bA.root rA.2) rA.1 = (rB.1, rB.2.drop (rA.2.length - 1))) := by
  have hgB := hAB _ hgA
  obtain ⟨bA, hbA, hrA, _, _, _⟩ := built_typeset_np o A ndA hgA pcA (fun t ht => hsubB t (hAB t ht))
  obtain ⟨bB, hbB, hrB, _, ftB, _⟩ := built_typeset_np o B ndB hgB pcB hsubB
  have eA := built_edges A ndA hgA pcA bA hbA
  have eB := built_edges B ndB hgB pcB bB hbB
  refine ⟨bA, bB, hbA, hbB, ?_⟩
  rw [hrA, hrB]
  let tsB := numpyTS o bB
  let S : Ty → Bool := fun t => decide (t ∈ A)
  have wfB : tsB.WF (Good o) := numpy_WF o bB ftB
  have wfR : (tsB.restrict S).WF (Good o) := wfB.restrict S
  have hS : S Ty.Generic = true := by simpa [S] using hgA
  -- the parent-closure hypothesis of the engine theorem
  have pc : ParentClosed tsB S := by
    intro n r hr hd
    obtain ⟨hrs, hi⟩ := mem_idSucc.mp hr
    obtain ⟨e, he, hsrc, _, _, hdst, hinf, _⟩ := mem_numpyTS_succ hrs
    have hdA : e.dst ∈ A := by rw [← hdst]; simpa [S] using hd
    have := pcA e.dst hdA ⟨e.src, e.inferential⟩ (ftB.decl e he) (by rw [← hinf]; exact hi)
    simp only at this
    simpa [S, ← hsrc] using this
  have hperm := succ_restrict_perm o A B hAB ndA ndB bA bB eA eB
  have stay : ∀ n r, n ∈ A → r ∈ (tsB.restrict S).succ n → r.dst ∈ A := by
    intro n r _ hr
    have := (mem_restrict_succ.mp hr).2
    simpa [S] using this
  have hcG : (tsB.restrict S).contains Ty.Generic c = true := rfl
  -- inference walks coincide
  have einf : ptraverse (tsB.restrict S).succ 64 Ty.Generic c = ptraverse (numpyTS o bA).succ 64 Ty.Generic c :=
    walk_eq_of_perm_on (tsB.restrict S) wfR (· ∈ A) stay _ hperm 64 Ty.Generic c hgA hG hcG
  -- detection walks coincide
  have wfRi : (tsB.restrict S).idOnly.WF (Good o) := wfR.idOnly
  have edet : ptraverse (tsB.restrict S).idSucc 64 Ty.Generic c = ptraverse (numpyTS o bA).idSucc 64 Ty.Generic c := by
    have := walk_eq_of_perm_on (tsB.restrict S).idOnly wfRi (· ∈ A)
      (fun n r hn hr => stay n r hn (mem_idSucc.mp hr).1)
      (numpyTS o bA).idSucc (fun n hn => (hperm n hn).filter _) 64 Ty.Generic c hgA hG hcG
    exact this
  constructor
  · have := C15.C15_detect tsB wfB S pc Ty.Generic 64 (fuel_ok o bB _) c hG rfl hS
    simp only [edet] at this
    obtain ⟨h1, h2, h3⟩ := this
    exact ⟨h1, fun t ht hA => h2 t ht (by simpa [S] using hA), fun t ht => by simpa [S] using h3 t ht⟩
  · have := C15.C15_infer tsB wfB S Ty.Generic 64 (fuel_ok o bB _) c hG rfl
    simp only [einf] at this
    exact this

/-- **C01 for every constructible typeset and EVERY column** (no hypothesis on the column at all): detection returns
the input, the path starts at Generic, every type on it contains the column, consecutive types are linked by identity
relations of the typeset, and no identity child of the answer contains the column -/
theorem C01_numpy_built (o : NpOracle) (S : List Ty) (nd : S.Nodup) (hg : Ty.Generic ∈ S)
    (pc : ParentClosedL declared S) (hsub : ∀ t ∈ S, t ∈ completeSet) (c : NArr) :
    ∃ b, mkTypeset declared isGeneric S = .ok b ∧
      let res := ptraverse (numpyTS o b).idSucc 64 b.root c
      res.1 = c ∧ res.2.head? = some Ty.Generic ∧ (∀ t ∈ res.2, containsB t c = true) ∧
      Linked (fun a b' => ∃ r ∈ (numpyTS o b).idSucc a, r.dst = b') res.2 ∧
      (∀ r ∈ (numpyTS o b).idSucc (plast b.root res.2), containsB r.dst c = false) := by
  obtain ⟨b, hb, hr, _, ft, _⟩ := built_typeset_np o S nd hg pc hsub
  refine ⟨b, hb, ?_⟩
  have := C01_numpy o b ft.rank c (by rw [hr]; rfl)
  rw [hr] at this ⊢
  exact this


/-! ### the hypotheses are satisfiable, and the theorems say something on concrete arrays -/

def o0 : NpOracle := { dtMasked := fun _ => .raises "ValueError", dtWhole := fun _ => .raises "ValueError" }
/-- complex128 array [1+0j, 2+0j]: inferred Generic → Complex → Float → Integer -/
def az : NArr := { kind := .c, elems := [NElem.ofComplex (.fin 1 0) (.fin 0 0), NElem.ofComplex (.fin 2 0) (.fin 0 0)] }
/-- float64 array [1.5, nan]: inferred Generic → Float -/
def af : NArr := { kind := .f, elems := [NElem.ofFloat (.fin 3 1), NElem.ofFloat .nan] }

theorem good_az : Good o0 az := by show goodB o0 az = true; decide +kernel
theorem good_af : Good o0 af := by show goodB o0 af = true; decide +kernel

example : ∃ b, mkTypeset declared isGeneric standardSet = .ok b ∧
    containsB (plast b.root (ptraverse (numpyTS o0 b).succ 64 b.root az).2) (ptraverse (numpyTS o0 b).succ 64 b.root az).1 = true := by
  obtain ⟨b, hb, h⟩ := C03_numpy o0 standardSet C14.standard_ok.1 C14.standard_ok.2.1 C14.standard_ok.2.2
    (fun t ht => C14.C14_nested.2 t (C14.C14_nested.1 t ht)) az good_az
  exact ⟨b, hb, h.1⟩

example : (match mkTypeset declared isGeneric standardSet with
    | .ok b => some ((ptraverse (numpyTS o0 b).succ 64 b.root az).2, (ptraverse (numpyTS o0 b).succ 64 b.root af).2)
    | .error _ => none) = some ([.Generic, .Complex, .Float, .Integer], [.Generic, .Float]) := by
  decide +kernel

end V.NumpyProps

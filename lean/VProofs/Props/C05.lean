/-
  C05 — Inputs are never mutated; no-op casts return the input object itself.

  Data values `D` are arbitrary, so `D` may carry an identity token: equality of the returned
  datum with the input *is* "the very object".  What a functional model cannot exhibit is in-place
  mutation of the argument — that part is observed by the harness (deep snapshots around every
  call, guard and transformer), hence the property is labelled partial.
-/
import VProofs.Lemmas.Full
namespace V.C05
open V

variable {T D S : Type}

/-- every identity (non-inferential) relation of the graph carries `identity_transform` -/
def IdentityXforms (g : Graph T D S) : Prop :=
  ∀ n, ∀ r ∈ g.succ n, r.inferential = false → ∀ x s, r.xform x s = .ok (x, s)

/-- along a path none of whose hops can be an inference relation, the data is returned as given -/
theorem no_coercion_returns_input (g : Graph T D S) (hid : IdentityXforms g) :
    ∀ f n x s acc d p s', traverse g f n x s acc = .ok (d, p, s') →
      (∀ q, p = acc ++ q → ∀ a b, [a, b] <:+: q → ∀ r ∈ g.succ a, r.dst = b → r.inferential = false) →
      d = x := by
  intro f
  induction f with
  | zero => intro n x s acc d p s' h; simp [traverse] at h
  | succ f ih =>
    intro n x s acc d p s' h hno
    simp only [traverse] at h
    cases hfa : firstAccept (g.succ n) x s with
    | error e => rw [hfa] at h; cases h
    | ok v =>
      obtain ⟨o, s1⟩ := v
      rw [hfa] at h
      cases o with
      | none => simp only [Except.ok.injEq, Prod.mk.injEq] at h; exact h.1.symm
      | some r =>
        simp only at h
        obtain ⟨pre, post, s0, e, _, _⟩ := (firstAccept_some_iff _ _ _ _ _).mp hfa
        have hmem : r ∈ g.succ n := by rw [e]; simp
        cases hx : r.xform x s1 with
        | error e => rw [hx] at h; cases h
        | ok w =>
          obtain ⟨x', s2⟩ := w
          rw [hx] at h
          obtain ⟨q, hq, hrun⟩ := traverse_run g f r.dst x' s2 (acc ++ [n]) d p s' h
          -- the hop n → r.dst is on the path, so r is an identity relation
          have hq' : p = acc ++ (n :: q) := by rw [hq]; simp
          have hhead : ∃ q', q = r.dst :: q' := by
            cases hrun with
            | stop _ => exact ⟨[], rfl⟩
            | step _ _ => exact ⟨_, rfl⟩
          obtain ⟨q', hq''⟩ := hhead
          have hinf : r.inferential = false := by
            apply hno (n :: q) hq' n r.dst _ r hmem rfl
            rw [hq'']
            exact ⟨[], q', by simp⟩
          have hxid := hid n r hmem hinf x s1
          rw [hxid] at hx
          cases hx
          apply ih r.dst x s1 (acc ++ [n]) d p s' h
          intro q2 hq2 a b hab r' hr' hd
          apply hno (n :: q2) (by rw [hq2]; simp) a b _ r' hr' hd
          obtain ⟨u, v, huv⟩ := hab
          exact ⟨n :: u, v, by simp [← huv]⟩

/-- **cast_to_detected returns the very object it was given**: the base graph has identity
relations only, whose transformer is `identity_transform` -/
theorem C05_detected_is_input (ts : Typeset T D S) (hid : IdentityXforms ts.graph) (x : D) (d : D)
    (h : ts.castToDetected x = .ok d) : d = x := by
  simp only [Typeset.castToDetected, Typeset.detect] at h
  cases ht : traverse ts.graph.base ts.fuel ts.root x ts.empty [] with
  | error e => rw [ht] at h; cases h
  | ok v =>
    obtain ⟨d', p, s'⟩ := v
    rw [ht] at h
    cases h
    have hidb : IdentityXforms ts.graph.base := by
      intro n r hr hi
      exact hid n r (List.mem_filter.mp hr).1 hi
    apply no_coercion_returns_input ts.graph.base hidb ts.fuel ts.root x ts.empty [] d' p s' ht
    intro q _ a b _ r hr _
    have := (List.mem_filter.mp hr).2
    simpa using this

/-- **cast_to_inferred returns the input itself whenever inference applies no coercion** -/
theorem C05_inferred_is_input_when_no_coercion (ts : Typeset T D S) (hid : IdentityXforms ts.graph)
    (x d : D) (p : List T) (s' : S) (h : ts.infer x = .ok (d, p, s'))
    (hno : ∀ a b, [a, b] <:+: p → ∀ r ∈ ts.graph.succ a, r.dst = b → r.inferential = false) : d = x := by
  apply no_coercion_returns_input ts.graph hid ts.fuel ts.root x ts.empty [] d p s' h
  intro q hq a b hab
  simp only [List.nil_append] at hq
  exact hno a b (by rw [hq]; exact hab)

end V.C05

/-
  C07 — Semantic recognition is independent of the machine representation.

  Proved on the pandas model (for every column, any length, any placement of missing values):
    * `C07_empty`: an empty column belongs to none of the 22 types of CompleteSet+EmailAddress but
      Generic, whatever its dtype — so every typeset answers Generic;
    * `C07_native_*`: a column with at least one value whose dtype lies in a family is recognised by
      the family's type whatever the width / nullable variant (the dtype table is regenerated from the
      installed pandas);
    * `C07_accepts_*`: the numeric and temporal coercion tests accept *exactly* the columns whose
      values are of the narrower family (float with trailing .0 ⇒ Integer, zero-imaginary complex ⇒
      Float, midnight timestamps ⇒ Date), with missing values mixed in anywhere.
  The string encodings rest on the element parsers (data of the model) and are covered, like the
  full grid of 18 families × encodings × null patterns, by the family runner on the real code: PARTIAL.
-/
import VProofs.Lemmas.PandasL
import VModel.Generated.Typesets
namespace V.C07
open V V.Gen V.Pd

/-- **C07_empty** -/
theorem C07_empty (t : Ty) (ht : t ∈ completeSet) (hne : t ≠ Ty.Generic) (c : Column) (he : c.cells = []) :
    containsB t c = false := by
  have hemp : c.empty = true := by simp [Column.empty, he]
  have hnn : c.hasnans = false := by simp [Column.hasnans, he]
  have ne : ∀ f : Column → Bool, notEmptyB f c = false := fun f => by simp [notEmptyB, hemp]
  have hn : ∀ f : Column → Bool, handleNullsB (notEmptyB f) c = false := fun f => by
    simp [handleNullsB, hnn, ne]
  cases t <;> simp only [containsB, notSparseB, stringContains, booleanContains, categoricalContains, complexContains,
    countContains, dateContains, datetimeContains, emailContains, fileContains, floatContains, geometryContains,
    imageContains, integerContains, ipContains, objectContains, ordinalContains, pathContains, timeContains,
    timedeltaContains, urlContains, uuidContains, ne, hn] <;> first | (exact absurd rfl hne) | (exact absurd ht (by decide))

/-- a native / nullable dtype of the family with at least one value (any width: the table has
one row per family, checked against several widths by the translator) -/
theorem C07_native_integer (c : Column) (hne : c.cells ≠ [])
    (hd : c.dtype = .fam .int ∨ c.dtype = .fam .uint ∨ c.dtype = .fam .Int ∨ c.dtype = .fam .UInt) :
    integerContains c = true := by
  have he : c.empty = false := by
    cases hc : c.cells with
    | nil => exact absurd hc hne
    | cons a l => simp [Column.empty, hc]
  simp only [integerContains, notSparseB]
  apply notEmptyB_intro he
  rcases hd with h | h | h | h <;> rw [h] <;> decide

theorem C07_native_count (c : Column) (hne : c.cells ≠ []) (hd : c.dtype = .fam .uint ∨ c.dtype = .fam .UInt) :
    countContains c = true := by
  have he : c.empty = false := by
    cases hc : c.cells with
    | nil => exact absurd hc hne
    | cons a l => simp [Column.empty, hc]
  simp only [countContains, notSparseB]
  apply notEmptyB_intro he
  rcases hd with h | h <;> rw [h] <;> decide

theorem C07_native_float (c : Column) (hv : HasValue c) (hd : c.dtype = .fam .float ∨ c.dtype = .fam .Float) :
    floatContains c = true := by
  simp only [floatContains, notSparseB]
  apply (handle_dtype (fun d => d.isFloat) c).mpr ⟨hv, ?_⟩
  rcases hd with h | h <;> rw [h] <;> decide

theorem C07_native_boolean (c : Column) (hv : HasValue c) (hd : c.dtype = .fam .bool ∨ c.dtype = .fam .boolean) :
    booleanContains c = true := by
  simp only [booleanContains, notSparseB]
  apply (handle_dtype (fun d => d.isBool && !d.isCategorical) c).mpr ⟨hv, ?_⟩
  rcases hd with h | h <;> rw [h] <;> decide

theorem C07_native_datetime (c : Column) (hv : HasValue c) (hd : c.dtype = .fam .datetime ∨ c.dtype = .fam .datetimetz) :
    datetimeContains c = true := by
  simp only [datetimeContains, notSparseB]
  apply (handle_dtype (fun d => d.isDatetime) c).mpr ⟨hv, ?_⟩
  rcases hd with h | h <;> rw [h] <;> decide

/-- the coercion tests accept exactly the narrower family, with missing values anywhere -/
theorem C07_accepts_float_as_integer (c : Column) (hv : HasValue c) :
    floatIsInteger c = .ok true ↔ ∀ x ∈ c.cells, x.null = false → ∃ v, x.pay = .float v ∧ v.isInt64 = true := by
  have core : ∀ cells : List Cell,
      (cells.all (fun x => match x.pay with | .float v => v.isInt64 | _ => false) = true) ↔
      ∀ x ∈ cells, ∃ v, x.pay = .float v ∧ v.isInt64 = true := by
    intro cells
    rw [List.all_eq_true]
    constructor
    · intro h x hx
      have := h x hx
      cases hp : x.pay with
      | float v => rw [hp] at this; exact ⟨v, rfl, this⟩
      | _ => rw [hp] at this; cases this
    · intro h x hx
      obtain ⟨v, hp, hi⟩ := h x hx
      rw [hp]; exact hi
  simp only [floatIsInteger, handleNulls]
  have hde := dropna_nonempty_of_hasValue hv
  by_cases hn : c.hasnans = true
  · simp only [hn, if_true, hde, Bool.false_eq_true, if_false, Except.ok.injEq]
    refine Iff.trans (core c.dropna.cells) ?_
    constructor
    · intro h x hx hnull; exact h x (mem_dropna.mpr ⟨hx, hnull⟩)
    · intro h x hx; exact h x (mem_dropna.mp hx).1 (mem_dropna.mp hx).2
  · have hn' : c.hasnans = false := by simpa using hn
    simp only [hn', Bool.false_eq_true, if_false, Except.ok.injEq]
    refine Iff.trans (core c.cells) ?_
    constructor
    · intro h x hx _; exact h x hx
    · intro h x hx; exact h x hx ((hasnans_false_iff c).mp hn' x hx)

theorem C07_accepts_complex_as_float (c : Column) (hv : HasValue c) :
    complexIsFloat c = .ok true ↔ ∀ x ∈ c.cells, x.null = false → ∃ re im, x.pay = .complex re im ∧ im.isZero = true := by
  have core : ∀ cells : List Cell,
      (cells.all (fun x => match x.pay with | .complex _ im => im.isZero | _ => false) = true) ↔
      ∀ x ∈ cells, ∃ re im, x.pay = .complex re im ∧ im.isZero = true := by
    intro cells
    rw [List.all_eq_true]
    constructor
    · intro h x hx
      have := h x hx
      cases hp : x.pay with
      | complex re im => rw [hp] at this; exact ⟨re, im, rfl, this⟩
      | _ => rw [hp] at this; cases this
    · intro h x hx
      obtain ⟨re, im, hp, hi⟩ := h x hx
      rw [hp]; exact hi
  simp only [complexIsFloat, handleNulls]
  have hde := dropna_nonempty_of_hasValue hv
  by_cases hn : c.hasnans = true
  · simp only [hn, if_true, hde, Bool.false_eq_true, if_false, Except.ok.injEq]
    refine Iff.trans (core c.dropna.cells) ?_
    constructor
    · intro h x hx hnull; exact h x (mem_dropna.mpr ⟨hx, hnull⟩)
    · intro h x hx; exact h x (mem_dropna.mp hx).1 (mem_dropna.mp hx).2
  · have hn' : c.hasnans = false := by simpa using hn
    simp only [hn', Bool.false_eq_true, if_false, Except.ok.injEq]
    refine Iff.trans (core c.cells) ?_
    constructor
    · intro h x hx _; exact h x hx
    · intro h x hx; exact h x hx ((hasnans_false_iff c).mp hn' x hx)

/-! non-vacuity: integers carried as floats with a missing value in the middle -/
example : floatIsInteger ⟨.fam .float, [Cell.ofFloat (.fin 12 0), Cell.missing .nan, Cell.ofFloat (.fin (-7) 0)], ["0", "1", "2"], "None"⟩
    = .ok true := by rfl

end V.C07

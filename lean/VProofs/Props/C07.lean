/-
  C07 — Semantic recognition is independent of the machine representation.

  Proved on the pandas model (for every column, any length, any placement of missing values):
    * `C07_empty`: an empty column belongs to none of the 22 types of CompleteSet+EmailAddress but
      Generic, whatever its dtype — so every typeset answers Generic;
    * `C07_native_*`: a column with at least one value whose dtype lies in a family is recognised by
      the family's type whatever the width / nullable variant (the dtype table is regenerated from the
      installed pandas);
    * `C07_accepts_*`: the numeric and temporal coercion tests accept *exactly* the columns whose
      values are of the narrower family (float with trailing .0 ⇒ Integer, zero-imaginary complex ⇒
      Float, midnight timestamps ⇒ Date), with missing values mixed in anywhere.
  The string encodings rest on the element parsers (data of the model) and are covered, like the
  full grid of 18 families × encodings × null patterns, by the family runner on the real code: PARTIAL.
-/
import VProofs.Lemmas.PandasL
import VProofs.Obligations.PandasBagInfer
import VModel.Generated.Typesets
namespace V.C07
open V V.Gen V.Pd

/-- **C07_empty** -/
theorem C07_empty (t : Ty) (ht : t ∈ completeSet) (hne : t ≠ Ty.Generic) (c : Column) (he : c.cells = []) :
    containsB t c = false := by
  have hemp : c.empty = true := by simp [Column.empty, he]
  have hnn : c.hasnans = false := by simp [Column.hasnans, he]
  have ne : ∀ f : Column → Bool, notEmptyB f c = false := fun f => by simp [notEmptyB, hemp]
  have hn : ∀ f : Column → Bool, handleNullsB (notEmptyB f) c = false := fun f => by
    simp [handleNullsB, hnn, ne]
  cases t <;> simp only [containsB, notSparseB, stringContains, booleanContains, categoricalContains, complexContains,
    countContains, dateContains, datetimeContains, emailContains, fileContains, floatContains, geometryContains,
    imageContains, integerContains, ipContains, objectContains, ordinalContains, pathContains, timeContains,
    timedeltaContains, urlContains, uuidContains, ne, hn] <;> first | (exact absurd rfl hne) | (exact absurd ht (by decide))

/-- a native / nullable dtype of the family with at least one value (any width: the table has
one row per family, checked against several widths by the translator) -/
theorem C07_native_integer (c : Column) (hne : c.cells ≠ [])
    (hd : c.dtype = .fam .int ∨ c.dtype = .fam .uint ∨ c.dtype = .fam .Int ∨ c.dtype = .fam .UInt) :
    integerContains c = true := by
  have he : c.empty = false := by
    cases hc : c.cells with
    | nil => exact absurd hc hne
    | cons a l => simp [Column.empty, hc]
  simp only [integerContains, notSparseB]
  apply notEmptyB_intro he
  rcases hd with h | h | h | h <;> rw [h] <;> decide

theorem C07_native_count (c : Column) (hne : c.cells ≠ []) (hd : c.dtype = .fam .uint ∨ c.dtype = .fam .UInt) :
    countContains c = true := by
  have he : c.empty = false := by
    cases hc : c.cells with
    | nil => exact absurd hc hne
    | cons a l => simp [Column.empty, hc]
  simp only [countContains, notSparseB]
  apply notEmptyB_intro he
  rcases hd with h | h <;> rw [h] <;> decide

theorem C07_native_float (c : Column) (hv : HasValue c) (hd : c.dtype = .fam .float ∨ c.dtype = .fam .Float) :
    floatContains c = true := by
  simp only [floatContains, notSparseB]
  apply (handle_dtype (fun d => d.isFloat) c).mpr ⟨hv, ?_⟩
  rcases hd with h | h <;> rw [h] <;> decide

theorem C07_native_boolean (c : Column) (hv : HasValue c) (hd : c.dtype = .fam .bool ∨ c.dtype = .fam .boolean) :
    booleanContains c = true := by
  simp only [booleanContains, notSparseB]
  apply (handle_dtype (fun d => d.isBool && !d.isCategorical) c).mpr ⟨hv, ?_⟩
  rcases hd with h | h <;> rw [h] <;> decide

theorem C07_native_datetime (c : Column) (hv : HasValue c) (hd : c.dtype = .fam .datetime ∨ c.dtype = .fam .datetimetz) :
    datetimeContains c = true := by
  simp only [datetimeContains, notSparseB]
  apply (handle_dtype (fun d => d.isDatetime) c).mpr ⟨hv, ?_⟩
  rcases hd with h | h <;> rw [h] <;> decide

/-- the coercion tests accept exactly the narrower family, with missing values anywhere -/
theorem C07_accepts_float_as_integer (c : Column) (hv : HasValue c) :
    floatIsInteger c = .ok true ↔ ∀ x ∈ c.cells, x.null = false → ∃ v, x.pay = .float v ∧ v.isInt64 = true := by
  have core : ∀ cells : List Cell,
      (cells.all (fun x => match x.pay with | .float v => v.isInt64 | _ => false) = true) ↔
      ∀ x ∈ cells, ∃ v, x.pay = .float v ∧ v.isInt64 = true := by
    intro cells
    rw [List.all_eq_true]
    constructor
    · intro h x hx
      have := h x hx
      cases hp : x.pay with
      | float v => rw [hp] at this; exact ⟨v, rfl, this⟩
      | _ => rw [hp] at this; cases this
    · intro h x hx
      obtain ⟨v, hp, hi⟩ := h x hx
      rw [hp]; exact hi
  simp only [floatIsInteger, handleNulls]
  have hde := dropna_nonempty_of_hasValue hv
  by_cases hn : c.hasnans = true
  · simp only [hn, if_true, hde, Bool.false_eq_true, if_false, Except.ok.injEq]
    refine Iff.trans (core c.dropna.cells) ?_
    constructor
    · intro h x hx hnull; exact h x (mem_dropna.mpr ⟨hx, hnull⟩)
    · intro h x hx; exact h x (mem_dropna.mp hx).1 (mem_dropna.mp hx).2
  · have hn' : c.hasnans = false := by simpa using hn
    simp only [hn', Bool.false_eq_true, if_false, Except.ok.injEq]
    refine Iff.trans (core c.cells) ?_
    constructor
    · intro h x hx _; exact h x hx
    · intro h x hx; exact h x hx ((hasnans_false_iff c).mp hn' x hx)

theorem C07_accepts_complex_as_float (c : Column) (hv : HasValue c) :
    complexIsFloat c = .ok true ↔ ∀ x ∈ c.cells, x.null = false → ∃ re im, x.pay = .complex re im ∧ im.isZero = true := by
  have core : ∀ cells : List Cell,
      (cells.all (fun x => match x.pay with | .complex _ im => im.isZero | _ => false) = true) ↔
      ∀ x ∈ cells, ∃ re im, x.pay = .complex re im ∧ im.isZero = true := by
    intro cells
    rw [List.all_eq_true]
    constructor
    · intro h x hx
      have := h x hx
      cases hp : x.pay with
      | complex re im => rw [hp] at this; exact ⟨re, im, rfl, this⟩
      | _ => rw [hp] at this; cases this
    · intro h x hx
      obtain ⟨re, im, hp, hi⟩ := h x hx
      rw [hp]; exact hi
  simp only [complexIsFloat, handleNulls]
  have hde := dropna_nonempty_of_hasValue hv
  by_cases hn : c.hasnans = true
  · simp only [hn, if_true, hde, Bool.false_eq_true, if_false, Except.ok.injEq]
    refine Iff.trans (core c.dropna.cells) ?_
    constructor
    · intro h x hx hnull; exact h x (mem_dropna.mpr ⟨hx, hnull⟩)
    · intro h x hx; exact h x (mem_dropna.mp hx).1 (mem_dropna.mp hx).2
  · have hn' : c.hasnans = false := by simpa using hn
    simp only [hn', Bool.false_eq_true, if_false, Except.ok.injEq]
    refine Iff.trans (core c.cells) ?_
    constructor
    · intro h x hx _; exact h x hx
    · intro h x hx; exact h x hx ((hasnans_false_iff c).mp hn' x hx)

/-! non-vacuity: integers carried as floats with a missing value in the middle -/
example : floatIsInteger ⟨.fam .float, [Cell.ofFloat (.fin 12 0), Cell.missing .nan, Cell.ofFloat (.fin (-7) 0)], ["0", "1", "2"], "None"⟩
    = .ok true := by rfl

/-! ### string encodings: the relation tests accept exactly the columns whose values the element parser accepts -/

/-- a test under `series_handle_nulls` that is "every cell satisfies `P`" accepts exactly the columns whose non-missing
cells all satisfy `P` (given at least one value) -/
theorem handleNulls_iff {f : Column → R Bool} {P : Cell → Prop} (c : Column) (hv : HasValue c)
    (hf : ∀ d : Column, d.dtype = c.dtype → (f d = .ok true ↔ ∀ x ∈ d.cells, P x)) :
    handleNulls f c = .ok true ↔ ∀ x ∈ c.cells, x.null = false → P x := by
  simp only [handleNulls]
  have hde := dropna_nonempty_of_hasValue hv
  by_cases hn : c.hasnans = true
  · simp only [hn, if_true, hde, Bool.false_eq_true, if_false]
    rw [hf c.dropna (dropna_dtype c)]
    constructor
    · intro h x hx hnull; exact h x (mem_dropna.mpr ⟨hx, hnull⟩)
    · intro h x hx; exact h x (mem_dropna.mp hx).1 (mem_dropna.mp hx).2
  · have hn' : c.hasnans = false := by simpa using hn
    simp only [hn', Bool.false_eq_true, if_false]
    rw [hf c rfl]
    constructor
    · intro h x hx _; exact h x hx
    · intro h x hx; exact h x hx ((hasnans_false_iff c).mp hn' x hx)

theorem firstRaise_none_iff_parser {α : Type} (cells : List Cell) (sel : StrFacts → Outcome α) (cls : String)
    (p : Cell → Outcome α) (hp : ∀ x, p x = match x.str with | some f => sel f | none => Outcome.raises cls) :
    firstRaise (cells.map p) = none ↔ ∀ x ∈ cells, ∃ f, x.str = some f ∧ (sel f).isOk = true := by
  rw [firstRaise_none_iff]
  constructor
  · intro h x hx
    obtain ⟨a, ha⟩ := h _ (List.mem_map_of_mem hx)
    rw [hp x] at ha
    cases hs : x.str with
    | none => rw [hs] at ha; cases ha
    | some f => rw [hs] at ha; simp only at ha; exact ⟨f, rfl, by rw [ha]; rfl⟩
  · intro h v hv
    obtain ⟨x, hx, rfl⟩ := List.mem_map.mp hv
    obtain ⟨f, hf, hok⟩ := h x hx
    rw [hp x]
    simp only [hf]
    cases hq : sel f with
    | ok a => exact ⟨a, rfl⟩
    | raises c => rw [hq] at hok; cases hok

theorem firstRaise_some_mem {α : Type} {l : List (Outcome α)} {cls : String} (h : firstRaise l = some cls) :
    Outcome.raises cls ∈ l := by
  induction l with
  | nil => cases h
  | cons a l ih =>
    cases a with
    | ok v => simp only [firstRaise] at h; exact List.mem_cons_of_mem _ (ih h)
    | raises c => simp only [firstRaise, Option.some.injEq] at h; subst h; exact List.mem_cons_self

/-- **IP addresses as strings**: accepted iff `ip_address` parses every non-missing value -/
theorem C07_accepts_string_ip (c : Column) (hv : HasValue c) :
    stringIsIp c = .ok true ↔ ∀ x ∈ c.cells, x.null = false → ∃ f, x.str = some f ∧ f.ip.isOk = true := by
  apply handleNulls_iff c hv
  intro d _
  constructor
  · intro h
    exact (firstRaise_none_iff_parser d.cells (·.ip) "ValueError" _ (fun _ => rfl)).mp
      (guard_match_none h (fun cls => ite_ne_ok_true _ _)).1
  · intro h
    dsimp only
    split
    · rename_i cls hcls
      obtain ⟨x, hx, hxr⟩ := List.mem_map.mp (firstRaise_some_mem hcls)
      obtain ⟨f, hf, hok⟩ := h x hx
      simp only [hf] at hxr
      rw [hxr] at hok; cases hok
    · rfl

/-- **UUIDs as strings**: accepted iff `uuid.UUID` parses every non-missing value (and the strings are truthy) -/
theorem C07_accepts_string_uuid (c : Column) (hv : HasValue c)
    (htruthy : ∀ x ∈ c.cells, x.null = false → x.truth = .ok true) :
    stringIsUuid c = .ok true ↔ ∀ x ∈ c.cells, x.null = false → ∃ f, x.str = some f ∧ f.uuid.isOk = true := by
  constructor
  · intro h x hx hn
    obtain ⟨f, hf, hp⟩ := pred_uuid c h x hx hn
    exact ⟨f, hf, by simpa [strPred] using hp⟩
  · intro h
    have key : ∀ d : Column, (∀ x ∈ d.cells, x ∈ c.cells ∧ x.null = false) →
        (fun c : Column =>
          let vs := c.cells.map (fun x => match x.str with | some f => f.uuid | none => Outcome.raises "AttributeError")
          match firstRaise vs with
          | some cls => if isA cls "ValueError" || isA cls "TypeError" || isA cls "AttributeError" then (.ok false : R Bool) else .error (escape cls)
          | _ => seriesAll c) d = .ok true := by
      intro d hd
      dsimp only
      split
      · rename_i cls hcls
        obtain ⟨x, hx, hxr⟩ := List.mem_map.mp (firstRaise_some_mem hcls)
        obtain ⟨f, hf, hok⟩ := h x (hd x hx).1 (hd x hx).2
        simp only [hf] at hxr
        rw [hxr] at hok; cases hok
      · simp only [seriesAll, Except.ok.injEq, List.all_eq_true]
        intro x hx
        rw [htruthy x (hd x hx).1 (hd x hx).2]
    simp only [stringIsUuid, handleNulls]
    have hde := dropna_nonempty_of_hasValue hv
    by_cases hn : c.hasnans = true
    · simp only [hn, if_true, hde, Bool.false_eq_true, if_false]
      exact key c.dropna (fun x hx => mem_dropna.mp hx)
    · have hn' : c.hasnans = false := by simpa using hn
      simp only [hn', Bool.false_eq_true, if_false]
      exact key c (fun x hx => ⟨hx, (hasnans_false_iff c).mp hn' x hx⟩)

/-- **e-mail addresses as strings**: accepted iff `FQDA(*s.split('@', 1))` builds for every non-missing value (and the strings are truthy) -/
theorem C07_accepts_string_email (c : Column) (hv : HasValue c)
    (htruthy : ∀ x ∈ c.cells, x.null = false → x.truth = .ok true) :
    stringIsEmail c = .ok true ↔ ∀ x ∈ c.cells, x.null = false → ∃ f, x.str = some f ∧ f.email.isOk = true := by
  constructor
  · intro h x hx hn
    obtain ⟨f, hf, hp⟩ := pred_email c h x hx hn
    exact ⟨f, hf, by simpa [strPred] using hp⟩
  · intro h
    have key : ∀ d : Column, (∀ x ∈ d.cells, x ∈ c.cells ∧ x.null = false) →
        (fun c : Column =>
          let vs := c.cells.map (fun x => match x.str with | some f => f.email | none => Outcome.raises "TypeError")
          match firstRaise vs with
          | some cls => if isA cls "ValueError" || isA cls "TypeError" || isA cls "AttributeError" then (.ok false : R Bool) else .error (escape cls)
          | _ => seriesAll c) d = .ok true := by
      intro d hd
      dsimp only
      split
      · rename_i cls hcls
        obtain ⟨x, hx, hxr⟩ := List.mem_map.mp (firstRaise_some_mem hcls)
        obtain ⟨f, hf, hok⟩ := h x (hd x hx).1 (hd x hx).2
        simp only [hf] at hxr
        rw [hxr] at hok; cases hok
      · simp only [seriesAll, Except.ok.injEq, List.all_eq_true]
        intro x hx
        rw [htruthy x (hd x hx).1 (hd x hx).2]
    simp only [stringIsEmail, handleNulls]
    have hde := dropna_nonempty_of_hasValue hv
    by_cases hn : c.hasnans = true
    · simp only [hn, if_true, hde, Bool.false_eq_true, if_false]
      exact key c.dropna (fun x hx => mem_dropna.mp hx)
    · have hn' : c.hasnans = false := by simpa using hn
      simp only [hn', Bool.false_eq_true, if_false]
      exact key c (fun x hx => ⟨hx, (hasnans_false_iff c).mp hn' x hx⟩)

/-- **geometries as WKT strings**: accepted iff `wkt.loads` gives a truthy geometry for every non-missing value -/
theorem C07_accepts_string_geometry (c : Column) (hv : HasValue c) :
    stringIsGeometry c = .ok true ↔ ∀ x ∈ c.cells, x.null = false → wktTruthy x = true := by
  apply handleNulls_iff c hv
  intro d _
  exact geomGo_iff _ d.cells

end V.C07

/-
  C11 for the numpy back end model: `detect_type`, `infer_type` and the cast data are properties of the bag of elements.
-/
import VProofs.Obligations.NumpyBag
namespace V.NumpyProps
open V V.Gen V.Np

/-- **detect_type is a property of the bag**, for every typeset built from the table: two arrays of the same dtype kind
holding the same elements in any order are detected along the same path (hypothesis: the element class facts of `goodB`) -/
theorem C11_detect_numpy (o : NpOracle) (b : Built Ty) (f : Nat) (a a' : NArr) (hk : a.kind = a'.kind)
    (hp : a.elems.Perm a'.elems) (hw : ∀ x ∈ a.elems, ElemWF a.kind x) :
    (ptraverse (numpyTS o b).idSucc f b.root a).2 = (ptraverse (numpyTS o b).idSucc f b.root a').2 := by
  have l0 := numpyTS_L0 o b
  refine (C11.C11_sim (numpyTS o b).idSucc
    (fun x y => x.kind = y.kind ∧ x.elems.Perm y.elems ∧ ∀ e ∈ x.elems, ElemWF x.kind e) ?_ ?_ f b.root a a' ⟨hk, hp, hw⟩).1
  · intro n r hr x y h
    have ⟨hm, hi⟩ := mem_idSucc.mp hr
    have ⟨hg, _⟩ := l0 n r hm hi
    rw [hg x, hg y]
    exact C11_membership_numpy r.dst x y h.1 h.2.1 h.2.2
  · intro n r hr x y h _
    have ⟨hm, hi⟩ := mem_idSucc.mp hr
    have ⟨_, hxf⟩ := l0 n r hm hi
    rw [hxf x, hxf y]; exact h

/-- **infer_type and the cast data are properties of the bag**: same inference path, cast arrays with the same bag -/
theorem C11_infer_numpy (o : NpOracle) (hdt : DtBagN o) (hdi : ∀ a r, o.dtWhole a = .ok r → InvN r) (b : Built Ty) (f : Nat)
    (a a' : NArr) (hk : a.kind = a'.kind) (hp : a.elems.Perm a'.elems) (hI : InvN a) :
    (ptraverse (numpyTS o b).succ f b.root a).2 = (ptraverse (numpyTS o b).succ f b.root a').2 ∧
    SameBagN (ptraverse (numpyTS o b).succ f b.root a).1 (ptraverse (numpyTS o b).succ f b.root a').1 :=
  infer_bag_np o hdt hdi b f b.root a a' ⟨hk, hp⟩ hI

/-- the hypotheses are satisfiable: an oracle that refuses everything has `DtBagN`; `[1+0j, 2+0j]` has `InvN` -/
def oNo : NpOracle := { dtMasked := fun _ => .raises "ValueError", dtWhole := fun _ => .raises "ValueError" }
def azz : NArr := { kind := .c, elems := [NElem.ofComplex (.fin 1 0) (.fin 0 0), NElem.ofComplex (.fin 2 0) (.fin 0 0)] }
example : DtBagN oNo := ⟨fun _ _ _ r h => (by cases h), fun _ _ _ r h => (by cases h)⟩
example : InvN azz := by
  constructor
  · intro x hx
    simp only [azz, List.mem_cons, List.not_mem_nil, or_false] at hx
    rcases hx with rfl | rfl <;> rfl
  · intro x hx c hc
    simp only [azz, List.mem_cons, List.not_mem_nil, or_false] at hx
    rcases hx with rfl | rfl <;> simp [NElem.ofComplex, NElem.blank] at hc

end V.NumpyProps

/-
  C11 for the numpy back end model: `detect_type`, `infer_type` and the cast data are properties of the bag of elements.
-/
import VProofs.Obligations.NumpyBag
import VProofs.Obligations.NumpyRepeat
namespace V.NumpyProps
open V V.Gen V.Np

/-- **detect_type is a property of the bag**, for every typeset built from the table: two arrays of the same dtype kind
holding the same elements in any order are detected along the same path (hypothesis: the element class facts of `goodB`) -/
theorem C11_detect_numpy (o : NpOracle) (b : Built Ty) (f : Nat) (a a' : NArr) (hk : a.kind = a'.kind)
    (hp : a.elems.Perm a'.elems) (hw : ∀ x ∈ a.elems, ElemWF a.kind x) :
    (ptraverse (numpyTS o b).idSucc f b.root a).2 = (ptraverse (numpyTS o b).idSucc f b.root a').2 := by
  have l0 := numpyTS_L0 o b
  refine (C11.C11_sim (numpyTS o b).idSucc
    (fun x y => x.kind = y.kind ∧ x.elems.Perm y.elems ∧ ∀ e ∈ x.elems, ElemWF x.kind e) ?_ ?_ f b.root a a' ⟨hk, hp, hw⟩).1
  · intro n r hr x y h
    have ⟨hm, hi⟩ := mem_idSucc.mp hr
    have ⟨hg, _⟩ := l0 n r hm hi
    rw [hg x, hg y]
    exact C11_membership_numpy r.dst x y h.1 h.2.1 h.2.2
  · intro n r hr x y h _
    have ⟨hm, hi⟩ := mem_idSucc.mp hr
    have ⟨_, hxf⟩ := l0 n r hm hi
    rw [hxf x, hxf y]; exact h

/-- **infer_type and the cast data are properties of the bag**: same inference path, cast arrays with the same bag -/
theorem C11_infer_numpy (o : NpOracle) (hdt : DtBagN o) (hdi : ∀ a r, o.dtWhole a = .ok r → InvN r) (b : Built Ty) (f : Nat)
    (a a' : NArr) (hk : a.kind = a'.kind) (hp : a.elems.Perm a'.elems) (hI : InvN a) :
    (ptraverse (numpyTS o b).succ f b.root a).2 = (ptraverse (numpyTS o b).succ f b.root a').2 ∧
    SameBagN (ptraverse (numpyTS o b).succ f b.root a).1 (ptraverse (numpyTS o b).succ f b.root a').1 :=
  infer_bag_np o hdt hdi b f b.root a a' ⟨hk, hp⟩ hI

/-- the hypotheses are satisfiable: an oracle that refuses everything has `DtBagN`; `[1+0j, 2+0j]` has `InvN` -/
def oNo : NpOracle := { dtMasked := fun _ => .raises "ValueError", dtWhole := fun _ => .raises "ValueError" }
def azz : NArr := { kind := .c, elems := [NElem.ofComplex (.fin 1 0) (.fin 0 0), NElem.ofComplex (.fin 2 0) (.fin 0 0)] }
example : DtBagN oNo := ⟨fun _ _ _ r h => (by cases h), fun _ _ _ r h => (by cases h)⟩
example : InvN azz := by
  constructor
  · intro x hx
    simp only [azz, List.mem_cons, List.not_mem_nil, or_false] at hx
    rcases hx with rfl | rfl <;> rfl
  · intro x hx c hc
    simp only [azz, List.mem_cons, List.not_mem_nil, or_false] at hx
    rcases hx with rfl | rfl <;> simp [NElem.ofComplex, NElem.blank] at hc

end V.NumpyProps

namespace V.NumpyProps
open V V.Gen V.Np

/-- **detect_type is unchanged by repeating the array**, for every typeset built from the table -/
theorem C11_detect_repeat_numpy (o : NpOracle) (b : Built Ty) (f : Nat) (a : NArr) (k : Nat)
    (hw : ∀ x ∈ a.elems, ElemWF a.kind x) :
    (ptraverse (numpyTS o b).idSucc f b.root (repeatArr a k)).2 = (ptraverse (numpyTS o b).idSucc f b.root a).2 := by
  have l0 := numpyTS_L0 o b
  refine (C11.C11_sim (numpyTS o b).idSucc (fun x y => x = repeatArr y k ∧ ∀ e ∈ y.elems, ElemWF y.kind e) ?_ ?_ f b.root _ a ⟨rfl, hw⟩).1
  · intro n r hr x y h
    have ⟨hm, hi⟩ := mem_idSucc.mp hr
    have ⟨hg, _⟩ := l0 n r hm hi
    rw [hg x, hg y, h.1]
    exact containsB_repeat_np r.dst y k h.2
  · intro n r hr x y h _
    have ⟨hm, hi⟩ := mem_idSucc.mp hr
    have ⟨_, hxf⟩ := l0 n r hm hi
    rw [hxf x, hxf y]; exact h

/-- **infer_type is unchanged by repeating the array, and the cast of the repetition is the repetition of the cast**
(hypotheses: `InvN` on the array — the element facts of `goodB` —, and `pd.to_datetime` parses element by element) -/
theorem C11_infer_repeat_numpy (o : NpOracle) (hd : DtRepN o) (hdi : ∀ a r, o.dtWhole a = .ok r → InvN r) (b : Built Ty)
    (f : Nat) (a : NArr) (k : Nat) (hI : InvN a) :
    (ptraverse (numpyTS o b).succ f b.root (repeatArr a k)).2 = (ptraverse (numpyTS o b).succ f b.root a).2 ∧
    (ptraverse (numpyTS o b).succ f b.root (repeatArr a k)).1 = repeatArr (ptraverse (numpyTS o b).succ f b.root a).1 k := by
  have l0 := numpyTS_L0 o b
  have key := C11.C11_sim (numpyTS o b).succ (fun x y => x = repeatArr y k ∧ InvN y) ?_ ?_ f b.root (repeatArr a k) a ⟨rfl, hI⟩
  · exact ⟨key.1, key.2.1⟩
  · intro n r hr x y h
    by_cases hi : r.inferential = true
    · rcases inf_rel_specN hr hi with ⟨g, t, hgd, _, hiff, _⟩ | ⟨_, hnone⟩
      · rw [Bool.eq_iff_iff, hiff x, hiff y, h.1, guard_repeat o hd n r.dst g hgd y k]
      · rw [hnone x, hnone y]
    · have hi' : r.inferential = false := by simpa using hi
      rw [(l0 n r hr hi').1 x, (l0 n r hr hi').1 y, h.1]
      exact containsB_repeat_np r.dst y k (fun e he => elemWF_of (h.2.1 e he))
  · intro n r hr x y h hgx
    by_cases hi : r.inferential = true
    · rcases inf_rel_specN hr hi with ⟨g, t, _, htd, _, hxf⟩ | ⟨_, hnone⟩
      · rw [hxf x, hxf y, h.1, xform_repeat o hd n r.dst t htd y k]
        cases hty : t y with
        | ok d => exact ⟨rfl, xform_invN o hdi n r.dst t htd y d h.2 hty⟩
        | error e => exact ⟨rfl, h.2⟩
      · rw [hnone x] at hgx; cases hgx
    · have hi' : r.inferential = false := by simpa using hi
      rw [(l0 n r hr hi').2 x, (l0 n r hr hi').2 y]; exact h

end V.NumpyProps

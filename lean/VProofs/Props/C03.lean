/-
  C03 — Inference is sound: the cast data is exactly of the inferred type.
-/
import VProofs.Lemmas.Pure
namespace V.C03
open V

variable {T D : Type}

/-- **C03_infer_sound** (L0, L1, L2, L3): the cast datum is contained in the inferred type, and
detecting the cast datum (identity relations only, from the root) yields exactly the inferred type
and returns the datum unchanged. -/
theorem C03_infer_sound (ts : TS T D) {I : D → Prop} (wf : ts.WF I) (root : T) (hroot : ∀ t, IdPath ts root t)
    (f : Nat) (hf : ts.h root < f) (x : D) (hI : I x) (hx : ts.contains root x = true) :
    let res := ptraverse ts.succ f root x
    let t := plast root res.2
    ts.contains t res.1 = true ∧
    (ptraverse ts.idSucc f root res.1).1 = res.1 ∧
    plast root (ptraverse ts.idSucc f root res.1).2 = t :=
  infer_sound ts wf root hroot f hf x hI hx

/-- every coercion taken on the way lands inside its target type: the datum is in every type of
the path at the moment it is reached (stated for the end point by `C03_infer_sound`; for every
prefix by applying it to the shorter walk) -/
theorem C03_lands_step (ts : TS T D) {I : D → Prop} (wf : ts.WF I) (n : T) (r : PRel T D) (x : D)
    (hr : r ∈ ts.succ n) (hI : I x) (hc : ts.contains n x = true) (hg : r.guard x = true) :
    ts.contains r.dst (r.xform x) = true := wf.lands n r x hr hI hc hg

end V.C03

/-
  C03 — Inference is sound: the cast data is exactly of the inferred type.
-/
import VProofs.Lemmas.Pure
import VProofs.Obligations.PandasLands
namespace V.C03
open V

variable {T D : Type}

/-- **C03_infer_sound** (L0, L1, L2, L3): the cast datum is contained in the inferred type, and
detecting the cast datum (identity relations only, from the root) yields exactly the inferred type
and returns the datum unchanged. -/
theorem C03_infer_sound (ts : TS T D) {I : D → Prop} (wf : ts.WF I) (root : T) (N : T → Prop) (hN : Nodes ts N root)
    (f : Nat) (hf : ts.h root < f) (x : D) (hI : I x) (hx : ts.contains root x = true) :
    let res := ptraverse ts.succ f root x
    let t := plast root res.2
    ts.contains t res.1 = true ∧
    (ptraverse ts.idSucc f root res.1).1 = res.1 ∧
    plast root (ptraverse ts.idSucc f root res.1).2 = t :=
  infer_sound ts wf root N hN f hf x hI hx

/-- every coercion taken on the way lands inside its target type: the datum is in every type of
the path at the moment it is reached (stated for the end point by `C03_infer_sound`; for every
prefix by applying it to the shorter walk) -/
theorem C03_lands_step (ts : TS T D) {I : D → Prop} (wf : ts.WF I) (n : T) (r : PRel T D) (x : D)
    (hr : r ∈ ts.succ n) (hI : I x) (hc : ts.contains n x = true) (hg : r.guard x = true) :
    ts.contains r.dst (r.xform x) = true := wf.lands n r x hr hI hc hg

end V.C03

namespace V.C03
open V V.Gen V.Pd

/-- **C03_lands_pandas** (L3): for every one of the 14 inference relations of the generated table,
on every column of its source type: if the relation's test accepts and its transformer returns, the
result is contained in the target type — under the named hypotheses `LandsHyp` (a complex cell is
missing iff its payload is NaN; a `str` element is never missing; `pd.to_datetime` on the whole
column finds a timestamp). -/
theorem C03_lands_pandas (o : ColOracle) (src dst : Ty) (g : Column → R Bool) (t : Column → R Column)
    (hg : Pd.guard o src dst = some g) (ht : Pd.xform o src dst = some t)
    (c c' : Column) (hyp : LandsHyp o c) (hsrc : containsB src c = true)
    (hacc : g c = .ok true) (hx : t c = .ok c') : containsB dst c' = true :=
  lands_pandas o src dst g t hg ht c c' hyp hsrc hacc hx

/-! non-vacuity: the property's own example — '1.0' → 1.0 → 1 — and 1.5 stays a Float -/
example : floatToInteger ⟨.fam .float, [Cell.ofFloat (.fin 1 0)], ["0"], "None"⟩
    = .ok ⟨.fam .int, [Cell.ofInt 1], ["0"], "None"⟩ := by rfl

end V.C03

/-
  C15 — Refinement: a smaller typeset yields the projection of the larger one's answer.
  Engine theorems for any well-formed type system `B` and any parent-closed sub-typeset `A`
  (the restriction of `B`'s relation graph to the types of `A`).
-/
import VProofs.Lemmas.Refine
namespace V.C15
open V

variable {T D : Type}

/-- **C15_detect**: the detection path of `A` is a prefix of that of `B`, consists of types of
`A`, and no later type of `B`'s path belongs to `A`: `detect_A(x)` is the deepest type of `B`'s
detection path that lies in `A`. -/
theorem C15_detect (ts : TS T D) {I : D → Prop} (wf : ts.WF I) (A : T → Bool) (pc : ParentClosed ts A)
    (root : T) (f : Nat) (hf : ts.h root < f) (x : D) (hI : I x) (hx : ts.contains root x = true)
    (hroot : A root = true) :
    let pA := (ptraverse (ts.restrict A).idSucc f root x).2
    let pB := (ptraverse ts.idSucc f root x).2
    pA <+: pB ∧ (∀ t ∈ pB, A t = true → t ∈ pA) ∧ (∀ t ∈ pA, A t = true) :=
  detect_refines ts wf A pc f root x hf hI hx hroot

/-- **C15_infer**: the inference walk of `A` is a prefix of the inference walk of `B` with the
same data along it, and `B`'s walk is the continuation, from `A`'s answer and `A`'s cast data, along
`B`'s relations: `infer_B(x)` is reachable from `infer_A(x)`. -/
theorem C15_infer (ts : TS T D) {I : D → Prop} (wf : ts.WF I) (A : T → Bool)
    (root : T) (f : Nat) (hf : ts.h root < f) (x : D) (hI : I x) (hx : ts.contains root x = true) :
    let rA := ptraverse (ts.restrict A).succ f root x
    let rB := ptraverse ts.succ f root x
    rA.2 <+: rB.2 ∧
    ptraverse ts.succ f (plast root rA.2) rA.1 = (rB.1, rB.2.drop (rA.2.length - 1)) :=
  infer_refines ts wf A f root x hf hI hx

end V.C15

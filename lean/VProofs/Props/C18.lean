/-
  C18 — Sampled traversal is sound.

  `traverseSampled` takes the sampler as an arbitrary function, so every theorem holds for every
  possible random draw.  (The code this models is the repaired one — see DESIGN §12: the pinned tree
  returned `path[0:i+2]`, which includes the target of a hop the full series failed.)
-/
import VProofs.Lemmas.Full
namespace V.C18
open V

variable {T D S : Type}

/-- under 1000 rows, or with a sample larger than the data, sampled traversal *is* full traversal -/
theorem C18_small (g : Graph T D S) (rel : T → T → Option (Rel T D S)) (sample : D → D) (len : D → Nat)
    (fuel : Nat) (base : T) (x : D) (k : Nat) (s : S) (h : len x < 1000 ∨ k > len x) :
    traverseSampled g rel sample len fuel base x k s = traverse g fuel base x s [] := by
  simp only [traverseSampled]
  have : (decide (len x < 1000) || decide (k > len x)) = true := by
    rcases h with h | h <;> simp [h]
  rw [if_pos this]

/-- **C18_sound.**  In the sampling branch, whatever is returned `(d, p, s')`:
  * `p = base :: hops` is a prefix of the path found on the sample;
  * the full data `x` has been pushed through exactly the relations along `hops`, each of whose
    guards accepted the full data as it was at that point (`Through`);
  hence no type is reported whose relation the full data failed. -/
theorem C18_sound (g : Graph T D S) (rel : T → T → Option (Rel T D S)) (sample : D → D) (len : D → Nat)
    (fuel : Nat) (base : T) (x : D) (k : Nat) (s : S) (hbig : ¬ (len x < 1000 ∨ k > len x))
    (d : D) (p : List T) (s' : S)
    (h : traverseSampled g rel sample len fuel base x k s = .ok (d, p, s')) :
    ∃ (ds : D) (ps : List T) (s1 : S) (hops : List T) (sEnd : S),
      traverse g fuel base (sample x) s [] = .ok (ds, ps, s1) ∧
      p <+: ps ∧ p = base :: hops ∧ Through rel base x s1 hops d sEnd := by
  simp only [traverseSampled] at h
  have : (decide (len x < 1000) || decide (k > len x)) = false := by
    have h1 : ¬ len x < 1000 := fun h => hbig (Or.inl h)
    have h2 : ¬ k > len x := fun h => hbig (Or.inr h)
    simp [h1, h2]
  rw [if_neg (by rw [this]; simp)] at h
  cases ht : traverse g fuel base (sample x) s [] with
  | error e => rw [ht] at h; cases h
  | ok v =>
    obtain ⟨ds, path, s1⟩ := v
    rw [ht] at h
    simp only at h
    -- the sample's path starts with `base`
    obtain ⟨q, hq, hrun⟩ := traverse_run g fuel base (sample x) s [] ds path s1 ht
    simp only [List.nil_append] at hq
    have hhead : ∃ rest, path = base :: rest := by
      rw [hq]
      cases hrun with
      | stop _ => exact ⟨[], rfl⟩
      | step _ _ => exact ⟨_, rfl⟩
    obtain ⟨rest, hpath⟩ := hhead
    subst hpath
    split at h
    · -- path of length one: nothing to replay
      rename_i hlen
      simp only [Except.ok.injEq, Prod.mk.injEq] at h
      obtain ⟨rfl, rfl, rfl⟩ := h
      have : rest = [] := by
        simp at hlen; exact hlen
      subst this
      exact ⟨ds, [base], s1, [], s1, rfl, List.prefix_refl _, rfl, Through.nil⟩
    · obtain ⟨done, sEnd, hp, hpre, hth⟩ := replayPath_through rel rest base x s1 [base] d p s' h
      refine ⟨ds, base :: rest, s1, done, sEnd, rfl, ?_, hp, hth⟩
      rw [hp]
      exact List.cons_prefix_cons.mpr ⟨rfl, hpre⟩

/-- the returned data belongs to the last reported type, provided every accepted relation lands
in its target (L3, and L0 for identity relations) and the input belongs to the start type -/
theorem C18_lands (rel : T → T → Option (Rel T D S)) (contains : T → D → Prop)
    (lands : ∀ a b r x s s1 x' s2, rel a b = some r → contains a x → r.guard x s = .ok (true, s1) →
      r.xform x s1 = .ok (x', s2) → contains b x')
    (base : T) (x : D) (s1 : S) (hops : List T) (d : D) (sEnd : S)
    (hth : Through rel base x s1 hops d sEnd) (hc : contains base x) :
    contains ((base :: hops).getLast (by simp)) d :=
  through_lands rel contains lands hth hc

end V.C18

/-
  C17 — Spark columns are typed from their schema alone.

  The Spark `contains_op` table is regenerated from the source on every run
  (`Generated/SparkTable.lean`: which `pyspark.sql.types` classes each registered *and imported*
  predicate accepts, and that every predicate body reads nothing but `.schema`).  `sparkContains`
  and `sparkDetect` take the column's data type class as their only data argument, so independence
  of rows, nullability, column name and position holds by construction of the model and is what
  the Spark correspondence runner checks of the code.  Partial: "triggers no Spark job" is runtime
  behaviour, observed by the runner, not provable here.
-/
import VModel.Spark
import VModel.Generated.Typesets
import VProofs.Props.C14
import VProofs.Lemmas.Refine
import VProofs.Obligations.PandasTypeset
import VProofs.Props.C01
namespace V.C17
open V V.Gen

/-- the documented mapping (README / property text) -/
def docType : SparkTy → Ty
  | .ByteType | .ShortType | .IntegerType | .LongType => .Integer
  | .FloatType | .DoubleType | .DecimalType => .Float
  | .BooleanType => .Boolean
  | .StringType => .String
  | .DateType => .Date
  | .TimestampType => .DateTime
  | .ArrayType | .MapType | .StructType => .Object
  | _ => .Generic

def parentOf (t : Ty) : Option Ty := ((declared t).find? (fun r => !r.inferential)).map (·.src)

/-- identity ancestors of `t`, nearest first (`t` itself included) -/
def ancestors : Nat → Ty → List Ty
  | 0, t => [t]
  | f + 1, t => match parentOf t with
    | none => [t]
    | some p => t :: ancestors f p

/-- the nearest identity ancestor of `t` (or `t` itself) that belongs to `S` -/
def nearest (S : List Ty) (t : Ty) : Ty := ((ancestors 24 t).find? (fun a => S.contains a)).getD Ty.Generic

/-- every registered Spark predicate reads only the schema (AST check by the translator) -/
theorem C17_schema_only : sparkSchemaOnly = true := by decide

/-- **the Spark predicates are nested sets forming a chain**: for every Spark data type, the
shipped types that contain a column of that type are exactly the documented type and its identity
ancestors (L1 and L2 for the Spark backend, over the 22 types of CompleteSet; the umbrella types
Numeric and Sparse belong to no shipped typeset and overlap their siblings by definition) -/
theorem C17_table (dt : SparkTy) (t : Ty) :
    t ∈ completeSet → (sparkContains t dt = true ↔ t ∈ ancestors 24 (docType dt)) := by
  cases dt <;> cases t <;> decide

def builtOf (S : List Ty) : Option (Built Ty) := (mkTypeset declared isGeneric S).toOption

/-- **C17_mapping** for the typesets of the property's quantifier (StandardSet, StandardSet plus
Date and/or DateTime-bearing sets, GeometrySet, CompleteSet), exhaustively over every Spark data
type constructor: detection yields the documented type, or its nearest included ancestor -/
theorem C17_mapping_standard (dt : SparkTy) :
    (builtOf standardSet).map (fun b => sparkDetectType b dt) = some (nearest standardSet (docType dt)) := by
  cases dt <;> decide
theorem C17_mapping_standard_date (dt : SparkTy) :
    (builtOf (standardSet ++ [Ty.Date])).map (fun b => sparkDetectType b dt)
      = some (nearest (standardSet ++ [Ty.Date]) (docType dt)) := by
  cases dt <;> decide
theorem C17_mapping_geometry (dt : SparkTy) :
    (builtOf geometrySet).map (fun b => sparkDetectType b dt) = some (nearest geometrySet (docType dt)) := by
  cases dt <;> decide
theorem C17_mapping_complete (dt : SparkTy) :
    (builtOf completeSet).map (fun b => sparkDetectType b dt) = some (nearest completeSet (docType dt)) := by
  cases dt <;> decide

/-- in CompleteSet nothing is lost: the answer *is* the documented type -/
theorem C17_complete_exact (dt : SparkTy) : nearest completeSet (docType dt) = docType dt := by
  cases dt <;> decide

/-- **supply order is irrelevant**: at most one identity child of any type accepts a given Spark
data type (whole table), so by `ptraverse_perm` any permutation of the adjacency lists gives the
same path -/
theorem C17_mutex (n : Ty) (dt : SparkTy) :
    ((completeSet.filter (fun c => parentOf c == some n)).filter (fun c => sparkContains c dt)).length ≤ 1 := by
  cases n <;> cases dt <;> decide

/-- the cast result is the DataFrame itself: detection uses identity relations only, whose
transformer is the identity, so the data component is unchanged -/
theorem C17_identity (b : Built Ty) (dt : SparkTy) :
    (ptraverse (sparkSucc b) 64 b.root dt).1 = dt := by
  suffices ∀ f n, (ptraverse (sparkSucc b) f n dt).1 = dt from this _ _
  intro f
  induction f with
  | zero => intro n; rfl
  | succ f ih =>
    intro n
    simp only [ptraverse]
    cases hfa : pfirst (sparkSucc b n) dt with
    | none => rfl
    | some r =>
      have hmem : r ∈ sparkSucc b n := List.mem_of_find?_eq_some hfa
      simp only [sparkSucc, List.mem_map] at hmem
      obtain ⟨e, _, rfl⟩ := hmem
      exact ih e.dst

/-! ### the general statement: EVERY parent-closed typeset -/

/-- the Spark back end as a type system over identity relations -/
def sparkTS (b : Built Ty) : TS Ty SparkTy :=
  { succ := sparkSucc b, contains := sparkContains, h := fun t => 32 - rank t }

theorem sparkTS_L0 (b : Built Ty) : (sparkTS b).L0 := by
  intro n r hr _
  simp only [sparkTS, sparkSucc, List.mem_map] at hr
  obtain ⟨e, _, rfl⟩ := hr
  exact ⟨fun _ => rfl, fun _ => rfl⟩

theorem sparkTS_idSucc (b : Built Ty) : (sparkTS b).idSucc = sparkSucc b := by
  funext n
  simp only [TS.idSucc, pbase, sparkTS]
  apply List.filter_eq_self.mpr
  intro r hr
  simp only [sparkSucc, List.mem_map] at hr
  obtain ⟨e, _, rfl⟩ := hr
  rfl

theorem sparkTS_height (b : Built Ty) (hrank : ∀ e ∈ b.edges, rank e.src < rank e.dst) :
    ∀ n r, r ∈ (sparkTS b).succ n → (sparkTS b).h r.dst < (sparkTS b).h n := by
  intro n r hr
  simp only [sparkTS, sparkSucc, List.mem_map, List.mem_filter, Built.baseEdges] at hr
  obtain ⟨e, ⟨⟨he, _⟩, hs⟩, rfl⟩ := hr
  have hsrc : e.src = n := by simpa using hs
  have := hrank e he
  have h1 := Pd.rank_le e.dst
  show 32 - rank e.dst < 32 - rank n
  rw [← hsrc]; omega

theorem parentOf_decl {c t : Ty} (h : parentOf c = some t) : (⟨t, false⟩ : RelDecl Ty) ∈ declared c := by
  simp only [parentOf, Option.map_eq_some_iff] at h
  obtain ⟨r, hr, rfl⟩ := h
  have hm := List.mem_of_find?_eq_some hr
  have hp := List.find?_some hr
  have : r.inferential = false := by simpa using hp
  cases r with
  | mk src inf => simp only at this; subst this; exact hm

/-- **C17, for every typeset**: for EVERY duplicate-free parent-closed supply list `S` of the 22 types containing Generic (any
order) and EVERY Spark data type, the type detected for a column of that data type (i) belongs to `S`, (ii) is the documented
type or one of its identity ancestors, and (iii) no identity child of it within `S` is — i.e. it is the nearest ancestor of
the documented type that the typeset includes.  (The quantifier over rows, nullability, column name and position is vacuous
in the model: they are not arguments of `sparkContains`; the runner varies them on the real code.) -/
theorem C17_general (S : List Ty) (nd : S.Nodup) (hg : Ty.Generic ∈ S) (pc : ParentClosedL declared S)
    (hsub : ∀ t ∈ S, t ∈ completeSet) (dt : SparkTy) :
    ∃ b, mkTypeset declared isGeneric S = .ok b ∧
      let t := sparkDetectType b dt
      t ∈ S ∧ t ∈ ancestors 24 (docType dt) ∧
      (∀ c ∈ S, parentOf c = some t → c ∉ ancestors 24 (docType dt)) := by
  obtain ⟨b, hb, hr, _, ft, _⟩ := Pd.built_typeset ⟨fun _ => .raises "x"⟩ S nd hg pc hsub
  obtain ⟨b1, hb1, _, hr1, _, he, _⟩ := buildGraph_closed C14.tableWF S nd hg pc
  have e1 : b = b1 := by
    have : mkTypeset declared isGeneric S = .ok b1 := by simp only [mkTypeset, hb1, hr1]; rfl
    rw [hb] at this; exact (Except.ok.inj this)
  have hedges : b.edges = presentEdges declared S := by rw [e1]; exact he
  refine ⟨b, hb, ?_⟩
  have hroot : sparkContains b.root dt = true := by rw [hr]; cases dt <;> decide
  have h := C01.C01_detect (sparkTS b) (sparkTS_L0 b) (sparkTS_height b ft.rank) b.root 64
    (by show 32 - rank b.root < 64; omega) dt hroot
  rw [sparkTS_idSucc] at h
  obtain ⟨_, _, hall, _, hmost⟩ := h
  -- the walk stays inside S
  have hstep : ∀ n r, n ∈ S → r ∈ (sparkTS b).succ n → r.dst ∈ S := by
    intro n r _ hr'
    simp only [sparkTS, sparkSucc, List.mem_map, List.mem_filter, Built.baseEdges] at hr'
    obtain ⟨e, ⟨⟨he', _⟩, _⟩, rfl⟩ := hr'
    rw [hedges] at he'
    exact (mem_presentEdges.mp he').1
  have hrootS : b.root ∈ S := by rw [hr]; exact hg
  have hlast : plast b.root (ptraverse (sparkSucc b) 64 b.root dt).2 ∈ S :=
    plast_in_nodes (sparkTS b) (· ∈ S) hstep 64 b.root dt hrootS
  have hdet : sparkDetectType b dt = plast b.root (ptraverse (sparkSucc b) 64 b.root dt).2 := rfl
  rw [hdet]
  refine ⟨hlast, ?_, ?_⟩
  · have hc := hall _ (plast_mem b.root _ (ptraverse_path_ne_nil _ _ _ _))
    exact (C17_table dt _ (hsub _ hlast)).mp hc
  · intro c hcS hpar hanc
    -- the identity edge answer -> c is in the typeset, so the walk would not have stopped
    have hdecl := parentOf_decl hpar
    have hedge : (⟨plast b.root (ptraverse (sparkSucc b) 64 b.root dt).2, c, false⟩ : Edge Ty) ∈ b.edges := by
      rw [hedges]; exact mem_presentEdges.mpr ⟨hcS, hlast, hdecl⟩
    have hrel : ({ src := plast b.root (ptraverse (sparkSucc b) 64 b.root dt).2, dst := c, inferential := false,
                   guard := fun d => sparkContains c d, xform := id } : PRel Ty SparkTy) ∈
        sparkSucc b (plast b.root (ptraverse (sparkSucc b) 64 b.root dt).2) := by
      simp only [sparkSucc, List.mem_map, List.mem_filter, Built.baseEdges]
      exact ⟨_, ⟨⟨hedge, rfl⟩, by simp⟩, rfl⟩
    have := hmost _ hrel
    have hc := (C17_table dt c (hsub c hcS)).mpr hanc
    simp only [sparkTS] at this
    rw [hc] at this; cases this

end V.C17

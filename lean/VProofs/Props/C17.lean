/-
  C17 — Spark columns are typed from their schema alone.

  The Spark `contains_op` table is regenerated from the source on every run
  (`Generated/SparkTable.lean`: which `pyspark.sql.types` classes each registered *and imported*
  predicate accepts, and that every predicate body reads nothing but `.schema`).  `sparkContains`
  and `sparkDetect` take the column's data type class as their only data argument, so independence
  of rows, nullability, column name and position holds by construction of the model and is what
  the Spark correspondence runner checks of the code.  Partial: "triggers no Spark job" is runtime
  behaviour, observed by the runner, not provable here.
-/
import VModel.Spark
import VModel.Generated.Typesets
import VProofs.Props.C14
import VProofs.Lemmas.Refine
namespace V.C17
open V V.Gen

/-- the documented mapping (README / property text) -/
def docType : SparkTy → Ty
  | .ByteType | .ShortType | .IntegerType | .LongType => .Integer
  | .FloatType | .DoubleType | .DecimalType => .Float
  | .BooleanType => .Boolean
  | .StringType => .String
  | .DateType => .Date
  | .TimestampType => .DateTime
  | .ArrayType | .MapType | .StructType => .Object
  | _ => .Generic

def parentOf (t : Ty) : Option Ty := ((declared t).find? (fun r => !r.inferential)).map (·.src)

/-- identity ancestors of `t`, nearest first (`t` itself included) -/
def ancestors : Nat → Ty → List Ty
  | 0, t => [t]
  | f + 1, t => match parentOf t with
    | none => [t]
    | some p => t :: ancestors f p

/-- the nearest identity ancestor of `t` (or `t` itself) that belongs to `S` -/
def nearest (S : List Ty) (t : Ty) : Ty := ((ancestors 24 t).find? (fun a => S.contains a)).getD Ty.Generic

/-- every registered Spark predicate reads only the schema (AST check by the translator) -/
theorem C17_schema_only : sparkSchemaOnly = true := by decide

/-- **the Spark predicates are nested sets forming a chain**: for every Spark data type, the
shipped types that contain a column of that type are exactly the documented type and its identity
ancestors (L1 and L2 for the Spark backend, over the 22 types of CompleteSet; the umbrella types
Numeric and Sparse belong to no shipped typeset and overlap their siblings by definition) -/
theorem C17_table (dt : SparkTy) (t : Ty) :
    t ∈ completeSet → (sparkContains t dt = true ↔ t ∈ ancestors 24 (docType dt)) := by
  cases dt <;> cases t <;> decide

def builtOf (S : List Ty) : Option (Built Ty) := (mkTypeset declared isGeneric S).toOption

/-- **C17_mapping** for the typesets of the property's quantifier (StandardSet, StandardSet plus
Date and/or DateTime-bearing sets, GeometrySet, CompleteSet), exhaustively over every Spark data
type constructor: detection yields the documented type, or its nearest included ancestor -/
theorem C17_mapping_standard (dt : SparkTy) :
    (builtOf standardSet).map (fun b => sparkDetectType b dt) = some (nearest standardSet (docType dt)) := by
  cases dt <;> decide
theorem C17_mapping_standard_date (dt : SparkTy) :
    (builtOf (standardSet ++ [Ty.Date])).map (fun b => sparkDetectType b dt)
      = some (nearest (standardSet ++ [Ty.Date]) (docType dt)) := by
  cases dt <;> decide
theorem C17_mapping_geometry (dt : SparkTy) :
    (builtOf geometrySet).map (fun b => sparkDetectType b dt) = some (nearest geometrySet (docType dt)) := by
  cases dt <;> decide
theorem C17_mapping_complete (dt : SparkTy) :
    (builtOf completeSet).map (fun b => sparkDetectType b dt) = some (nearest completeSet (docType dt)) := by
  cases dt <;> decide

/-- in CompleteSet nothing is lost: the answer *is* the documented type -/
theorem C17_complete_exact (dt : SparkTy) : nearest completeSet (docType dt) = docType dt := by
  cases dt <;> decide

/-- **supply order is irrelevant**: at most one identity child of any type accepts a given Spark
data type (whole table), so by `ptraverse_perm` any permutation of the adjacency lists gives the
same path -/
theorem C17_mutex (n : Ty) (dt : SparkTy) :
    ((completeSet.filter (fun c => parentOf c == some n)).filter (fun c => sparkContains c dt)).length ≤ 1 := by
  cases n <;> cases dt <;> decide

/-- the cast result is the DataFrame itself: detection uses identity relations only, whose
transformer is the identity, so the data component is unchanged -/
theorem C17_identity (b : Built Ty) (dt : SparkTy) :
    (ptraverse (sparkSucc b) b.nodes.length b.root dt).1 = dt := by
  suffices ∀ f n, (ptraverse (sparkSucc b) f n dt).1 = dt from this _ _
  intro f
  induction f with
  | zero => intro n; rfl
  | succ f ih =>
    intro n
    simp only [ptraverse]
    cases hfa : pfirst (sparkSucc b n) dt with
    | none => rfl
    | some r =>
      have hmem : r ∈ sparkSucc b n := List.mem_of_find?_eq_some hfa
      simp only [sparkSucc, List.mem_map] at hmem
      obtain ⟨e, _, rfl⟩ := hmem
      exact ih e.dst

end V.C17

/-
  C02 — Decidable traversal: the answer does not depend on type enumeration order.
-/
import VProofs.Lemmas.Pure
import VProofs.Lemmas.PandasL
import VProofs.Obligations.PandasMutex
namespace V.C02
open V

variable {T D : Type}

/-- **C02_order_indep**: if at every configuration visited at most one outgoing relation accepts
(sibling exclusivity), then for any two orders of every adjacency list — i.e. for every order in
which the typeset's types and relations happen to be enumerated — the traversal returns the same
data and the same path. -/
theorem C02_order_indep (ts : TS T D) {I : D → Prop} (wf : ts.WF I) (s₂ : T → List (PRel T D))
    (hp : ∀ n, (ts.succ n).Perm (s₂ n)) (f : Nat) (n : T) (x : D) (hI : I x) (hx : ts.contains n x = true) :
    ptraverse ts.succ f n x = ptraverse s₂ f n x :=
  ptraverse_perm ts.succ s₂ (fun n x => I x ∧ ts.contains n x = true) hp
    (fun n x h => wf.mutex n x h.1 h.2)
    (fun n x r h hr hg => ⟨wf.closed n r x hr h.1 h.2 hg, wf.lands n r x hr h.1 h.2 hg⟩)
    f n x ⟨hI, hx⟩

/-! ### sibling exclusivity at `Generic` for the pandas backend: dtype families are disjoint -/
open V.Gen V.Pd

/-- what membership of each child of `Generic` says about the dtype -/
def dtypePred : Ty → DKind → Bool
  | .Boolean => fun d => d.isBool && !d.isCategorical
  | .Categorical => fun d => d.isCategorical
  | .Complex => fun d => d.isComplex
  | .DateTime => fun d => d.isDatetime
  | .Float => fun d => d.isFloat
  | .Integer => fun d => d.isInteger
  | .TimeDelta => fun d => d.isTimedelta
  | .Object => fun d => d.isObject || (d.isStringNonObject && !d.isCategorical)
  | _ => fun _ => false

def genericChildren : List Ty := [.Boolean, .Categorical, .Complex, .DateTime, .Float, .Integer, .TimeDelta, .Object]

theorem contains_dtypePred (t : Ty) (ht : t ∈ genericChildren) (c : Column) (h : containsB t c = true) :
    dtypePred t c.dtype = true := by
  simp only [genericChildren, List.mem_cons, List.not_mem_nil, or_false] at ht
  rcases ht with rfl | rfl | rfl | rfl | rfl | rfl | rfl | rfl
  · exact ((handle_dtype (fun d => d.isBool && !d.isCategorical) c).mp h).2
  · exact (notEmptyB_true (f := fun c => c.dtype.isCategorical) h).2
  · exact (notEmptyB_true (f := fun c => c.dtype.isComplex) h).2
  · exact ((handle_dtype (fun d => d.isDatetime) c).mp h).2
  · exact ((handle_dtype (fun d => d.isFloat) c).mp h).2
  · exact (notEmptyB_true (f := fun c => c.dtype.isInteger) h).2
  · exact (notEmptyB_true (f := fun c => c.dtype.isTimedelta) h).2
  · simp only [containsB, objectContains, notSparseB] at h
    have ⟨_, h2⟩ := handle_notEmpty_true h
    simp only [dtypePred]
    rcases h2 with ⟨_, h3⟩ | ⟨_, h3⟩
    · rw [dropna_dtype] at h3
      cases ho : c.dtype.isObject <;> simp_all
    · cases ho : c.dtype.isObject <;> simp_all

/-- the dtype table (regenerated from the installed pandas) is a partition w.r.t. these predicates -/
theorem dtype_partition (d : DKind) (t₁ t₂ : Ty) (h₁ : t₁ ∈ genericChildren) (h₂ : t₂ ∈ genericChildren)
    (hne : t₁ ≠ t₂) : ¬ (dtypePred t₁ d = true ∧ dtypePred t₂ d = true) := by
  simp only [genericChildren, List.mem_cons, List.not_mem_nil, or_false] at h₁ h₂
  cases d with
  | object => rcases h₁ with rfl | rfl | rfl | rfl | rfl | rfl | rfl | rfl <;>
      rcases h₂ with rfl | rfl | rfl | rfl | rfl | rfl | rfl | rfl <;> first | (exact absurd rfl hne) | decide
  | fam f =>
    rcases h₁ with rfl | rfl | rfl | rfl | rfl | rfl | rfl | rfl <;>
      rcases h₂ with rfl | rfl | rfl | rfl | rfl | rfl | rfl | rfl <;>
      first | (exact absurd rfl hne) | (cases f <;> decide)

/-- **C02_mutex_generic_pandas**: no pandas column belongs to two children of `Generic` -/
theorem C02_mutex_generic_pandas (c : Column) (t₁ t₂ : Ty) (h₁ : t₁ ∈ genericChildren)
    (h₂ : t₂ ∈ genericChildren) (hne : t₁ ≠ t₂) :
    ¬ (containsB t₁ c = true ∧ containsB t₂ c = true) := by
  rintro ⟨a, b⟩
  exact dtype_partition c.dtype t₁ t₂ h₁ h₂ hne ⟨contains_dtypePred t₁ h₁ c a, contains_dtypePred t₂ h₂ c b⟩

end V.C02

namespace V.C02
open V V.Gen V.Pd

/-- **C02_mutex_object_pandas**: at `Object` no two of the ten outgoing relations (String, Date, Time, URL, UUID,
EmailAddress, Path, Geometry, IPAddress by membership; Boolean by its inference test) accept a column with a
value, given that no cell has two of the class properties at once (`HeadExcl`, facts about CPython classes) -/
theorem C02_mutex_object_pandas (c : Column) (hv : HasValue c) (hdc : DtypeCells c)
    (hex : ∀ x ∈ c.cells, x.null = false → HeadExcl x)
    (d₁ d₂ : Ty) (h₁ : d₁ ∈ objChildren) (h₂ : d₂ ∈ objChildren) (hne : d₁ ≠ d₂) :
    ¬ (acceptsObj d₁ c ∧ acceptsObj d₂ c) := mutex_object c hv hdc hex d₁ d₂ h₁ h₂ hne

/-- **C02_mutex_string_pandas**: at `String` no two of the ten inference relations accept, *given* that the
element parsers and `pd.to_datetime` accept disjoint sets of strings (`StrExcl`, `FloatComplex`, `DtExcl`) -/
theorem C02_mutex_string_pandas (o : ColOracle) (c : Column) (hv : HasValue c) (hsn : StrNotNull c)
    (hex : ∀ x ∈ c.cells, ∀ f, x.str = some f → StrExcl f ∧ FloatComplex f) (hdt : DtExcl o c)
    (d₁ d₂ : Ty) (h₁ : d₁ ∈ .DateTime :: strParsers) (h₂ : d₂ ∈ .DateTime :: strParsers) (hne : d₁ ≠ d₂) :
    ¬ (acceptsStr o d₁ c ∧ acceptsStr o d₂ c) := mutex_string o c hv hsn hex hdt d₁ d₂ h₁ h₂ hne

/-- the parser-disjointness hypothesis is *false* for particular strings — known finding F10: for the facts of
`'1'*32` (a float literal and a UUID) both String→Float and String→UUID accept the one-row column -/
def factsF10 : StrFacts :=
  { boolKey := none, floatVal := .ok (.fin 11111111111111111111111111111111 0), firstIsZero := false, hasJI := false,
    complexVal := .ok (.fin 11111111111111111111111111111111 0, .fin 0 0), wkt := .raises "GEOSException|ShapelyError",
    ip := .raises "ValueError", winAbs := .ok (false, "1"), posixAbs := .ok (false, "1"), url := .ok (false, false, "1"),
    uuid := .ok "11111111-1111-1111-1111-111111111111", email := .raises "TypeError", truthy := true }

theorem C02_witness_F10 :
    let x : Cell := { Cell.blank with cls := "str", isStr := true, strEq := .ok true, str := some factsF10 }
    let c : Column := ⟨.object, [x], ["0"], "None"⟩
    stringIsFloat c = .ok true ∧ stringIsUuid c = .ok true ∧ ¬ StrExcl factsF10 := by
  refine ⟨by rfl, by rfl, ?_⟩
  intro h
  exact h .Float (by simp [strParsers]) .UUID (by simp [strParsers]) (by decide) (by simp) (by simp) ⟨rfl, rfl⟩

end V.C02

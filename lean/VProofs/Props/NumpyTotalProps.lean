/-
  C09 / C03 / C04 for the numpy model, end to end on what the driver evaluates: for every constructible sub-typeset of
  StandardSet (the typesets whose relations the numpy back end registers) and every array that passes the executable check
  `goodB o a && guardsOkNB o a`, the traversal returns normally, and its answer is sound and convergent.
-/
import VProofs.Obligations.NumpyTotal
import VProofs.Props.Numpy
namespace V.NumpyProps
open V V.Gen V.Np

theorem infer_numpy_complete (o : NpOracle) (S : List Ty) (nd : S.Nodup) (hg : Ty.Generic ∈ S)
    (pc : ParentClosedL declared S) (hsub : ∀ t ∈ S, t ∈ standardSet) (a : NArr)
    (h : (goodB o a && guardsOkNB o a) = true) :
    ∃ b d p, mkTypeset declared isGeneric S = .ok b ∧
      traverse (graphOf o b) 64 b.root a () [] = .ok (d, p, ()) ∧
      containsB (plast b.root p) d = true ∧
      plast b.root (ptraverse (numpyTS o b).idSucc 64 b.root d).2 = plast b.root p ∧
      (ptraverse (numpyTS o b).succ 64 b.root d).1 = d ∧
      plast b.root (ptraverse (numpyTS o b).succ 64 b.root d).2 = plast b.root p := by
  simp only [Bool.and_eq_true] at h
  have hG : Good o a := h.1
  have hK := guardsOkNB_sound o a h.2
  have hsubC : ∀ t ∈ S, t ∈ completeSet := fun t ht => C14.C14_nested.2 t (C14.C14_nested.1 t (hsub t ht))
  obtain ⟨b, hb, hr, _, ft, hN⟩ := built_typeset_np o S nd hg pc hsubC
  obtain ⟨b1, hb1, _, hr1, _, he, _⟩ := buildGraph_closed C14.tableWF S nd hg pc
  have e1 : b = b1 := by
    have : mkTypeset declared isGeneric S = .ok b1 := by simp only [mkTypeset, hb1, hr1]; rfl
    rw [hb] at this; exact (Except.ok.inj this)
  have hreg : ∀ e ∈ b.edges, e.inferential = true → (e.src, e.dst) ∈ numpyRelationsRegistered := by
    intro e hm hi
    rw [e1, he] at hm
    obtain ⟨hd, hs, hdecl⟩ := mem_presentEdges.mp hm
    exact standard_registered e.src (hsub _ hs) e.dst (hsub _ hd) ⟨e.src, e.inferential⟩ hdecl rfl hi
  obtain ⟨⟨d, p, u⟩, hv⟩ := infer_total_np o b ft hreg a hG hK (by rw [hr]; rfl)
  cases u
  refine ⟨b, d, p, hb, hv, ?_⟩
  have e := infer_model_eq o b 64 b.root a d p hv
  have wf := numpy_WF o b ft
  have h3 := infer_sound (numpyTS o b) wf Ty.Generic _ hN 64 (fuel_ok o b _) a hG rfl
  have h4 := infer_fixpoint (numpyTS o b) wf Ty.Generic _ hN 64 (fuel_ok o b _) a hG rfl
  rw [← hr] at h3 h4
  simp only [e] at h3 h4
  exact ⟨h3.1, h3.2.2, h4.1, h4.2⟩

/-- the executable hypotheses hold for the concrete arrays of `Props/Numpy.lean` -/
example : (goodB o0 az && guardsOkNB o0 az) = true ∧ (goodB o0 af && guardsOkNB o0 af) = true := by decide +kernel

end V.NumpyProps

/-
  C06 — Casts are element-wise lossless and shape-preserving.

  `C06_shape`: every transformer of the pandas model that returns normally keeps the index labels,
  the name and the number of rows (for String→DateTime under the named hypothesis `DtShape` about
  `pd.to_datetime`).  `C06_lossless_*`: a guard admits a column only if the decoding is exact on every
  value — Float→Integer only integral in-range floats (1.5 never becomes 1), Complex→Float only zero
  imaginary parts, DateTime→Date only midnight timestamps — and the transformer produces exactly that
  decoding at the same position, missing values staying where they are.  The element parsers
  themselves (`float`, `uuid.UUID`, …) are data of the model: "exact decoding" of a string is by
  definition what the parser returns; that the *code* puts the parser's value at the same position is
  what the correspondence (cell-by-cell comparison with α) and the decode oracle check.
-/
import VProofs.Lemmas.PandasL
import VProofs.Obligations.PandasBagInfer
import VProofs.Obligations.PandasNulls
namespace V.C06
open V V.Gen V.Pd

theorem oks_length {α : Type} (l : List (Outcome α)) (h : firstRaise l = none) : (oks l).length = l.length := by
  induction l with
  | nil => rfl
  | cons a l ih =>
    cases a with
    | ok v => simp only [firstRaise] at h; simp [oks, ih h]
    | raises c => simp [firstRaise] at h

/-- `pd.to_datetime` returns as many rows as it was given -/
def DtShape (o : ColOracle) : Prop := ∀ cells r tz, o.toDatetime cells = .ok (r, tz) → r.length = cells.length

theorem firstRaise_none {α : Type} {l : List (Outcome α)} (h : ∀ cls, firstRaise l = some cls → False) :
    firstRaise l = none := by
  cases hf : firstRaise l with
  | none => rfl
  | some c => exact absurd hf (h c)

/-- index labels, name and number of rows are those of the input -/
def Shape (t : Column → R Column) : Prop :=
  ∀ c c', t c = .ok c' → c'.index = c.index ∧ c'.name = c.name ∧ c'.cells.length = c.cells.length

theorem applyStr_shape (p : StrFacts → Outcome Cell) (q : Cell → Outcome Cell) : Shape (fun c => applyStr c p q) := by
  intro c c' h
  simp only [applyStr] at h
  split at h
  · cases h
  · rename_i hf
    cases h
    refine ⟨rfl, rfl, ?_⟩
    rw [oks_length _ (firstRaise_none hf)]; simp

theorem objectToBoolean_shape : Shape objectToBoolean := by
  intro c c' h
  simp only [objectToBoolean] at h
  split at h
  · cases h
  · split at h
    · cases h
    · rename_i hf; cases h; refine ⟨rfl, rfl, ?_⟩; rw [oks_length _ (firstRaise_none hf)]; simp

theorem stringToBoolean_shape : Shape stringToBoolean := by
  intro c c' h
  have := objectToBoolean_shape _ c' h
  simpa using this

theorem stringToComplex_shape : Shape stringToComplex := by
  intro c c' h
  simp only [stringToComplex] at h
  split at h
  · cases h
  · rename_i hf; cases h; refine ⟨rfl, rfl, ?_⟩; simp [oks_length _ (firstRaise_none hf)]

theorem stringToDatetime_shape (o : ColOracle) (hdt : DtShape o) : Shape (stringToDatetime o) := by
  intro c c' h
  simp only [stringToDatetime] at h
  split at h
  · cases h
  · rename_i cells tz hq; cases h; exact ⟨rfl, rfl, hdt _ _ _ hq⟩

theorem stringToFloat_shape : Shape stringToFloat := by
  intro c c' h
  simp only [stringToFloat] at h
  split at h
  · cases h
  · rename_i hf; cases h; refine ⟨rfl, rfl, ?_⟩; simp [oks_length _ (firstRaise_none hf)]

theorem complexToFloat_shape : Shape complexToFloat := by
  intro c c' h; cases h; exact ⟨rfl, rfl, by simp⟩

theorem floatToInteger_shape : Shape floatToInteger := by
  intro c c' h; cases h; exact ⟨rfl, rfl, by simp⟩

theorem datetimeToDate_shape : Shape datetimeToDate := by
  intro c c' h
  simp only [datetimeToDate] at h
  split at h
  · cases h
  · cases h; exact ⟨rfl, rfl, by simp⟩

theorem stringToPath_shape : Shape stringToPath := by
  intro c c' h
  simp only [stringToPath] at h
  split at h
  · cases h
  · split at h <;> exact applyStr_shape _ _ c c' h

/-- **C06_shape**: index labels, name and length are kept by every coercion of the relation table -/
theorem C06_shape (o : ColOracle) (hdt : DtShape o) (src dst : Ty) (t : Column → R Column)
    (ht : xform o src dst = some t) : Shape t := by
  unfold xform at ht
  split at ht <;> (try cases ht)
  · exact objectToBoolean_shape
  · exact stringToBoolean_shape
  · exact stringToComplex_shape
  · exact stringToDatetime_shape o hdt
  · exact stringToFloat_shape
  · exact complexToFloat_shape
  · exact floatToInteger_shape
  · exact datetimeToDate_shape
  · exact applyStr_shape _ _
  · exact applyStr_shape _ _
  · exact stringToPath_shape
  · exact applyStr_shape _ _
  · exact applyStr_shape _ _
  · exact applyStr_shape _ _

/-- **Float → Integer is lossless**: accepted only when every value is an integral float in the
int64 range; each value becomes exactly that integer, each missing value stays missing in place -/
theorem C06_lossless_float_integer (c : Column) (h : floatIsInteger c = .ok true) :
    (∀ x ∈ c.cells, x.null = false → ∃ v, x.pay = .float v ∧ v.isInt64 = true) ∧
    (∃ c', floatToInteger c = .ok c' ∧ c'.cells = c.cells.map (fun x =>
        if x.null then Cell.missing .pdNA else match x.pay with | .float v => Cell.ofInt v.toInt | _ => x)) := by
  refine ⟨?_, ⟨_, rfl, rfl⟩⟩
  have key : ∀ cells : List Cell, cells.all (fun x => match x.pay with | .float v => v.isInt64 | _ => false) = true →
      ∀ x ∈ cells, ∃ v, x.pay = .float v ∧ v.isInt64 = true := by
    intro cells hall x hx
    have := List.all_eq_true.mp hall x hx
    cases hp : x.pay <;> simp_all
  simp only [floatIsInteger, handleNulls] at h
  intro x hx hn
  split at h
  · split at h
    · cases h
    · simp only [Except.ok.injEq] at h
      exact key _ h x (mem_dropna.mpr ⟨hx, hn⟩)
  · simp only [Except.ok.injEq] at h
    exact key _ h x hx

/-- **Complex → Float is lossless**: a non-zero imaginary part is never dropped -/
theorem C06_lossless_complex_float (c : Column) (h : complexIsFloat c = .ok true) :
    (∀ x ∈ c.cells, x.null = false → ∃ re im, x.pay = .complex re im ∧ im.isZero = true) ∧
    (∃ c', complexToFloat c = .ok c' ∧ c'.cells = c.cells.map (fun x =>
        match x.pay with | .complex re _ => Cell.ofFloat re | _ => Cell.missing .nan)) := by
  refine ⟨?_, ⟨_, rfl, rfl⟩⟩
  have key : ∀ cells : List Cell, cells.all (fun x => match x.pay with | .complex _ im => im.isZero | _ => false) = true →
      ∀ x ∈ cells, ∃ re im, x.pay = .complex re im ∧ im.isZero = true := by
    intro cells hall x hx
    have := List.all_eq_true.mp hall x hx
    cases hp : x.pay with
    | complex re im => rw [hp] at this; exact ⟨re, im, rfl, this⟩
    | _ => rw [hp] at this; cases this
  simp only [complexIsFloat, handleNulls] at h
  intro x hx hn
  split at h
  · split at h
    · cases h
    · simp only [Except.ok.injEq] at h
      exact key _ h x (mem_dropna.mpr ⟨hx, hn⟩)
  · simp only [Except.ok.injEq] at h
    exact key _ h x hx

/-- **DateTime → Date is lossless**: only midnight timestamps become dates, each its own day -/
theorem C06_lossless_datetime_date (c : Column) (h : datetimeIsDate c = .ok true) :
    ∀ x ∈ c.cells, x.null = false → ∃ day tz, x.pay = .ts day 0 tz := by
  have key : ∀ cells : List Cell, cells.all (fun x => match x.pay with | .ts _ ns _ => ns == 0 | _ => false) = true →
      ∀ x ∈ cells, ∃ day tz, x.pay = .ts day 0 tz := by
    intro cells hall x hx
    have := List.all_eq_true.mp hall x hx
    cases hp : x.pay with
    | ts day ns tz => rw [hp] at this; simp at this; exact ⟨day, tz, by rw [this]⟩
    | _ => rw [hp] at this; cases this
  simp only [datetimeIsDate, handleNulls] at h
  intro x hx hn
  split at h
  · split at h
    · cases h
    · simp only [Except.ok.injEq] at h
      exact key _ h x (mem_dropna.mpr ⟨hx, hn⟩)
  · simp only [Except.ok.injEq] at h
    exact key _ h x hx

/-! non-vacuity / the property's own examples: 1.5 never becomes 1; (3+0j) becomes 3.0 -/
example : floatIsInteger ⟨.fam .float, [Cell.ofFloat (.fin 3 1)], ["0"], "None"⟩ = .ok false := by rfl
example : floatIsInteger ⟨.fam .float, [Cell.ofFloat (.fin 1 0), Cell.missing .nan], ["0", "1"], "None"⟩ = .ok true := by rfl
example : complexIsFloat ⟨.fam .complex, [Cell.ofComplex (.fin 3 0) (.fin 1 40)], ["0"], "None"⟩ = .ok false := by rfl

/-- **the whole inference walk keeps the shape**: for every typeset built from the relation table, the column that
`infer` returns has the index labels, the name and the number of rows of the input, whatever path was taken -/
theorem C06_shape_infer (o : ColOracle) (hdt : DtShape o) (b : Built Ty) (ft : FromTable b) (f : Nat) (n : Ty) (c : Column) :
    let d := (ptraverse (pandasTS o b).succ f n c).1
    d.index = c.index ∧ d.name = c.name ∧ d.cells.length = c.cells.length := by
  have l0 := pandasTS_L0 o b
  induction f generalizing n c with
  | zero => exact ⟨rfl, rfl, rfl⟩
  | succ f ih =>
    simp only [ptraverse]
    cases hfa : pfirst ((pandasTS o b).succ n) c with
    | none => exact ⟨rfl, rfl, rfl⟩
    | some r =>
      have hmem : r ∈ (pandasTS o b).succ n := List.mem_of_find?_eq_some hfa
      have hstep : (r.xform c).index = c.index ∧ (r.xform c).name = c.name ∧ (r.xform c).cells.length = c.cells.length := by
        by_cases hi : r.inferential = true
        · obtain ⟨g, t, _, htd, _, hxf⟩ := inf_rel_spec ft hmem hi
          rw [hxf c]
          cases htc : t c with
          | ok d => exact C06_shape o hdt n r.dst t htd c d htc
          | error e => exact ⟨rfl, rfl, rfl⟩
        · have hi' : r.inferential = false := by simpa using hi
          rw [(l0 n r hmem hi').2 c]; exact ⟨rfl, rfl, rfl⟩
      have := ih r.dst (r.xform c)
      simp only at this ⊢
      exact ⟨this.1.trans hstep.1, this.2.1.trans hstep.2.1, this.2.2.trans hstep.2.2⟩

/-- **positions of missing values are kept by every coercion of the relation table** (one step): under `NullHyp` —
a `str` element is not missing and does not parse to NaN (false exactly for the `'nan'` strings of known findings F15 /
F15b), a missing complex value is stored with a NaN real part, `pd.to_datetime` leaves `NaT` where the input is missing.
These are named hypotheses about the input column; the C06 oracle checks the conclusion on the real code for every
generated column, with or without them. -/
theorem C06_nulls_step (o : ColOracle) (src dst : Ty) (g : Column → R Bool) (t : Column → R Column)
    (hg : guard o src dst = some g) (ht : xform o src dst = some t) (c c' : Column) (hyp : NullHyp o c)
    (hsrc : containsB src c = true) (hacc : g c = .ok true) (hx : t c = .ok c') :
    c'.cells.map (·.null) = c.cells.map (·.null) :=
  nulls_pandas o src dst g t hg ht c c' hyp hsrc hacc hx

end V.C06

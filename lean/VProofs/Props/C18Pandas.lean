/-
  C18 instantiated for the pandas model: for every typeset built from the relation table, every sampler (any random draw),
  every sample size and every column satisfying `Good`, whatever the sampled traversal returns `(d, p, _)` in its sampling
  branch: `d` belongs to the last type of `p`, and `d` is the input pushed through exactly the relations along `p`, each of
  whose tests accepted the FULL data at that point.
-/
import VProofs.Props.C18
import VProofs.Props.Pandas
namespace V.C18
open V V.Gen V.Pd

/-- `graph[a][b]["relationship"]` of a built typeset over pandas columns -/
def relOf (o : ColOracle) (b : Built Ty) (x y : Ty) : Option (Rel Ty Column Unit) :=
  (b.edges.find? (fun e => e.src == x && e.dst == y)).map (mkRel o)

theorem C18_pandas (o : ColOracle) (b : Built Ty) (ft : FromTable b) (sample : Column → Column) (len : Column → Nat)
    (k : Nat) (c : Column) (hG : Good o c) (hroot : containsB b.root c = true)
    (hbig : ¬ (len c < 1000 ∨ k > len c)) (d : Column) (p : List Ty)
    (h : traverseSampled (graphOf o b) (relOf o b) sample len 64 b.root c k () = .ok (d, p, ())) :
    ∃ hops, p = b.root :: hops ∧ containsB ((b.root :: hops).getLast (by simp)) d = true ∧ Good o d := by
  obtain ⟨ds, ps, s1, hops, sEnd, _, _, hp, hth⟩ :=
    C18_sound (graphOf o b) (relOf o b) sample len 64 b.root c k () hbig d p () h
  refine ⟨hops, hp, ?_⟩
  have key := C18_lands (relOf o b) (fun t x => containsB t x = true ∧ Good o x) ?_ b.root c s1 hops d sEnd hth ⟨hroot, hG⟩
  · exact key
  · -- every accepted relation of the typeset lands in its target and keeps the invariant
    intro a t r x s s1' x' s2 hrel hc hg hx
    simp only [relOf, Option.map_eq_some_iff] at hrel
    obtain ⟨e, he, rfl⟩ := hrel
    have hmem := List.mem_of_find?_eq_some he
    have hp' := List.find?_some he
    simp only [Bool.and_eq_true, beq_iff_eq] at hp'
    obtain ⟨hsrc, hdst⟩ := hp'
    by_cases hi : e.inferential = true
    · obtain ⟨g, tr, hgd, htd⟩ := table_guard_defined o e.dst ⟨e.src, e.inferential⟩ (ft.decl e hmem) hi
      simp only at hgd htd
      have hgx : g x = .ok true := by
        simp only [mkRel, hi, if_true, hgd, Except.map] at hg
        cases hq : g x with
        | error err => rw [hq] at hg; cases hg
        | ok v => rw [hq] at hg; simp only [Except.ok.injEq, Prod.mk.injEq] at hg; rw [hg.1]
      have hxx : tr x = .ok x' := by
        simp only [mkRel, hi, if_true, htd, Except.map] at hx
        cases hq : tr x with
        | error err => rw [hq] at hx; cases hx
        | ok v => rw [hq] at hx; simp only [Except.ok.injEq, Prod.mk.injEq] at hx; rw [hx.1]
      have hcs : containsB e.src x = true := by rw [hsrc]; exact hc.1
      refine ⟨?_, outputs_good o e.src e.dst g tr x x' hgd htd hc.2 hcs hgx hxx⟩
      rw [← hdst]
      exact lands_pandas o e.src e.dst g tr hgd htd x x' ⟨hc.2.paywf, hc.2.strNotNull, hc.2.dtLands⟩ hcs hgx hxx
    · simp only [mkRel, hi, Bool.false_eq_true, if_false, contains, Except.map, Except.ok.injEq, Prod.mk.injEq] at hg hx
      rw [← hx.1, ← hdst]
      exact ⟨hg.1, hc.2⟩

end V.C18

/-
  C10 — Purity: results depend only on (typeset, data); no global side effects.

  `C10_frame`: every API operation leaves every named global slot as it found it (the lazily built
  relations cache may only grow); `C10_history`: by induction, so does every finite history.  The
  results of the API are functions of (typeset, data) in the model by construction (no model function
  takes the global state as an argument) — that the *code* has no hidden dependence (hash seed, earlier
  calls, other typesets) is what the History runner checks: PARTIAL.
-/
import VModel.GlobalState
namespace V.C10
open V

theorem stringIsGeometry_restores (g : GState) (r e : Bool) : (stringIsGeometry g r e).1 = g := by
  cases g; rfl

theorem runGeometry_id (g : GState) (l : List (Bool × Bool)) : runGeometry g l = g := by
  induction l generalizing g with
  | nil => rfl
  | cons a l ih => obtain ⟨r, e⟩ := a; simp only [runGeometry, stringIsGeometry_restores, ih]

theorem suppressWarnings_id (g : GState) : suppressWarnings g = g := by cases g; rfl

theorem runSuppress_id (g : GState) (n : Nat) : runSuppress g n = g := by
  induction n generalizing g with
  | zero => rfl
  | succ n ih => simp only [runSuppress, suppressWarnings_id, ih]

theorem touchCache_frame (g : GState) (ts : List Nat) : (touchCache g ts).frame = g.frame := rfl

theorem touchCache_mono (g : GState) (ts : List Nat) : ∀ t ∈ g.relCache, t ∈ (touchCache g ts).relCache := by
  intro t ht; simp only [touchCache]; exact List.mem_append_left _ ht

/-- **C10_frame**: one operation -/
theorem C10_frame (g : GState) (op : Op) :
    (step g op).frame = g.frame ∧ (∀ t ∈ g.relCache, t ∈ (step g op).relCache) := by
  cases op with
  | construct ts => exact ⟨touchCache_frame g ts, touchCache_mono g ts⟩
  | algebra ts => exact ⟨touchCache_frame g ts, touchCache_mono g ts⟩
  | membership t => exact ⟨rfl, fun _ h => h⟩
  | traverse ts geo k =>
    simp only [step, runSuppress_id, runGeometry_id]
    exact ⟨touchCache_frame g ts, touchCache_mono g ts⟩
  | createType => exact ⟨rfl, fun _ h => h⟩
  | functional ts geo =>
    simp only [step, runGeometry_id]
    exact ⟨touchCache_frame g ts, touchCache_mono g ts⟩

/-- **C10_history**: any finite history -/
theorem C10_history (g : GState) (h : List Op) :
    (h.foldl step g).frame = g.frame ∧ (∀ t ∈ g.relCache, t ∈ (h.foldl step g).relCache) := by
  induction h generalizing g with
  | nil => exact ⟨rfl, fun _ h => h⟩
  | cons op h ih =>
    have ⟨f1, m1⟩ := C10_frame g op
    have ⟨f2, m2⟩ := ih (step g op)
    simp only [List.foldl_cons]
    exact ⟨by rw [f2, f1], fun t ht => m2 t (m1 t ht)⟩

/-- the pinned tree's version of `string_is_geometry` restored `sys.__stderr__` (token 1 here), not
the caller's stream: with a caller-installed stream it violated the frame (finding F01, repaired) -/
theorem C10_witness_F01 :
    let g : GState := ⟨7, 8, [], 0, 0, 0, [], 0⟩
    let buggy := { g with stderr := 1 }
    buggy.frame ≠ g.frame := by decide

/-! non-vacuity -/
example : (step ⟨7, 8, [3], 0, 0, 0, [], 0⟩ (.traverse [1, 2] [(true, false), (false, false)] 2)).stderr = 7 := by decide

end V.C10

/-
  C08 — A DataFrame is typed as independent columns; functional API equals the methods.

  `traverseFrame` mirrors `_traverse_graph_dataframe`; that the *code* is such a map is the Frame
  correspondence runner's job.  These theorems say what the model guarantees: same labels, same
  order, each column's result is exactly the single-Series result from a fresh path and state —
  hence independent of the other columns, of column subsets and of column order.
-/
import VProofs.Lemmas.Full
namespace V.C08
open V

variable {T D S L : Type}

/-- labels are kept, in order -/
theorem C08_labels (g : Graph T D S) (f : Nat) (root : T) (e : S) (cols : List (L × D))
    (rs : List (L × (D × List T × S))) (h : traverseFrame g f root e cols = .ok rs) :
    rs.map (·.1) = cols.map (·.1) := by
  have := (traverseFrame_ok g f root e cols rs).mp h
  clear h
  induction this with
  | nil => rfl
  | cons h1 _ ih => simp [h1.1, ih]

/-- **every column's entry is the per-Series result** (fresh path, fresh state) -/
theorem C08_frame_map (g : Graph T D S) (f : Nat) (root : T) (e : S) (cols : List (L × D))
    (rs : List (L × (D × List T × S))) (h : traverseFrame g f root e cols = .ok rs) :
    ∀ lr ∈ rs, ∃ c, (lr.1, c) ∈ cols ∧ traverse g f root c e [] = .ok lr.2 := by
  have := (traverseFrame_ok g f root e cols rs).mp h
  clear h
  induction this with
  | nil => intro lr h; cases h
  | @cons a b as bs h1 _ ih =>
    intro lr hlr
    rcases List.mem_cons.mp hlr with rfl | hlr
    · exact ⟨a.2, by rw [← h1.1]; exact List.mem_cons_self, h1.2⟩
    · obtain ⟨c, hc, ht⟩ := ih lr hlr
      exact ⟨c, List.mem_cons_of_mem _ hc, ht⟩

/-- **no column's result depends on which other columns are present, or on their order**: if the
same labelled column occurs in two frames (a sub-frame, a permuted frame, …) and labels are
unique, its entry is the same in both results -/
theorem C08_subframe (g : Graph T D S) (f : Nat) (root : T) (e : S)
    (cols cols' : List (L × D)) (rs rs' : List (L × (D × List T × S)))
    (h : traverseFrame g f root e cols = .ok rs) (h' : traverseFrame g f root e cols' = .ok rs')
    (hu : (cols.map (·.1)).Nodup) (hu' : (cols'.map (·.1)).Nodup)
    (l : L) (c : D) (hc : (l, c) ∈ cols) (hc' : (l, c) ∈ cols')
    (r r' : D × List T × S) (hr : (l, r) ∈ rs) (hr' : (l, r') ∈ rs') : r = r' := by
  obtain ⟨c1, hc1, ht1⟩ := C08_frame_map g f root e cols rs h (l, r) hr
  obtain ⟨c2, hc2, ht2⟩ := C08_frame_map g f root e cols' rs' h' (l, r') hr'
  have uniq : ∀ (cs : List (L × D)), (cs.map (·.1)).Nodup → ∀ a b, (l, a) ∈ cs → (l, b) ∈ cs → a = b := by
    intro cs
    induction cs with
    | nil => intro _ a b h; cases h
    | cons x xs ih =>
      intro hn a b ha hb
      simp only [List.map_cons, List.nodup_cons] at hn
      rcases List.mem_cons.mp ha with ha | ha <;> rcases List.mem_cons.mp hb with hb | hb
      · rw [← ha] at hb; exact (Prod.mk.inj hb).2.symm
      · exact absurd (by rw [← ha]; exact List.mem_map_of_mem (f := (·.1)) hb) hn.1
      · exact absurd (by rw [← hb]; exact List.mem_map_of_mem (f := (·.1)) ha) hn.1
      · exact ih hn.2 a b ha hb
  have e1 : c1 = c := uniq cols hu c1 c hc1 hc
  have e2 : c2 = c := uniq cols' hu' c2 c hc2 hc'
  simp only at ht1 ht2
  rw [e1] at ht1; rw [e2] at ht2
  rw [ht1] at ht2
  exact (Except.ok.inj ht2)

/-- the detect-vs-infer comparison lists `(label, detected, inferred)` in the original column
order when both dictionaries come from the same frame -/
theorem C08_compare [DecidableEq L] (labels : List L) (hu : labels.Nodup) (dt it : L → T) :
    compareDetectInference (labels.map (fun l => (l, dt l))) (labels.map (fun l => (l, it l)))
      = labels.map (fun l => (l, dt l, it l)) := by
  simp only [compareDetectInference, List.filterMap_map]
  have hfind : ∀ l ∈ labels, (labels.map (fun l => (l, it l))).find? (fun e => e.1 == l) = some (l, it l) := by
    intro l hl
    induction labels with
    | nil => cases hl
    | cons x xs ih =>
      simp only [List.map_cons, List.find?_cons]
      by_cases hx : x = l
      · subst hx; simp
      · have hb : (x == l) = false := by simpa using hx
        simp only [hb]
        have hl' : l ∈ xs := by
          rcases List.mem_cons.mp hl with h | h
          · exact absurd h.symm hx
          · exact h
        exact ih (List.nodup_cons.mp hu).2 hl'
  have gen : ∀ (ls : List L), (∀ l ∈ ls, l ∈ labels) →
      ls.filterMap ((fun kd : L × T => (List.find? (fun e => e.1 == kd.1) (labels.map (fun l => (l, it l)))).map
        (fun e => (kd.1, kd.2, e.2))) ∘ fun l => (l, dt l)) = ls.map (fun l => (l, dt l, it l)) := by
    intro ls
    induction ls with
    | nil => intro _; rfl
    | cons x xs ih =>
      intro hsub
      simp only [List.filterMap_cons, Function.comp, hfind x (hsub x List.mem_cons_self), Option.map_some,
        List.map_cons]
      rw [← ih (fun l hl => hsub l (List.mem_cons_of_mem _ hl))]
  exact gen labels (fun _ h => h)

/-- the functional wrappers are the methods (the model has one definition for both; the
correspondence runner checks the five real wrappers against the methods) -/
theorem C08_functional (ts : Typeset T D S) (x : D) :
    ts.detectType x = (ts.detect x).map (fun r => lastOr ts.root r.2.1) ∧
    ts.inferType x = (ts.infer x).map (fun r => lastOr ts.root r.2.1) ∧
    ts.castToDetected x = (ts.detect x).map (·.1) ∧ ts.castToInferred x = (ts.infer x).map (·.1) :=
  ⟨rfl, rfl, rfl, rfl⟩

end V.C08

/-
  C19 — Graph export is faithful and deterministic.

  `exportModel` is what `utils/graph.py::output_graph` hands to pydot: the nodes sorted by
  `str(type)` and the edges sorted by `(str(src), str(dst))`, each with its style.  The theorems:
  content (exactly the typeset's types and relations; identity only when `base_only`; dashed iff
  inferential) and order-independence (the *same list* for every supply order).  The bytes written by
  pydot/graphviz are outside the model (partial) — the export runner compares files byte for byte.
-/
import VProofs.Props.C14
import VProofs.Lemmas.SortL
namespace V.C19
open V V.Gen

/-- `nameRank` really is the order of the type names as strings (so sorting by it is sorting by
`str(type)`), and is injective -/
theorem nameRank_is_string_order (a b : Ty) : (nameRank a < nameRank b) ↔ (a.name < b.name) := by
  cases a <;> cases b <;> decide

theorem nameRank_inj (a b : Ty) (h : nameRank a = nameRank b) : a = b := by
  revert h; cases a <;> cases b <;> decide

theorem nameRank_lt_width (a : Ty) : nameRank a < nameWidth := by cases a <;> decide

theorem edgeKey_inj (e f : Edge Ty) (h : edgeKey nameRank nameWidth e = edgeKey nameRank nameWidth f) : e = f := by
  obtain ⟨s1, d1, i1⟩ := e
  obtain ⟨s2, d2, i2⟩ := f
  simp only [edgeKey] at h
  have hd1 := nameRank_lt_width d1
  have hd2 := nameRank_lt_width d2
  have hw : nameWidth = 24 ∨ True := Or.inr trivial
  have key : nameRank s1 * nameWidth + nameRank d1 = nameRank s2 * nameWidth + nameRank d2 ∧ i1 = i2 := by
    cases i1 <;> cases i2 <;> simp at h ⊢ <;> omega
  obtain ⟨hk, hi⟩ := key
  have hs : nameRank s1 = nameRank s2 := by
    have h1 := Nat.add_mul_div_right (nameRank d1) (nameRank s1) (Nat.lt_of_le_of_lt (Nat.zero_le _) hd1)
    have h2 := Nat.add_mul_div_right (nameRank d2) (nameRank s2) (Nat.lt_of_le_of_lt (Nat.zero_le _) hd1)
    rw [Nat.div_eq_of_lt hd1, Nat.zero_add, Nat.add_comm] at h1
    rw [Nat.div_eq_of_lt hd2, Nat.zero_add, Nat.add_comm] at h2
    rw [← h1, ← h2, hk]
  have hdd : nameRank d1 = nameRank d2 := by rw [hs] at hk; omega
  rw [nameRank_inj _ _ hs, nameRank_inj _ _ hdd, hi]

/-- **content**: the exported nodes are exactly the typeset's types, the exported edges exactly its
relations (identity relations only when `base_only`), each carrying its own style flag -/
theorem C19_content (b : Built Ty) (baseOnly : Bool) :
    (∀ t, t ∈ (exportModel nameRank nameWidth b baseOnly).nodes ↔ t ∈ b.nodes) ∧
    (∀ e, e ∈ (exportModel nameRank nameWidth b baseOnly).edges ↔
        e ∈ b.edges ∧ (baseOnly = true → e.inferential = false)) := by
  refine ⟨fun t => mem_sortBy _ _ _, fun e => ?_⟩
  simp only [exportModel]
  rw [mem_sortBy]
  cases baseOnly with
  | false => simp
  | true => simp [Built.baseEdges, List.mem_filter]

/-- **determinism**: for a parent-closed typeset the exported node and edge lists are *identical*
for every order in which the types were supplied -/
theorem C19_order (S S' : List Ty) (hp : S.Perm S') (nd : S.Nodup) (hg : Ty.Generic ∈ S)
    (pc : ParentClosedL declared S) (baseOnly : Bool) :
    ∃ b b', mkTypeset declared isGeneric S = .ok b ∧ mkTypeset declared isGeneric S' = .ok b' ∧
      exportModel nameRank nameWidth b baseOnly = exportModel nameRank nameWidth b' baseOnly := by
  have nd' : S'.Nodup := hp.nodup_iff.mp nd
  have hg' : Ty.Generic ∈ S' := hp.mem_iff.mp hg
  have pc' : ParentClosedL declared S' := fun t ht r hr hi => hp.mem_iff.mp (pc t (hp.mem_iff.mpr ht) r hr hi)
  obtain ⟨b, hb, hn, hr, _, he, _⟩ := buildGraph_closed C14.tableWF S nd hg pc
  obtain ⟨b', hb', hn', hr', _, he', _⟩ := buildGraph_closed C14.tableWF S' nd' hg' pc'
  refine ⟨b, b', by simp only [mkTypeset, hb, hr]; rfl, by simp only [mkTypeset, hb', hr']; rfl, ?_⟩
  -- edges: both are duplicate-free lists with the same members
  have hpair : ∀ S, S.Nodup → (presentEdges declared S).Nodup := by
    intro S nd
    have := (allDecls_pairwise C14.tableWF.srcNodup S nd).sublist (List.filter_sublist (p := fun e => S.contains e.src))
    exact this.imp (fun hne heq => hne ⟨by rw [heq], by rw [heq]⟩)
  have hedges : b.edges.Perm b'.edges := by
    rw [he, he']
    apply (List.perm_ext_iff_of_nodup (hpair S nd) (hpair S' nd')).mpr
    intro e
    rw [mem_presentEdges, mem_presentEdges, hp.mem_iff, hp.mem_iff]
  simp only [exportModel]
  congr 1
  · rw [hn, hn']; exact sortBy_eq_of_perm _ nameRank_inj hp
  · apply sortBy_eq_of_perm _ edgeKey_inj
    cases baseOnly with
    | false => exact hedges
    | true => exact hedges.filter _

/-! non-vacuity -/
example : (mkTypeset declared isGeneric [Ty.String, Ty.Generic, Ty.Object]).toOption.map
    (fun b => (exportModel nameRank nameWidth b true).nodes) = some [Ty.Generic, Ty.Object, Ty.String] := by decide

end V.C19

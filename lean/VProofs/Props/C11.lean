/-
  C11 — A type is a property of the bag of values.

  `C11_sim` (engine): related data — for any relation that every guard respects and every
  transformer preserves — get the same path.  `C11_membership_pandas`, `C11_repeat_pandas` (L4): on
  the pandas column model every `contains_op` depends only on the dtype and the *bag* of cells: it is
  invariant under row permutation, index relabelling, renaming (index and name are not read) and
  k-fold self-concatenation.  `C11_detect_pandas` lifts this to `detect_type` for every typeset.
  `C11_infer_pandas`: the same for `infer_type` and the cast data — every one of the 14 relation tests of
  the regenerated table accepts a column iff it accepts any column with the same bag (`guard_accBag`),
  every transformer maps equal bags to equal bags (`xform_equiBag`); the only hypothesis is `DtBag`
  (`pd.to_datetime` parses element by element), which the bag runner validates on real data.  Which
  *exception* escapes from a guard that raises can depend on the row order; that is C09's subject.
-/
import VProofs.Obligations.PandasBag
import VProofs.Obligations.PandasBagInfer
import VProofs.Lemmas.PandasTS
namespace V.C11
open V

variable {T D : Type}

/-- **C11_sim**: a simulation between data gives identical paths and related results -/
theorem C11_sim (succ : T → List (PRel T D)) (R : D → D → Prop)
    (hg : ∀ n, ∀ r ∈ succ n, ∀ x y, R x y → r.guard x = r.guard y)
    (hx : ∀ n, ∀ r ∈ succ n, ∀ x y, R x y → r.guard x = true → R (r.xform x) (r.xform y)) :
    ∀ f n x y, R x y →
      (ptraverse succ f n x).2 = (ptraverse succ f n y).2 ∧ R (ptraverse succ f n x).1 (ptraverse succ f n y).1 := by
  intro f
  induction f with
  | zero => intro n x y h; exact ⟨rfl, h⟩
  | succ f ih =>
    intro n x y h
    have hfind : pfirst (succ n) x = pfirst (succ n) y := by
      simp only [pfirst]
      have gen : ∀ l : List (PRel T D), (∀ r ∈ l, r.guard x = r.guard y) →
          l.find? (·.guard x) = l.find? (·.guard y) := by
        intro l
        induction l with
        | nil => intro _; rfl
        | cons a l ihl =>
          intro hl
          simp only [List.find?_cons, hl a List.mem_cons_self]
          cases a.guard y with
          | true => rfl
          | false => exact ihl (fun r hr => hl r (List.mem_cons_of_mem _ hr))
      exact gen (succ n) (fun r hr => hg n r hr x y h)
    simp only [ptraverse, ← hfind]
    cases hfa : pfirst (succ n) x with
    | none => exact ⟨rfl, h⟩
    | some r =>
      have hmem : r ∈ succ n := List.mem_of_find?_eq_some hfa
      have hgx : r.guard x = true := by have := List.find?_some hfa; simpa using this
      have ⟨h1, h2⟩ := ih r.dst (r.xform x) (r.xform y) (hx n r hmem x y h hgx)
      exact ⟨by simp only [h1], h2⟩

open V.Gen V.Pd

/-- **membership is a property of the bag** (row order, index labels and name are irrelevant) -/
theorem C11_membership_pandas (t : Ty) (c c' : Column) (hd : c.dtype = c'.dtype)
    (hp : c.cells.Perm c'.cells) : containsB t c = containsB t c' :=
  containsB_bag t c c' ⟨hd, hp⟩

/-- **membership is unchanged by repeating the sequence** -/
theorem C11_repeat_pandas (t : Ty) (c : Column) (k : Nat) (w : ColWF c) :
    containsB t (repeatCol c k) = containsB t c := (containsB_repeat t).2 c k w

/-- **detect_type is a property of the bag**, for every typeset and every supply order -/
theorem C11_detect_pandas (o : ColOracle) (b : Built Ty) (f : Nat) (c c' : Column) (hd : c.dtype = c'.dtype)
    (hp : c.cells.Perm c'.cells) :
    (ptraverse (pandasTS o b).idSucc f b.root c).2 = (ptraverse (pandasTS o b).idSucc f b.root c').2 := by
  have l0 := pandasTS_L0 o b
  refine (C11_sim (pandasTS o b).idSucc (fun x y => SameBag x y) ?_ ?_ f b.root c c' ⟨hd, hp⟩).1
  · intro n r hr x y h
    have ⟨hm, hi⟩ := mem_idSucc.mp hr
    have ⟨hg, _⟩ := l0 n r hm hi
    rw [hg x, hg y]
    exact containsB_bag r.dst x y h
  · intro n r hr x y h _
    have ⟨hm, hi⟩ := mem_idSucc.mp hr
    have ⟨_, hxf⟩ := l0 n r hm hi
    rw [hxf x, hxf y]; exact h

theorem C11_detect_repeat_pandas (o : ColOracle) (b : Built Ty) (f : Nat) (c : Column) (k : Nat) (w : ColWF c) :
    (ptraverse (pandasTS o b).idSucc f b.root (repeatCol c k)).2 = (ptraverse (pandasTS o b).idSucc f b.root c).2 := by
  have l0 := pandasTS_L0 o b
  refine (C11_sim (pandasTS o b).idSucc (fun x y => x = repeatCol y k ∧ ColWF y) ?_ ?_ f b.root _ c ⟨rfl, w⟩).1
  · intro n r hr x y h
    have ⟨hm, hi⟩ := mem_idSucc.mp hr
    have ⟨hg, _⟩ := l0 n r hm hi
    rw [hg x, hg y, h.1]
    exact (containsB_repeat r.dst).2 y k h.2
  · intro n r hr x y h _
    have ⟨hm, hi⟩ := mem_idSucc.mp hr
    have ⟨_, hxf⟩ := l0 n r hm hi
    rw [hxf x, hxf y]; exact h

/-- **infer_type and the cast data are properties of the bag**: same inference path, cast columns with the same bag -/
theorem C11_infer_pandas (o : ColOracle) (hdt : DtBag o) (b : Built Ty) (ft : FromTable b) (f : Nat)
    (c c' : Column) (hd : c.dtype = c'.dtype) (hp : c.cells.Perm c'.cells) :
    (ptraverse (pandasTS o b).succ f b.root c).2 = (ptraverse (pandasTS o b).succ f b.root c').2 ∧
    SameBag (ptraverse (pandasTS o b).succ f b.root c).1 (ptraverse (pandasTS o b).succ f b.root c').1 :=
  infer_bag o hdt b ft f b.root c c' ⟨hd, hp⟩

/-- `DtBag` is satisfiable: an element-wise parser (here: the one that refuses everything) has it -/
example : DtBag { toDatetime := fun _ => .raises "ValueError" } := by
  intro l l' _ r tz h; cases h

/-! non-vacuity: a mixed object column and its reversal -/
example :
    let d : Cell := { Cell.ofDate 737425 with null := false }
    let s : Cell := { Cell.blank with cls := "str", isStr := true, strEq := .ok true }
    containsB .Date ⟨.object, [d, s], ["0", "1"], "a"⟩ = containsB .Date ⟨.object, [s, d], ["x", "y"], "b"⟩ := by decide

end V.C11

/-
  C14 — Every constructible typeset is a well-formed rooted relation graph.

  `tableWF` re-checks, by kernel evaluation over the *generated* relation table, the facts about
  the shipped types the general theorem needs.  `C14_wf` is then a general theorem (not an
  enumeration): it covers every parent-closed subset of the shipped types containing Generic —
  all 1,180,800 of them — in every supply order.
-/
import VModel.Generated.Relations
import VModel.Generated.Typesets
import VProofs.Lemmas.GraphL
namespace V.C14
open V V.Gen

/-- the generated table is well formed: Generic declares nothing, every other type declares
exactly one identity relation, no type declares two relations from the same source, and `rank`
(computed by the translator, checked here) increases along every declared relation -/
theorem tableWF : TableWF declared Ty.Generic rank where
  genericNone := by decide
  oneIdentity := by intro t; cases t <;> decide
  srcNodup := by intro t; cases t <;> decide
  rankInc := by intro t; cases t <;> decide

theorem isGeneric_iff (t : Ty) : isGeneric t = true ↔ t = Ty.Generic := by cases t <;> decide

/-- **C14.** For every duplicate-free list `S` of shipped types (any supply order) that contains
Generic and the identity parent of each of its members:
the typeset constructor succeeds; its types are exactly `S`; the root is Generic; nothing is
orphaned; its edges are exactly the declared relations with both end points in `S`, dashed iff
inferential; the relation graph is acyclic (every edge increases `rank`); every non-root type has
exactly one identity in-edge (from its parent) and hangs under Generic in the identity graph — the
identity graph is a tree rooted at Generic spanning `S`. -/
theorem C14_wf (S : List Ty) (nd : S.Nodup) (hg : Ty.Generic ∈ S) (pc : ParentClosedL declared S) :
    ∃ b, mkTypeset declared isGeneric S = .ok b ∧
      b.nodes = S ∧ b.root = Ty.Generic ∧ b.orphaned = [] ∧
      (∀ e, e ∈ b.edges ↔ e.dst ∈ S ∧ e.src ∈ S ∧ (⟨e.src, e.inferential⟩ : RelDecl Ty) ∈ declared e.dst) ∧
      (∀ e ∈ b.edges, rank e.src < rank e.dst) ∧
      (∀ n ∈ S, n ≠ Ty.Generic → ∃ p, ∀ e, (e ∈ b.edges ∧ e.dst = n ∧ e.inferential = false) ↔ e = ⟨p, n, false⟩) ∧
      (∀ n ∈ S, IdReach b.edges Ty.Generic n) := by
  obtain ⟨b, hb, hn, hr, ho, he, _⟩ := buildGraph_closed tableWF S nd hg pc
  refine ⟨b, ?_, hn, hr, ho, ?_, ?_, ?_, ?_⟩
  · simp only [mkTypeset, hb, hr]; rfl
  · intro e; rw [he]; exact mem_presentEdges
  · intro e hmem
    rw [he] at hmem
    exact tableWF.rankInc e.dst ⟨e.src, e.inferential⟩ (mem_presentEdges.mp hmem).2.2
  · intro n hn' hne
    rw [he]
    exact one_identity_in tableWF S nd pc n hn' hne
  · intro n hn'
    rw [he]
    exact idReach_of_closed tableWF S pc (rank n) n (Nat.le_refl _) hn'

/-- **whatever order the types are supplied in**: two supply orders of the same set give the
same types, the same root and the same edge set -/
theorem C14_order (S S' : List Ty) (hp : S.Perm S') (nd : S.Nodup) (hg : Ty.Generic ∈ S)
    (pc : ParentClosedL declared S) :
    ∃ b b', mkTypeset declared isGeneric S = .ok b ∧ mkTypeset declared isGeneric S' = .ok b' ∧
      b.nodes.Perm b'.nodes ∧ b.root = b'.root ∧ (∀ e, e ∈ b.edges ↔ e ∈ b'.edges) := by
  have nd' : S'.Nodup := hp.nodup_iff.mp nd
  have hg' : Ty.Generic ∈ S' := hp.mem_iff.mp hg
  have pc' : ParentClosedL declared S' := fun t ht r hr hi => hp.mem_iff.mp (pc t (hp.mem_iff.mpr ht) r hr hi)
  obtain ⟨b, hb, hn, hr, _, he, _⟩ := C14_wf S nd hg pc
  obtain ⟨b', hb', hn', hr', _, he', _⟩ := C14_wf S' nd' hg' pc'
  refine ⟨b, b', hb, hb', by rw [hn, hn']; exact hp, by rw [hr, hr'], ?_⟩
  intro e
  rw [he, he', hp.mem_iff, hp.mem_iff]

/-- the shipped typesets satisfy the hypotheses of `C14_wf` … -/
theorem standard_ok : standardSet.Nodup ∧ Ty.Generic ∈ standardSet ∧ ParentClosedL declared standardSet := by
  refine ⟨by decide, by decide, ?_⟩
  intro t ht r hr hi
  revert r
  revert t
  decide
theorem geometry_ok : geometrySet.Nodup ∧ Ty.Generic ∈ geometrySet ∧ ParentClosedL declared geometrySet := by
  refine ⟨by decide, by decide, ?_⟩
  intro t ht r hr hi
  revert r
  revert t
  decide
theorem complete_ok : completeSet.Nodup ∧ Ty.Generic ∈ completeSet ∧ ParentClosedL declared completeSet := by
  refine ⟨by decide, by decide, ?_⟩
  intro t ht r hr hi
  revert r
  revert t
  decide

/-- … and are nested in that order -/
theorem C14_nested : (∀ t ∈ standardSet, t ∈ geometrySet) ∧ (∀ t ∈ geometrySet, t ∈ completeSet) := by
  constructor <;> decide

end V.C14

/-
  C16 — Membership is upward closed: types are nested sets.

  `C16_nested_pandas`: L1 for every identity relation of the generated table on the pandas model,
  outside the two classes of columns on which the code itself breaks it (known findings F26, F27,
  each with a kernel-checked witness; F24 was repaired in the code).  `C16_chain`: with L1 and sibling exclusivity the set of
  types containing a datum is exactly its detection path (a chain from the root).
-/
import VProofs.Obligations.PandasNested
import VProofs.Lemmas.Refine
namespace V.C16
open V

variable {T D : Type}

/-- every type that contains `x` lies on the detection path of `x` … -/
theorem on_path_of_contains (ts : TS T D) {I : D → Prop} (wf : ts.WF I) (x : D) (hI : I x) (t : T)
    (hT : ts.contains t x = true) :
    ∀ a, IdPath ts a t → ∀ f, ts.h a < f → t ∈ (ptraverse ts.idSucc f a x).2 := by
  intro a hp
  induction hp with
  | refl a =>
    intro f _
    have := ptraverse_head ts.idSucc f a x
    cases hpth : (ptraverse ts.idSucc f a x).2 with
    | nil => rw [hpth] at this; cases this
    | cons b rest => rw [hpth] at this; simp at this; rw [this]; exact List.mem_cons_self
  | @step a b r hr hrest ih =>
    intro f hf
    cases f with
    | zero => omega
    | succ f =>
      have ⟨hm, hi⟩ := mem_idSucc.mp hr
      have ⟨hg, hx⟩ := wf.idGuard a r hm hi
      have hcd : ts.contains r.dst x = true := idpath_contains ts wf hrest x hI hT
      have hca : ts.contains a x = true := wf.nested a r hm hi x hI hcd
      have hga : r.guard x = true := by rw [hg]; exact hcd
      have h1 : ((ts.idSucc a).filter (·.guard x)).length ≤ 1 :=
        Nat.le_trans (idSucc_filter_le ts a x) (wf.mutex a x hI hca)
      have hfind : pfirst (ts.idSucc a) x = some r := find?_unique_dst _ _ r hr hga h1
      have hlt := wf.height a r hm
      simp only [ptraverse, hfind, hx]
      exact List.mem_cons_of_mem _ (ih hT f (by omega))

/-- **C16_chain**: `x ∈ T` iff `T` lies on the detection path of `x` — the types containing a
datum form exactly a chain from the root -/
theorem C16_chain (ts : TS T D) {I : D → Prop} (wf : ts.WF I) (root : T)
    (f : Nat) (hf : ts.h root < f) (x : D) (hI : I x) (hx : ts.contains root x = true) (t : T)
    (hroot : IdPath ts root t) :
    ts.contains t x = true ↔ t ∈ (ptraverse ts.idSucc f root x).2 := by
  constructor
  · intro hT; exact on_path_of_contains ts wf x hI t hT root hroot f hf
  · intro hmem
    exact (detect_sound ts (fun n r hr hi => wf.idGuard n r hr hi) f root x hx).2.2.1 t hmem

/-- **C16_nested_pandas** (L1 on the pandas model, all 23 identity relations) -/
theorem C16_nested_pandas (child parent : V.Gen.Ty) (hp : Pd.parentOf child = some parent) (c : Column)
    (wf : ∀ x ∈ c.cells, Pd.CellWF x) (hex : Pd.Excl16 child c = false) (h : Pd.containsB child c = true) :
    Pd.containsB parent c = true := Pd.nested_pandas child parent hp c wf hex h

/-- the excluded classes are genuine defects of the pinned tree (kernel-checked witnesses) -/
theorem C16_witness_F26 :
    let p : Cell := { Cell.blank with cls := "PosixPath", isPurePath := true, isPath := true, pathExists := true }
    let c : Column := ⟨.object, [p], ["0"], "None"⟩
    Pd.fileContains c = true ∧ Pd.pathContains c = false := Pd.witness_F26
theorem C16_witness_F27 :
    let c : Column := ⟨.fam .catOther, [Pd.geomCell "POINT (1 2)"], ["0"], "None"⟩
    Pd.geometryContains c = true ∧ Pd.objectContains c = false := Pd.witness_F27

end V.C16

/-
  C20 — The LRU cache helper is transparent and bounded.
  All histories, all capacities ≥ 1, any key function, any wrapped function.
-/
import VProofs.Lemmas.LRUL
namespace V.C20
open V

variable {K V A : Type} [DecidableEq K]

/-- the state after a whole history of `get` calls -/
def after (key : A → K) (f : A → V) (c : LRU K V) (h : List A) : LRU K V := (LRU.run key f c h).2.1

theorem after_nil (key : A → K) (f : A → V) (c : LRU K V) : after key f c [] = c := rfl
theorem after_cons (key : A → K) (f : A → V) (c : LRU K V) (a : A) (h : List A) :
    after key f c (a :: h) = after key f (c.get key f a).2.1 h := by
  simp only [after, LRU.run]

theorem inv_empty (key : A → K) (f : A → V) (cap : Nat) : (LRU.empty cap : LRU K V).Inv key f :=
  ⟨by simp [LRU.empty, LRU.keys], by simp [LRU.empty], by simp [LRU.empty]⟩

/-- **C20_inv**: after every history the keys are distinct, there are at most `max_length`
entries, and every cached value is the wrapped function's value for an argument with that key -/
theorem C20_inv (key : A → K) (f : A → V) (cap : Nat) (hcap : 1 ≤ cap) (h : List A) :
    (after key f (LRU.empty cap) h).Inv key f ∧ (after key f (LRU.empty cap) h).cap = cap := by
  suffices ∀ c : LRU K V, c.Inv key f → c.cap = cap →
      (after key f c h).Inv key f ∧ (after key f c h).cap = cap from
    this _ (inv_empty key f cap) rfl
  induction h with
  | nil => intro c hi hc; exact ⟨hi, hc⟩
  | cons a h ih =>
    intro c hi hc
    rw [after_cons]
    have ⟨hi', hc'⟩ := inv_get c key f a (by omega) hi
    exact ih _ hi' (by rw [hc', hc])

/-- never more than `max_length` entries -/
theorem C20_bounded (key : A → K) (f : A → V) (cap : Nat) (hcap : 1 ≤ cap) (h : List A) :
    (after key f (LRU.empty cap) h).items.length ≤ cap := by
  have ⟨hi, hc⟩ := C20_inv key f cap hcap h
  have := hi.bounded
  omega

/-- **C20_transparent**: with a key function that identifies arguments, every call returns
exactly what the wrapped function returns -/
theorem C20_transparent (key : A → K) (hinj : ∀ a b, key a = key b → a = b) (f : A → V)
    (c : LRU K V) (hcap : 1 ≤ c.cap) (hi : c.Inv key f) (a : A) :
    (c.get key f a).1 = some (f a) := by
  by_cases h : key a ∈ c.keys
  · obtain ⟨v, hm, hg⟩ := get_hit c key f a h
    rw [hg]
    obtain ⟨a', hk, hv⟩ := hi.values _ hm
    simp only at hk hv
    rw [hv, hinj a' a hk]
  · rw [get_miss c key f a h hcap hi.bounded]

theorem C20_transparent_history (key : A → K) (hinj : ∀ a b, key a = key b → a = b) (f : A → V)
    (cap : Nat) (hcap : 1 ≤ cap) (h : List A) (a : A) :
    ((after key f (LRU.empty cap) h).get key f a).1 = some (f a) := by
  have ⟨hi, hc⟩ := C20_inv key f cap hcap h
  exact C20_transparent key hinj f _ (by omega) hi a

/-- **C20_miss_only**: the wrapped function is called exactly when the key is absent -/
theorem C20_miss_only (key : A → K) (f : A → V) (c : LRU K V) (hcap : 1 ≤ c.cap)
    (hb : c.items.length ≤ c.cap) (a : A) :
    (c.get key f a).2.2 = !(c.keys.contains (key a)) := by
  by_cases h : key a ∈ c.keys
  · obtain ⟨v, _, hg⟩ := get_hit c key f a h
    rw [hg]; simp [h]
  · rw [get_miss c key f a h hcap hb]; simp [h]

/-- **C20_lru** (refinement): after every history the cached keys are the most recently used
distinct keys — the recency list is `evicted ++ cached`, and a key is only ever evicted from a full
cache, from the least-recently-used end -/
theorem C20_lru (key : A → K) (f : A → V) (cap : Nat) (hcap : 1 ≤ cap) (h : List A) :
    Refines (after key f (LRU.empty cap) h) (h.foldl (fun l a => touch l (key a)) []) := by
  suffices ∀ (c : LRU K V) (spec : List K), c.Inv key f → c.cap = cap → Refines c spec →
      Refines (after key f c h) (h.foldl (fun l a => touch l (key a)) spec) from
    this _ [] (inv_empty key f cap) rfl ⟨[], by simp [LRU.empty, LRU.keys], by simp, by simp⟩
  induction h with
  | nil => intro c spec _ _ hr; exact hr
  | cons a h ih =>
    intro c spec hi hc hr
    rw [after_cons]
    simp only [List.foldl_cons]
    have ⟨hi', hc'⟩ := inv_get c key f a (by omega) hi
    exact ih _ _ hi' (by rw [hc', hc]) (refines_get c key f a (by omega) hi.bounded spec hr)

/-- capacity 0 is *not* totalised away: the very first call raises `KeyError` (model: `none`) -/
theorem C20_cap_zero (key : A → K) (f : A → V) (a : A) :
    ((LRU.empty 0 : LRU K V).get key f a).1 = none := by
  simp [LRU.get, LRU.empty, LRU.setitem, LRU.getitem, LRU.lookup]

/-! non-vacuity: a concrete history over capacity 2 -/
example : (LRU.run (fun a : Nat => a) (fun a => a * 7 + 1) (LRU.empty 2) [1, 2, 1, 3, 2]).1
    = [some 8, some 15, some 8, some 22, some 15] := by decide
example : (after (fun a : Nat => a) (fun a => a * 7 + 1) (LRU.empty 2) [1, 2, 1, 3, 2]).keys = [3, 2] := by decide

end V.C20

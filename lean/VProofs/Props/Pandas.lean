/-
  The engine properties instantiated for the pandas backend model.

  For EVERY duplicate-free, parent-closed list `S` of the 22 types of CompleteSet+EmailAddress that
  contains Generic (any supply order), and EVERY abstract column `c` satisfying `Good o c` (any dtype
  family, any cells, any placement of missing values, any length, any index):

    C03_pandas   the cast column is contained in the inferred type, and detecting it gives exactly the inferred type, unchanged;
    C04_pandas   inferring the cast column again returns the same column and the same type;
    C16_pandas   the types of `S` that contain `c` are exactly the detection path of `c`;
    C02_pandas   another supply order `S'` of the same types gives the same inference path and the same cast column.

  Only hypothesis: `Good o c` on the INPUT column (named facts about CPython classes, `isna`, the element
  parsers and `pd.to_datetime`, and exclusion of the known-finding inputs — see PandasWF).  It is
  executable (`goodB`, sound by `goodB_sound`): the driver evaluates it on α(series) for every generated
  input, so the harness knows for which real inputs the theorems apply.  Closure of `Good` under the 14
  transformers is proved (`outputs_good`), so nothing is assumed about intermediate columns.
-/
import VProofs.Obligations.PandasTypeset
import VProofs.Obligations.PandasGoodB
import VProofs.Props.C16
import VProofs.Props.C14
namespace V.PandasProps
open V V.Gen V.Pd

/-- fuel 64 exceeds every height of `pandasTS` -/
theorem fuel_ok (o : ColOracle) (b : Built Ty) (t : Ty) : (pandasTS o b).h t < 64 := by
  show 32 - rank t < 64; omega

theorem C03_pandas (o : ColOracle) (S : List Ty) (nd : S.Nodup) (hg : Ty.Generic ∈ S)
    (pc : ParentClosedL declared S) (hsub : ∀ t ∈ S, t ∈ completeSet) (c : Column) (hG : Good o c) :
    ∃ b, mkTypeset declared isGeneric S = .ok b ∧
      let res := ptraverse (pandasTS o b).succ 64 b.root c
      let t := plast b.root res.2
      containsB t res.1 = true ∧
      (ptraverse (pandasTS o b).idSucc 64 b.root res.1).1 = res.1 ∧
      plast b.root (ptraverse (pandasTS o b).idSucc 64 b.root res.1).2 = t := by
  obtain ⟨b, hb, hr, _, ft, hN⟩ := built_typeset o S nd hg pc hsub
  refine ⟨b, hb, ?_⟩
  rw [hr]
  exact infer_sound (pandasTS o b) (pandas_WF' o b ft) Ty.Generic _ hN 64 (fuel_ok o b _) c hG rfl

theorem C04_pandas (o : ColOracle) (S : List Ty) (nd : S.Nodup) (hg : Ty.Generic ∈ S)
    (pc : ParentClosedL declared S) (hsub : ∀ t ∈ S, t ∈ completeSet) (c : Column) (hG : Good o c) :
    ∃ b, mkTypeset declared isGeneric S = .ok b ∧
      let res := ptraverse (pandasTS o b).succ 64 b.root c
      (ptraverse (pandasTS o b).succ 64 b.root res.1).1 = res.1 ∧
      plast b.root (ptraverse (pandasTS o b).succ 64 b.root res.1).2 = plast b.root res.2 := by
  obtain ⟨b, hb, hr, _, ft, hN⟩ := built_typeset o S nd hg pc hsub
  refine ⟨b, hb, ?_⟩
  rw [hr]
  exact infer_fixpoint (pandasTS o b) (pandas_WF' o b ft) Ty.Generic _ hN 64 (fuel_ok o b _) c hG rfl

theorem C16_pandas (o : ColOracle) (S : List Ty) (nd : S.Nodup) (hg : Ty.Generic ∈ S)
    (pc : ParentClosedL declared S) (hsub : ∀ t ∈ S, t ∈ completeSet) (c : Column) (hG : Good o c)
    (t : Ty) (ht : t ∈ S) :
    ∃ b, mkTypeset declared isGeneric S = .ok b ∧
      (containsB t c = true ↔ t ∈ (ptraverse (pandasTS o b).idSucc 64 b.root c).2) := by
  obtain ⟨b, hb, hr, _, ft, hN⟩ := built_typeset o S nd hg pc hsub
  refine ⟨b, hb, ?_⟩
  rw [hr]
  exact C16.C16_chain (pandasTS o b) (pandas_WF' o b ft) Ty.Generic 64 (fuel_ok o b _) c hG rfl t (hN.idpath t ht)

/-- two supply orders of the same types give permuted adjacency lists -/
theorem succ_perm (o : ColOracle) (b b' : Built Ty) (hperm : b.edges.Perm b'.edges) (n : Ty) :
    ((pandasTS o b).succ n).Perm ((pandasTS o b').succ n) := by
  simp only [pandasTS, purify, graphOf]
  exact ((hperm.filter _).map _).map _

theorem C02_pandas (o : ColOracle) (S S' : List Ty) (hp : S.Perm S') (nd : S.Nodup)
    (hg : Ty.Generic ∈ S) (pc : ParentClosedL declared S) (hsub : ∀ t ∈ S, t ∈ completeSet)
    (c : Column) (hG : Good o c) :
    ∃ b b', mkTypeset declared isGeneric S = .ok b ∧ mkTypeset declared isGeneric S' = .ok b' ∧
      ptraverse (pandasTS o b).succ 64 b.root c = ptraverse (pandasTS o b').succ 64 b'.root c := by
  have nd' : S'.Nodup := hp.nodup_iff.mp nd
  have hg' : Ty.Generic ∈ S' := hp.mem_iff.mp hg
  have pc' : ParentClosedL declared S' := fun t ht r hr hi => hp.mem_iff.mp (pc t (hp.mem_iff.mpr ht) r hr hi)
  obtain ⟨b, hb, hr, _, ft, _⟩ := built_typeset o S nd hg pc hsub
  obtain ⟨b', hb', hr', _, _, _⟩ := built_typeset o S' nd' hg' pc' (fun t ht => hsub t (hp.mem_iff.mpr ht))
  refine ⟨b, b', hb, hb', ?_⟩
  -- the edge lists are permutations of each other (both duplicate-free with the same members)
  obtain ⟨b1, hb1, _, _, _, he1, _⟩ := buildGraph_closed C14.tableWF S nd hg pc
  obtain ⟨b2, hb2, _, _, _, he2, _⟩ := buildGraph_closed C14.tableWF S' nd' hg' pc'
  have e1 : b = b1 := by
    have : mkTypeset declared isGeneric S = .ok b1 := by
      simp only [mkTypeset, hb1]
      have : b1.root = Ty.Generic := by assumption
      simp [this]; rfl
    rw [hb] at this; exact (Except.ok.inj this)
  have e2 : b' = b2 := by
    have : mkTypeset declared isGeneric S' = .ok b2 := by
      simp only [mkTypeset, hb2]
      have : b2.root = Ty.Generic := by assumption
      simp [this]; rfl
    rw [hb'] at this; exact (Except.ok.inj this)
  have hpair : ∀ S : List Ty, S.Nodup → (presentEdges declared S).Nodup := by
    intro S nd
    have := (allDecls_pairwise C14.tableWF.srcNodup S nd).sublist (List.filter_sublist (p := fun e => S.contains e.src))
    exact this.imp (fun hne heq => hne ⟨by rw [heq], by rw [heq]⟩)
  have hperm : b.edges.Perm b'.edges := by
    rw [e1, e2, he1, he2]
    apply (List.perm_ext_iff_of_nodup (hpair S nd) (hpair S' nd')).mpr
    intro e
    rw [mem_presentEdges, mem_presentEdges, hp.mem_iff, hp.mem_iff]
  rw [hr, hr']
  exact C02.C02_order_indep (pandasTS o b) (pandas_WF' o b ft) (pandasTS o b').succ (succ_perm o b b' hperm)
    64 Ty.Generic c hG rfl

/-- the same, stated on what the driver evaluates: whenever the full-engine traversal of the executable
model returns normally, its result column is contained in its result type and is a fixpoint -/
theorem C03_pandas_model (o : ColOracle) (S : List Ty) (nd : S.Nodup) (hg : Ty.Generic ∈ S)
    (pc : ParentClosedL declared S) (hsub : ∀ t ∈ S, t ∈ completeSet) (c : Column) (hG : Good o c) :
    ∃ b, mkTypeset declared isGeneric S = .ok b ∧
      ∀ d p, traverse (graphOf o b) 64 b.root c () [] = .ok (d, p, ()) →
        containsB (plast b.root p) d = true ∧
        ptraverse (pandasTS o b).succ 64 b.root d = (d, (ptraverse (pandasTS o b).succ 64 b.root d).2) ∧
        plast b.root (ptraverse (pandasTS o b).succ 64 b.root d).2 = plast b.root p := by
  obtain ⟨b, hb, h3⟩ := C03_pandas o S nd hg pc hsub c hG
  obtain ⟨b', hb', h4⟩ := C04_pandas o S nd hg pc hsub c hG
  have : b' = b := by rw [hb] at hb'; exact (Except.ok.inj hb').symm
  subst this
  refine ⟨b', hb, ?_⟩
  intro d p h
  have e := infer_model_eq o b' 64 b'.root c d p h
  simp only [e] at h3 h4
  exact ⟨h3.1, Prod.ext h4.1 rfl, h4.2⟩

/-! ### the hypotheses are satisfiable, and the theorems say something on concrete columns -/

def o0 : ColOracle := { toDatetime := fun _ => .raises "ValueError" }
/-- complex128 column [1+0j, 2+0j]: inferred Generic → Complex → Float → Integer -/
def cz : Column :=
  { dtype := .fam .complex, cells := [Cell.ofComplex (.fin 1 0) (.fin 0 0), Cell.ofComplex (.fin 2 0) (.fin 0 0)],
    index := ["0", "1"], name := "z" }
/-- object column [True, None, False]: inferred Generic → Object → Boolean (nullable) -/
def cb : Column :=
  { dtype := .object, cells := [Cell.ofBool true, Cell.missing .none_, Cell.ofBool false], index := ["0", "1", "2"], name := "b" }

theorem good_cz : Good o0 cz := goodB_sound _ _ (by decide +kernel)
theorem good_cb : Good o0 cb := goodB_sound _ _ (by decide +kernel)

/-- the theorems apply to these columns … -/
example : ∃ b, mkTypeset declared isGeneric completeSet = .ok b ∧
    containsB (plast b.root (ptraverse (pandasTS o0 b).succ 64 b.root cz).2) (ptraverse (pandasTS o0 b).succ 64 b.root cz).1 = true := by
  obtain ⟨b, hb, h⟩ := C03_pandas o0 completeSet C14.complete_ok.1 C14.complete_ok.2.1 C14.complete_ok.2.2 (fun _ h => h) cz good_cz
  exact ⟨b, hb, h.1⟩

/-- … and the model's answers on them are the non-trivial inference chains -/
example : (match mkTypeset declared isGeneric completeSet with
    | .ok b => some ((ptraverse (pandasTS o0 b).succ 64 b.root cz).2, (ptraverse (pandasTS o0 b).succ 64 b.root cb).2)
    | .error _ => none) = some ([.Generic, .Complex, .Float, .Integer], [.Generic, .Object, .Boolean]) := by
  decide +kernel

end V.PandasProps

/-
  The python-sequence back end (lists and tuples): C01, C09 and C11 for membership and `detect`.

  The property list excludes Python lists from C02 and C16 (sibling exclusivity and upward closure fail there by
  design of that back end), so what is proved is what does hold for every list: detection is sound and most specific
  for every typeset built from the relation table (C01), never raises (C09: the functions are total), and membership and
  the detection path depend on the bag of elements only (C11).  The model (`VModel/PyList.lean`) is tied to the code by
  the list runner's correspondence on the `isinstance` facts of every generated element.
-/
import VModel.PyList
import VProofs.Props.C01
import VProofs.Obligations.PandasTypeset
import VProofs.Obligations.PandasBagInfer
namespace V.PyProps
open V V.Gen V.Py

/-- the list back end as a type system over identity relations -/
def listTS (b : Built Ty) : TS Ty Seq :=
  { succ := listSucc b, contains := containsL, h := fun t => 32 - rank t }

theorem listTS_L0 (b : Built Ty) : (listTS b).L0 := by
  intro n r hr _
  simp only [listTS, listSucc, List.mem_map] at hr
  obtain ⟨e, _, rfl⟩ := hr
  exact ⟨fun _ => rfl, fun _ => rfl⟩

theorem listTS_height (b : Built Ty) (hrank : ∀ e ∈ b.edges, rank e.src < rank e.dst) :
    ∀ n r, r ∈ (listTS b).succ n → (listTS b).h r.dst < (listTS b).h n := by
  intro n r hr
  simp only [listTS, listSucc, List.mem_map, List.mem_filter, Built.baseEdges] at hr
  obtain ⟨e, ⟨⟨he, _⟩, hs⟩, rfl⟩ := hr
  have hsrc : e.src = n := by simpa using hs
  have := hrank e he
  have h1 := Pd.rank_le e.dst
  show 32 - rank e.dst < 32 - rank n
  rw [← hsrc]; omega

theorem listTS_idSucc (b : Built Ty) : (listTS b).idSucc = listSucc b := by
  funext n
  simp only [TS.idSucc, pbase, listTS]
  apply List.filter_eq_self.mpr
  intro r hr
  simp only [listSucc, List.mem_map] at hr
  obtain ⟨e, _, rfl⟩ := hr
  rfl

/-- **C01 for lists**: for every typeset built from the relation table and EVERY sequence, detection returns the
sequence itself, every type on the reported path contains it, the path is a chain of identity relations from the root,
and no identity child of the answer contains it -/
theorem C01_list (b : Built Ty) (hrank : ∀ e ∈ b.edges, rank e.src < rank e.dst) (s : Seq)
    (hroot : containsL b.root s = true) :
    let res := ptraverse (listSucc b) 64 b.root s
    res.1 = s ∧ res.2.head? = some b.root ∧ (∀ t ∈ res.2, containsL t s = true) ∧
    (∀ r ∈ listSucc b (plast b.root res.2), containsL r.dst s = false) := by
  have h := C01.C01_detect (listTS b) (listTS_L0 b) (listTS_height b hrank) b.root 64 (by show 32 - rank b.root < 64; omega) s hroot
  rw [listTS_idSucc] at h
  exact ⟨h.1, h.2.1, h.2.2.1, h.2.2.2.2⟩

theorem C01_list_built (S : List Ty) (nd : S.Nodup) (hg : Ty.Generic ∈ S) (pc : ParentClosedL declared S)
    (hsub : ∀ t ∈ S, t ∈ completeSet) (s : Seq) :
    ∃ b, mkTypeset declared isGeneric S = .ok b ∧
      let res := ptraverse (listSucc b) 64 b.root s
      res.1 = s ∧ res.2.head? = some Ty.Generic ∧ (∀ t ∈ res.2, containsL t s = true) ∧
      (∀ r ∈ listSucc b (plast b.root res.2), containsL r.dst s = false) := by
  obtain ⟨b, hb, hr, _, ft, _⟩ := Pd.built_typeset ⟨fun _ => .raises "x"⟩ S nd hg pc hsub
  refine ⟨b, hb, ?_⟩
  have := C01_list b ft.rank s (by rw [hr]; rfl)
  rw [hr] at this ⊢
  exact this

/-! ### C11: membership and detection depend on the bag of elements -/

theorem perm_all' {p : Elem → Bool} {l l' : Seq} (h : l.Perm l') : l.all p = l'.all p := Pd.perm_all p h
theorem perm_any' {p : Elem → Bool} {l l' : Seq} (h : l.Perm l') : l.any p = l'.any p := Pd.perm_any p h

theorem perm_isEmpty' {l l' : Seq} (h : l.Perm l') : l.isEmpty = l'.isEmpty := by
  have := h.length_eq
  cases l <;> cases l' <;> simp_all

theorem notEmpty_perm {f : Seq → Bool} (hf : ∀ l l' : Seq, l.Perm l' → f l = f l') {l l' : Seq} (h : l.Perm l') :
    notEmpty f l = notEmpty f l' := by
  simp only [notEmpty, perm_isEmpty' h, hf l l' h]

theorem handleNone_perm {f : Seq → Bool} (hf : ∀ l l' : Seq, l.Perm l' → f l = f l') {l l' : Seq} (h : l.Perm l') :
    handleNone f l = handleNone f l' := hf _ _ (h.filter _)

/-- **membership of every type is invariant under reordering the elements** -/
theorem C11_membership_list (t : Ty) (l l' : Seq) (h : l.Perm l') : containsL t l = containsL t l' := by
  cases t <;> simp only [containsL, isBoolSeq] <;>
    first
      | rfl
      | exact perm_all' h
      | exact notEmpty_perm (fun _ _ h => perm_all' h) h
      | exact notEmpty_perm (fun _ _ h => handleNone_perm (fun _ _ h => perm_all' h) h) h
      | exact notEmpty_perm (fun _ _ h => handleNone_perm (fun _ _ h => perm_any' h) h) h

/-- **detect_type is invariant under reordering the elements**, for every typeset -/
theorem C11_detect_list (b : Built Ty) (f : Nat) (n : Ty) (l l' : Seq) (h : l.Perm l') :
    (ptraverse (listSucc b) f n l).2 = (ptraverse (listSucc b) f n l').2 := by
  induction f generalizing n l l' with
  | zero => rfl
  | succ f ih =>
    have hfind : pfirst (listSucc b n) l = pfirst (listSucc b n) l' := by
      simp only [pfirst]
      apply Pd.find?_congr'
      intro r hr
      simp only [listSucc, List.mem_map] at hr
      obtain ⟨e, _, rfl⟩ := hr
      exact C11_membership_list e.dst l l' h
    simp only [ptraverse, ← hfind]
    cases hfa : pfirst (listSucc b n) l with
    | none => rfl
    | some r =>
      have hmem : r ∈ listSucc b n := List.mem_of_find?_eq_some hfa
      simp only [listSucc, List.mem_map] at hmem
      obtain ⟨e, _, rfl⟩ := hmem
      simp only [id]
      rw [ih e.dst l l' h]

/-- non-vacuity: a list of one `int` is in Integer and in Count, `[None]` is (vacuously) in Boolean — the overlaps that
make the property list exclude lists from C02 -/
def elemInt : Elem := { (default : Elem) with isInt := true, isNumber := true, nonNeg := true }
example : containsL .Integer [elemInt] = true ∧ containsL .Count [elemInt] = true := by decide

end V.PyProps

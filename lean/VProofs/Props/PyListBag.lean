/-
  C11 for `infer` on the python-sequence back end: the inference path depends on the bag of elements only, and the casts of two
  reorderings of the same bag are reorderings of each other — for every typeset built from the relation table and every sequence
  whose element conversions raise caught classes only (`convCaughtL`, executable; without it Python's lazy `all(...)` makes the
  *exception* a test escapes with depend on which raising element comes first — such sequences are the ones C09 lists).

  Route: under `convCaughtL` each of the 14 relation tests has a closed form built from `List.all` over element-wise facts
  (`*_closed`), hence is invariant under permutation; each transformer is an element-wise map (or, for String -> Path, an
  element-wise map chosen by a permutation-invariant test), hence commutes with permutation up to permutation; a simulation lemma
  for the full engine (`traverse_sim`) lifts both to the traversal.
-/
import VProofs.Props.PyListTotal
namespace V.PyProps
open V V.Gen V.Py
open V.Pd (FromTable rank_le)

/-! ### engine: simulation for the full traversal -/

theorem firstAccept_sim {T D : Type} (rs : List (Rel T D Unit)) (x y : D)
    (hg : ∀ r ∈ rs, ∃ b, r.guard x () = .ok (b, ()) ∧ r.guard y () = .ok (b, ())) :
    ∃ o, firstAccept rs x () = .ok (o, ()) ∧ firstAccept rs y () = .ok (o, ()) ∧
      (∀ r, o = some r → r ∈ rs ∧ r.guard x () = .ok (true, ())) := by
  induction rs with
  | nil => exact ⟨none, rfl, rfl, by simp⟩
  | cons r rs ih =>
    obtain ⟨b, hx, hy⟩ := hg r List.mem_cons_self
    simp only [firstAccept, hx, hy]
    cases b with
    | true => exact ⟨some r, rfl, rfl, by intro r' h; cases h; exact ⟨List.mem_cons_self, hx⟩⟩
    | false =>
      obtain ⟨o, h1, h2, h3⟩ := ih (fun r hr => hg r (List.mem_cons_of_mem _ hr))
      exact ⟨o, h1, h2, fun r' hr => ⟨List.mem_cons_of_mem _ (h3 r' hr).1, (h3 r' hr).2⟩⟩

/-- if related data get the same verdict from every test, and every accepting relation's transformer returns on both and
re-establishes the relation at its target, the two traversals return the same path and related data -/
theorem traverse_sim {T D : Type} (g : Graph T D Unit) (h : T → Nat) (R : T → D → D → Prop)
    (hh : ∀ n r, r ∈ g.succ n → h r.dst < h n)
    (hg : ∀ n x y, R n x y → ∀ r ∈ g.succ n, ∃ b, r.guard x () = .ok (b, ()) ∧ r.guard y () = .ok (b, ()))
    (hx : ∀ n x y, R n x y → ∀ r ∈ g.succ n, r.guard x () = .ok (true, ()) →
      ∃ x' y', r.xform x () = .ok (x', ()) ∧ r.xform y () = .ok (y', ()) ∧ R r.dst x' y') :
    ∀ f n x y acc, h n < f → R n x y →
      ∃ d d' p m, traverse g f n x () acc = .ok (d, p, ()) ∧ traverse g f n y () acc = .ok (d', p, ()) ∧
        p.getLast? = some m ∧ R m d d' := by
  intro f
  induction f with
  | zero => intro n x y acc hf; omega
  | succ f ih =>
    intro n x y acc hf hi
    obtain ⟨o, hv, hv', hmem⟩ := firstAccept_sim (g.succ n) x y (hg n x y hi)
    simp only [traverse, hv, hv']
    cases o with
    | none => exact ⟨x, y, acc ++ [n], n, rfl, rfl, by simp, hi⟩
    | some r =>
      obtain ⟨hr, hacc⟩ := hmem r rfl
      obtain ⟨x', y', hxv, hyv, hi'⟩ := hx n x y hi r hr hacc
      simp only [hxv, hyv]
      have := hh n r hr
      exact ih r.dst x' y' (acc ++ [n]) (by omega) hi'

/-! ### closed forms of Python's `all(...)` and `tuple(map(...))` when every exception is caught -/

def isOkTrue : Outcome Bool → Bool
  | .ok true => true
  | _ => false

theorem tryB_allO_closed (names : List String) (l : List (Outcome Bool))
    (h : ∀ c, Outcome.raises c ∈ l → caught names c = true) : tryB names (allO l) = .ok (l.all isOkTrue) := by
  induction l with
  | nil => rfl
  | cons o os ih =>
    cases o with
    | raises c => simp [allO, tryB, h c List.mem_cons_self, isOkTrue]
    | ok b =>
      cases b with
      | false => simp [allO, tryB, isOkTrue]
      | true =>
        simp only [allO, List.all_cons, isOkTrue, Bool.true_and]
        exact ih (fun c hc => h c (List.mem_cons_of_mem _ hc))

theorem allO_noraise (l : List (Outcome Bool)) (h : ∀ c, Outcome.raises c ∉ l) : allO l = .ok (l.all isOkTrue) := by
  induction l with
  | nil => rfl
  | cons o os ih =>
    cases o with
    | raises c => exact absurd List.mem_cons_self (h c)
    | ok b =>
      cases b with
      | false => simp [allO, isOkTrue]
      | true =>
        simp only [allO, List.all_cons, isOkTrue, Bool.true_and]
        exact ih (fun c hc => h c (List.mem_cons_of_mem _ hc))

theorem firstRaise_none_iff {α : Type} (l : List (Outcome α)) : firstRaise l = none ↔ l.all Outcome.isOk = true := by
  induction l with
  | nil => simp [firstRaise]
  | cons o os ih =>
    cases o with
    | raises c => simp [firstRaise, Outcome.isOk]
    | ok a => simp only [firstRaise, List.all_cons, Outcome.isOk, Bool.true_and]; exact ih

theorem parses_closed {α : Type} (names : List String) (f : Elem → Outcome α) (s : Seq)
    (h : ∀ x ∈ s, ∀ c, f x = .raises c → caught names c = true) :
    parses names f s = .ok ((s.map f).all Outcome.isOk) := by
  simp only [parses]
  cases hfr : firstRaise (s.map f) with
  | none => simp only []; rw [(firstRaise_none_iff _).mp hfr]
  | some c =>
    obtain ⟨x, hx, hxe⟩ := List.mem_map.mp (firstRaise_some_mem hfr)
    simp only [h x hx c hxe, if_true]
    have : (s.map f).all Outcome.isOk ≠ true := by
      intro hall
      have := (firstRaise_none_iff _).mpr hall
      rw [hfr] at this; cases this
    simp only [Bool.not_eq_true] at this
    rw [this]

theorem oks_all_id (l : List (Outcome Bool)) (h : firstRaise l = none) : (oks l).all id = l.all isOkTrue := by
  induction l with
  | nil => rfl
  | cons o os ih =>
    cases o with
    | raises c => simp [firstRaise] at h
    | ok b =>
      simp only [firstRaise] at h
      cases b <;> simp [oks, isOkTrue, ih h]

theorem isOkTrue_isOk {l : List (Outcome Bool)} (h : l.all isOkTrue = true) : l.all Outcome.isOk = true := by
  simp only [List.all_eq_true] at h ⊢
  intro o ho
  have := h o ho
  cases o with
  | raises c => simp [isOkTrue] at this
  | ok b => rfl

theorem allAfterParse_closed (names : List String) (f : Elem → Outcome Bool) (s : Seq)
    (h : ∀ x ∈ s, ∀ c, f x = .raises c → caught names c = true) :
    allAfterParse names f s = .ok ((s.map f).all isOkTrue) := by
  simp only [allAfterParse]
  cases hfr : firstRaise (s.map f) with
  | none => simp only []; rw [oks_all_id _ hfr]
  | some c =>
    obtain ⟨x, hx, hxe⟩ := List.mem_map.mp (firstRaise_some_mem hfr)
    simp only [h x hx c hxe, if_true]
    cases hall : (s.map f).all isOkTrue with
    | false => rfl
    | true =>
      have := (firstRaise_none_iff _).mpr (isOkTrue_isOk hall)
      rw [hfr] at this; cases this

/-! ### sequences with the same support: every test is `all` / `any` over element-wise facts -/

def SameSet (s s' : Seq) : Prop := ∀ x, x ∈ s ↔ x ∈ s'
theorem SameSet.symm' {s s' : Seq} (h : SameSet s s') : SameSet s' s := fun x => (h x).symm
theorem SameSet.of_perm {s s' : Seq} (h : s.Perm s') : SameSet s s' := fun _ => h.mem_iff

theorem all_ss (p : Elem → Bool) {s s' : Seq} (h : SameSet s s') : s.all p = s'.all p := by
  rw [Bool.eq_iff_iff]; simp only [List.all_eq_true]
  exact ⟨fun ha x hx => ha x ((h x).mpr hx), fun ha x hx => ha x ((h x).mp hx)⟩
theorem any_ss (p : Elem → Bool) {s s' : Seq} (h : SameSet s s') : s.any p = s'.any p := by
  rw [Bool.eq_iff_iff]; simp only [List.any_eq_true]
  exact ⟨fun ⟨x, hx, hpx⟩ => ⟨x, (h x).mp hx, hpx⟩, fun ⟨x, hx, hpx⟩ => ⟨x, (h x).mpr hx, hpx⟩⟩
theorem isEmpty_ss {s s' : Seq} (h : SameSet s s') : s.isEmpty = s'.isEmpty := by
  cases s with
  | nil => cases s' with
    | nil => rfl
    | cons a _ => exact absurd ((h a).mpr List.mem_cons_self) (by simp)
  | cons a _ => cases s' with
    | nil => exact absurd ((h a).mp List.mem_cons_self) (by simp)
    | cons _ _ => rfl
theorem filter_ss (p : Elem → Bool) {s s' : Seq} (h : SameSet s s') : SameSet (s.filter p) (s'.filter p) := by
  intro x; simp only [List.mem_filter, h x]
theorem notEmpty_ss {f : Seq → Bool} (hf : ∀ l l' : Seq, SameSet l l' → f l = f l') {l l' : Seq} (h : SameSet l l') :
    notEmpty f l = notEmpty f l' := by
  simp only [notEmpty, isEmpty_ss h, hf l l' h]
theorem handleNone_ss {f : Seq → Bool} (hf : ∀ l l' : Seq, SameSet l l' → f l = f l') {l l' : Seq} (h : SameSet l l') :
    handleNone f l = handleNone f l' := hf _ _ (filter_ss _ h)

/-- membership of every type depends on the support of the sequence only (hence: invariant under k-fold repetition) -/
theorem containsL_ss (t : Ty) (l l' : Seq) (h : SameSet l l') : containsL t l = containsL t l' := by
  cases t <;> simp only [containsL, isBoolSeq] <;>
    first
      | rfl
      | exact all_ss _ h
      | exact notEmpty_ss (fun _ _ h => all_ss _ h) h
      | exact notEmpty_ss (fun _ _ h => handleNone_ss (fun _ _ h => all_ss _ h) h) h
      | exact notEmpty_ss (fun _ _ h => handleNone_ss (fun _ _ h => any_ss _ h) h) h

theorem convCaughtL_ss {s s' : Seq} (h : SameSet s s') : convCaughtL s = convCaughtL s' := all_ss _ h

/-! ### the permutation lemmas -/

theorem map_all_perm {α : Type} (f : Elem → α) (p : α → Bool) {s s' : Seq} (h : SameSet s s') :
    (s.map f).all p = (s'.map f).all p := by
  simp only [List.all_map]; exact all_ss _ h

theorem oks_perm_l {α : Type} {l l' : List (Outcome α)} (h : l.Perm l') : (oks l).Perm (oks l') := by
  induction h with
  | nil => exact List.Perm.nil
  | cons o _ ih => cases o <;> simp only [oks] <;> first | exact ih | exact ih.cons _
  | swap a b l => cases a <;> cases b <;> simp only [oks] <;> first | exact List.Perm.refl _ | exact List.Perm.swap _ _ _
  | trans _ _ ih1 ih2 => exact ih1.trans ih2

theorem firstRaise_none_perm {α : Type} (f : Elem → Outcome α) {s s' : Seq} (h : SameSet s s')
    (hn : firstRaise (s.map f) = none) : firstRaise (s'.map f) = none := by
  rw [firstRaise_none_iff] at hn ⊢
  rw [← map_all_perm f Outcome.isOk h]; exact hn

theorem mapT_perm {α : Type} (f : Elem → Outcome α) (g : α → Elem) {s s' t : Seq} (h : s.Perm s')
    (ht : mapT f g s = .ok t) : ∃ t', mapT f g s' = .ok t' ∧ t.Perm t' := by
  obtain ⟨h1, rfl⟩ := mapT_ok ht
  refine ⟨(oks (s'.map f)).map g, by simp [mapT, firstRaise_none_perm f (SameSet.of_perm h) h1], ?_⟩
  exact (oks_perm_l (h.map f)).map g

theorem tryB_allO_map_perm (names : List String) (f : Elem → Outcome Bool) {s s' : Seq} (hp : SameSet s s')
    (h : ∀ x ∈ s, ∀ c, f x = .raises c → caught names c = true) :
    tryB names (allO (s.map f)) = tryB names (allO (s'.map f)) := by
  have h' : ∀ x ∈ s', ∀ c, f x = .raises c → caught names c = true := fun x hx => h x ((hp x).mpr hx)
  rw [tryB_allO_closed names _ (fun c hc => by obtain ⟨x, hx, hxe⟩ := List.mem_map.mp hc; exact h x hx c hxe),
      tryB_allO_closed names _ (fun c hc => by obtain ⟨x, hx, hxe⟩ := List.mem_map.mp hc; exact h' x hx c hxe),
      map_all_perm f isOkTrue hp]

/-- the two-stage tests: parse everything first (`tuple(map(...))`), then look at the values -/
theorem guard3_perm {α : Type} {names : List String} {f : Elem → Outcome α} {s s' : Seq} (K : Seq → R Bool) (hp : SameSet s s')
    (hcaught : ∀ x ∈ s, ∀ c, f x = .raises c → caught names c = true)
    (hK : firstRaise (s.map f) = none → K s = K s') :
    (match firstRaise (s.map f) with
      | some c => if caught names c then (.ok false : R Bool) else .error (escape c)
      | none => K s) =
    (match firstRaise (s'.map f) with
      | some c => if caught names c then (.ok false : R Bool) else .error (escape c)
      | none => K s') := by
  cases h1 : firstRaise (s.map f) with
  | none => simp only [firstRaise_none_perm f hp h1]; exact hK h1
  | some c =>
    obtain ⟨x, hx, hxe⟩ := List.mem_map.mp (firstRaise_some_mem h1)
    cases h2 : firstRaise (s'.map f) with
    | none => rw [firstRaise_none_perm f hp.symm' h2] at h1; cases h1
    | some c' =>
      obtain ⟨x', hx', hxe'⟩ := List.mem_map.mp (firstRaise_some_mem h2)
      simp only [hcaught x hx c hxe, hcaught x' ((hp x').mpr hx') c' hxe', if_true]

def okD {α : Type} (d : α) : Outcome α → α
  | .ok a => a
  | .raises _ => d

theorem oks_map_okD {α : Type} (d : α) (f : Elem → Outcome α) (s : Seq) (h : firstRaise (s.map f) = none) :
    oks (s.map f) = s.map (fun x => okD d (f x)) := by
  induction s with
  | nil => rfl
  | cons x xs ih =>
    cases hx : f x with
    | raises c => simp [firstRaise, hx] at h
    | ok a =>
      simp only [List.map_cons, hx, firstRaise] at h
      simp only [List.map_cons, hx, oks, okD, ih h]

theorem zip_self_map {β : Type} (val : Elem → β) (s : Seq) : s.zip (s.map val) = s.map (fun x => (x, val x)) := by
  induction s with
  | nil => rfl
  | cons x xs ih => simp [ih]

/-- `no_leading_zeros` is Python's lazy `all` over an element-wise fact of (string, parsed value); it raises only what
`s[0]` raises -/
theorem nlz_form : ∃ F : Elem × FloatV → Outcome Bool,
    (∀ s vals, noLeadingZeros s vals = allO ((s.zip vals).map F)) ∧
    (∀ x v c, F (x, v) = .raises c → x.firstZero = .raises c) := by
  refine ⟨fun (x, v) => match x.firstZero with | .raises c => .raises c | .ok z => .ok (!(z && v.gtOne)), ?_, ?_⟩
  · intro s vals
    simp only [noLeadingZeros]
    split <;> rename_i h <;> exact h.symm
  · intro x v c h
    simp only [] at h
    split at h
    · rename_i c' hc'; cases h; exact hc'
    · cases h

theorem nlz_perm (names : List String) (val : Elem → FloatV) {s s' : Seq} (hp : SameSet s s')
    (h : ∀ x ∈ s, ∀ c, x.firstZero = .raises c → caught names c = true) :
    tryB names (noLeadingZeros s (s.map val)) = tryB names (noLeadingZeros s' (s'.map val)) := by
  obtain ⟨F, hF, hFr⟩ := nlz_form
  rw [hF, hF, zip_self_map, zip_self_map, List.map_map, List.map_map]
  exact tryB_allO_map_perm names _ hp (fun x hx c hc => h x hx c (hFr x (val x) c hc))

/-! ### every test gives the same verdict on two reorderings -/

theorem elemOk_of {s : Seq} (hk : convCaughtL s = true) : ∀ x ∈ s, elemOk x = true := by
  simpa [convCaughtL, List.all_eq_true] using hk

theorem guard_perm_list (src dst : Ty) (g : Seq → R Bool) (hg : guardL src dst = some g) (s s' : Seq)
    (hc : containsL src s = true) (hk : convCaughtL s = true) (hp : SameSet s s') : g s = g s' := by
  have hk' := elemOk_of hk
  have e : ∀ x ∈ s, _ := fun x hx => by have := hk' x hx; simp only [elemOk, Bool.and_eq_true] at this; exact this
  have c3of2 : ∀ c, caught ["ValueError", "TypeError"] c = true → caught ["ValueError", "TypeError", "AttributeError"] c = true :=
    fun c hc => caught_mono (by intro n hn; simp at hn ⊢; rcases hn with rfl | rfl <;> simp) hc
  cases src <;> cases dst <;> simp only [guardL, Option.some.injEq, reduceCtorEq] at hg <;> subst hg
  · -- String -> Boolean: no element of a String sequence (None dropped) raises
    simp only [stringIsBool]
    have key : ∀ F : Elem → Outcome Bool, (∀ x c, F x = .raises c → ∃ d, x.lowerTF = .raises d) →
        allO ((dropNone s).map F) = allO ((dropNone s').map F) := by
      intro F hF
      have hnr : ∀ t : Seq, SameSet t s → ∀ c, Outcome.raises c ∉ (dropNone t).map F := by
        intro t ht c hmem
        obtain ⟨x, hx, hxe⟩ := List.mem_map.mp hmem
        have hxs := List.mem_filter.mp hx
        have hxs1 : x ∈ s := (ht x).mp hxs.1
        have hl := (e x hxs1).1.1.1.1.1.1.1.1.1.1.1.1.1.1
        have hstr : x.isStr = true := by
          simp only [containsL, handleNone] at hc
          exact List.all_eq_true.mp (notEmpty_true hc).2 x (List.mem_filter.mpr ⟨hxs1, hxs.2⟩)
        obtain ⟨d, hd⟩ := hF x c hxe
        simp [hd, hstr] at hl
      rw [allO_noraise _ (hnr s (fun _ => Iff.rfl)), allO_noraise _ (hnr s' hp.symm')]
      simp only [dropNone]
      rw [map_all_perm _ isOkTrue (filter_ss _ hp)]
    rw [key]
    intro x c h
    split at h
    · cases h
    · rename_i d hd; exact ⟨d, hd⟩
  · -- String -> Complex
    simp only [stringIsComplex]
    refine guard3_perm (fun s => tryB ["ValueError", "TypeError", "AttributeError"]
      (noLeadingZeros s ((oks (s.map (·.cplx))).map (·.1)))) hp
      (fun x hx c (hxe : x.cplx = .raises c) => by have := (e x hx).1.1.1.1.1.1.1.1.1.1.1.2; simpa [hxe] using this) (fun h1 => ?_)
    have h2 := firstRaise_none_perm (·.cplx) hp h1
    simp only [oks_map_okD (FloatV.nan, FloatV.nan) _ s h1, oks_map_okD (FloatV.nan, FloatV.nan) _ s' h2, List.map_map]
    exact nlz_perm _ _ hp (fun x hx c hxe => by
      have := (e x hx).1.1.1.1.1.1.1.1.1.1.1.1.2; simp only [hxe] at this; exact c3of2 c this)
  · -- String -> DateTime
    simp only [stringIsDatetime]
    exact guard3_perm (fun _ => .ok true) hp
      (fun x hx c (hxe : x.strp = .raises c) => by have := (e x hx).1.1.1.1.1.1.1.1.1.1.2; simpa [hxe] using this) (fun _ => rfl)
  · -- String -> Float
    simp only [stringIsFloat]
    refine guard3_perm (fun s => tryB ["ValueError", "TypeError"] (noLeadingZeros s (oks (s.map (·.flo))))) hp
      (fun x hx c (hxe : x.flo = .raises c) => by have := (e x hx).1.1.1.1.1.1.1.1.1.1.1.1.1.2; simpa [hxe] using this) (fun h1 => ?_)
    have h2 := firstRaise_none_perm (·.flo) hp h1
    simp only [oks_map_okD FloatV.nan _ s h1, oks_map_okD FloatV.nan _ s' h2]
    exact nlz_perm _ _ hp (fun x hx c hxe => by
      have := (e x hx).1.1.1.1.1.1.1.1.1.1.1.1.2; simpa [hxe] using this)
  · -- String -> Geometry
    simp only [stringIsGeometry]
    exact tryB_allO_map_perm _ _ hp (fun x hx c (hxe : x.wkt = .raises c) => by have := (e x hx).1.1.1.1.1.2; simpa [hxe] using this)
  · -- String -> IPAddress
    simp only [stringIsIp, parses]
    exact guard3_perm (fun _ => .ok true) hp
      (fun x hx c (hxe : x.ip = .raises c) => by have := (e x hx).1.1.1.1.1.1.1.2; simpa [hxe] using this) (fun _ => rfl)
  · -- String -> Path
    simp only [stringIsPath]
    have hw : ∀ x ∈ s, ∀ c, x.winAbs = .raises c → caught ["TypeError"] c = true :=
      fun x hx c hxe => by have := (e x hx).1.1.1.1.2; simpa [hxe] using this
    have hpx : ∀ x ∈ s, ∀ c, x.posixAbs = .raises c → caught ["TypeError"] c = true :=
      fun x hx c hxe => by have := (e x hx).1.1.1.2; simpa [hxe] using this
    cases h1 : firstRaise (s.map (·.winAbs)) with
    | none =>
      have h2 := firstRaise_none_perm (·.winAbs) hp h1
      have u1 : usesWindows s = .ok ((s.map (·.winAbs)).all isOkTrue) := by simp only [usesWindows, h1, oks_all_id _ h1]
      have u2 : usesWindows s' = .ok ((s'.map (·.winAbs)).all isOkTrue) := by simp only [usesWindows, h2, oks_all_id _ h2]
      rw [u1, u2, map_all_perm _ isOkTrue hp]
      cases (s'.map (·.winAbs)).all isOkTrue with
      | true => rfl
      | false =>
        exact guard3_perm (fun s => .ok ((oks (s.map (·.posixAbs))).all id)) hp hpx (fun h3 => by
          simp only [oks_all_id _ h3, oks_all_id _ (firstRaise_none_perm (·.posixAbs) hp h3), map_all_perm _ isOkTrue hp])
    | some c =>
      obtain ⟨x, hx, hxe⟩ := List.mem_map.mp (firstRaise_some_mem h1)
      cases h2 : firstRaise (s'.map (·.winAbs)) with
      | none => rw [firstRaise_none_perm (·.winAbs) hp.symm' h2] at h1; cases h1
      | some c' =>
        obtain ⟨x', hx', hxe'⟩ := List.mem_map.mp (firstRaise_some_mem h2)
        have u1 : usesWindows s = .raises c := by simp only [usesWindows, h1]
        have u2 : usesWindows s' = .raises c' := by simp only [usesWindows, h2]
        rw [u1, u2]
        simp only [hw x hx c hxe, hw x' ((hp x').mpr hx') c' hxe', if_true]
  · -- String -> UUID
    simp only [stringIsUuid, parses]
    exact guard3_perm (fun _ => .ok true) hp
      (fun x hx c (hxe : x.uuid = .raises c) => by have := (e x hx).1.1.1.1.1.1.1.1.2; simpa [hxe] using this) (fun _ => rfl)
  · -- String -> URL
    simp only [stringIsUrl, allAfterParse]
    refine guard3_perm (fun s => .ok ((oks (s.map (·.url))).all id)) hp
      (fun x hx c (hxe : x.url = .raises c) => by have := (e x hx).1.1.1.1.1.1.1.1.1.2; simpa [hxe] using this) (fun h1 => ?_)
    simp only [oks_all_id _ h1, oks_all_id _ (firstRaise_none_perm (·.url) hp h1), map_all_perm _ isOkTrue hp]
  · -- String -> EmailAddress
    simp only [stringIsEmail, allAfterParse]
    refine guard3_perm (fun s => .ok ((oks (s.map (·.email))).all id)) hp
      (fun x hx c (hxe : x.email = .raises c) => by have := (e x hx).1.1.1.1.1.1.2; simpa [hxe] using this) (fun h1 => ?_)
    simp only [oks_all_id _ h1, oks_all_id _ (firstRaise_none_perm (·.email) hp h1), map_all_perm _ isOkTrue hp]
  · -- Complex -> Float
    simp only [complexIsFloat]
    refine tryB_allO_map_perm _ _ hp (fun x hx c hxe => ?_)
    have hcv := (e x hx).1.2
    have hcx : x.isComplex = true := by
      simp only [containsL] at hc
      exact List.all_eq_true.mp (notEmpty_true hc).2 x hx
    simp only [hcx, Bool.not_true, Bool.or_false] at hcv
    cases hv : x.cval with
    | none => simp [hv] at hcv
    | some p => obtain ⟨re, im⟩ := p; simp [hv] at hxe
  · -- DateTime -> Date
    simp only [datetimeIsDate]
    exact tryB_allO_map_perm _ _ hp (fun x hx c (hxe : x.midnight = .raises c) => by have := (e x hx).1.1.2; simpa [hxe] using this)
  · -- Float -> Integer
    simp only [floatIsInt]
    exact tryB_allO_map_perm _ _ hp (fun x hx c (hxe : intEq x = .raises c) => by have := (e x hx).2; simpa [hxe] using this)
  · -- Object -> Boolean
    simp only [objectIsBool]
    exact congrArg Except.ok (containsL_ss .Boolean s s' hp)

/-! ### every transformer commutes with reordering, up to reordering -/

theorem usesWindows_ok_perm {s s' : Seq} (hp : SameSet s s') {b : Bool} (h : usesWindows s = .ok b) : usesWindows s' = .ok b := by
  simp only [usesWindows] at h ⊢
  cases h1 : firstRaise (s.map (·.winAbs)) with
  | some c => simp [h1] at h
  | none =>
    have h2 := firstRaise_none_perm (·.winAbs) hp h1
    simp only [h1, Outcome.ok.injEq] at h
    simp only [h2, Outcome.ok.injEq]
    rw [oks_all_id _ h2, ← map_all_perm _ isOkTrue hp, ← oks_all_id _ h1]; exact h

theorem xform_perm_list (src dst : Ty) (t : Seq → R Seq) (ht : xformL src dst = some t) (s s' r : Seq) (hp : s.Perm s')
    (hr : t s = .ok r) : ∃ r', t s' = .ok r' ∧ r.Perm r' := by
  cases src <;> cases dst <;> simp only [xformL, Option.some.injEq, reduceCtorEq] at ht <;> subst ht
  all_goals first
    | exact mapT_perm _ _ hp hr
    | (simp only [objectToBool, Except.ok.injEq] at hr ⊢; subst hr; exact ⟨_, rfl, hp.map _⟩)
    | (simp only [stringToPath] at hr ⊢
       cases hu : usesWindows s with
       | raises c => simp [hu] at hr
       | ok b =>
         rw [usesWindows_ok_perm (SameSet.of_perm hp) hu]
         cases b <;> simp only [hu] at hr ⊢ <;> exact mapT_perm _ _ hp hr)

theorem mem_oks_iff {α : Type} {l : List (Outcome α)} {a : α} : a ∈ oks l ↔ Outcome.ok a ∈ l := by
  induction l with
  | nil => simp [oks]
  | cons z zs ih => cases z <;> simp [oks, ih]

theorem mapT_ss {α : Type} (f : Elem → Outcome α) (g : α → Elem) {s s' t : Seq} (h : SameSet s s')
    (ht : mapT f g s = .ok t) : ∃ t', mapT f g s' = .ok t' ∧ SameSet t t' := by
  obtain ⟨h1, rfl⟩ := mapT_ok ht
  refine ⟨(oks (s'.map f)).map g, by simp [mapT, firstRaise_none_perm f h h1], ?_⟩
  intro y
  simp only [List.mem_map, mem_oks_iff]
  constructor
  · rintro ⟨a, ⟨x, hx, hxa⟩, rfl⟩; exact ⟨a, ⟨x, (h x).mp hx, hxa⟩, rfl⟩
  · rintro ⟨a, ⟨x, hx, hxa⟩, rfl⟩; exact ⟨a, ⟨x, (h x).mpr hx, hxa⟩, rfl⟩

theorem xform_ss_list (src dst : Ty) (t : Seq → R Seq) (ht : xformL src dst = some t) (s s' r : Seq) (hp : SameSet s s')
    (hr : t s = .ok r) : ∃ r', t s' = .ok r' ∧ SameSet r r' := by
  cases src <;> cases dst <;> simp only [xformL, Option.some.injEq, reduceCtorEq] at ht <;> subst ht
  all_goals first
    | exact mapT_ss _ _ hp hr
    | (simp only [objectToBool, Except.ok.injEq] at hr ⊢; subst hr
       refine ⟨_, rfl, fun y => ?_⟩
       simp only [List.mem_map]
       exact ⟨fun ⟨x, hx, e⟩ => ⟨x, (hp x).mp hx, e⟩, fun ⟨x, hx, e⟩ => ⟨x, (hp x).mpr hx, e⟩⟩)
    | (simp only [stringToPath] at hr ⊢
       cases hu : usesWindows s with
       | raises c => simp [hu] at hr
       | ok b =>
         rw [usesWindows_ok_perm hp hu]
         cases b <;> simp only [hu] at hr ⊢ <;> exact mapT_ss _ _ hp hr)

/-! ### C11 for `infer` on lists -/

/-- the traversal respects every relation between sequences that implies equal support and that every transformer preserves -/
theorem infer_rel_list (Q : Seq → Seq → Prop) (hQss : ∀ x y, Q x y → SameSet x y)
    (hQx : ∀ src dst t, xformL src dst = some t → ∀ x y r, Q x y → t x = .ok r → ∃ r', t y = .ok r' ∧ Q r r')
    (b : Built Ty) (ft : FromTable b) (s s' : Seq) (hp : Q s s') (hk : convCaughtL s = true)
    (hroot : containsL b.root s = true) :
    ∃ d d' p, traverse (graphOfL b) 64 b.root s () [] = .ok (d, p, ()) ∧
      traverse (graphOfL b) 64 b.root s' () [] = .ok (d', p, ()) ∧ Q d d' := by
  have hdef : ∀ e ∈ b.edges, e.inferential = true → ∃ g t, guardL e.src e.dst = some g ∧ xformL e.src e.dst = some t := by
    intro e he hi
    have hd := ft.decl e he
    have : ∀ d ∈ Ty.all, ∀ r ∈ declared d, r.inferential = true →
        (guardL r.src d).isSome = true ∧ (xformL r.src d).isSome = true := by decide
    obtain ⟨h1, h2⟩ := this e.dst (Pd.mem_Ty_all _) _ hd hi
    obtain ⟨g, hg⟩ := Option.isSome_iff_exists.mp h1
    obtain ⟨t, ht⟩ := Option.isSome_iff_exists.mp h2
    exact ⟨g, t, hg, ht⟩
  have key := traverse_sim (graphOfL b) (fun t => 32 - rank t)
    (fun n x y => Q x y ∧ convCaughtL x = true ∧ containsL n x = true) ?_ ?_ ?_ 64 b.root s s' [] (by show 32 - rank b.root < 64; omega)
    ⟨hp, hk, hroot⟩
  · obtain ⟨d, d', p, m, h1, h2, _, h4, _⟩ := key
    exact ⟨d, d', p, h1, h2, h4⟩
  · intro n r hr
    simp only [graphOfL, List.mem_map, List.mem_filter] at hr
    obtain ⟨e, ⟨he, hs⟩, rfl⟩ := hr
    have hsrc : e.src = n := by simpa using hs
    have := ft.rank e he
    have h1 := rank_le e.dst
    have hd : (mkRelL e).dst = e.dst := by by_cases hi : e.inferential = true <;> simp [mkRelL, hi]
    rw [hd, ← hsrc]; omega
  · -- tests
    intro n x y ⟨hxy, hkx, hcx⟩ r hr
    simp only [graphOfL, List.mem_map, List.mem_filter] at hr
    obtain ⟨e, ⟨he, hs⟩, rfl⟩ := hr
    have hsrc : e.src = n := by simpa using hs
    by_cases hi : e.inferential = true
    · obtain ⟨g, t, hgd, _⟩ := hdef e he hi
      have hcs : containsL e.src x = true := by rw [hsrc]; exact hcx
      obtain ⟨v, hv⟩ := C09_tests_total_list e.src e.dst g hgd x hcs hkx
      have hv' : g y = .ok v := by rw [← guard_perm_list e.src e.dst g hgd x y hcs hkx (hQss _ _ hxy)]; exact hv
      exact ⟨v, by simp [mkRelL, hi, hgd, hv, Except.map], by simp [mkRelL, hi, hgd, hv', Except.map]⟩
    · refine ⟨containsL e.dst x, by simp only [mkRelL, hi, Bool.false_eq_true, if_false], ?_⟩
      simp only [mkRelL, hi, Bool.false_eq_true, if_false, containsL_ss e.dst x y (hQss _ _ hxy)]
  · -- transformers
    intro n x y ⟨hxy, hkx, hcx⟩ r hr hacc
    simp only [graphOfL, List.mem_map, List.mem_filter] at hr
    obtain ⟨e, ⟨he, hs⟩, rfl⟩ := hr
    have hsrc : e.src = n := by simpa using hs
    have hcs : containsL e.src x = true := by rw [hsrc]; exact hcx
    by_cases hi : e.inferential = true
    · obtain ⟨g, t, hgd, htd⟩ := hdef e he hi
      have hgx : g x = .ok true := by
        simp only [mkRelL, hi, if_true, hgd, Except.map] at hacc
        cases hq : g x with
        | error err => rw [hq] at hacc; cases hacc
        | ok v => rw [hq] at hacc; simp only [Except.ok.injEq, Prod.mk.injEq] at hacc; rw [hacc.1]
      obtain ⟨c', hc', hk2⟩ := xform_total_list e.src e.dst g t hgd htd x hcs hkx hgx
      obtain ⟨c'', hc'', hpp⟩ := hQx e.src e.dst t htd x y c' hxy hc'
      have hd : (mkRelL e).dst = e.dst := by simp [mkRelL, hi]
      refine ⟨c', c'', by simp [mkRelL, hi, htd, hc', Except.map], by simp [mkRelL, hi, htd, hc'', Except.map], hpp, hk2, ?_⟩
      rw [hd]; exact C03_lands_list e.src e.dst g t hgd htd x c' hcs hgx hc'
    · have hd : (mkRelL e).dst = e.dst := by simp [mkRelL, hi]
      refine ⟨x, y, by simp [mkRelL, hi], by simp [mkRelL, hi], hxy, hkx, ?_⟩
      rw [hd]
      simp only [mkRelL, hi, Bool.false_eq_true, if_false, Except.ok.injEq, Prod.mk.injEq, and_true] at hacc
      exact hacc

/-- **the inference path of a python sequence depends on the bag of its elements only, and the casts of two reorderings are
reorderings of each other** — for every typeset built from the relation table and every sequence passing `convCaughtL` -/
theorem infer_perm_list (b : Built Ty) (ft : FromTable b) (s s' : Seq) (hp : s.Perm s') (hk : convCaughtL s = true)
    (hroot : containsL b.root s = true) :
    ∃ d d' p, traverse (graphOfL b) 64 b.root s () [] = .ok (d, p, ()) ∧
      traverse (graphOfL b) 64 b.root s' () [] = .ok (d', p, ()) ∧ d.Perm d' :=
  infer_rel_list List.Perm (fun _ _ => SameSet.of_perm) (fun src dst t ht x y r => xform_perm_list src dst t ht x y r)
    b ft s s' hp hk hroot

/-- the same for two sequences with the same support (e.g. a sequence and its k-fold repetition) -/
theorem infer_ss_list (b : Built Ty) (ft : FromTable b) (s s' : Seq) (hp : SameSet s s') (hk : convCaughtL s = true)
    (hroot : containsL b.root s = true) :
    ∃ d d' p, traverse (graphOfL b) 64 b.root s () [] = .ok (d, p, ()) ∧
      traverse (graphOfL b) 64 b.root s' () [] = .ok (d', p, ()) ∧ SameSet d d' :=
  infer_rel_list SameSet (fun _ _ h => h) (fun src dst t ht x y r => xform_ss_list src dst t ht x y r)
    b ft s s' hp hk hroot

def repeatSeq (s : Seq) (k : Nat) : Seq := (List.replicate (k + 1) s).flatten

theorem sameSet_repeat (s : Seq) (k : Nat) : SameSet s (repeatSeq s k) := by
  intro x
  simp only [repeatSeq, List.mem_flatten, List.mem_replicate]
  exact ⟨fun hx => ⟨s, ⟨by omega, rfl⟩, hx⟩, fun ⟨l, ⟨_, hl⟩, hx⟩ => hl ▸ hx⟩

/-- **C11 (k-fold repetition) for the list model, end to end**: a sequence and its (k+1)-fold repetition are inferred along
the same path (and the casts have the same support) -/
theorem C11_infer_repeat_list (S : List Ty) (nd : S.Nodup) (hg : Ty.Generic ∈ S) (pc : ParentClosedL declared S)
    (hsub : ∀ t ∈ S, t ∈ completeSet) (s : Seq) (k : Nat) (h : convCaughtL s = true) :
    ∃ b d d' p, mkTypeset declared isGeneric S = .ok b ∧ traverse (graphOfL b) 64 b.root s () [] = .ok (d, p, ()) ∧
      traverse (graphOfL b) 64 b.root (repeatSeq s k) () [] = .ok (d', p, ()) ∧ SameSet d d' := by
  obtain ⟨b, hb, hr, _, ft, _⟩ := Pd.built_typeset ⟨fun _ => .raises "x"⟩ S nd hg pc hsub
  obtain ⟨d, d', p, h1, h2, h3⟩ := infer_ss_list b ft s _ (sameSet_repeat s k) h (by rw [hr]; rfl)
  exact ⟨b, d, d', p, hb, h1, h2, h3⟩

/-! the cast of a repetition is the repetition of the cast -/

theorem firstRaise_append {α : Type} (a b : List (Outcome α)) (ha : firstRaise a = none) (hb : firstRaise b = none) :
    firstRaise (a ++ b) = none := by
  rw [firstRaise_none_iff] at ha hb ⊢
  simp [List.all_append, ha, hb]

theorem oks_append {α : Type} (a b : List (Outcome α)) : oks (a ++ b) = oks a ++ oks b := by
  induction a with
  | nil => rfl
  | cons z zs ih => cases z <;> simp [oks, ih]

theorem mapT_append {α : Type} (f : Elem → Outcome α) (g : α → Elem) {a b ra rb : Seq} (ha : mapT f g a = .ok ra)
    (hb : mapT f g b = .ok rb) : mapT f g (a ++ b) = .ok (ra ++ rb) := by
  obtain ⟨h1, rfl⟩ := mapT_ok ha
  obtain ⟨h2, rfl⟩ := mapT_ok hb
  simp only [mapT, List.map_append, firstRaise_append _ _ h1 h2, oks_append]

theorem repeatSeq_succ (s : Seq) (k : Nat) : repeatSeq s (k + 1) = s ++ repeatSeq s k := by
  simp [repeatSeq, List.replicate_succ]

theorem repeatSeq_zero (s : Seq) : repeatSeq s 0 = s := by simp [repeatSeq]

theorem mapT_repeat {α : Type} (f : Elem → Outcome α) (g : α → Elem) {s r : Seq} (k : Nat) (h : mapT f g s = .ok r) :
    mapT f g (repeatSeq s k) = .ok (repeatSeq r k) := by
  induction k with
  | zero => simpa [repeatSeq_zero] using h
  | succ k ih => rw [repeatSeq_succ, repeatSeq_succ]; exact mapT_append f g h ih

theorem map_repeat (F : Elem → Elem) (s : Seq) (k : Nat) : (repeatSeq s k).map F = repeatSeq (s.map F) k := by
  induction k with
  | zero => simp [repeatSeq_zero]
  | succ k ih => rw [repeatSeq_succ, repeatSeq_succ, List.map_append, ih]

theorem xform_repeat_list (k : Nat) (src dst : Ty) (t : Seq → R Seq) (ht : xformL src dst = some t) (s r : Seq)
    (hr : t s = .ok r) : t (repeatSeq s k) = .ok (repeatSeq r k) := by
  cases src <;> cases dst <;> simp only [xformL, Option.some.injEq, reduceCtorEq] at ht <;> subst ht
  all_goals first
    | exact mapT_repeat _ _ k hr
    | (simp only [objectToBool, Except.ok.injEq] at hr ⊢; subst hr; exact map_repeat _ s k)
    | (simp only [stringToPath] at hr ⊢
       cases hu : usesWindows s with
       | raises c => simp [hu] at hr
       | ok b =>
         rw [usesWindows_ok_perm (sameSet_repeat s k) hu]
         cases b <;> simp only [hu] at hr ⊢ <;> exact mapT_repeat _ _ k hr)

/-- **C11 (k-fold repetition), exact form**: a sequence and its (k+1)-fold repetition are inferred along the same path, and
the cast of the repetition is the repetition of the cast -/
theorem C11_infer_repeat_exact_list (S : List Ty) (nd : S.Nodup) (hg : Ty.Generic ∈ S) (pc : ParentClosedL declared S)
    (hsub : ∀ t ∈ S, t ∈ completeSet) (s : Seq) (k : Nat) (h : convCaughtL s = true) :
    ∃ b d p, mkTypeset declared isGeneric S = .ok b ∧ traverse (graphOfL b) 64 b.root s () [] = .ok (d, p, ()) ∧
      traverse (graphOfL b) 64 b.root (repeatSeq s k) () [] = .ok (repeatSeq d k, p, ()) := by
  obtain ⟨b, hb, hr, _, ft, _⟩ := Pd.built_typeset ⟨fun _ => .raises "x"⟩ S nd hg pc hsub
  obtain ⟨d, d', p, h1, h2, h3⟩ := infer_rel_list (fun x y => y = repeatSeq x k)
    (fun x y e => e ▸ sameSet_repeat x k)
    (fun src dst t ht x y r e hr => ⟨repeatSeq r k, e ▸ xform_repeat_list k src dst t ht x r hr, rfl⟩)
    b ft s _ rfl h (by rw [hr]; rfl)
  subst h3
  exact ⟨b, d, p, hb, h1, h2⟩

/-- **C11 (inference) for the list model, end to end**: for every constructible sub-typeset of CompleteSet, two reorderings of
a sequence passing `convCaughtL` are inferred along the same path, and their casts are reorderings of each other -/
theorem C11_infer_list (S : List Ty) (nd : S.Nodup) (hg : Ty.Generic ∈ S) (pc : ParentClosedL declared S)
    (hsub : ∀ t ∈ S, t ∈ completeSet) (s s' : Seq) (hp : s.Perm s') (h : convCaughtL s = true) :
    ∃ b d d' p, mkTypeset declared isGeneric S = .ok b ∧ traverse (graphOfL b) 64 b.root s () [] = .ok (d, p, ()) ∧
      traverse (graphOfL b) 64 b.root s' () [] = .ok (d', p, ()) ∧ d.Perm d' := by
  obtain ⟨b, hb, hr, _, ft, _⟩ := Pd.built_typeset ⟨fun _ => .raises "x"⟩ S nd hg pc hsub
  obtain ⟨d, d', p, h1, h2, h3⟩ := infer_perm_list b ft s s' hp h (by rw [hr]; rfl)
  exact ⟨b, d, d', p, hb, h1, h2, h3⟩

/-- non-vacuity: two orders of a numeric-string sequence -/
example : [sNum (.fin 3 1) false, sNum (.fin 2 0) false].Perm [sNum (.fin 2 0) false, sNum (.fin 3 1) false] ∧
    convCaughtL [sNum (.fin 3 1) false, sNum (.fin 2 0) false] = true := ⟨List.Perm.swap _ _ _, by decide⟩

end V.PyProps

/-
  C01 — Detection is sound and most specific.

  `C01_detect` is a fact about the engine plus L0 (identity relations test the target's membership
  and return the data unchanged): for ANY type system, typeset, successor order and input, the
  detection walk returns the input itself, a path that starts at the root, follows identity edges,
  consists only of types containing the input, and ends at a type none of whose identity children
  (in the typeset) contains it.  `C01_engine` transports this to the full engine (state, errors)
  whenever detection returns normally.  `C01_pandas` instantiates it for the pandas backend model on
  every typeset built from the generated relation table.
-/
import VProofs.Lemmas.Refine
import VProofs.Lemmas.Full
import VProofs.Lemmas.GraphL
import VProofs.Lemmas.PandasTS
import VModel.Generated.Typesets
namespace V.C01
open V

variable {T D : Type}

/-- **C01 (pure engine).** -/
theorem C01_detect (ts : TS T D) (l0 : ts.L0) (hh : ∀ n r, r ∈ ts.succ n → ts.h r.dst < ts.h n)
    (root : T) (f : Nat) (hf : ts.h root < f) (x : D) (hx : ts.contains root x = true) :
    let res := ptraverse ts.idSucc f root x
    res.1 = x ∧ res.2.head? = some root ∧
    (∀ t ∈ res.2, ts.contains t x = true) ∧
    Linked (fun a b => ∃ r ∈ ts.idSucc a, r.dst = b) res.2 ∧
    (∀ r ∈ ts.idSucc (plast root res.2), ts.contains r.dst x = false) := by
  have ⟨h1, h2, h3, h4⟩ := detect_sound ts l0 f root x hx
  exact ⟨h1, h2, h3, h4, detect_most_specific ts l0 hh f root x hf⟩

/-! ### the pandas backend: the relation graph of any built typeset satisfies L0 by construction -/
open V.Gen V.Pd

/-- **C01 for pandas columns**: for every typeset whose edges increase `rank` (all parent-closed
typesets, by C14), every abstract column (any dtype family, any cells, any placement of missing
values, any length, any index): the detection path starts at the root, each type on it contains the
column, consecutive types are joined by identity relations, the column is returned unchanged, and no
identity child of the answer contains it. -/
theorem C01_pandas (o : ColOracle) (b : Built Ty) (hrank : ∀ e ∈ b.edges, rank e.src < rank e.dst)
    (c : Column) (hroot : containsB b.root c = true) :
    let res := ptraverse (pandasTS o b).idSucc 64 b.root c
    res.1 = c ∧ res.2.head? = some b.root ∧ (∀ t ∈ res.2, containsB t c = true) ∧
    Linked (fun a b' => ∃ r ∈ (pandasTS o b).idSucc a, r.dst = b') res.2 ∧
    (∀ r ∈ (pandasTS o b).idSucc (plast b.root res.2), containsB r.dst c = false) :=
  C01_detect (pandasTS o b) (pandasTS_L0 o b) (pandasTS_height o b hrank) b.root 64
    (by simp only [pandasTS]; omega) c hroot

/-- … and this is what the executable model (the function the correspondence runner compares with
`VisionsTypeset.detect`) returns, whenever it returns normally -/
theorem C01_pandas_model (o : ColOracle) (b : Built Ty) (hrank : ∀ e ∈ b.edges, rank e.src < rank e.dst)
    (c d : Column) (p : List Ty) (hroot : containsB b.root c = true)
    (h : traverse (graphOf o b).base 64 b.root c () [] = .ok (d, p, ())) :
    d = c ∧ p.head? = some b.root ∧ (∀ t ∈ p, containsB t c = true) ∧
    (∀ r ∈ (pandasTS o b).idSucc (plast b.root p), containsB r.dst c = false) := by
  have e := detect_model_eq o b 64 b.root c d p h
  have ⟨h1, h2, h3, _, h5⟩ := C01_pandas o b hrank c hroot
  rw [e] at h1 h2 h3 h5
  exact ⟨h1, h2, h3, h5⟩

/-! non-vacuity: the shipped StandardSet on a concrete float column -/
example :
    let b := (mkTypeset declared isGeneric standardSet)
    (match b with
     | .ok b => (ptraverse (pandasTS ⟨fun _ => .raises "x"⟩ b).idSucc 64 b.root
        ⟨.fam .float, [Cell.ofFloat (.fin 3 1)], ["0"], "None"⟩).2
     | .error _ => []) = [Ty.Generic, Ty.Float] := by decide

end V.C01

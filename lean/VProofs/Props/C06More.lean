/-
  C06, element by element, for the pandas model: every output cell of a coercion is the decoding of the input cell AT THE SAME
  POSITION — for the object-valued targets (Geometry, IPAddress, URL, UUID, EmailAddress: the object the library parser
  returns for that string; a missing value stays the very same cell) and for the numeric string relations (the number
  `float()` / `complex()` returns for that string).  Together with `C06_shape` (length, index, name) and `nulls_pandas`
  (positions of missing values) this is the statement of C06 for one coercion; `C06_shape_infer` composes it along the walk.
-/
import VProofs.Props.C06
namespace V.C06
open V V.Gen V.Pd

/-- two lists of the same length whose elements at equal positions are related by `R` -/
inductive Pointwise {α β : Type} (R : α → β → Prop) : List α → List β → Prop where
  | nil : Pointwise R [] []
  | cons {a : α} {b : β} {as : List α} {bs : List β} : R a b → Pointwise R as bs → Pointwise R (a :: as) (b :: bs)

theorem Pointwise.imp {α β : Type} {R S : α → β → Prop} {l : List α} {l' : List β} (h : Pointwise R l l')
    (hi : ∀ a b, R a b → S a b) : Pointwise S l l' := by
  induction h with
  | nil => exact Pointwise.nil
  | cons h1 _ ih => exact Pointwise.cons (hi _ _ h1) ih

theorem Pointwise.length_eq {α β : Type} {R : α → β → Prop} {l : List α} {l' : List β} (h : Pointwise R l l') :
    l.length = l'.length := by
  induction h with
  | nil => rfl
  | cons _ _ ih => simp [ih]

theorem oks_forall2 {α : Type} {l : List (Outcome α)} (h : firstRaise l = none) :
    Pointwise (fun o y => o = Outcome.ok y) l (oks l) := by
  induction l with
  | nil => exact Pointwise.nil
  | cons z zs ih =>
    cases z with
    | raises c => simp [firstRaise] at h
    | ok v =>
      simp only [firstRaise] at h
      simp only [oks]
      exact Pointwise.cons rfl (ih h)

theorem forall2_map_left {α β γ : Type} {R : β → γ → Prop} {f : α → β} {l : List α} {l' : List γ}
    (h : Pointwise R (l.map f) l') : Pointwise (fun a c => R (f a) c) l l' := by
  induction l generalizing l' with
  | nil => cases h; exact Pointwise.nil
  | cons a as ih =>
    cases h with
    | cons h1 h2 => exact Pointwise.cons h1 (ih h2)

theorem forall2_map_right {α β γ : Type} {R : α → γ → Prop} {g : β → γ} {l : List α} {l' : List β}
    (h : Pointwise (fun a b => R a (g b)) l l') : Pointwise R l (l'.map g) := by
  induction h with
  | nil => exact Pointwise.nil
  | cons h1 _ ih => exact Pointwise.cons h1 ih

/-- `applyStr` is a position-wise map: cell `i` of the result is what the element function returned for cell `i` -/
theorem applyStr_pointwise (c c' : Column) (p : StrFacts → Outcome Cell) (q : Cell → Outcome Cell)
    (h : applyStr c p q = .ok c') :
    Pointwise (fun x y => (match x.str with | some f => p f | none => q x) = Outcome.ok y) c.cells c'.cells := by
  unfold applyStr at h
  simp only at h
  split at h
  · cases h
  · rename_i hne
    simp only [Except.ok.injEq] at h
    subst h
    have hfr : firstRaise (c.cells.map (fun x => match x.str with | some f => p f | none => q x)) = none := by
      cases hh : firstRaise (c.cells.map (fun x => match x.str with | some f => p f | none => q x)) with
      | none => rfl
      | some cls => exact absurd hh (hne cls)
    exact forall2_map_left (oks_forall2 hfr)

/-- the object a string decodes to under each of the five element-wise object-valued coercions -/
def decodeStr : Ty → StrFacts → Outcome Cell
  | .Geometry, f => (match f.wkt with | .ok (_, r) => .ok (geomCell r) | .raises cls => .raises cls)
  | .IPAddress, f => (match f.ip with | .ok (cls, r) => .ok (ipCell cls r) | .raises cls => .raises cls)
  | .URL, f => (match f.url with | .ok (n, s, r) => .ok (urlCell n s r) | .raises cls => .raises cls)
  | .UUID, f => (match f.uuid with | .ok r => .ok (uuidCell r) | .raises cls => .raises cls)
  | .EmailAddress, f => (match f.email with | .ok r => .ok (emailCell r) | .raises cls => .raises cls)
  | _, _ => .raises "NotAnObjectTarget"

/-- **C06 for the object-valued targets**: String -> Geometry / IPAddress / URL / UUID / EmailAddress map a string cell to the
object its library parser returns for THAT string ('POINT (1 2)' -> that point, '127.0.0.1' -> that address, …), at the same
position, and leave a missing value the very cell it was -/
theorem C06_decode_object_targets (o : ColOracle) (dst : Ty) (hd : dst ∈ [Ty.Geometry, .IPAddress, .URL, .UUID, .EmailAddress])
    (t : Column → R Column) (ht : xform o .String dst = some t) (c c' : Column) (h : t c = .ok c') :
    Pointwise (fun x y =>
        (∀ f, x.str = some f → decodeStr dst f = Outcome.ok y) ∧
        (x.str = none → x.null = true → y = x)) c.cells c'.cells := by
  simp only [List.mem_cons, List.not_mem_nil, or_false] at hd
  rcases hd with rfl | rfl | rfl | rfl | rfl <;>
    (simp only [xform, Option.some.injEq] at ht; subst ht
     have hp := applyStr_pointwise c c' _ _ h
     refine hp.imp ?_
     intro x y hxy
     constructor
     · intro f hf
       rw [hf] at hxy
       exact hxy
     · intro hn hnull
       rw [hn] at hxy
       simp only [hnull, if_true, Outcome.ok.injEq] at hxy
       exact hxy.symm)

/-- **String -> Float decodes each string to the number `float()` returns for it**, position by position -/
theorem C06_decode_string_float (c c' : Column) (h : stringToFloat c = .ok c') :
    Pointwise (fun x y => ∃ v, cellFloat c.dtype x = Outcome.ok v ∧ y = Cell.ofFloat v) c.cells c'.cells := by
  unfold stringToFloat at h
  simp only at h
  split at h
  · cases h
  · rename_i hne
    simp only [Except.ok.injEq] at h
    subst h
    have hfr : firstRaise (c.cells.map (cellFloat c.dtype)) = none := by
      cases hh : firstRaise (c.cells.map (cellFloat c.dtype)) with
      | none => rfl
      | some cls => exact absurd hh (hne cls)
    apply forall2_map_right
    exact (forall2_map_left (oks_forall2 hfr)).imp (fun x v hxv => ⟨v, hxv, rfl⟩)

/-- **String -> Complex** likewise with `complex()` (a NaN part makes the whole value the missing value) -/
theorem C06_decode_string_complex (c c' : Column) (h : stringToComplex c = .ok c') :
    Pointwise (fun x y => ∃ p, cellComplex x = Outcome.ok p ∧
        y = (if p.1.isNan || p.2.isNan then Cell.ofComplex .nan (.fin 0 0) else Cell.ofComplex p.1 p.2)) c.cells c'.cells := by
  unfold stringToComplex at h
  simp only at h
  split at h
  · cases h
  · rename_i hne
    simp only [Except.ok.injEq] at h
    subst h
    have hfr : firstRaise (c.cells.map cellComplex) = none := by
      cases hh : firstRaise (c.cells.map cellComplex) with
      | none => rfl
      | some cls => exact absurd hh (hne cls)
    apply forall2_map_right
    exact (forall2_map_left (oks_forall2 hfr)).imp (fun x v hxv => ⟨v, hxv, rfl⟩)

/-- non-vacuity: on the one-cell column ['127.0.0.1'] the theorem says the output cell is that address -/
example : decodeStr .IPAddress { (default : StrFacts) with ip := .ok ("IPv4Address", "127.0.0.1") } =
    .ok (ipCell "IPv4Address" "127.0.0.1") := rfl

end V.C06

/-
  C06 for the python-sequence back end, element by element: every one of the 14 transformers maps the element at position i of
  its input to the element at position i of its output, and that element is the decoding of the input element by the library
  conversion the relation names (`float`, `complex`, `.lower() == "true"`, `strptime`, `uuid.UUID`, ...), independent of every
  other element — except String -> Path, where the flavour (Windows / POSIX) is chosen once for the sequence.
-/
import VProofs.Props.PyListRel
import VProofs.Props.C06More
namespace V.PyProps
open V V.Gen V.Py
open V.C06 (Pointwise)

theorem pointwise_oks {α : Type} {l : List (Outcome α)} (h : firstRaise l = none) :
    Pointwise (fun o y => o = Outcome.ok y) l (oks l) := by
  induction l with
  | nil => exact Pointwise.nil
  | cons z zs ih =>
    cases z with
    | raises c => simp [firstRaise] at h
    | ok v => simp only [firstRaise] at h; simp only [oks]; exact Pointwise.cons rfl (ih h)

/-- `tuple(map(f, seq))` followed by a constructor: position by position -/
theorem mapT_pointwise {α : Type} {f : Elem → Outcome α} {g : α → Elem} {s r : Seq} (h : mapT f g s = .ok r) :
    Pointwise (fun x y => ∃ a, f x = .ok a ∧ y = g a) s r := by
  obtain ⟨h1, rfl⟩ := mapT_ok h
  have h2 := V.C06.forall2_map_left (pointwise_oks h1)
  exact V.C06.forall2_map_right (R := fun x y => ∃ a, f x = .ok a ∧ y = g a) (h2.imp (fun x a hx => ⟨a, hx, rfl⟩))

/-- what each relation's transformer does to ONE element (`win`: the flavour String -> Path chose for the sequence) -/
def elemDecode (src dst : Ty) (win : Bool) (x y : Elem) : Prop :=
  match src, dst with
  | .Object, .Boolean => y = if x.isNone then Elem.ofBool false else x
  | .String, .Boolean => (x.isStr = true ∧ ∃ o, x.lowerTF = .ok o ∧ y = Elem.ofBool (o == some true)) ∨ (x.isStr = false ∧ y = x)
  | .String, .Float => ∃ v, x.flo = .ok v ∧ y = Elem.ofFloat v
  | .String, .Complex => ∃ p, x.cplx = .ok p ∧ y = Elem.ofComplex p.1 p.2
  | .String, .DateTime => ∃ m, x.strp = .ok m ∧ y = Elem.ofDatetime m
  | .Complex, .Float => ∃ re im, x.cval = some (re, im) ∧ y = Elem.ofFloat re
  | .Float, .Integer => ∃ z, intOf x = .ok z ∧ y = Elem.ofInt z
  | .DateTime, .Date => x.isDatetime = true ∧ y = Elem.ofDate
  | .String, .UUID => x.uuid = .ok () ∧ y = Elem.ofUUID
  | .String, .IPAddress => x.ip = .ok () ∧ y = Elem.ofIP
  | .String, .URL => (∃ b, x.url = .ok b) ∧ y = Elem.ofUrl
  | .String, .EmailAddress => (∃ b, x.email = .ok b) ∧ y = Elem.ofEmail
  | .String, .Geometry => (∃ b, x.wkt = .ok b) ∧ y = Elem.ofGeom
  | .String, .Path => ∃ a, (if win then x.winAbs else x.posixAbs) = .ok a ∧ y = Elem.ofPurePath a
  | _, _ => False

/-- **C06 (element-wise decoding) for the list back end** -/
theorem C06_pointwise_list (src dst : Ty) (t : Seq → R Seq) (ht : xformL src dst = some t) (s r : Seq) (hr : t s = .ok r) :
    ∃ win, Pointwise (elemDecode src dst win) s r := by
  cases src <;> cases dst <;> simp only [xformL, Option.some.injEq, reduceCtorEq] at ht <;> subst ht
  · -- String -> Boolean
    refine ⟨false, (mapT_pointwise hr).imp ?_⟩
    intro x y ⟨a, h1, h2⟩
    simp only [elemDecode, id] at h1 h2 ⊢
    by_cases hs : x.isStr = true
    · simp only [hs, if_true] at h1
      cases hl : x.lowerTF with
      | ok o => simp only [hl, Outcome.ok.injEq] at h1; exact Or.inl ⟨hs, o, rfl, by rw [h2, ← h1]⟩
      | raises c => simp [hl] at h1
    · have hs' : x.isStr = false := by simpa using hs
      simp only [hs', Bool.false_eq_true, if_false, Outcome.ok.injEq] at h1
      exact Or.inr ⟨hs', by rw [h2, ← h1]⟩
  · exact ⟨false, (mapT_pointwise hr).imp (fun x y ⟨a, h1, h2⟩ => ⟨a, h1, h2⟩)⟩
  · exact ⟨false, (mapT_pointwise hr).imp (fun x y ⟨a, h1, h2⟩ => ⟨a, h1, h2⟩)⟩
  · exact ⟨false, (mapT_pointwise hr).imp (fun x y ⟨a, h1, h2⟩ => ⟨a, h1, h2⟩)⟩
  · exact ⟨false, (mapT_pointwise hr).imp (fun x y ⟨a, h1, h2⟩ => ⟨⟨a, h1⟩, h2⟩)⟩
  · exact ⟨false, (mapT_pointwise hr).imp (fun x y ⟨a, h1, h2⟩ => ⟨h1, h2⟩)⟩
  · -- String -> Path
    simp only [stringToPath] at hr
    cases hu : usesWindows s with
    | raises c => simp [hu] at hr
    | ok b =>
      cases b <;> simp only [hu] at hr
      · exact ⟨false, (mapT_pointwise hr).imp (fun x y ⟨a, h1, h2⟩ => ⟨a, by simpa using h1, h2⟩)⟩
      · exact ⟨true, (mapT_pointwise hr).imp (fun x y ⟨a, h1, h2⟩ => ⟨a, by simpa using h1, h2⟩)⟩
  · exact ⟨false, (mapT_pointwise hr).imp (fun x y ⟨a, h1, h2⟩ => ⟨h1, h2⟩)⟩
  · exact ⟨false, (mapT_pointwise hr).imp (fun x y ⟨a, h1, h2⟩ => ⟨⟨a, h1⟩, h2⟩)⟩
  · exact ⟨false, (mapT_pointwise hr).imp (fun x y ⟨a, h1, h2⟩ => ⟨⟨a, h1⟩, h2⟩)⟩
  · -- Complex -> Float
    refine ⟨false, (mapT_pointwise hr).imp ?_⟩
    intro x y ⟨a, h1, h2⟩
    simp only [elemDecode]
    cases hv : x.cval with
    | none => simp [hv] at h1
    | some p =>
      obtain ⟨re, im⟩ := p
      simp only [hv, Outcome.ok.injEq] at h1
      exact ⟨re, im, rfl, by rw [h2, ← h1]⟩
  · -- DateTime -> Date
    refine ⟨false, (mapT_pointwise hr).imp ?_⟩
    intro x y ⟨a, h1, h2⟩
    simp only [elemDecode]
    by_cases hd : x.isDatetime = true
    · exact ⟨hd, h2⟩
    · simp [hd] at h1
  · exact ⟨false, (mapT_pointwise hr).imp (fun x y ⟨a, h1, h2⟩ => ⟨a, h1, h2⟩)⟩
  · -- Object -> Boolean
    simp only [objectToBool, Except.ok.injEq] at hr
    subst hr
    refine ⟨false, ?_⟩
    induction s with
    | nil => exact Pointwise.nil
    | cons x xs ih => exact Pointwise.cons rfl ih

/-- non-vacuity: `['1.5', '2']` decodes to `(1.5, 2.0)` position by position -/
example : ∃ win, Pointwise (elemDecode .String .Float win) [sNum (.fin 3 1) false, sNum (.fin 2 0) false]
    [Elem.ofFloat (.fin 3 1), Elem.ofFloat (.fin 2 0)] :=
  C06_pointwise_list .String .Float stringToFloat rfl _ _ rfl

end V.PyProps

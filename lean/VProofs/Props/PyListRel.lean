/-
  The python-sequence back end: every one of its 14 inference relations lands inside its target type (C03's last sentence),
  for EVERY sequence — no hypothesis on the elements or on the parser results — and keeps the length (C06) except for nothing:
  all 14 are element-wise maps.  Sibling exclusivity fails for lists by design (C02 / C16 exclude them), so the global
  statements of C03 / C04 are checked by oracle on lists; what is proved here is the local obligation L3 and the shape.
-/
import VModel.PyList
namespace V.PyProps
open V V.Gen V.Py

theorem firstRaise_none_oks {α : Type} {l : List (Outcome α)} (h : firstRaise l = none) : l = (oks l).map Outcome.ok := by
  induction l with
  | nil => rfl
  | cons z zs ih =>
    cases z with
    | raises c => simp [firstRaise] at h
    | ok v => simp only [firstRaise] at h; simp only [oks, List.map_cons]; rw [← ih h]

theorem mem_oks_ok {α : Type} {l : List (Outcome α)} {y : α} (hy : y ∈ oks l) : Outcome.ok y ∈ l := by
  induction l with
  | nil => simp [oks] at hy
  | cons z zs ih =>
    cases z with
    | raises c => simp only [oks] at hy; exact List.mem_cons_of_mem _ (ih hy)
    | ok v =>
      simp only [oks, List.mem_cons] at hy
      rcases hy with rfl | hy
      · exact List.mem_cons_self
      · exact List.mem_cons_of_mem _ (ih hy)

theorem oks_length {α : Type} {l : List (Outcome α)} (h : firstRaise l = none) : (oks l).length = l.length := by
  have := congrArg List.length (firstRaise_none_oks h)
  simp at this; exact this.symm

theorem mapT_ok {α : Type} {f : Elem → Outcome α} {g : α → Elem} {s s' : Seq} (h : mapT f g s = .ok s') :
    firstRaise (s.map f) = none ∧ s' = (oks (s.map f)).map g := by
  simp only [mapT] at h
  cases hfr : firstRaise (s.map f) with
  | some c => simp [hfr] at h
  | none => simp only [hfr, Except.ok.injEq] at h; exact ⟨rfl, h.symm⟩

theorem mapT_length {α : Type} {f : Elem → Outcome α} {g : α → Elem} {s s' : Seq} (h : mapT f g s = .ok s') :
    s'.length = s.length := by
  obtain ⟨h1, rfl⟩ := mapT_ok h
  simp [oks_length h1]

theorem mapT_all {α : Type} {f : Elem → Outcome α} {g : α → Elem} {s s' : Seq} (h : mapT f g s = .ok s') (p : Elem → Bool)
    (hp : ∀ a, p (g a) = true) : s'.all p = true := by
  obtain ⟨_, rfl⟩ := mapT_ok h
  simp [List.all_map, hp]

theorem notEmpty_of_all {s s' : Seq} (hl : s'.length = s.length) (hne : s.isEmpty = false) {p : Elem → Bool}
    (h : s'.all p = true) : notEmpty (fun s => s.all p) s' = true := by
  have : s'.isEmpty = false := by
    cases s' with
    | nil => cases s with
      | nil => simp at hne
      | cons _ _ => simp at hl
    | cons _ _ => rfl
  simp [notEmpty, this, h]

theorem notEmpty_true {f : Seq → Bool} {s : Seq} (h : notEmpty f s = true) : s.isEmpty = false ∧ f s = true := by
  simp only [notEmpty] at h
  by_cases he : s.isEmpty = true
  · simp [he] at h
  · exact ⟨by simpa using he, by simpa [he] using h⟩

/-- a transformer that maps every element to an element satisfying `p` lands in `notEmpty (all p)` -/
theorem lands_mapT_notEmpty {α : Type} {f : Elem → Outcome α} {g : α → Elem} {s s' : Seq} (h : mapT f g s = .ok s')
    (hne : s.isEmpty = false) (p : Elem → Bool) (hp : ∀ a, p (g a) = true) : notEmpty (fun s => s.all p) s' = true :=
  notEmpty_of_all (mapT_length h) hne (mapT_all h p hp)

theorem lands_string_boolean_l (s s' : Seq) (hc : containsL .String s = true) (ha : stringIsBool s = .ok true)
    (hx : stringToBool s = .ok s') : containsL .Boolean s' = true := by
  have ⟨hne, hstr⟩ := notEmpty_true hc
  simp only [handleNone, List.all_eq_true, List.mem_filter, Bool.not_eq_true', and_imp] at hstr
  simp only [stringToBool] at hx
  obtain ⟨h1, rfl⟩ := mapT_ok hx
  simp only [containsL, isBoolSeq]
  apply (show ∀ l : Seq, l.length = s.length → (handleNone (fun s => s.all (·.isBool)) l = true) →
      notEmpty (handleNone (fun s => s.all (·.isBool))) l = true from by
    intro l hl hh
    have : l.isEmpty = false := by
      cases l with
      | nil => cases s with
        | nil => simp at hne
        | cons _ _ => simp at hl
      | cons _ _ => rfl
    simp [notEmpty, this, hh])
  · simp [oks_length h1]
  · -- every produced element that is not None is a bool
    simp only [handleNone, List.map_id, List.all_eq_true, List.mem_filter, Bool.not_eq_true', and_imp]
    intro y hy hyn
    have hmem : Outcome.ok y ∈ s.map (fun x => if x.isStr = true then
        (match x.lowerTF with | .ok o => Outcome.ok (Elem.ofBool (o == some true)) | .raises c => .raises c) else .ok x) :=
      mem_oks_ok hy
    obtain ⟨x, hx', hxy⟩ := List.mem_map.mp hmem
    by_cases hs : x.isStr = true
    · simp only [hs, if_true] at hxy
      cases hl : x.lowerTF with
      | raises c => simp [hl] at hxy
      | ok o => simp only [hl, Outcome.ok.injEq] at hxy; rw [← hxy]; rfl
    · simp only [hs, Bool.false_eq_true, if_false, Outcome.ok.injEq] at hxy
      -- a value of a String that is not a str is None
      rw [← hxy] at hyn
      exact absurd (hstr x hx' hyn) hs

theorem lands_object_boolean_l (s s' : Seq) (ha : objectIsBool s = .ok true) (hx : objectToBool s = .ok s') :
    containsL .Boolean s' = true := by
  simp only [objectIsBool, Except.ok.injEq] at ha
  have ⟨hne, hb⟩ := notEmpty_true ha
  simp only [handleNone, List.all_eq_true, List.mem_filter, Bool.not_eq_true', and_imp] at hb
  simp only [objectToBool, Except.ok.injEq] at hx
  subst hx
  simp only [containsL, isBoolSeq, notEmpty, handleNone]
  have : (s.map (fun x => if x.isNone = true then Elem.ofBool false else x)).isEmpty = false := by
    cases s with
    | nil => simp at hne
    | cons _ _ => rfl
  simp only [this, Bool.false_eq_true, if_false, List.all_eq_true, List.mem_filter, List.mem_map, Bool.not_eq_true', and_imp,
    forall_exists_index]
  intro y x hx' hxy _
  by_cases hn : x.isNone = true
  · simp only [hn, if_true] at hxy; rw [← hxy]; rfl
  · simp only [hn, Bool.false_eq_true, if_false] at hxy
    rw [← hxy]
    exact hb x hx' (by simpa using hn)

theorem lands_string_path_l (s s' : Seq) (ha : stringIsPath s = .ok true) (hx : stringToPath s = .ok s') :
    containsL .Path s' = true := by
  simp only [stringIsPath] at ha
  simp only [stringToPath] at hx
  simp only [containsL]
  cases hu : usesWindows s with
  | raises c =>
    simp only [hu] at ha
    by_cases hc : caught ["TypeError"] c = true <;> simp [hc] at ha
  | ok b =>
    cases b with
    | true =>
      simp only [hu] at hx
      obtain ⟨h1, rfl⟩ := mapT_ok hx
      simp only [usesWindows, h1, Outcome.ok.injEq] at hu
      simp only [List.all_map, List.all_eq_true]
      intro a ha'
      have := List.all_eq_true.mp hu a ha'
      simp [Elem.ofPurePath, Elem.blank] at this ⊢
      exact this
    | false =>
      simp only [hu] at ha hx
      cases hfr : firstRaise (s.map (·.posixAbs)) with
      | some c => simp only [hfr] at ha; by_cases hc : caught ["TypeError"] c = true <;> simp [hc] at ha
      | none =>
        simp only [hfr, Except.ok.injEq] at ha
        obtain ⟨_, rfl⟩ := mapT_ok hx
        simp only [List.all_map, List.all_eq_true]
        intro a ha'
        have := List.all_eq_true.mp ha a ha'
        simp [Elem.ofPurePath, Elem.blank] at this ⊢
        exact this

/-- **C03, local obligation L3 for the list back end**: whenever the test of a relation accepts a sequence of its source
type and its transformer returns, the result is in the target type — for EVERY sequence, whatever the parsers answered -/
theorem C03_lands_list (src dst : Ty) (g : Seq → R Bool) (t : Seq → R Seq) (hg : guardL src dst = some g)
    (ht : xformL src dst = some t) (s s' : Seq) (hc : containsL src s = true) (ha : g s = .ok true) (hx : t s = .ok s') :
    containsL dst s' = true := by
  cases src <;> cases dst <;> simp only [guardL, Option.some.injEq, reduceCtorEq] at hg
  all_goals (simp only [xformL, Option.some.injEq] at ht; subst hg; subst ht)
  all_goals first
    | exact lands_string_boolean_l s s' hc ha hx
    | exact lands_object_boolean_l s s' ha hx
    | exact lands_string_path_l s s' ha hx
    | (have hne : s.isEmpty = false := by
         simp only [containsL] at hc
         first | exact (notEmpty_true hc).1 | skip
       simp only [containsL]
       first
         | exact lands_mapT_notEmpty hx hne _ (fun _ => rfl)
         | exact mapT_all hx _ (fun _ => rfl))

/-- **C06 (shape) for the list back end**: all 14 transformers keep the length -/
theorem C06_length_list (src dst : Ty) (t : Seq → R Seq) (ht : xformL src dst = some t) (s s' : Seq) (hx : t s = .ok s') :
    s'.length = s.length := by
  cases src <;> cases dst <;> simp only [xformL, Option.some.injEq, reduceCtorEq] at ht <;> subst ht
  all_goals first
    | exact mapT_length hx
    | (simp only [objectToBool, Except.ok.injEq] at hx; subst hx; simp)
    | (simp only [stringToPath] at hx
       cases hu : usesWindows s with
       | raises c => simp [hu] at hx
       | ok b => cases b <;> simp only [hu] at hx <;> exact mapT_length hx)

/-- non-vacuity: `['1.5', '2']` is a String, String -> Float accepts, the cast is `(1.5, 2.0)`, a Float -/
def sNum (v : FloatV) (z : Bool) : Elem :=
  { Elem.blank with isStr := true, lowerTF := .ok none, flo := .ok v, firstZero := .ok z, cplx := .ok (v, .fin 0 0),
                    strp := .raises "ValueError", url := .ok false, uuid := .raises "ValueError", email := .raises "TypeError",
                    wkt := .raises "GEOSException", winAbs := .ok false, posixAbs := .ok false }
example : containsL .String [sNum (.fin 3 1) false, sNum (.fin 2 0) false] = true ∧
    (stringToFloat [sNum (.fin 3 1) false, sNum (.fin 2 0) false]).toOption = some [Elem.ofFloat (.fin 3 1), Elem.ofFloat (.fin 2 0)] := by
  constructor <;> rfl

end V.PyProps

namespace V.PyProps
open V V.Gen V.Py

/-! ### C09 for the list back end's relation tests: where can a test raise? -/

theorem firstRaise_some_mem {α : Type} {l : List (Outcome α)} {c : String} (h : firstRaise l = some c) : Outcome.raises c ∈ l := by
  induction l with
  | nil => simp [firstRaise] at h
  | cons z zs ih =>
    cases z with
    | raises d => simp only [firstRaise, Option.some.injEq] at h; subst h; exact List.mem_cons_self
    | ok v => simp only [firstRaise] at h; exact List.mem_cons_of_mem _ (ih h)

theorem tryB_total (names : List String) (o : Outcome Bool) (h : ∀ c, o = .raises c → caught names c = true) :
    ∃ b, tryB names o = .ok b := by
  cases o with
  | ok b => exact ⟨b, rfl⟩
  | raises c => exact ⟨false, by simp [tryB, h c rfl]⟩

theorem allO_raises {l : List (Outcome Bool)} {c : String} (h : allO l = .raises c) : Outcome.raises c ∈ l := by
  induction l with
  | nil => simp [allO] at h
  | cons z zs ih =>
    cases z with
    | raises d => simp only [allO, Outcome.raises.injEq] at h; subst h; exact List.mem_cons_self
    | ok b => cases b with
      | false => simp [allO] at h
      | true => simp only [allO] at h; exact List.mem_cons_of_mem _ (ih h)

/-- a "parse everything, catch the listed classes" test is total when every raised class is caught -/
theorem parses_total {α : Type} (names : List String) (f : Elem → Outcome α) (s : Seq)
    (h : ∀ x ∈ s, ∀ c, f x = .raises c → caught names c = true) : ∃ b, parses names f s = .ok b := by
  simp only [parses]
  cases hfr : firstRaise (s.map f) with
  | none => exact ⟨true, rfl⟩
  | some c =>
    obtain ⟨x, hx, hxe⟩ := List.mem_map.mp (firstRaise_some_mem hfr)
    exact ⟨false, by simp [h x hx c hxe]⟩

theorem allAfterParse_total (names : List String) (f : Elem → Outcome Bool) (s : Seq)
    (h : ∀ x ∈ s, ∀ c, f x = .raises c → caught names c = true) : ∃ b, allAfterParse names f s = .ok b := by
  simp only [allAfterParse]
  cases hfr : firstRaise (s.map f) with
  | none => exact ⟨_, rfl⟩
  | some c =>
    obtain ⟨x, hx, hxe⟩ := List.mem_map.mp (firstRaise_some_mem hfr)
    exact ⟨false, by simp [h x hx c hxe]⟩

theorem caught_mono {a b : List String} (h : ∀ n ∈ a, n ∈ b) {c : String} (hc : caught a c = true) : caught b c = true := by
  simp only [caught, List.any_eq_true] at hc ⊢
  obtain ⟨n, hn, hcn⟩ := hc
  exact ⟨n, h n hn, hcn⟩

theorem noLeadingZeros_raises {s : Seq} {vals : List FloatV} {c : String} (h : noLeadingZeros s vals = .raises c) :
    ∃ x ∈ s, x.firstZero = .raises c := by
  unfold noLeadingZeros at h
  split at h
  · cases h
  · rename_i d ha
    simp only [Outcome.raises.injEq] at h
    subst h
    obtain ⟨⟨x, v⟩, hxv, hxe⟩ := List.mem_map.mp (allO_raises ha)
    refine ⟨x, (List.of_mem_zip hxv).1, ?_⟩
    simp only at hxe
    split at hxe
    · rename_i e he; simp only [Outcome.raises.injEq] at hxe; rw [← hxe]; exact he
    · cases hxe

/-- **C09 for the list back end's relation tests**: every one of the 14 tests answers (never raises) on every sequence of
its source type whose element conversions raise caught classes only (`convCaughtL`, executable) -/
theorem C09_tests_total_list (src dst : Ty) (g : Seq → R Bool) (hg : guardL src dst = some g) (s : Seq)
    (hc : containsL src s = true) (h : convCaughtL s = true) : ∃ b, g s = .ok b := by
  simp only [convCaughtL, elemOk, List.all_eq_true, Bool.and_eq_true] at h
  have c3of2 : ∀ c, caught ["ValueError", "TypeError"] c = true → caught ["ValueError", "TypeError", "AttributeError"] c = true :=
    fun c hc => caught_mono (by intro n hn; simp at hn ⊢; rcases hn with rfl | rfl <;> simp) hc
  cases src <;> cases dst <;> simp only [guardL, Option.some.injEq, reduceCtorEq] at hg <;> subst hg
  · -- String -> Boolean
    simp only [stringIsBool]
    cases ha : allO ((dropNone s).map (fun x => match x.lowerTF with | .ok o => Outcome.ok o.isSome | .raises c => .raises c)) with
    | ok b => exact ⟨b, rfl⟩
    | raises c =>
      obtain ⟨x, hx, hxe⟩ := List.mem_map.mp (allO_raises ha)
      have hxs := List.mem_filter.mp hx
      have hl := (h x hxs.1).1.1.1.1.1.1.1.1.1.1.1.1.1.1
      cases hlo : x.lowerTF with
      | ok o => simp [hlo] at hxe
      | raises d =>
        simp only [hlo] at hl
        have hstr : x.isStr = true := by
          simp only [containsL, handleNone] at hc
          exact List.all_eq_true.mp (notEmpty_true hc).2 x hx
        simp [hstr] at hl
  · -- String -> Complex
    simp only [stringIsComplex]
    cases hfr : firstRaise (s.map (·.cplx)) with
    | some c =>
      obtain ⟨x, hx, hxe⟩ := List.mem_map.mp (firstRaise_some_mem hfr)
      have := (h x hx).1.1.1.1.1.1.1.1.1.1.1.2
      simp only [hxe] at this
      exact ⟨false, by simp [this]⟩
    | none =>
      simp only []
      apply tryB_total
      intro c hcr
      obtain ⟨x, hx, hxe⟩ := noLeadingZeros_raises hcr
      have := (h x hx).1.1.1.1.1.1.1.1.1.1.1.1.2
      simp only [hxe] at this
      exact c3of2 c this
  · -- String -> DateTime
    exact parses_total _ _ s (fun x hx c hxe => by have := (h x hx).1.1.1.1.1.1.1.1.1.1.2; simpa [hxe] using this)
  · -- String -> Float
    simp only [stringIsFloat]
    cases hfr : firstRaise (s.map (·.flo)) with
    | some c =>
      obtain ⟨x, hx, hxe⟩ := List.mem_map.mp (firstRaise_some_mem hfr)
      have := (h x hx).1.1.1.1.1.1.1.1.1.1.1.1.1.2
      simp only [hxe] at this
      exact ⟨false, by simp [this]⟩
    | none =>
      simp only []
      apply tryB_total
      intro c hcr
      obtain ⟨x, hx, hxe⟩ := noLeadingZeros_raises hcr
      have := (h x hx).1.1.1.1.1.1.1.1.1.1.1.1.2
      simpa [hxe] using this
  · -- String -> Geometry
    simp only [stringIsGeometry]
    apply tryB_total
    intro c hcr
    obtain ⟨x, hx, hxe⟩ := List.mem_map.mp (allO_raises hcr)
    have := (h x hx).1.1.1.1.1.2
    simpa [hxe] using this
  · -- String -> IPAddress
    exact parses_total _ _ s (fun x hx c hxe => by have := (h x hx).1.1.1.1.1.1.1.2; simpa [hxe] using this)
  · -- String -> Path
    simp only [stringIsPath, usesWindows]
    cases hfr : firstRaise (s.map (·.winAbs)) with
    | some c =>
      obtain ⟨x, hx, hxe⟩ := List.mem_map.mp (firstRaise_some_mem hfr)
      have := (h x hx).1.1.1.1.2
      simp only [hxe] at this
      exact ⟨false, by simp [this]⟩
    | none =>
      simp only []
      cases hall : (oks (s.map (·.winAbs))).all id with
      | true => exact ⟨true, rfl⟩
      | false =>
        simp only []
        cases hfp : firstRaise (s.map (·.posixAbs)) with
        | some c =>
          obtain ⟨x, hx, hxe⟩ := List.mem_map.mp (firstRaise_some_mem hfp)
          have := (h x hx).1.1.1.2
          simp only [hxe] at this
          exact ⟨false, by simp [this]⟩
        | none => exact ⟨_, rfl⟩
  · -- String -> UUID
    exact parses_total _ _ s (fun x hx c hxe => by have := (h x hx).1.1.1.1.1.1.1.1.2; simpa [hxe] using this)
  · -- String -> URL
    exact allAfterParse_total _ _ s (fun x hx c hxe => by have := (h x hx).1.1.1.1.1.1.1.1.1.2; simpa [hxe] using this)
  · -- String -> EmailAddress
    exact allAfterParse_total _ _ s (fun x hx c hxe => by have := (h x hx).1.1.1.1.1.1.2; simpa [hxe] using this)
  · -- Complex -> Float: every element of a Complex sequence has a value
    simp only [complexIsFloat]
    apply tryB_total
    intro c hcr
    obtain ⟨x, hx, hxe⟩ := List.mem_map.mp (allO_raises hcr)
    have hcv := (h x hx).1.2
    have hcx : x.isComplex = true := by
      simp only [containsL] at hc
      have := (notEmpty_true hc).2
      exact List.all_eq_true.mp this x hx
    simp only [hcx, Bool.not_true, Bool.or_false] at hcv
    cases hv : x.cval with
    | none => simp [hv] at hcv
    | some p => obtain ⟨re, im⟩ := p; simp [hv] at hxe
  · -- DateTime -> Date
    simp only [datetimeIsDate]
    apply tryB_total
    intro c hcr
    obtain ⟨x, hx, hxe⟩ := List.mem_map.mp (allO_raises hcr)
    have := (h x hx).1.1.2
    simpa [hxe] using this
  · -- Float -> Integer
    simp only [floatIsInt]
    apply tryB_total
    intro c hcr
    obtain ⟨x, hx, hxe⟩ := List.mem_map.mp (allO_raises hcr)
    have := (h x hx).2
    simpa [hxe] using this
  · -- Object -> Boolean
    exact ⟨_, rfl⟩

end V.PyProps

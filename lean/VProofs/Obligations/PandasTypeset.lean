/-
  Every parent-closed typeset over the 22 types of CompleteSet+EmailAddress, built from the
  generated relation table in any supply order, gives a `pandasTS` whose edges come from the table
  (`FromTable`) and whose types all hang under Generic along identity relations (`Nodes`) — the glue
  between C14 and the engine lifting theorems.
-/
import VProofs.Obligations.PandasWF
import VProofs.Props.C14
namespace V.Pd
open V V.Gen

theorem idpath_snoc {T D : Type} (ts : TS T D) {a m t : T} (hp : IdPath ts a m) (r : PRel T D)
    (hr : r ∈ ts.idSucc m) (hd : r.dst = t) : IdPath ts a t := by
  induction hp with
  | refl a => exact IdPath.step r hr (by rw [hd]; exact IdPath.refl t)
  | step r' hr' _ ih => exact IdPath.step r' hr' (ih hr)

theorem edge_in_idSucc (o : ColOracle) (b : Built Ty) (e : Edge Ty) (he : e ∈ b.edges) (hi : e.inferential = false) :
    purifyRel (mkRel o e) ∈ (pandasTS o b).idSucc e.src := by
  apply mem_idSucc.mpr
  refine ⟨?_, by rw [mkRel_inf]; exact hi⟩
  simp only [pandasTS, purify, graphOf, List.mem_map]
  exact ⟨mkRel o e, ⟨e, List.mem_filter.mpr ⟨he, by simp⟩, rfl⟩, rfl⟩

theorem idReach_to_idPath (o : ColOracle) (b : Built Ty) {a t : Ty} (h : IdReach b.edges a t) :
    IdPath (pandasTS o b) a t := by
  induction h with
  | refl => exact IdPath.refl _
  | step e _ he hi ih => exact idpath_snoc _ ih _ (edge_in_idSucc o b e he hi) (mkRel_dst o e)

theorem nodup_dst_of_pairwise (es : List (Edge Ty)) (hp : es.Pairwise (fun e f => ¬ Clash e f)) (n : Ty) :
    ((es.filter (fun e => e.src == n)).map (·.dst)).Nodup := by
  rw [List.Nodup, List.pairwise_map]
  apply (hp.sublist List.filter_sublist).imp_of_mem
  intro e f he hf hne heq
  have h1 : e.src = n := by simpa using (List.mem_filter.mp he).2
  have h2 : f.src = n := by simpa using (List.mem_filter.mp hf).2
  exact hne ⟨by rw [h1, h2], heq⟩

/-- **every parent-closed typeset over the 22 types is a good `pandasTS`** -/
theorem built_typeset (o : ColOracle) (S : List Ty) (nd : S.Nodup) (hg : Ty.Generic ∈ S)
    (pc : ParentClosedL declared S) (hsub : ∀ t ∈ S, t ∈ completeSet) :
    ∃ b, mkTypeset declared isGeneric S = .ok b ∧ b.root = Ty.Generic ∧ b.nodes = S ∧ FromTable b ∧
      Nodes (pandasTS o b) (fun t => t ∈ S) Ty.Generic := by
  obtain ⟨b, hb, hn, hr, _, he, _⟩ := buildGraph_closed C14.tableWF S nd hg pc
  have hmk : mkTypeset declared isGeneric S = .ok b := by simp only [mkTypeset, hb, hr]; rfl
  have hmem : ∀ e ∈ b.edges, e.dst ∈ S ∧ e.src ∈ S ∧ (⟨e.src, e.inferential⟩ : RelDecl Ty) ∈ declared e.dst := by
    intro e hm; rw [he] at hm; exact mem_presentEdges.mp hm
  refine ⟨b, hmk, hr, hn, ?_, ?_⟩
  · exact { decl := fun e hm => (hmem e hm).2.2,
            in22 := fun e hm => ⟨hsub _ (hmem e hm).2.1, hsub _ (hmem e hm).1⟩,
            nodupDst := by
              intro n
              rw [he]
              exact nodup_dst_of_pairwise _
                ((allDecls_pairwise C14.tableWF.srcNodup S nd).sublist List.filter_sublist) n,
            rank := fun e hm => C14.tableWF.rankInc e.dst ⟨e.src, e.inferential⟩ (hmem e hm).2.2 }
  · exact { rootIn := hg,
            step := by
              intro n r _ hr'
              obtain ⟨e, hm, _, _, _, hdst, _, _⟩ := mem_pandasTS_succ hr'
              rw [hdst]; exact (hmem e hm).1,
            idpath := by
              intro t ht
              apply idReach_to_idPath
              rw [he]
              exact idReach_of_closed C14.tableWF S pc (rank t) t (Nat.le_refl _) ht }

end V.Pd

/-
  L4 for the numpy model — C11 for `detect` and `infer`: two arrays of the same dtype kind holding the same bag of elements
  (any order) are detected and inferred along the same path, and the cast arrays again hold the same bag.  Acceptance of every
  relation test depends on the bag only (`AccBagN`), every transformer maps equal bags to equal bags (`EquiBagN`).
  Hypotheses: the element facts of `goodB` (for `_is_string`'s prefix test), `FlCaught` (a float conversion that raises
  raises a class the evaluator catches — otherwise WHICH exception escapes first could depend on the order: C09's subject),
  and `DtBagN` (`pd.to_datetime` parses element by element).
-/
import VProofs.Props.NumpyMore
import VProofs.Obligations.NumpyWF
import VProofs.Obligations.PandasBagInfer
import VProofs.Props.C11
namespace V.Np
open V V.Gen

structure SameBagN (a b : NArr) : Prop where
  kind : a.kind = b.kind
  perm : a.elems.Perm b.elems

theorem SameBagN.symm {a b : NArr} (h : SameBagN a b) : SameBagN b a := ⟨h.kind.symm, h.perm.symm⟩
theorem SameBagN.mask {a b : NArr} (h : SameBagN a b) : SameBagN a.mask b.mask := ⟨h.kind, h.perm.filter _⟩
theorem SameBagN.isEmpty {a b : NArr} (h : SameBagN a b) : a.isEmpty = b.isEmpty := NumpyProps.perm_isEmpty h.perm

def AccBagN (P : NArr → Prop) (g : NArr → R Bool) : Prop := ∀ a b, SameBagN a b → P a → (g a = .ok true → g b = .ok true)

theorem acc_handleNulls_all (p : NElem → Bool) : AccBagN (fun _ => True) (handleNulls (fun a => .ok (a.elems.all p))) := by
  intro a b h _ ha
  have ⟨he, h2⟩ := handleNulls_ok_true ha
  simp only [Except.ok.injEq] at h2
  simp only [handleNulls, notEmpty, ← h.mask.isEmpty, he, Bool.false_eq_true, if_false, Except.ok.injEq]
  rw [← Pd.perm_all p h.mask.perm]; exact h2

theorem firstRaise_none_iffN {α : Type} {l : List (Outcome α)} : firstRaise l = none ↔ ∀ y ∈ l, ∃ v, y = .ok v := by
  constructor
  · exact firstRaise_none
  · intro h
    induction l with
    | nil => rfl
    | cons z zs ih =>
      cases z with
      | raises c => obtain ⟨v, hv⟩ := h _ List.mem_cons_self; cases hv
      | ok v => simp only [firstRaise]; exact ih (fun y hy => h y (List.mem_cons_of_mem _ hy))

theorem firstRaise_map_permN {α : Type} (p : NElem → Outcome α) {l l' : List NElem} (h : l.Perm l')
    (hn : firstRaise (l.map p) = none) : firstRaise (l'.map p) = none := by
  rw [firstRaise_none_iffN] at hn ⊢
  intro y hy
  exact hn y ((h.map p).mem_iff.mpr hy)

theorem oks_permN {α : Type} {l l' : List (Outcome α)} (h : l.Perm l') : (oks l).Perm (oks l') := by
  induction h with
  | nil => exact .refl _
  | cons x _ ih => cases x <;> simp only [oks] <;> first | exact ih.cons _ | exact ih
  | swap x y l => cases x <;> cases y <;> simp only [oks] <;> first | exact .swap _ _ _ | exact .refl _
  | trans _ _ ih1 ih2 => exact ih1.trans ih2

/-- every float conversion that raises raises a class `option_coercion_evaluator` catches -/
def FlCaught (a : NArr) : Prop := ∀ x ∈ a.elems, ∀ c, x.fl = .raises c → caughtByEvaluator c = true

theorem FlCaught.perm {a b : NArr} (h : SameBagN a b) (hf : FlCaught a) : FlCaught b :=
  fun x hx c hc => hf x (h.perm.mem_iff.mpr hx) c hc

theorem firstRaise_some_mem {α : Type} {l : List (Outcome α)} {c : String} (h : firstRaise l = some c) : Outcome.raises c ∈ l :=
  NumpyProps.firstRaise_some h

/-- under `FlCaught`, `string_is_float` never raises and its verdict depends on the bag only -/
theorem stringIsFloat_bag {a b : NArr} (h : SameBagN a b) (hf : FlCaught a) : stringIsFloat a = stringIsFloat b := by
  have hfb := hf.perm h
  have key : ∀ a : NArr, FlCaught a → stringIsFloat a =
      .ok (!a.mask.isEmpty && (firstRaise (a.mask.elems.map (·.fl))).isNone && !((oks (a.mask.elems.map (·.fl))).all (·.isNan)) &&
        !(a.mask.elems.any (fun x => (match x.fl with | .ok v => v.gtOne | _ => false) && x.firstZero))) := by
    intro a hf
    simp only [stringIsFloat, handleNulls, notEmpty]
    by_cases he : a.mask.isEmpty = true
    · simp [he]
    · simp only [he, Bool.false_eq_true, if_false, Bool.not_false, Bool.true_and]
      cases hfr : firstRaise (a.mask.elems.map (·.fl)) with
      | some c =>
        obtain ⟨x, hx, hxe⟩ := List.mem_map.mp (firstRaise_some_mem hfr)
        have := hf x (mem_mask.mp hx).1 c hxe
        simp [this]
      | none =>
        simp only [Option.isNone_none, Bool.true_and]
        by_cases hn : (oks (a.mask.elems.map (·.fl))).all (·.isNan) = true
        · simp [hn]
        · simp only [hn, Bool.false_eq_true, if_false, Bool.not_false, Bool.true_and]; rfl
  rw [key a hf, key b hfb]
  have hm := h.mask
  have e1 : a.mask.isEmpty = b.mask.isEmpty := hm.isEmpty
  have e2 : (firstRaise (a.mask.elems.map (·.fl))).isNone = (firstRaise (b.mask.elems.map (·.fl))).isNone := by
    cases h1 : firstRaise (a.mask.elems.map (·.fl)) with
    | none => rw [firstRaise_map_permN _ hm.perm h1]
    | some c =>
      cases h2 : firstRaise (b.mask.elems.map (·.fl)) with
      | some c' => rfl
      | none => rw [firstRaise_map_permN _ hm.perm.symm h2] at h1; cases h1
  have e3 := Pd.perm_all (·.isNan) (oks_permN (hm.perm.map (·.fl)))
  have e4 := Pd.perm_any (fun x : NElem => (match x.fl with | .ok v => v.gtOne | _ => false) && x.firstZero) hm.perm
  rw [e1, e2, e3, e4]

theorem acc_stringIsFloat : AccBagN FlCaught stringIsFloat := by
  intro a b h hf ha; rw [← stringIsFloat_bag h hf]; exact ha

theorem acc_stringIsComplex : AccBagN FlCaught stringIsComplex := by
  intro a b h hf ha
  have ⟨hce, hfl⟩ := stringIsComplex_elem ha
  simp only [stringIsComplex] at ha ⊢
  have hm := h.mask
  have hnone : firstRaise (a.mask.elems.map (·.cx)) = none := by
    cases hh : firstRaise (a.mask.elems.map (·.cx)) with
    | none => rfl
    | some c =>
      obtain ⟨x, hx, hxe⟩ := List.mem_map.mp (firstRaise_some_mem hh)
      obtain ⟨v, hv⟩ := hce x hx
      rw [hv] at hxe; cases hxe
  rw [hnone] at ha
  rw [firstRaise_map_permN _ hm.perm hnone, ← stringIsFloat_bag h hf, hfl]
  rw [hfl] at ha
  simp only [Except.ok.injEq] at ha ⊢
  rw [← Pd.perm_any _ hm.perm]; exact ha

theorem acc_stringIsBoolean : AccBagN (fun _ => True) stringIsBoolean := by
  intro a b h _ ha
  simp only [stringIsBoolean] at ha ⊢
  have hm := h.mask
  cases hfr : firstRaise (a.mask.elems.map (·.lower)) with
  | some c => simp only [hfr] at ha; by_cases hc : caughtByEvaluator c = true <;> simp [hc] at ha
  | none =>
    simp only [hfr] at ha
    rw [firstRaise_map_permN _ hm.perm hfr]
    have hk := oks_permN (hm.perm.map (·.lower))
    have he : (oks (a.mask.elems.map (·.lower))).isEmpty = (oks (b.mask.elems.map (·.lower))).isEmpty := Pd.perm_isEmpty hk
    simp only [← he]
    by_cases hemp : (oks (a.mask.elems.map (·.lower))).isEmpty = true
    · simp [hemp] at ha
    · simp only [hemp, Bool.false_eq_true, if_false, Except.ok.injEq] at ha ⊢
      rw [← ha]
      congr 1
      funext i
      exact (Pd.perm_all _ hk).symm

/-- `pd.to_datetime` succeeds on an array iff it succeeds on any reordering of it, and the results hold the same bag -/
structure DtBagN (o : NpOracle) : Prop where
  masked : ∀ a b, SameBagN a b → ∀ r, o.dtMasked a = .ok r → ∃ r', o.dtMasked b = .ok r' ∧ SameBagN r r'
  whole : ∀ a b, SameBagN a b → ∀ r, o.dtWhole a = .ok r → ∃ r', o.dtWhole b = .ok r' ∧ SameBagN r r'

theorem acc_stringIsDatetime (o : NpOracle) (hdt : DtBagN o) : AccBagN (fun _ => True) (stringIsDatetime o) := by
  intro a b h _ ha
  have ⟨he, h2⟩ := handleNulls_ok_true ha
  simp only [stringIsDatetime, handleNulls, notEmpty, ← h.mask.isEmpty, he, Bool.false_eq_true, if_false]
  cases hd : o.dtMasked a.mask with
  | raises c =>
    simp only [hd] at h2
    by_cases hc : (caughtByEvaluator c || isA c "OverflowError") = true <;> simp [hc] at h2
  | ok r =>
    simp only [hd, Except.ok.injEq] at h2
    obtain ⟨r', hr', hb⟩ := hdt.masked _ _ h.mask r hd
    simp only [hr', Except.ok.injEq]
    rw [← Pd.perm_any _ hb.perm]; exact h2

theorem guard_accBagN (o : NpOracle) (hdt : DtBagN o) (src dst : Ty) (g : NArr → R Bool) (hg : guard o src dst = some g) :
    AccBagN FlCaught g := by
  cases src <;> cases dst <;> simp only [guard, Option.some.injEq, reduceCtorEq] at hg <;> subst hg
  · exact fun a b h _ => acc_stringIsBoolean a b h trivial
  · exact acc_stringIsComplex
  · exact fun a b h _ => acc_stringIsDatetime o hdt a b h trivial
  · exact acc_stringIsFloat
  · exact fun a b h _ => acc_handleNulls_all _ a b h trivial
  · exact fun a b h _ => acc_handleNulls_all _ a b h trivial
  · exact fun a b h _ => acc_handleNulls_all _ a b h trivial

/-! ### transformers -/

def EquiBagN (t : NArr → R NArr) : Prop := ∀ a b, SameBagN a b → ∀ d, t a = .ok d → ∃ d', t b = .ok d' ∧ SameBagN d d'

theorem equi_map_masked {α : Type} (f : NElem → Outcome α) (mk : NArr → NArr)
    (hmk : ∀ a b, SameBagN a b → SameBagN (mk a) (mk b)) :
    EquiBagN (fun a => match firstRaise (a.mask.elems.map f) with | some c => .error (escape c) | none => .ok (mk a)) := by
  intro a b h d hd
  cases hfr : firstRaise (a.mask.elems.map f) with
  | some c => simp [hfr] at hd
  | none =>
    simp only [hfr, Except.ok.injEq] at hd
    subst hd
    refine ⟨mk b, ?_, hmk a b h⟩
    simp only [firstRaise_map_permN _ h.mask.perm hfr]

theorem xform_equiBagN (o : NpOracle) (hdt : DtBagN o) (src dst : Ty) (t : NArr → R NArr) (ht : xform o src dst = some t) :
    EquiBagN t := by
  cases src <;> cases dst <;> simp only [xform, Option.some.injEq, reduceCtorEq] at ht <;> subst ht
  · -- String -> Boolean
    intro a b h d hd
    have e := stringToBoolean_ok hd
    subst e
    simp only [stringToBoolean] at hd ⊢
    cases hfr : firstRaise (a.mask.elems.map (·.lower)) with
    | some c => simp [hfr] at hd
    | none =>
      simp only [hfr] at hd
      rw [firstRaise_map_permN _ h.mask.perm hfr, ← h.mask.isEmpty]
      by_cases hm : a.mask.isEmpty = true
      · simp [hm] at hd
      · simp only [hm, Bool.false_eq_true, if_false]
        exact ⟨_, rfl, rfl, h.perm.map _⟩
  · -- String -> Complex
    exact equi_map_masked (·.cx) _ (fun a b h => ⟨rfl, h.perm.map _⟩)
  · -- String -> DateTime
    intro a b h d hd
    simp only [stringToDatetime] at hd ⊢
    cases hw : o.dtWhole a with
    | raises c => simp [hw] at hd
    | ok r =>
      simp only [hw, Except.ok.injEq] at hd
      subst hd
      obtain ⟨r', hr', hb⟩ := hdt.whole a b h r hw
      exact ⟨r', by simp [hr'], hb⟩
  · -- String -> Float
    exact equi_map_masked (·.fl) _ (fun a b h => ⟨rfl, h.perm.map _⟩)
  · -- Complex -> Float
    intro a b h d hd
    simp only [complexToFloat, Except.ok.injEq] at hd ⊢
    subst hd
    exact ⟨_, rfl, rfl, h.perm.map _⟩
  · -- Float -> Integer
    intro a b h d hd
    simp only [floatToInteger, ← h.mask.isEmpty] at hd ⊢
    by_cases hm : a.mask.isEmpty = true
    · simp [hm] at hd
    · simp only [hm, Bool.false_eq_true, if_false, Except.ok.injEq] at hd ⊢
      subst hd
      exact ⟨_, rfl, rfl, h.mask.perm.map _⟩
  · -- Object -> Boolean
    intro a b h d hd
    simp only [objectToBoolean, Except.ok.injEq] at hd ⊢
    subst hd
    exact ⟨_, rfl, h⟩

end V.Np

namespace V.Np
open V V.Gen

/-- an inference relation of `numpyTS`: its guard accepts iff the table's test returns `ok true`; its transformer is the
table's, or the identity where that one raises -/
theorem inf_rel_specN {o : NpOracle} {b : Built Ty} {n : Ty} {r : PRel Ty NArr}
    (hr : r ∈ (numpyTS o b).succ n) (hi : r.inferential = true) :
    (∃ g t, guard o n r.dst = some g ∧ xform o n r.dst = some t ∧
      (∀ c, r.guard c = true ↔ g c = .ok true) ∧
      (∀ c, r.xform c = match t c with | .ok d => d | .error _ => c)) ∨
    (guard o n r.dst = none ∧ ∀ c, r.guard c = false) := by
  obtain ⟨e, he, hsrc, rfl, _, hdst, hinf, _⟩ := mem_numpyTS_succ hr
  have hie : e.inferential = true := by rw [← hinf]; exact hi
  simp only [mkRel, hie, if_true, purifyRel] at hdst ⊢
  cases hgd : guard o e.src e.dst with
  | none =>
    right
    exact ⟨by rw [← hsrc]; exact hgd, fun c => by simp [Except.map]⟩
  | some g =>
    left
    have hx := (guard_defined_iff e.src (Pd.mem_Ty_all _) e.dst (Pd.mem_Ty_all _) o)
    have : (xform o e.src e.dst).isSome = true := by rw [hx.2, ← hx.1, hgd]; rfl
    obtain ⟨t, ht⟩ := Option.isSome_iff_exists.mp this
    refine ⟨g, t, by rw [← hsrc]; exact hgd, by rw [← hsrc]; exact ht, ?_, ?_⟩
    · intro c
      simp only [Except.map]
      cases hgc : g c with
      | error e' => simp
      | ok v => cases v <;> simp
    · intro c
      simp only [ht, Except.map]
      cases t c <;> rfl

/-- the invariant carried along the walk: the element class facts, and float conversions raise caught classes only -/
def InvN (a : NArr) : Prop := (∀ x ∈ a.elems, elemWFB a.kind x = true) ∧ FlCaught a

theorem InvN.perm {a b : NArr} (h : SameBagN a b) (hi : InvN a) : InvN b :=
  ⟨fun x hx => h.kind ▸ hi.1 x (h.perm.mem_iff.mpr hx), hi.2.perm h⟩

theorem flCaught_ok {x : NElem} {v : FloatV} (h : x.fl = .ok v) : ∀ c, x.fl = .raises c → caughtByEvaluator c = true := by
  intro c hc; rw [h] at hc; cases hc

/-- every transformer of the table keeps the invariant (`hdi`: so do the arrays `pd.to_datetime` returns) -/
theorem xform_invN (o : NpOracle) (hdi : ∀ a r, o.dtWhole a = .ok r → InvN r) (src dst : Ty) (t : NArr → R NArr)
    (ht : xform o src dst = some t) (a d : NArr) (hI : InvN a) (hd : t a = .ok d) : InvN d := by
  cases src <;> cases dst <;> simp only [xform, Option.some.injEq, reduceCtorEq] at ht <;> subst ht
  · -- String -> Boolean
    have e := stringToBoolean_ok hd; subst e
    constructor
    · intro y hy
      obtain ⟨x, hx, rfl⟩ := List.mem_map.mp hy
      simp only [s2b]
      split
      · exact (wf_to_object (hI.1 x hx)).1
      · split
        · exact (wf_ofBool _).1
        · exact wf_nanO.1
    · intro y hy c hc
      obtain ⟨x, hx, rfl⟩ := List.mem_map.mp hy
      simp only [s2b] at hc
      split at hc
      · exact hI.2 x hx c hc
      · split at hc
        · rename_i b _; cases b <;> simp [NElem.ofBool, NElem.blank] at hc
        · simp [NElem.ofFloat, NElem.blank] at hc
  · -- String -> Complex
    have e := stringToComplex_ok hd; subst e
    constructor
    · intro y hy; obtain ⟨x, _, rfl⟩ := List.mem_map.mp hy; exact (s2c_wf x).1
    · intro y hy c hc
      obtain ⟨x, _, rfl⟩ := List.mem_map.mp hy
      simp only [s2c] at hc
      split at hc
      · simp [NElem.ofComplex, NElem.blank] at hc
      · split at hc <;> simp [NElem.ofComplex, NElem.blank] at hc
  · -- String -> DateTime
    simp only [stringToDatetime] at hd
    cases hw : o.dtWhole a with
    | raises c => simp [hw] at hd
    | ok r => simp only [hw, Except.ok.injEq] at hd; subst hd; exact hdi a r hw
  · -- String -> Float
    have e := stringToFloat_ok hd; subst e
    constructor
    · intro y hy; obtain ⟨x, _, rfl⟩ := List.mem_map.mp hy; exact (s2f_wf x).1
    · intro y hy c hc
      obtain ⟨x, _, rfl⟩ := List.mem_map.mp hy
      simp only [s2f] at hc
      split at hc
      · simp [NElem.ofFloat, NElem.blank] at hc
      · split at hc <;> simp [NElem.ofFloat, NElem.blank] at hc
  · -- Complex -> Float
    rw [complexToFloat_eq] at hd; cases hd
    constructor
    · intro y hy; obtain ⟨x, _, rfl⟩ := List.mem_map.mp hy; exact (c2f_wf x).1
    · intro y hy c hc
      obtain ⟨x, _, rfl⟩ := List.mem_map.mp hy
      simp only [c2f] at hc
      split at hc <;> simp [NElem.ofFloat, NElem.blank] at hc
  · -- Float -> Integer
    obtain ⟨_, e⟩ := floatToInteger_ok hd; subst e
    constructor
    · intro y hy; obtain ⟨x, _, rfl⟩ := List.mem_map.mp hy; exact (f2i_wf x).1
    · intro y hy c hc
      obtain ⟨x, _, rfl⟩ := List.mem_map.mp hy
      simp only [f2i] at hc
      split at hc <;> simp [NElem.ofInt, NElem.blank] at hc
  · -- Object -> Boolean
    simp only [objectToBoolean, Except.ok.injEq] at hd; subst hd; exact hI

/-- **C11 for `infer` on the numpy model**: for every typeset built from the relation table, two arrays of the same dtype
kind holding the same bag of elements are inferred along the same path, and the cast arrays again hold the same bag.
Hypotheses: `InvN` on the input (the element facts of `goodB`, and float conversions raise caught classes only),
`DtBagN` / `hdi` about `pd.to_datetime`. -/
theorem infer_bag_np (o : NpOracle) (hdt : DtBagN o) (hdi : ∀ a r, o.dtWhole a = .ok r → InvN r) (b : Built Ty)
    (f : Nat) (n : Ty) (a a' : NArr) (h : SameBagN a a') (hI : InvN a) :
    (ptraverse (numpyTS o b).succ f n a).2 = (ptraverse (numpyTS o b).succ f n a').2 ∧
    SameBagN (ptraverse (numpyTS o b).succ f n a).1 (ptraverse (numpyTS o b).succ f n a').1 := by
  have l0 := numpyTS_L0 o b
  induction f generalizing n a a' with
  | zero => exact ⟨rfl, h⟩
  | succ f ih =>
    have hI' := hI.perm h
    have hg : ∀ r ∈ (numpyTS o b).succ n, r.guard a = r.guard a' := by
      intro r hr
      by_cases hi : r.inferential = true
      · rcases inf_rel_specN hr hi with ⟨g, t, hgd, _, hiff, _⟩ | ⟨_, hnone⟩
        · rw [Bool.eq_iff_iff, hiff a, hiff a']
          exact ⟨guard_accBagN o hdt n r.dst g hgd a a' h hI.2, guard_accBagN o hdt n r.dst g hgd a' a h.symm hI'.2⟩
        · rw [hnone a, hnone a']
      · have hi' : r.inferential = false := by simpa using hi
        rw [(l0 n r hr hi').1 a, (l0 n r hr hi').1 a']
        exact NumpyProps.C11_membership_numpy r.dst a a' h.kind h.perm (fun x hx => elemWF_of (hI.1 x hx))
    have hfind : pfirst ((numpyTS o b).succ n) a = pfirst ((numpyTS o b).succ n) a' := by
      simp only [pfirst]
      exact Pd.find?_congr' _ hg
    simp only [ptraverse, ← hfind]
    cases hfa : pfirst ((numpyTS o b).succ n) a with
    | none => exact ⟨rfl, h⟩
    | some r =>
      have hmem : r ∈ (numpyTS o b).succ n := List.mem_of_find?_eq_some hfa
      have hx : SameBagN (r.xform a) (r.xform a') ∧ InvN (r.xform a) := by
        by_cases hi : r.inferential = true
        · rcases inf_rel_specN hmem hi with ⟨g, t, _, htd, _, hxf⟩ | ⟨_, hnone⟩
          · have he := xform_equiBagN o hdt n r.dst t htd
            rw [hxf a, hxf a']
            cases hta : t a with
            | ok d =>
              obtain ⟨d', hd', hb⟩ := he a a' h d hta
              simp only [hd']
              exact ⟨hb, xform_invN o hdi n r.dst t htd a d hI hta⟩
            | error e =>
              cases hta' : t a' with
              | error e' => exact ⟨h, hI⟩
              | ok d' =>
                obtain ⟨d, hd, _⟩ := he a' a h.symm d' hta'
                rw [hta] at hd; cases hd
          · have := List.find?_some hfa
            simp only [hnone a] at this
            cases this
        · have hi' : r.inferential = false := by simpa using hi
          rw [(l0 n r hmem hi').2 a, (l0 n r hmem hi').2 a']; exact ⟨h, hI⟩
      have ⟨h1, h2⟩ := ih r.dst (r.xform a) (r.xform a') hx.1 hx.2
      exact ⟨by simp only [h1], h2⟩

end V.Np

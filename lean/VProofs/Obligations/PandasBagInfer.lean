/-
  L4 for the inference relations of the pandas model — C11 for `infer`: every relation test accepts a column iff it
  accepts any column holding the same bag of cells in the same dtype (`AccBag`), and every transformer maps columns
  with the same bag to columns with the same bag (`EquiBag`).  Acceptance is what the traversal reads (a guard that
  raises is a different matter: which exception escapes first can depend on the order of the rows — C09, not C11).
-/
import VProofs.Obligations.PandasBag
import VProofs.Obligations.PandasMutex
import VProofs.Obligations.PandasWF
namespace V.Pd
open V V.Gen

/-- acceptance of `g` depends on the dtype and the bag of cells only -/
def AccBag (g : Column → R Bool) : Prop := ∀ c c', SameBag c c' → (g c = .ok true → g c' = .ok true)

theorem SameBag.symm {c c' : Column} (h : SameBag c c') : SameBag c' c := ⟨h.dtype.symm, h.perm.symm⟩

theorem AccBag.iff {g : Column → R Bool} (h : AccBag g) {c c' : Column} (hb : SameBag c c') :
    g c = .ok true ↔ g c' = .ok true := ⟨h c c' hb, h c' c hb.symm⟩

theorem acc_handleNulls {f : Column → R Bool} (hf : AccBag f) : AccBag (handleNulls f) := by
  intro c c' h
  simp only [handleNulls, sameBag_hasnans h, sameBag_empty (sameBag_dropna h)]
  by_cases hn : c'.hasnans = true
  · simp only [hn, if_true]
    by_cases he : c'.dropna.empty = true
    · simp [he]
    · simp only [he, Bool.false_eq_true, if_false]; exact hf _ _ (sameBag_dropna h)
  · simp only [hn, Bool.false_eq_true, if_false]; exact hf _ _ h

theorem acc_ok {q : Column → Bool} (hq : ∀ c c', SameBag c c' → q c = q c') : AccBag (fun c => .ok (q c)) := by
  intro c c' h hc
  simp only [Except.ok.injEq] at hc ⊢
  rw [← hq c c' h]; exact hc

theorem acc_ok_all (p : Cell → Bool) : AccBag (fun c => .ok (c.cells.all p)) :=
  acc_ok (fun _ _ h => perm_all p h.perm)

theorem firstRaise_none_perm {α : Type} {l l' : List (Outcome α)} (h : l.Perm l') (hn : firstRaise l = none) :
    firstRaise l' = none := by
  rw [firstRaise_none_iff] at hn ⊢
  intro x hx; exact hn x (h.mem_iff.mpr hx)

theorem firstRaise_map_perm {α : Type} (p : Cell → Outcome α) {l l' : List Cell} (h : l.Perm l')
    (hn : firstRaise (l.map p) = none) : firstRaise (l'.map p) = none :=
  firstRaise_none_perm (h.map p) hn

theorem oks_perm {α : Type} {l l' : List (Outcome α)} (h : l.Perm l') : (oks l).Perm (oks l') := by
  induction h with
  | nil => exact .refl _
  | cons x _ ih => cases x <;> simp only [oks] <;> first | exact ih.cons _ | exact ih
  | swap x y l => cases x <;> cases y <;> simp only [oks] <;> first | exact .swap _ _ _ | exact .refl _
  | trans _ _ ih1 ih2 => exact ih1.trans ih2

/-- the common shape of a test built on `option_coercion_evaluator` / `coercion_test`: acceptance means no element
raised and the final verdict is true -/
theorem match_acc {α : Type} {l : List (Outcome α)} {k : String → R Bool} {r : R Bool}
    (hk : ∀ cls, k cls ≠ .ok true) :
    (match firstRaise l with | some cls => k cls | _ => r) = .ok true ↔ firstRaise l = none ∧ r = .ok true := by
  constructor
  · intro h; exact guard_match_none h hk
  · rintro ⟨h1, h2⟩; rw [h1]; exact h2

/-! ### the four numeric / temporal tests and Object → Boolean -/

theorem acc_objectIsBoolean : AccBag objectIsBoolean := acc_handleNulls (acc_ok_all _)
theorem acc_complexIsFloat : AccBag complexIsFloat := acc_handleNulls (acc_ok_all _)
theorem acc_floatIsInteger : AccBag floatIsInteger := acc_handleNulls (acc_ok_all _)
theorem acc_datetimeIsDate : AccBag datetimeIsDate := acc_handleNulls (acc_ok_all _)

/-! ### element-parser tests -/

theorem acc_stringIsIp : AccBag stringIsIp := by
  apply acc_handleNulls
  intro c c' h hc
  have ⟨h1, _⟩ := guard_match_none hc (fun cls => ite_ne_ok_true _ _)
  have h1' := firstRaise_map_perm _ h.perm h1
  dsimp only
  rw [h1']

theorem seriesAll_bag {c c' : Column} (h : SameBag c c') : seriesAll c = seriesAll c' := by
  simp only [seriesAll, perm_all _ h.perm]

theorem acc_stringIsUuid : AccBag stringIsUuid := by
  apply acc_handleNulls
  intro c c' h hc
  have ⟨h1, h2⟩ := guard_match_none hc (fun cls => ite_ne_ok_true _ _)
  have h1' := firstRaise_map_perm _ h.perm h1
  dsimp only
  rw [h1', ← seriesAll_bag h]; exact h2

theorem acc_stringIsEmail : AccBag stringIsEmail := by
  apply acc_handleNulls
  intro c c' h hc
  have ⟨h1, h2⟩ := guard_match_none hc (fun cls => ite_ne_ok_true _ _)
  have h1' := firstRaise_map_perm _ h.perm h1
  dsimp only
  rw [h1', ← seriesAll_bag h]; exact h2

theorem acc_stringIsUrl : AccBag stringIsUrl := by
  apply acc_handleNulls
  intro c c' h hc
  have ⟨h1, h2⟩ := guard_match_none hc (fun cls => ite_ne_ok_true _ _)
  have h1' := firstRaise_map_perm _ h.perm h1
  dsimp only
  rw [h1']
  simp only [Except.ok.injEq] at h2 ⊢
  rw [← perm_all _ (h.perm.map _)]; exact h2

def wktTruthy (x : Cell) : Bool :=
  match x.str with
  | some f => (match f.wkt with | .ok (t, _) => t | .raises _ => false)
  | none => false

/-- the geometry loop accepts iff every cell parses to a truthy geometry -/
theorem geomGo_iff (caught : String → Bool) (l : List Cell) :
    stringIsGeometry.go caught l = .ok true ↔ ∀ x ∈ l, wktTruthy x = true := by
  induction l with
  | nil => simp [stringIsGeometry.go]
  | cons a l ih =>
    simp only [stringIsGeometry.go, List.mem_cons, forall_eq_or_imp, wktTruthy]
    cases hs : a.str with
    | none =>
      simp only []
      constructor
      · intro h; split at h <;> cases h
      · intro h; cases h.1
    | some f =>
      simp only []
      cases hw : f.wkt with
      | raises cls =>
        simp only []
        constructor
        · intro h; split at h <;> cases h
        · intro h; cases h.1
      | ok v =>
        obtain ⟨t, r⟩ := v
        cases t with
        | false => simp
        | true => simpa [wktTruthy] using ih

theorem acc_stringIsGeometry : AccBag stringIsGeometry := by
  apply acc_handleNulls
  intro c c' h hc
  dsimp only at hc ⊢
  rw [geomGo_iff] at hc ⊢
  intro x hx; exact hc x (h.perm.mem_iff.mpr hx)

theorem acc_stringIsPath : AccBag stringIsPath := by
  apply acc_handleNulls
  intro c c' h hc
  have core : ∀ d : Column,
      (match firstRaise (d.cells.map winOut) with
       | some cls => if isA cls "TypeError" then (.ok false : R Bool) else .error (escape cls)
       | _ =>
         if (d.cells.map winOut).all isAbs then .ok true
         else match firstRaise (d.cells.map pxOut) with
           | some cls => if isA cls "TypeError" then .ok false else .error (escape cls)
           | _ => .ok ((d.cells.map pxOut).all isAbs)) = .ok true ↔
      (firstRaise (d.cells.map winOut) = none ∧
        ((d.cells.map winOut).all isAbs = true ∨
         (firstRaise (d.cells.map pxOut) = none ∧ (d.cells.map pxOut).all isAbs = true))) := by
    intro d
    constructor
    · intro h
      have ⟨h1, h2⟩ := guard_match_none h (fun cls => ite_ne_ok_true _ _)
      refine ⟨h1, ?_⟩
      by_cases hall : (d.cells.map winOut).all isAbs = true
      · exact Or.inl hall
      · simp only [hall, Bool.false_eq_true, if_false] at h2
        have ⟨h3, h4⟩ := guard_match_none h2 (fun cls => ite_ne_ok_true _ _)
        exact Or.inr ⟨h3, by simpa using h4⟩
    · rintro ⟨h1, h2⟩
      rw [h1]
      by_cases hall : (d.cells.map winOut).all isAbs = true
      · simp [hall]
      · simp only [hall, Bool.false_eq_true, if_false]
        rcases h2 with h2 | ⟨h3, h4⟩
        · exact absurd h2 hall
        · rw [h3]; simp [h4]
  obtain ⟨h1, h2⟩ := (core c).mp hc
  refine (core c').mpr ⟨firstRaise_map_perm _ h.perm h1, ?_⟩
  rcases h2 with h2 | ⟨h3, h4⟩
  · left; rw [← perm_all _ (h.perm.map _)]; exact h2
  · right; exact ⟨firstRaise_map_perm _ h.perm h3, by rw [← perm_all _ (h.perm.map _)]; exact h4⟩

theorem acc_stringIsBoolean : AccBag stringIsBoolean := by
  intro c c' h hc
  simp only [stringIsBoolean] at hc ⊢
  rw [← perm_all _ h.perm]
  split at hc
  · cases hc
  · rename_i hall
    simp only [hall, if_false, Bool.false_eq_true] at ⊢
    have inner : AccBag (handleNulls (fun c =>
        .ok ((List.range boolMaps.length).any (fun i =>
          c.cells.all (fun x => match x.str with
            | some f => (match f.boolKey with | some (j, _) => j == i | none => false)
            | none => false))))) := by
      apply acc_handleNulls
      apply acc_ok
      intro d d' hd
      congr 1
      funext i
      exact perm_all _ hd.perm
    exact inner c c' h hc

/-! ### String → Float -/

def okD {α : Type} (d : α) : Outcome α → α
  | .ok a => a
  | .raises _ => d

theorem oks_map_eq {α : Type} (d : α) (p : Cell → Outcome α) (l : List Cell) (h : firstRaise (l.map p) = none) :
    oks (l.map p) = l.map (fun x => okD d (p x)) := by
  induction l with
  | nil => rfl
  | cons a l ih =>
    simp only [List.map_cons] at h ⊢
    cases hp : p a with
    | ok v => rw [hp] at h; simp only [firstRaise] at h; simp only [oks, okD, ih h]
    | raises cls => rw [hp] at h; simp [firstRaise] at h

theorem zip_map_self {α β : Type} (l : List α) (g : α → β) : l.zip (l.map g) = l.map (fun x => (x, g x)) := by
  induction l with
  | nil => rfl
  | cons a l ih => simp [ih]

theorem perm_isEmpty {α : Type} {l l' : List α} (h : l.Perm l') : l.isEmpty = l'.isEmpty := by
  have := h.length_eq
  cases l <;> cases l' <;> simp_all

theorem leadingZerosOk_bag (g : Cell → FloatV) {l l' : List Cell} (h : l.Perm l') :
    leadingZerosOk l (l.map g) = leadingZerosOk l' (l'.map g) := by
  simp only [leadingZerosOk, zip_map_self]
  have hp : ((l.map (fun x => (x, g x))).filter (fun p => !p.2.isNan)).Perm
      ((l'.map (fun x => (x, g x))).filter (fun p => !p.2.isNan)) := (h.map _).filter _
  rw [perm_any _ (h.map g), perm_isEmpty hp, perm_any _ hp]

theorem acc_stringIsFloat : AccBag stringIsFloat := by
  apply acc_handleNulls
  intro c c' h hc
  have ⟨h1, h2⟩ := guard_match_none hc (fun cls => ite_ne_ok_true _ _)
  have h1' := firstRaise_map_perm (cellFloat c.dtype) h.perm h1
  dsimp only at h2 ⊢
  rw [← h.dtype, h1']
  dsimp only
  have e1 := oks_map_eq FloatV.nan (cellFloat c.dtype) c.cells h1
  have e2 := oks_map_eq FloatV.nan (cellFloat c.dtype) c'.cells h1'
  rw [e1] at h2
  rw [e2]
  have hm : (c.cells.map (fun x => okD FloatV.nan (cellFloat c.dtype x))).Perm
      (c'.cells.map (fun x => okD FloatV.nan (cellFloat c.dtype x))) := h.perm.map _
  rw [← perm_isEmpty hm, ← perm_isEmpty (hm.filter _), ← leadingZerosOk_bag _ h.perm]
  exact h2

/-! ### String → Complex -/

def hasJIB (x : Cell) : Bool := match x.str with | some f => f.hasJI | none => false

theorem scan_eq (l : List Cell) (h : ∀ x ∈ l, x.str.isSome = true) :
    stringIsComplex.scan l = .ok (l.any hasJIB) := by
  induction l with
  | nil => rfl
  | cons a l ih =>
    have ha := h a List.mem_cons_self
    cases hs : a.str with
    | none => rw [hs] at ha; cases ha
    | some f =>
      simp only [stringIsComplex.scan, hs, List.any_cons, hasJIB]
      by_cases hj : f.hasJI = true
      · simp [hj]
      · simp only [hj, Bool.false_eq_true, if_false, Bool.false_or]
        exact ih (fun x hx => h x (List.mem_cons_of_mem _ hx))

theorem acc_stringIsComplex : AccBag stringIsComplex := by
  intro c c' h hc
  simp only [stringIsComplex] at hc ⊢
  have ⟨h1, h2⟩ := guard_match_none hc (fun cls => ite_ne_ok_true _ _)
  have h1' := firstRaise_map_perm cellComplex h.perm h1
  rw [h1']
  dsimp only at h2 ⊢
  have hstr : ∀ d : Column, firstRaise (d.cells.map cellComplex) = none → ∀ x ∈ d.dropna.cells, x.str.isSome = true := by
    intro d hd x hx
    have ⟨hxd, hn⟩ := mem_dropna.mp hx
    have := firstRaise_none_all_ok hd (cellComplex x) (List.mem_map_of_mem hxd)
    cases hs : x.str with
    | some f => rfl
    | none => simp [cellComplex, hs, hn, Outcome.isOk] at this
  have hpo : (oks (c.cells.map cellComplex)).Perm (oks (c'.cells.map cellComplex)) := oks_perm (h.perm.map _)
  rw [← perm_all _ (hpo.filter _)]
  split at h2
  · cases h2
  · rename_i hz
    simp only [hz, Bool.false_eq_true, if_false]
    rw [scan_eq _ (hstr c h1)] at h2
    rw [scan_eq _ (hstr c' h1'), ← perm_any _ (sameBag_dropna h).perm]
    exact h2

/-! ### String → DateTime: a hypothesis about `pd.to_datetime` (the oracle), validated by the bag runner on real data -/

/-- `pd.to_datetime` parses element by element: on a permuted column it succeeds exactly when it succeeded, with the
same tz-awareness, and returns the permuted results -/
def DtBag (o : ColOracle) : Prop :=
  ∀ l l' : List Cell, l.Perm l' → ∀ r tz, o.toDatetime l = .ok (r, tz) → ∃ r', o.toDatetime l' = .ok (r', tz) ∧ r.Perm r'

theorem acc_stringIsDatetime (o : ColOracle) (hdt : DtBag o) : AccBag (stringIsDatetime o) := by
  apply acc_handleNulls
  intro c c' h hc
  dsimp only at hc ⊢
  cases hq : o.toDatetime c.cells with
  | raises cls => rw [hq] at hc; simp only [] at hc; split at hc <;> cases hc
  | ok v =>
    obtain ⟨r, tz⟩ := v
    rw [hq] at hc
    obtain ⟨r', hq', hp⟩ := hdt _ _ h.perm r tz hq
    rw [hq']
    simp only [Except.ok.injEq] at hc ⊢
    rw [← perm_any _ hp]; exact hc

/-- **L4 for the relation tests**: every guard of the relation table accepts a column iff it accepts any column with the
same dtype and the same bag of cells -/
theorem guard_accBag (o : ColOracle) (hdt : DtBag o) (src dst : Ty) (g : Column → R Bool)
    (hg : guard o src dst = some g) : AccBag g := by
  unfold guard at hg
  split at hg <;> (try cases hg)
  · exact acc_objectIsBoolean
  · exact acc_stringIsBoolean
  · exact acc_stringIsComplex
  · exact acc_stringIsDatetime o hdt
  · exact acc_stringIsFloat
  · exact acc_complexIsFloat
  · exact acc_floatIsInteger
  · exact acc_datetimeIsDate
  · exact acc_stringIsGeometry
  · exact acc_stringIsIp
  · exact acc_stringIsPath
  · exact acc_stringIsUrl
  · exact acc_stringIsUuid
  · exact acc_stringIsEmail

/-! ### transformers map equal bags to equal bags -/

def EquiBag (t : Column → R Column) : Prop :=
  ∀ c c', SameBag c c' → ∀ d, t c = .ok d → ∃ d', t c' = .ok d' ∧ SameBag d d'

theorem equi_complexToFloat : EquiBag complexToFloat := by
  intro c c' h d hd
  simp only [complexToFloat, Except.ok.injEq] at hd ⊢
  subst hd
  exact ⟨_, rfl, rfl, h.perm.map _⟩

theorem equi_floatToInteger : EquiBag floatToInteger := by
  intro c c' h d hd
  simp only [floatToInteger, Except.ok.injEq] at hd ⊢
  subst hd
  exact ⟨_, rfl, by simp only [sameBag_hasnans h], h.perm.map _⟩

theorem equi_datetimeToDate : EquiBag datetimeToDate := by
  intro c c' h d hd
  simp only [datetimeToDate] at hd ⊢
  rw [← perm_any _ h.perm]
  split at hd
  · cases hd
  · rename_i hany
    simp only [hany, Bool.false_eq_true, if_false, Except.ok.injEq] at hd ⊢
    subst hd
    exact ⟨_, rfl, rfl, h.perm.map _⟩

/-- extract "no element raised" from the `match firstRaise … with | some cls => error | _ => ok …` shape -/
theorem xform_match_none {α : Type} {l : List (Outcome α)} {k : String → R Column} {r : R Column} {d : Column}
    (h : (match firstRaise l with | some cls => k cls | _ => r) = .ok d)
    (hk : ∀ cls, ∀ d, k cls ≠ .ok d) : firstRaise l = none ∧ r = .ok d := by
  cases hq : firstRaise l with
  | none => rw [hq] at h; exact ⟨rfl, h⟩
  | some cls => rw [hq] at h; exact absurd h (hk cls d)

theorem equi_stringToFloat : EquiBag stringToFloat := by
  intro c c' h d hd
  simp only [stringToFloat] at hd ⊢
  have ⟨h1, h2⟩ := xform_match_none hd (fun cls d => by simp)
  have h1' := firstRaise_map_perm (cellFloat c.dtype) h.perm h1
  rw [← h.dtype, h1']
  simp only [Except.ok.injEq] at h2 ⊢
  subst h2
  exact ⟨_, rfl, rfl, (oks_perm (h.perm.map _)).map _⟩

theorem equi_stringToComplex : EquiBag stringToComplex := by
  intro c c' h d hd
  simp only [stringToComplex] at hd ⊢
  have ⟨h1, h2⟩ := xform_match_none hd (fun cls d => by simp)
  have h1' := firstRaise_map_perm cellComplex h.perm h1
  rw [h1']
  simp only [Except.ok.injEq] at h2 ⊢
  subst h2
  exact ⟨_, rfl, rfl, (oks_perm (h.perm.map _)).map _⟩

theorem equi_applyStr (p : StrFacts → Outcome Cell) (q : Cell → Outcome Cell) : EquiBag (fun c => applyStr c p q) := by
  intro c c' h d hd
  simp only [applyStr] at hd ⊢
  have ⟨h1, h2⟩ := xform_match_none hd (fun cls d => by simp)
  have h1' := firstRaise_map_perm _ h.perm h1
  rw [h1']
  simp only [Except.ok.injEq] at h2 ⊢
  subst h2
  exact ⟨_, rfl, rfl, oks_perm (h.perm.map _)⟩

theorem equi_stringToGeometry : EquiBag stringToGeometry := equi_applyStr _ _
theorem equi_stringToIp : EquiBag stringToIp := equi_applyStr _ _
theorem equi_stringToUrl : EquiBag stringToUrl := equi_applyStr _ _
theorem equi_stringToUuid : EquiBag stringToUuid := equi_applyStr _ _
theorem equi_stringToEmail : EquiBag stringToEmail := equi_applyStr _ _

theorem equi_stringToPath : EquiBag stringToPath := by
  intro c c' h d hd
  simp only [stringToPath] at hd ⊢
  have hb := sameBag_dropna h
  have ⟨h1, h2⟩ := xform_match_none hd (fun cls d => by simp)
  have h1' := firstRaise_map_perm _ hb.perm h1
  rw [h1', ← perm_all _ (hb.perm.map _)]
  dsimp only at h2 ⊢
  split at h2
  · rename_i hw
    simp only [hw, if_true]
    exact equi_applyStr _ _ c c' h d h2
  · rename_i hw
    simp only [hw, Bool.false_eq_true, if_false]
    exact equi_applyStr _ _ c c' h d h2

theorem equi_stringToDatetime (o : ColOracle) (hdt : DtBag o) : EquiBag (stringToDatetime o) := by
  intro c c' h d hd
  simp only [stringToDatetime] at hd ⊢
  cases hq : o.toDatetime c.cells with
  | raises cls => rw [hq] at hd; cases hd
  | ok v =>
    obtain ⟨r, tz⟩ := v
    rw [hq] at hd
    obtain ⟨r', hq', hp⟩ := hdt _ _ h.perm r tz hq
    rw [hq']
    simp only [Except.ok.injEq] at hd ⊢
    subst hd
    exact ⟨_, rfl, rfl, hp⟩

theorem equi_objectToBoolean : EquiBag objectToBoolean := by
  intro c c' h d hd
  simp only [objectToBoolean] at hd ⊢
  rw [← sameBag_hasnans h, ← perm_all _ (h.perm.filter _), ← perm_all _ (h.perm.filter _), ← perm_any _ h.perm]
  split at hd
  · cases hd
  · rename_i hcond
    simp only [hcond, if_false]
    have ⟨h1, h2⟩ := xform_match_none hd (fun cls d => by simp)
    have h1' := firstRaise_map_perm _ h.perm h1
    rw [h1']
    simp only [Except.ok.injEq] at h2 ⊢
    subst h2
    exact ⟨_, rfl, rfl, oks_perm (h.perm.map _)⟩

theorem equi_stringToBoolean : EquiBag stringToBoolean := by
  intro c c' h d hd
  simp only [stringToBoolean] at hd ⊢
  exact equi_objectToBoolean { c with dtype := .object, cells := _ } { c' with dtype := .object, cells := _ } ⟨rfl, h.perm.map _⟩ d hd

/-- **L4 for the transformers**: every transformer of the relation table maps columns with the same dtype and bag of
cells to columns with the same dtype and bag of cells -/
theorem xform_equiBag (o : ColOracle) (hdt : DtBag o) (src dst : Ty) (t : Column → R Column)
    (ht : xform o src dst = some t) : EquiBag t := by
  unfold xform at ht
  split at ht <;> (try cases ht)
  · exact equi_objectToBoolean
  · exact equi_stringToBoolean
  · exact equi_stringToComplex
  · exact equi_stringToDatetime o hdt
  · exact equi_stringToFloat
  · exact equi_complexToFloat
  · exact equi_floatToInteger
  · exact equi_datetimeToDate
  · exact equi_stringToGeometry
  · exact equi_stringToIp
  · exact equi_stringToPath
  · exact equi_stringToUrl
  · exact equi_stringToUuid
  · exact equi_stringToEmail

/-- an inference relation of `pandasTS`: its guard accepts iff the table's test returns `ok true`; its transformer is the
table's, or the identity where that one raises -/
theorem inf_rel_spec {o : ColOracle} {b : Built Ty} (ft : FromTable b) {n : Ty} {r : PRel Ty Column}
    (hr : r ∈ (pandasTS o b).succ n) (hi : r.inferential = true) :
    ∃ g t, guard o n r.dst = some g ∧ xform o n r.dst = some t ∧
      (∀ c, r.guard c = true ↔ g c = .ok true) ∧
      (∀ c, r.xform c = match t c with | .ok d => d | .error _ => c) := by
  obtain ⟨e, he, hsrc, rfl, _, hdst, hinf, _⟩ := mem_pandasTS_succ hr
  have hie : e.inferential = true := by rw [← hinf]; exact hi
  obtain ⟨g, t, hg, ht⟩ := table_guard_defined o e.dst ⟨e.src, e.inferential⟩ (ft.decl e he) hie
  simp only at hg ht
  refine ⟨g, t, by rw [hdst, ← hsrc]; exact hg, by rw [hdst, ← hsrc]; exact ht, ?_, ?_⟩
  · intro c
    simp only [mkRel, hie, if_true, purifyRel, hg, Except.map]
    cases hgc : g c with
    | error e => simp
    | ok v => cases v <;> simp
  · intro c
    simp only [mkRel, hie, if_true, purifyRel, ht, Except.map]
    cases t c <;> rfl

theorem find?_congr' {α : Type} {p q : α → Bool} (l : List α) (h : ∀ x ∈ l, p x = q x) : l.find? p = l.find? q := by
  induction l with
  | nil => rfl
  | cons a l ih =>
    simp only [List.find?_cons, h a List.mem_cons_self]
    rw [ih (fun x hx => h x (List.mem_cons_of_mem _ hx))]

/-- **C11 for `infer` on the pandas model**: for every typeset built from the relation table, two columns with the same
dtype and the same bag of cells (any row order, any index labels, any name) are inferred along the same path, and the
cast columns again hold the same bag.  Hypothesis: `DtBag` about `pd.to_datetime` only. -/
theorem infer_bag (o : ColOracle) (hdt : DtBag o) (b : Built Ty) (ft : FromTable b) (f : Nat) (n : Ty)
    (c c' : Column) (h : SameBag c c') :
    (ptraverse (pandasTS o b).succ f n c).2 = (ptraverse (pandasTS o b).succ f n c').2 ∧
    SameBag (ptraverse (pandasTS o b).succ f n c).1 (ptraverse (pandasTS o b).succ f n c').1 := by
  have l0 := pandasTS_L0 o b
  induction f generalizing n c c' with
  | zero => exact ⟨rfl, h⟩
  | succ f ih =>
    have hg : ∀ r ∈ (pandasTS o b).succ n, r.guard c = r.guard c' := by
      intro r hr
      by_cases hi : r.inferential = true
      · obtain ⟨g, t, hgd, _, hiff, _⟩ := inf_rel_spec ft hr hi
        have := (guard_accBag o hdt n r.dst g hgd).iff h
        rw [Bool.eq_iff_iff, hiff c, hiff c']; exact this
      · have hi' : r.inferential = false := by simpa using hi
        rw [(l0 n r hr hi').1 c, (l0 n r hr hi').1 c']
        exact containsB_bag r.dst c c' h
    have hfind : pfirst ((pandasTS o b).succ n) c = pfirst ((pandasTS o b).succ n) c' := by
      simp only [pfirst]
      exact find?_congr' _ hg
    simp only [ptraverse, ← hfind]
    cases hfa : pfirst ((pandasTS o b).succ n) c with
    | none => exact ⟨rfl, h⟩
    | some r =>
      have hmem : r ∈ (pandasTS o b).succ n := List.mem_of_find?_eq_some hfa
      have hx : SameBag (r.xform c) (r.xform c') := by
        by_cases hi : r.inferential = true
        · obtain ⟨g, t, _, htd, _, hxf⟩ := inf_rel_spec ft hmem hi
          have he := xform_equiBag o hdt n r.dst t htd
          rw [hxf c, hxf c']
          cases htc : t c with
          | ok d =>
            obtain ⟨d', hd', hb⟩ := he c c' h d htc
            simp only [hd']; exact hb
          | error e =>
            cases htc' : t c' with
            | error e' => exact h
            | ok d' =>
              obtain ⟨d, hd, _⟩ := he c' c h.symm d' htc'
              rw [htc] at hd; cases hd
        · have hi' : r.inferential = false := by simpa using hi
          rw [(l0 n r hmem hi').2 c, (l0 n r hmem hi').2 c']; exact h
      have ⟨h1, h2⟩ := ih r.dst (r.xform c) (r.xform c') hx
      exact ⟨by simp only [h1], h2⟩

end V.Pd

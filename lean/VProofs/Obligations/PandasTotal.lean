/-
  L6 (Total) for `infer` on the pandas model — C09: for every typeset built from the relation table and every column
  satisfying `Good` and `GuardsOk` (no relation test raises on the *input*; executable: `guardsOkB`), the full-engine
  traversal the driver evaluates returns normally: no guard and no transformer raises anywhere along the walk.
  Intermediate columns need no hypothesis: they are produced columns (`OutCol`), on which only total tests run.
-/
import VProofs.Obligations.PandasGoodB
import VProofs.Lemmas.Full
namespace V.Pd
open V V.Gen

/-- no relation test whose source type contains the column raises on it -/
def GuardsOk (o : ColOracle) (c : Column) : Prop :=
  ∀ src dst g, guard o src dst = some g → containsB src c = true → ∃ b, g c = .ok b

theorem guardsOkB_sound (o : ColOracle) (c : Column) (h : guardsOkB o c = true) : GuardsOk o c := by
  intro src dst g hg hsrc
  have := List.all_eq_true.mp (List.all_eq_true.mp h src (mem_Ty_all' src)) dst (mem_Ty_all' dst)
  rw [hg] at this
  simp only [hsrc, Bool.not_true, Bool.false_or] at this
  cases hgc : g c with
  | ok b => exact ⟨b, rfl⟩
  | error e => rw [hgc] at this; cases this

theorem handleNulls_okB (q : Column → Bool) (c : Column) : ∃ b, handleNulls (fun c => .ok (q c)) c = .ok b := by
  simp only [handleNulls]; split <;> (try split) <;> exact ⟨_, rfl⟩

/-- on a produced column only total tests can run -/
theorem guardsOk_of_outCol (o : ColOracle) (c : Column) (h : OutCol c) : GuardsOk o c := by
  intro src dst g hg hsrc
  have hns := outCol_not_string h
  unfold guard at hg
  split at hg <;> (try cases hg)
  all_goals first
    | (rw [hns] at hsrc; cases hsrc)
    | exact handleNulls_okB _ c

/-- **`infer` never raises** on the pandas model: for every typeset built from the relation table and every column
satisfying `Good` and `GuardsOk`, the full-engine traversal returns normally -/
theorem infer_total (o : ColOracle) (b : Built Ty) (ft : FromTable b) (c : Column)
    (hG : Good o c) (hK : GuardsOk o c) (hroot : containsB b.root c = true) :
    ∃ v, traverse (graphOf o b) 64 b.root c () [] = .ok v := by
  apply traverse_total_inv (graphOf o b) (fun t => 32 - rank t)
    (fun n x => Good o x ∧ GuardsOk o x ∧ containsB n x = true)
  · -- height
    intro n r hr
    simp only [graphOf, List.mem_map, List.mem_filter] at hr
    obtain ⟨e, ⟨he, hs⟩, rfl⟩ := hr
    have hsrc : e.src = n := by simpa using hs
    have := ft.rank e he
    have h1 := rank_le e.dst
    have hd : (mkRel o e).dst = e.dst := by by_cases hi : e.inferential = true <;> simp [mkRel, hi]
    rw [hd, ← hsrc]; omega
  · -- guards
    intro n x ⟨_, hk, hc⟩ r hr
    simp only [graphOf, List.mem_map, List.mem_filter] at hr
    obtain ⟨e, ⟨he, hs⟩, rfl⟩ := hr
    have hsrc : e.src = n := by simpa using hs
    by_cases hi : e.inferential = true
    · obtain ⟨g, t, hg, _⟩ := table_guard_defined o e.dst ⟨e.src, e.inferential⟩ (ft.decl e he) hi
      simp only at hg
      obtain ⟨v, hv⟩ := hk e.src e.dst g hg (by rw [hsrc]; exact hc)
      exact ⟨(v, ()), by simp [mkRel, hi, hg, hv, Except.map]⟩
    · exact ⟨(containsB e.dst x, ()), by simp only [mkRel, hi, Bool.false_eq_true, if_false, contains, Except.map]⟩
  · -- transformers re-establish the invariant
    intro n x ⟨hg0, hk, hc⟩ r hr hacc
    simp only [graphOf, List.mem_map, List.mem_filter] at hr
    obtain ⟨e, ⟨he, hs⟩, rfl⟩ := hr
    have hsrc : e.src = n := by simpa using hs
    have hcs : containsB e.src x = true := by rw [hsrc]; exact hc
    by_cases hi : e.inferential = true
    · obtain ⟨g, t, hg, ht⟩ := table_guard_defined o e.dst ⟨e.src, e.inferential⟩ (ft.decl e he) hi
      simp only at hg ht
      have hgx : g x = .ok true := by
        simp only [mkRel, hi, if_true, hg, Except.map] at hacc
        cases hq : g x with
        | error err => rw [hq] at hacc; cases hacc
        | ok v => rw [hq] at hacc; simp only [Except.ok.injEq, Prod.mk.injEq] at hacc; rw [hacc.1]
      obtain ⟨c', hc'⟩ := hg0.noRaise e.src e.dst g t hg ht hcs hgx
      have hd : (mkRel o e).dst = e.dst := by simp [mkRel, hi]
      refine ⟨c', by simp [mkRel, hi, ht, hc', Except.map], ?_, ?_, ?_⟩
      · exact outputs_good o e.src e.dst g t x c' hg ht hg0 hcs hgx hc'
      · exact guardsOk_of_outCol o c' (outputs_outCol o e.src e.dst g t x c' hg ht hg0 hcs hgx hc')
      · rw [hd]
        exact lands_pandas o e.src e.dst g t hg ht x c' ⟨hg0.paywf, hg0.strNotNull, hg0.dtLands⟩ hcs hgx hc'
    · have hd : (mkRel o e).dst = e.dst := by simp [mkRel, hi]
      refine ⟨x, by simp [mkRel, hi], hg0, hk, ?_⟩
      rw [hd]
      simp only [mkRel, hi, Bool.false_eq_true, if_false, contains, Except.map, Except.ok.injEq, Prod.mk.injEq, and_true] at hacc
      exact hacc
  · show 32 - rank b.root < 64; omega
  · exact ⟨hG, hK, hroot⟩

end V.Pd

/-
  The numpy back end model is a well-formed type system (`TS.WF`) relative to the invariant `Good` (= the executable
  `goodB`): the engine lifting theorems (C02 order independence, C03 soundness, C04 fixpoint, C15 refinement, C16 chain)
  therefore hold for every typeset built from the relation table and every array satisfying `goodB`.
-/
import VProofs.Obligations.NumpyLands
import VProofs.Obligations.PandasTypeset
namespace V.Np
open V V.Gen
open V.Pd (FromTable rank_le table_identity_parent outOf mem_outOf outOf_generic outOf_object outOf_string outOf_thin
  pbase_purify nodup_dst_of_pairwise idpath_snoc)

/-- the relation graph of a built typeset over numpy arrays, purified -/
def numpyTS (o : NpOracle) (b : Built Ty) : TS Ty NArr :=
  { succ := purify (graphOf o b), contains := containsB, h := fun t => 32 - rank t }

theorem mkRel_dst (o : NpOracle) (e : Edge Ty) : (purifyRel (mkRel o e)).dst = e.dst := by
  by_cases h : e.inferential = true <;> simp [mkRel, h, purifyRel]
theorem mkRel_src (o : NpOracle) (e : Edge Ty) : (purifyRel (mkRel o e)).src = e.src := by
  by_cases h : e.inferential = true <;> simp [mkRel, h, purifyRel]
theorem mkRel_inf (o : NpOracle) (e : Edge Ty) : (purifyRel (mkRel o e)).inferential = e.inferential := by
  by_cases h : e.inferential = true <;> simp [mkRel, h, purifyRel]
theorem mkRel_id_guard (o : NpOracle) (e : Edge Ty) (h : e.inferential = false) (c : NArr) :
    (purifyRel (mkRel o e)).guard c = containsB e.dst c := by
  simp [mkRel, h, purifyRel]
theorem mkRel_id_xform (o : NpOracle) (e : Edge Ty) (h : e.inferential = false) (c : NArr) :
    (purifyRel (mkRel o e)).xform c = c := by
  simp [mkRel, h, purifyRel]

theorem mem_numpyTS_succ {o : NpOracle} {b : Built Ty} {n : Ty} {r : PRel Ty NArr}
    (hr : r ∈ (numpyTS o b).succ n) :
    ∃ e ∈ b.edges, e.src = n ∧ r = purifyRel (mkRel o e) ∧ r.src = e.src ∧ r.dst = e.dst ∧ r.inferential = e.inferential ∧
      (e.inferential = false → (∀ c, r.guard c = containsB e.dst c) ∧ (∀ c, r.xform c = c)) := by
  simp only [numpyTS, purify, graphOf, List.mem_map] at hr
  obtain ⟨r0, ⟨e, he, rfl⟩, rfl⟩ := hr
  have hm := List.mem_filter.mp he
  exact ⟨e, hm.1, by simpa using hm.2, rfl, mkRel_src o e, mkRel_dst o e, mkRel_inf o e,
    fun h => ⟨mkRel_id_guard o e h, mkRel_id_xform o e h⟩⟩

theorem numpyTS_L0 (o : NpOracle) (b : Built Ty) : (numpyTS o b).L0 := by
  intro n r hr hi
  obtain ⟨e, _, _, _, _, hdst, hinf, hid⟩ := mem_numpyTS_succ hr
  have := hid (by rw [← hinf]; exact hi)
  simp only [numpyTS]
  rw [hdst]; exact this

theorem numpyTS_height (o : NpOracle) (b : Built Ty) (hrank : ∀ e ∈ b.edges, rank e.src < rank e.dst) :
    ∀ n r, r ∈ (numpyTS o b).succ n → (numpyTS o b).h r.dst < (numpyTS o b).h n := by
  intro n r hr
  obtain ⟨e, he, hsrc, _, _, hdst, _, _⟩ := mem_numpyTS_succ hr
  have := hrank e he
  have h1 := rank_le e.dst
  simp only [numpyTS]
  rw [hdst, ← hsrc]; omega

/-- **tie to the executable model**: when the full-engine traversal the driver evaluates returns normally, it returned
the pure traversal of `numpyTS` -/
theorem infer_model_eq (o : NpOracle) (b : Built Ty) (f : Nat) (n : Ty) (c d : NArr) (p : List Ty)
    (h : traverse (graphOf o b) f n c () [] = .ok (d, p, ())) :
    ptraverse (numpyTS o b).succ f n c = (d, p) := by
  obtain ⟨q, hq, hpt⟩ := traverse_ok_pure (graphOf o b) f n c [] d p h
  simp only [List.nil_append] at hq
  rw [hq]; exact hpt

theorem detect_model_eq (o : NpOracle) (b : Built Ty) (f : Nat) (n : Ty) (c d : NArr) (p : List Ty)
    (h : traverse (graphOf o b).base f n c () [] = .ok (d, p, ())) :
    ptraverse (numpyTS o b).idSucc f n c = (d, p) := by
  obtain ⟨q, hq, hpt⟩ := traverse_ok_pure (graphOf o b).base f n c [] d p h
  simp only [List.nil_append] at hq
  have e : (numpyTS o b).idSucc = purify (graphOf o b).base := by
    funext n; exact pbase_purify (graphOf o b) n
  rw [e, hq]; exact hpt

/-- every inference relation the numpy back end registers has a guard and a transformer in the model, and the model has
none for any other pair (checked against the GENERATED registration list) -/
theorem guard_defined_iff : ∀ s ∈ Ty.all, ∀ d ∈ Ty.all, ∀ o : NpOracle,
    ((guard o s d).isSome = decide ((s, d) ∈ numpyRelationsRegistered)) ∧
    ((xform o s d).isSome = decide ((s, d) ∈ numpyRelationsRegistered)) := by
  intro s _ d _ o
  cases s <;> cases d <;> exact ⟨rfl, rfl⟩

/-- description of the inferential relations of `numpyTS` whose test accepts -/
theorem accept_inf {o : NpOracle} {b : Built Ty} {n : Ty} {r : PRel Ty NArr}
    (hr : r ∈ (numpyTS o b).succ n) (hi : r.inferential = true) (x : NArr) (hg : r.guard x = true) :
    ∃ g t, guard o n r.dst = some g ∧ xform o n r.dst = some t ∧ g x = .ok true ∧ (∀ c', t x = .ok c' → r.xform x = c') := by
  obtain ⟨e, he, hsrc, rfl, _, hdst, hinf, _⟩ := mem_numpyTS_succ hr
  have hie : e.inferential = true := by rw [← hinf]; exact hi
  simp only [mkRel, hie, if_true, purifyRel] at hg hdst ⊢
  cases hgd : guard o e.src e.dst with
  | none => simp [hgd, Except.map] at hg
  | some g =>
    have hx := (guard_defined_iff e.src (Pd.mem_Ty_all _) e.dst (Pd.mem_Ty_all _) o)
    have : (xform o e.src e.dst).isSome = true := by rw [hx.2, ← hx.1, hgd]; rfl
    obtain ⟨t, ht⟩ := Option.isSome_iff_exists.mp this
    refine ⟨g, t, by rw [← hsrc]; exact hgd, by rw [← hsrc]; exact ht, ?_, ?_⟩
    · simp only [hgd, Except.map] at hg
      cases hgx : g x with
      | error e' => simp [hgx] at hg
      | ok v => cases v <;> simp [hgx] at hg ⊢
    · intro c' hc'
      simp [ht, Except.map, hc']

theorem accept_id {o : NpOracle} {b : Built Ty} {n : Ty} {r : PRel Ty NArr} (hr : r ∈ (numpyTS o b).succ n)
    (hi : r.inferential = false) (x : NArr) (hg : r.guard x = true) : containsB r.dst x = true := by
  have ⟨h1, _⟩ := numpyTS_L0 o b n r hr hi
  have := h1 x
  rw [hg] at this
  exact this.symm

theorem numpyTS_nodup_dst (o : NpOracle) (b : Built Ty) (ft : FromTable b) (n : Ty) :
    (((numpyTS o b).succ n).map (·.dst)).Nodup := by
  have := ft.nodupDst n
  simp only [numpyTS, purify, graphOf, List.map_map]
  have e : ((fun r : PRel Ty NArr => r.dst) ∘ purifyRel ∘ mkRel o) = (fun e : Edge Ty => e.dst) := by
    funext e; exact mkRel_dst o e
  rw [e]; exact this

theorem succ_in_outOf {o : NpOracle} {b : Built Ty} (ft : FromTable b) {n : Ty} {r : PRel Ty NArr}
    (hr : r ∈ (numpyTS o b).succ n) : (r.dst, r.inferential) ∈ outOf n := by
  obtain ⟨e, he, hsrc, _, _, hdst, hinf, _⟩ := mem_numpyTS_succ hr
  have h22 := ft.in22 e he
  have hd := ft.decl e he
  rw [hdst, hinf]
  apply mem_outOf h22.2 (by rw [← hsrc]; exact h22.1)
  rw [← hsrc]; exact hd

/-- identity children of Generic in the table that can contain a numpy array at all -/
theorem generic_child_np (d : Ty) (hd : d ∈ C02.genericChildren) (a : NArr) (h : containsB d a = true) :
    d ∈ genericChildrenNp := by
  revert hd h
  cases d <;> simp [C02.genericChildren, genericChildrenNp, containsB]

/-- **the numpy back end model is a well-formed type system relative to `Good`** -/
theorem numpy_WF (o : NpOracle) (b : Built Ty) (ft : FromTable b) : (numpyTS o b).WF (Good o) where
  height := numpyTS_height o b ft.rank
  idGuard := numpyTS_L0 o b
  nested := by
    intro n r hr hi x hG hc
    obtain ⟨e, he, hsrc, _, _, hdst, hinf, _⟩ := mem_numpyTS_succ hr
    have hie : e.inferential = false := by rw [← hinf]; exact hi
    have hp := table_identity_parent e.dst ⟨e.src, e.inferential⟩ (ft.decl e he) hie
    simp only at hp
    have hc' : containsB e.dst x = true := by rw [← hdst]; exact hc
    have := nested_np o e.dst e.src hp x hG hc'
    show containsB n x = true
    rw [← hsrc]; exact this
  mutex := by
    intro n x hG hc
    apply filter_le_one_of_pairwise _ _ (·.dst) (numpyTS_nodup_dst o b ft n)
    intro r₁ h₁ r₂ h₂ g₁ g₂
    have hc' : containsB n x = true := hc
    have m₁ := succ_in_outOf ft h₁
    have m₂ := succ_in_outOf ft h₂
    by_cases hgen : n = .Generic
    · subst hgen
      have ⟨i₁, c₁⟩ := outOf_generic _ m₁
      have ⟨i₂, c₂⟩ := outOf_generic _ m₂
      have k₁ := accept_id h₁ i₁ x g₁
      have k₂ := accept_id h₂ i₂ x g₂
      exact excl_generic_np o x hG r₁.dst r₂.dst (generic_child_np _ c₁ x k₁) (generic_child_np _ c₂ x k₂) k₁ k₂
    · by_cases hobj : n = .Object
      · subst hobj
        have ⟨_, b₁⟩ := outOf_object _ m₁
        have ⟨_, b₂⟩ := outOf_object _ m₂
        -- Object -> Boolean never accepts a member of Object: both accepted relations are identity relations, and the
        -- only identity child of Object the numpy back end knows is String
        have idOnly : ∀ r ∈ (numpyTS o b).succ .Object, r.guard x = true → (r.inferential = true ↔ r.dst = .Boolean) →
            r.dst = .String := by
          intro r hr hg hb
          by_cases hi : r.inferential = true
          · obtain ⟨g, t, hgd, _, hgx, _⟩ := accept_inf hr hi x hg
            rw [hb.mp hi] at hgd
            simp only [guard, Option.some.injEq] at hgd
            subst hgd
            exact absurd hgx (object_never_boolean o x hG hc')
          · have hi' : r.inferential = false := by simpa using hi
            have hcd := accept_id hr hi' x hg
            have hpar : Pd.parentOf r.dst = some .Object := by
              obtain ⟨e, he, hsrc, _, _, hdst, hinf, _⟩ := mem_numpyTS_succ hr
              have := table_identity_parent e.dst ⟨e.src, e.inferential⟩ (ft.decl e he) (by rw [← hinf]; exact hi')
              simp only at this
              rw [hdst, ← hsrc]; exact this
            revert hcd hpar
            cases r.dst <;> intro hcd hpar <;>
              first | rfl | (simp [containsB] at hcd; done) | exact absurd hpar (by decide)
        rw [idOnly r₁ h₁ g₁ b₁, idOnly r₂ h₂ g₂ b₂]
      · by_cases hstr : n = .String
        · subst hstr
          have ⟨i₁, _⟩ := outOf_string _ m₁
          have ⟨i₂, _⟩ := outOf_string _ m₂
          obtain ⟨ga, _, hga, _, hxa, _⟩ := accept_inf h₁ i₁ x g₁
          obtain ⟨gb, _, hgb, _, hxb, _⟩ := accept_inf h₂ i₂ x g₂
          have t₁ : r₁.dst ∈ stringTargetsNp := by
            revert hga; cases r₁.dst <;> simp [guard, stringTargetsNp]
          have t₂ : r₂.dst ∈ stringTargetsNp := by
            revert hgb; cases r₂.dst <;> simp [guard, stringTargetsNp]
          exact excl_string_np o x hG hc' r₁.dst r₂.dst t₁ t₂ ga gb hga hgb hxa hxb
        · exact outOf_thin n ⟨hgen, hobj, hstr⟩ _ m₁ _ m₂
  lands := by
    intro n r x hr hG hc hg
    by_cases hi : r.inferential = true
    · obtain ⟨g, t, hgd, htd, hgx, hxf⟩ := accept_inf hr hi x hg
      obtain ⟨c', hc'⟩ := noRaise_np o n r.dst g t hgd htd x hG hc hgx
      rw [hxf c' hc']
      exact (lands_closed_np o n r.dst g t hgd htd x c' hG hc hgx hc').1
    · have hi' : r.inferential = false := by simpa using hi
      have ⟨h1, h2⟩ := numpyTS_L0 o b n r hr hi'
      rw [h2 x]
      have := h1 x
      rw [hg] at this
      exact this.symm
  closed := by
    intro n r x hr hG hc hg
    by_cases hi : r.inferential = true
    · obtain ⟨g, t, hgd, htd, hgx, hxf⟩ := accept_inf hr hi x hg
      obtain ⟨c', hc'⟩ := noRaise_np o n r.dst g t hgd htd x hG hc hgx
      rw [hxf c' hc']
      exact (lands_closed_np o n r.dst g t hgd htd x c' hG hc hgx hc').2
    · have hi' : r.inferential = false := by simpa using hi
      have ⟨_, h2⟩ := numpyTS_L0 o b n r hr hi'
      rw [h2 x]; exact hG

/-! ### every parent-closed typeset built from the table is a good `numpyTS` -/

theorem edge_in_idSucc (o : NpOracle) (b : Built Ty) (e : Edge Ty) (he : e ∈ b.edges) (hi : e.inferential = false) :
    purifyRel (mkRel o e) ∈ (numpyTS o b).idSucc e.src := by
  apply mem_idSucc.mpr
  refine ⟨?_, by rw [mkRel_inf]; exact hi⟩
  simp only [numpyTS, purify, graphOf, List.mem_map]
  exact ⟨mkRel o e, ⟨e, List.mem_filter.mpr ⟨he, by simp⟩, rfl⟩, rfl⟩

theorem idReach_to_idPath (o : NpOracle) (b : Built Ty) {a t : Ty} (h : IdReach b.edges a t) :
    IdPath (numpyTS o b) a t := by
  induction h with
  | refl => exact IdPath.refl _
  | step e _ he hi ih => exact idpath_snoc _ ih _ (edge_in_idSucc o b e he hi) (mkRel_dst o e)

theorem built_typeset_np (o : NpOracle) (S : List Ty) (nd : S.Nodup) (hg : Ty.Generic ∈ S)
    (pc : ParentClosedL declared S) (hsub : ∀ t ∈ S, t ∈ completeSet) :
    ∃ b, mkTypeset declared isGeneric S = .ok b ∧ b.root = Ty.Generic ∧ b.nodes = S ∧ FromTable b ∧
      Nodes (numpyTS o b) (fun t => t ∈ S) Ty.Generic := by
  obtain ⟨b, hb, hr, hn, ft, _⟩ := Pd.built_typeset ⟨fun _ => .raises "x"⟩ S nd hg pc hsub
  obtain ⟨b1, hb1, _, _, _, he, _⟩ := buildGraph_closed C14.tableWF S nd hg pc
  have e1 : b = b1 := by
    have : mkTypeset declared isGeneric S = .ok b1 := by
      simp only [mkTypeset, hb1]
      have : b1.root = Ty.Generic := by assumption
      simp [this]; rfl
    rw [hb] at this; exact (Except.ok.inj this)
  have hmem : ∀ e ∈ b.edges, e.dst ∈ S ∧ e.src ∈ S ∧ (⟨e.src, e.inferential⟩ : RelDecl Ty) ∈ declared e.dst := by
    intro e hm; rw [e1, he] at hm; exact mem_presentEdges.mp hm
  refine ⟨b, hb, hr, hn, ft, ?_⟩
  exact { rootIn := hg,
          step := by
            intro n r _ hr'
            obtain ⟨e, hm, _, _, _, hdst, _, _⟩ := mem_numpyTS_succ hr'
            rw [hdst]; exact (hmem e hm).1,
          idpath := by
            intro t ht
            apply idReach_to_idPath
            rw [e1, he]
            exact idReach_of_closed C14.tableWF S pc (rank t) t (Nat.le_refl _) ht }

end V.Np

/-
  L4 (Bag) for the pandas backend model — C11: membership of every type is invariant under row
  permutation, index relabelling, renaming and k-fold repetition of the column; the engine lifting
  (`sim_traverse`) turns invariance of guards into invariance of the reported path.
-/
import VProofs.Lemmas.PandasL
import VProofs.Lemmas.Pure
namespace V.Pd
open V V.Gen

/-- two columns hold the same bag of cells in the same dtype (index labels and name are free) -/
structure SameBag (c c' : Column) : Prop where
  dtype : c.dtype = c'.dtype
  perm : c.cells.Perm c'.cells

theorem perm_all {α : Type} (p : α → Bool) {l l' : List α} (h : l.Perm l') : l.all p = l'.all p := by
  induction h with
  | nil => rfl
  | cons x _ ih => simp [List.all_cons, ih]
  | swap x y l => simp [List.all_cons, Bool.and_left_comm]
  | trans _ _ ih1 ih2 => rw [ih1, ih2]

theorem perm_any {α : Type} (p : α → Bool) {l l' : List α} (h : l.Perm l') : l.any p = l'.any p := by
  induction h with
  | nil => rfl
  | cons x _ ih => simp [List.any_cons, ih]
  | swap x y l => simp [List.any_cons, Bool.or_left_comm]
  | trans _ _ ih1 ih2 => rw [ih1, ih2]

theorem sameBag_hasnans {c c' : Column} (h : SameBag c c') : c.hasnans = c'.hasnans :=
  perm_any _ h.perm

theorem sameBag_empty {c c' : Column} (h : SameBag c c') : c.empty = c'.empty := by
  simp only [Column.empty]
  have := h.perm.length_eq
  cases hc : c.cells <;> cases hc' : c'.cells <;> simp_all

theorem sameBag_dropna {c c' : Column} (h : SameBag c c') : SameBag c.dropna c'.dropna :=
  ⟨h.dtype, by rw [dropna_cells, dropna_cells]; exact h.perm.filter _⟩

/-- `str(v) == v` only holds for `str` instances (H_str; validated by α on every generated cell) -/
def StrWF (x : Cell) : Prop := x.strEq = .ok true → x.isStr = true

def ColWF (c : Column) : Prop := ∀ x ∈ c.cells, StrWF x

theorem colWF_dropna {c : Column} (h : ColWF c) : ColWF c.dropna :=
  fun x hx => h x (mem_dropna.mp hx).1

theorem colWF_sameBag {c c' : Column} (hb : SameBag c c') (h : ColWF c) : ColWF c' :=
  fun x hx => h x (hb.perm.mem_iff.mpr hx)

/-- `f` gives the same verdict on any two columns holding the same bag of cells -/
def BagFn (f : Column → Bool) : Prop := ∀ c c', SameBag c c' → f c = f c'

theorem bag_handleNulls {f : Column → Bool} (hf : BagFn f) : BagFn (handleNullsB f) := by
  intro c c' h
  simp only [handleNullsB, sameBag_hasnans h, sameBag_empty (sameBag_dropna h),
    hf _ _ (sameBag_dropna h), hf _ _ h]

theorem bag_notEmpty {f : Column → Bool} (hf : BagFn f) : BagFn (notEmptyB f) := by
  intro c c' h
  simp only [notEmptyB, sameBag_empty h, hf _ _ h]

theorem bag_notSparse {f : Column → Bool} (hf : BagFn f) : BagFn (notSparseB f) := hf

theorem bag_dtype (p : DKind → Bool) : BagFn (fun c => p c.dtype) := by
  intro c c' h; simp only [h.dtype]

theorem bag_all (p : Cell → Bool) : BagFn (fun c => c.cells.all p) := by
  intro c c' h; exact perm_all p h.perm

/-- the early-exit test on a prefix is subsumed by the full scan that follows it -/
theorem prefix_subsumed (p q : Cell → Bool) (k : Nat) (l : List Cell) :
    (if !((l.take k).all p) then false else l.all (fun x => p x && q x)) = l.all (fun x => p x && q x) := by
  by_cases h : (l.take k).all p = true
  · simp [h]
  · have h' : (l.take k).all p = false := by simpa using h
    simp only [h', Bool.not_false, if_true]
    symm
    rw [List.all_eq_false] at h' ⊢
    obtain ⟨x, hx, hpx⟩ := h'
    exact ⟨x, List.mem_of_mem_take hx, by simp [hpx]⟩

theorem bag_instanceAttrs (p q : Cell → Bool) : BagFn (containsInstanceAttrs p q) := by
  intro c c' h
  simp only [containsInstanceAttrs]
  rw [prefix_subsumed p q 1 c.cells, prefix_subsumed p q 1 c'.cells]
  exact perm_all _ h.perm

def strEqTrue (x : Cell) : Bool := match x.strEq with | .ok b => b | .raises _ => false

/-- `_is_string`: "every value is a str, and str(v) == v everywhere" is `all` of one cell predicate -/
theorem isString_core (l : List Cell) :
    (if !(l.all (·.isStr)) then false else l.all strEqTrue) = l.all (fun x => x.isStr && strEqTrue x) := by
  by_cases h : l.all (·.isStr) = true
  · simp only [h, Bool.not_true, Bool.false_eq_true, if_false]
    rw [List.all_eq_true] at h
    induction l with
    | nil => rfl
    | cons a l ih =>
      simp only [List.all_cons]
      rw [ih (fun x hx => h x (List.mem_cons_of_mem _ hx)), h a List.mem_cons_self]
      simp
  · have h' : l.all (·.isStr) = false := by simpa using h
    simp only [h', Bool.not_false, if_true]
    symm
    rw [List.all_eq_false] at h' ⊢
    obtain ⟨x, hx, hpx⟩ := h'
    exact ⟨x, hx, by simp [hpx]⟩

theorem bag_isString : BagFn isString := by
  apply bag_handleNulls
  intro c c' h
  show (if !(c.cells.all (·.isStr)) then false else c.cells.all strEqTrue)
     = (if !(c'.cells.all (·.isStr)) then false else c'.cells.all strEqTrue)
  rw [isString_core, isString_core]
  exact perm_all _ h.perm

theorem bag_stringContains : BagFn stringContains := by
  apply bag_notSparse; apply bag_notEmpty; apply bag_handleNulls
  intro c c' h
  simp only [h.dtype, bag_isString c c' h]

/-- **L4 for membership**: every `contains_op` of the pandas backend is a function of the dtype
and the bag of cells -/
theorem containsB_bag (t : Ty) : BagFn (containsB t) := by
  cases t <;> simp only [containsB]
  · intro _ _ _; rfl
  · exact bag_stringContains
  · exact bag_notSparse (bag_handleNulls (bag_notEmpty (bag_dtype (fun d => d.isBool && !d.isCategorical))))
  · exact bag_notSparse (bag_notEmpty (bag_dtype _))
  · exact bag_notSparse (bag_notEmpty (bag_dtype _))
  · exact bag_notSparse (bag_notEmpty (bag_dtype _))
  · exact bag_handleNulls (bag_notEmpty (bag_instanceAttrs _ _))
  · exact bag_notSparse (bag_handleNulls (bag_notEmpty (bag_dtype _)))
  · exact bag_notEmpty (bag_handleNulls (bag_all _))
  · exact bag_notSparse (bag_handleNulls (bag_notEmpty (bag_dtype _)))
  · exact bag_notEmpty (bag_handleNulls (bag_all _))
  · exact bag_notEmpty (bag_handleNulls (bag_all _))
  · exact bag_notSparse (bag_notEmpty (bag_dtype _))
  · exact bag_notEmpty (bag_handleNulls (bag_all _))
  · exact bag_notSparse (bag_handleNulls (bag_notEmpty (bag_dtype
      (fun d => if d.isObject = true then true else d.isStringNonObject && !d.isCategorical))))
  · exact bag_notEmpty (bag_dtype (fun d => d.isCategorical && d.catOrdered))
  · exact bag_notEmpty (bag_handleNulls (bag_all _))
  · exact bag_notSparse (bag_notEmpty (bag_dtype _))
  · exact bag_notEmpty (bag_handleNulls (bag_instanceAttrs _ _))
  · exact bag_handleNulls (bag_notEmpty (bag_instanceAttrs _ _))
  · exact bag_handleNulls (bag_notEmpty (bag_instanceAttrs _ _))
  · exact bag_notEmpty (bag_handleNulls (bag_instanceAttrs _ _))
  · exact bag_dtype _
  · exact bag_notSparse (bag_notEmpty (bag_dtype _))

/-- k-fold self-concatenation: the same verdicts as the column itself -/
def repeatCol (c : Column) (k : Nat) : Column :=
  { c with cells := (List.replicate (k + 1) c.cells).flatten, index := (List.replicate (k + 1) c.index).flatten }

theorem all_replicate {α : Type} (p : α → Bool) (l : List α) (k : Nat) :
    ((List.replicate (k + 1) l).flatten).all p = l.all p := by
  induction k with
  | zero => simp
  | succ k ih => rw [List.replicate_succ, List.flatten_cons, List.all_append, ih, Bool.and_self]

theorem any_replicate {α : Type} (p : α → Bool) (l : List α) (k : Nat) :
    ((List.replicate (k + 1) l).flatten).any p = l.any p := by
  induction k with
  | zero => simp
  | succ k ih => rw [List.replicate_succ, List.flatten_cons, List.any_append, ih, Bool.or_self]


theorem empty_replicate (c : Column) (k : Nat) : (repeatCol c k).empty = c.empty := by
  simp only [Column.empty, repeatCol]
  cases hc : c.cells with
  | nil => simp
  | cons a as => simp [List.replicate_succ]

theorem filter_flatten_replicate {α : Type} (p : α → Bool) (l : List α) (k : Nat) :
    ((List.replicate k l).flatten).filter p = (List.replicate k (l.filter p)).flatten := by
  induction k with
  | zero => simp
  | succ k ih => simp [List.replicate_succ, List.filter_append, ih]

theorem colWF_repeat {c : Column} (k : Nat) (w : ColWF c) : ColWF (repeatCol c k) := by
  intro x hx
  simp only [repeatCol, List.mem_flatten, List.mem_replicate] at hx
  obtain ⟨l, ⟨_, rfl⟩, hm⟩ := hx
  exact w x hm

/-- `f` is a bag function and is unchanged by k-fold self-concatenation -/
def RepFn (f : Column → Bool) : Prop := BagFn f ∧ ∀ c k, ColWF c → f (repeatCol c k) = f c

theorem rep_dtype (p : DKind → Bool) : RepFn (fun c => p c.dtype) := ⟨bag_dtype p, fun _ _ _ => rfl⟩

theorem rep_all (p : Cell → Bool) : RepFn (fun c => c.cells.all p) :=
  ⟨bag_all p, fun c k _ => all_replicate p c.cells k⟩

theorem rep_instanceAttrs (p q : Cell → Bool) : RepFn (containsInstanceAttrs p q) := by
  refine ⟨bag_instanceAttrs p q, fun c k _ => ?_⟩
  simp only [containsInstanceAttrs]
  rw [prefix_subsumed, prefix_subsumed]
  exact all_replicate _ c.cells k

theorem rep_notEmpty {f : Column → Bool} (hf : RepFn f) : RepFn (notEmptyB f) := by
  refine ⟨bag_notEmpty hf.1, fun c k w => ?_⟩
  simp only [notEmptyB, empty_replicate, hf.2 c k w]

theorem rep_handleNulls {f : Column → Bool} (hf : RepFn f) : RepFn (handleNullsB f) := by
  refine ⟨bag_handleNulls hf.1, fun c k w => ?_⟩
  have hn : (repeatCol c k).hasnans = c.hasnans := any_replicate _ c.cells k
  -- dropna of the repetition holds the same cells as the repetition of dropna
  have hbag : SameBag (repeatCol c k).dropna (repeatCol c.dropna k) :=
    ⟨rfl, by rw [dropna_cells]; simp only [repeatCol, dropna_cells]
             rw [filter_flatten_replicate]⟩
  have e1 : f (repeatCol c k).dropna = f c.dropna := by
    rw [hf.1 _ _ hbag]
    exact hf.2 c.dropna k (colWF_dropna w)
  have e2 : (repeatCol c k).dropna.empty = c.dropna.empty := by
    rw [sameBag_empty hbag, empty_replicate]
  simp only [handleNullsB, hn, e1, e2, hf.2 c k w]

theorem rep_isString : RepFn isString := by
  refine ⟨bag_isString, ?_⟩
  have core : RepFn (fun c => if !(c.cells.all (·.isStr)) then false else c.cells.all strEqTrue) := by
    refine ⟨?_, fun c k _ => ?_⟩
    · intro c c' h
      simp only []
      rw [isString_core, isString_core]
      exact perm_all _ h.perm
    · simp only []
      rw [isString_core, isString_core]
      exact all_replicate _ c.cells k
  exact (rep_handleNulls core).2

theorem rep_stringContains : RepFn stringContains := by
  have inner : RepFn (fun c => if c.dtype.isCategorical then false
      else if !c.dtype.isObject then c.dtype.isStringNonObject else isString c) := by
    refine ⟨?_, fun c k w => ?_⟩
    · intro c c' h; simp only [h.dtype, bag_isString c c' h]
    · have : (repeatCol c k).dtype = c.dtype := rfl
      simp only [this, rep_isString.2 c k w]
  exact rep_notEmpty (rep_handleNulls inner)

/-- **k-fold repetition leaves every membership unchanged** -/
theorem containsB_repeat (t : Ty) : RepFn (containsB t) := by
  cases t <;> simp only [containsB]
  · exact ⟨fun _ _ _ => rfl, fun _ _ _ => rfl⟩
  · exact rep_stringContains
  · exact rep_handleNulls (rep_notEmpty (rep_dtype (fun d => d.isBool && !d.isCategorical)))
  · exact rep_notEmpty (rep_dtype _)
  · exact rep_notEmpty (rep_dtype _)
  · exact rep_notEmpty (rep_dtype _)
  · exact rep_handleNulls (rep_notEmpty (rep_instanceAttrs _ _))
  · exact rep_handleNulls (rep_notEmpty (rep_dtype _))
  · exact rep_notEmpty (rep_handleNulls (rep_all _))
  · exact rep_handleNulls (rep_notEmpty (rep_dtype _))
  · exact rep_notEmpty (rep_handleNulls (rep_all _))
  · exact rep_notEmpty (rep_handleNulls (rep_all _))
  · exact rep_notEmpty (rep_dtype _)
  · exact rep_notEmpty (rep_handleNulls (rep_all _))
  · exact rep_handleNulls (rep_notEmpty (rep_dtype
      (fun d => if d.isObject = true then true else d.isStringNonObject && !d.isCategorical)))
  · exact rep_notEmpty (rep_dtype (fun d => d.isCategorical && d.catOrdered))
  · exact rep_notEmpty (rep_handleNulls (rep_all _))
  · exact rep_notEmpty (rep_dtype _)
  · exact rep_notEmpty (rep_handleNulls (rep_instanceAttrs _ _))
  · exact rep_handleNulls (rep_notEmpty (rep_instanceAttrs _ _))
  · exact rep_handleNulls (rep_notEmpty (rep_instanceAttrs _ _))
  · exact rep_notEmpty (rep_handleNulls (rep_instanceAttrs _ _))
  · exact rep_dtype _
  · exact rep_notEmpty (rep_dtype _)

end V.Pd

/-
  Local obligations of the numpy back end model (`VModel/Numpy.lean`), for every abstract array satisfying the executable
  invariant `goodB` (`VModel/NumpyGood.lean`):

    L1  nested_np      membership is upward closed along every identity relation of the table (C16)
    L2  excl_generic_np / excl_string_np / object_never_boolean   sibling exclusivity at Generic, String, Object (C02)
    L3  lands_np       every accepting inference relation lands inside its target (C03)
        closed_np      … and its output satisfies the invariant again

  `Good o a` is literally `goodB o a = true` — the check the driver evaluates on α(array) for every generated input.
-/
import VModel.Numpy
import VModel.NumpyGood
import VProofs.Obligations.PandasNested
namespace V.Np
open V V.Gen

def Good (o : NpOracle) (a : NArr) : Prop := goodB o a = true

theorem good_elem {o : NpOracle} {a : NArr} (h : Good o a) : ∀ x ∈ a.elems, elemWFB a.kind x = true ∧ payWFB a.kind x = true := by
  intro x hx
  simp only [Good, goodB, Bool.and_eq_true, List.all_eq_true] at h
  exact h.1.1 x hx
theorem good_noRaise {o : NpOracle} {a : NArr} (h : Good o a) : noRaiseB o a = true := by
  simp only [Good, goodB, Bool.and_eq_true] at h; exact h.1.2
theorem good_oracle {o : NpOracle} {a : NArr} (h : Good o a) : oracleB o a = true := by
  simp only [Good, goodB, Bool.and_eq_true] at h; exact h.2

/-! ### decorators -/

theorem mask_kind (a : NArr) : a.mask.kind = a.kind := rfl
theorem mem_mask {a : NArr} {x : NElem} : x ∈ a.mask.elems ↔ x ∈ a.elems ∧ x.null = false := by
  simp [NArr.mask, List.mem_filter]
theorem mask_mask (a : NArr) : a.mask.mask = a.mask := by
  simp only [NArr.mask, List.filter_filter, Bool.and_self]

theorem notEmptyB_true {f : NArr → Bool} {a : NArr} (h : notEmptyB f a = true) : a.isEmpty = false ∧ f a = true := by
  simp only [notEmptyB] at h
  by_cases he : a.isEmpty = true
  · simp [he] at h
  · simp only [he] at h
    exact ⟨by simpa using he, by simpa using h⟩
theorem handleNullsB_true {f : NArr → Bool} {a : NArr} (h : handleNullsB f a = true) : a.mask.isEmpty = false ∧ f a.mask = true :=
  notEmptyB_true h
theorem notEmptyB_intro {f : NArr → Bool} {a : NArr} (he : a.isEmpty = false) (hf : f a = true) : notEmptyB f a = true := by
  simp [notEmptyB, he, hf]
theorem handleNullsB_intro {f : NArr → Bool} {a : NArr} (he : a.mask.isEmpty = false) (hf : f a.mask = true) :
    handleNullsB f a = true := notEmptyB_intro he hf

theorem notEmpty_ok_true {f : NArr → R Bool} {a : NArr} (h : notEmpty f a = .ok true) : a.isEmpty = false ∧ f a = .ok true := by
  simp only [notEmpty] at h
  by_cases he : a.isEmpty = true
  · simp [he] at h
  · simp only [he] at h
    exact ⟨by simpa using he, by simpa using h⟩
theorem handleNulls_ok_true {f : NArr → R Bool} {a : NArr} (h : handleNulls f a = .ok true) :
    a.mask.isEmpty = false ∧ f a.mask = .ok true := notEmpty_ok_true h

theorem isEmpty_false_iff {a : NArr} : a.isEmpty = false ↔ ∃ x, x ∈ a.elems := by
  simp only [NArr.isEmpty]
  cases a.elems with
  | nil => simp
  | cons x xs => simp

theorem mask_nonempty_of {a : NArr} (h : a.mask.isEmpty = false) : a.isEmpty = false := by
  obtain ⟨x, hx⟩ := isEmpty_false_iff.mp h
  exact isEmpty_false_iff.mpr ⟨x, (mem_mask.mp hx).1⟩

/-! ### dtype kinds (the generated table) -/

theorem kind_excl (k : NpKind) :
    (isStrDt k = true → k = .U) ∧ (isObjectDt k = true → k = .O) ∧
    (isBoolDt k = true → k = .b) ∧ (isFloatingDt k = true → k = .f) ∧ (isComplexDt k = true → k = .c) ∧
    (isDatetimeDt k = true → k = .M) ∧ (isTimedeltaDt k = true → k = .m) ∧ (isIntegerDt k = true → k = .i ∨ k = .u ∨ k = .m) := by
  cases k <;> decide

/-! ### the element facts, as propositions -/

structure ElemWF (k : NpKind) (x : NElem) : Prop where
  pyO : x.isBool = true ∨ x.isInt = true ∨ x.isDatetime = true → k = .O
  strK : x.isStr = true → k = .U ∨ k = .O
  boolInt : x.isBool = true → x.isInt = true
  intDt : x.isInt = true → x.isDatetime = false
  strInt : x.isStr = true → x.isInt = false ∧ x.isDatetime = false
  strEqStr : x.strEq = .ok true → x.isStr = true
  strNull : x.isStr = true → x.null = false
  keyFl : ∀ p, x.lower = .ok (some p) → x.fl.isOk = false ∧ x.cx.isOk = false

theorem elemWF_of {k : NpKind} {x : NElem} (h : elemWFB k x = true) : ElemWF k x := by
  simp only [elemWFB, Bool.and_eq_true] at h
  obtain ⟨⟨⟨⟨⟨⟨⟨h1, h2⟩, h3⟩, h4⟩, h5⟩, h6⟩, h7⟩, h8⟩ := h
  refine ⟨?_, ?_, ?_, ?_, ?_, ?_, ?_, ?_⟩
  · intro hp
    cases hb : x.isBool <;> cases hi : x.isInt <;> cases hd : x.isDatetime <;> simp_all
  · intro hs; simp_all
  · intro hb; simp_all
  · intro hi; cases hd : x.isDatetime <;> simp_all
  · intro hs; cases hi : x.isInt <;> cases hd : x.isDatetime <;> simp_all
  · intro hse; simp_all
  · intro hs; cases hn : x.null <;> simp_all
  · intro p hp; simp_all

structure PayWF (k : NpKind) (x : NElem) : Prop where
  strNoNull : k = .U → x.null = false
  float : k = .f → ∃ v, x.fl = .ok v ∧ x.null = v.isNan
  complex : k = .c → ∃ re im, x.cx = .ok (re, im) ∧ x.null = (re.isNan || im.isNan)

theorem payWF_of {k : NpKind} {x : NElem} (h : payWFB k x = true) : PayWF k x := by
  simp only [payWFB, Bool.and_eq_true] at h
  obtain ⟨⟨h1, h2⟩, h3⟩ := h
  refine ⟨?_, ?_, ?_⟩
  · intro hk; subst hk; simpa using h1
  · intro hk; subst hk
    cases hf : x.fl with
    | raises c => simp [hf] at h2
    | ok v => exact ⟨v, rfl, by simpa [hf] using h2⟩
  · intro hk; subst hk
    cases hc : x.cx with
    | raises c => simp [hc] at h3
    | ok p => obtain ⟨re, im⟩ := p; exact ⟨re, im, rfl, by simpa [hc] using h3⟩

theorem good_wf {o : NpOracle} {a : NArr} (h : Good o a) : ∀ x ∈ a.elems, ElemWF a.kind x ∧ PayWF a.kind x :=
  fun x hx => ⟨elemWF_of (good_elem h x hx).1, payWF_of (good_elem h x hx).2⟩

theorem all_false_of_mem {p : NElem → Bool} {l : List NElem} {x : NElem} (hx : x ∈ l) (hp : p x = false) : l.all p = false := by
  apply Bool.eq_false_iff.mpr
  intro hh
  have := List.all_eq_true.mp hh x hx
  rw [hp] at this; cases this

/-! ### L1: String ⊆ Object; everything else hangs directly under Generic -/

theorem isObjectDt_O : isObjectDt NpKind.O = true := by decide
theorem isStrDt_O : isStrDt NpKind.O = false := by decide

/-- a non-missing value of a member of String that is not a string array is a `str` -/
theorem isString_elem {a : NArr} (hw : ∀ x ∈ a.elems, ElemWF a.kind x) (h : isString a = true) :
    a.mask.isEmpty = false ∧ ∀ x ∈ a.mask.elems, x.isStr = true := by
  simp only [isString] at h
  have ⟨hme, h3⟩ := handleNullsB_true h
  refine ⟨hme, ?_⟩
  intro x hx
  by_cases h5 : (a.mask.elems.take 5).all (·.isStr) = true
  · simp only [h5, Bool.not_true, Bool.false_eq_true, if_false] at h3
    have := List.all_eq_true.mp h3 x hx
    cases hse : x.strEq with
    | raises c => simp [hse] at this
    | ok b =>
      simp only [hse] at this
      subst this
      exact (hw x (mem_mask.mp hx).1).strEqStr hse
  · simp [h5] at h3

theorem string_object (o : NpOracle) (a : NArr) (hG : Good o a) (h : stringContains a = true) : objectContains a = true := by
  have ⟨hne, h2⟩ := notEmptyB_true h
  have hw := good_wf hG
  by_cases hU : isStrDt a.kind = true
  · -- a string array has no missing values
    have hk := (kind_excl a.kind).1 hU
    have hm : a.mask = a := by
      simp only [NArr.mask]
      congr
      apply List.filter_eq_self.mpr
      intro x hx
      simp [(hw x hx).2.strNoNull hk]
    apply handleNullsB_intro (by rw [hm]; exact hne)
    apply notEmptyB_intro (by rw [hm]; exact hne)
    simp [mask_kind, hU]
  · have hU' : isStrDt a.kind = false := by simpa using hU
    simp only [hU', Bool.false_eq_true, if_false] at h2
    have ⟨hme, hall⟩ := isString_elem (fun x hx => (hw x hx).1) h2
    apply handleNullsB_intro hme
    apply notEmptyB_intro hme
    simp only [mask_kind, hU', Bool.false_eq_true, if_false]
    obtain ⟨x, hx⟩ := isEmpty_false_iff.mp hme
    have hstr := hall x hx
    have hwx := (hw x (mem_mask.mp hx).1).1
    have hkO : a.kind = .O := by
      rcases hwx.strK hstr with h | h
      · rw [h] at hU'; exact absurd hU' (by decide)
      · exact h
    have hsi := hwx.strInt hstr
    have hnb : x.isBool = false := by
      cases hb : x.isBool with
      | false => rfl
      | true => have := hwx.boolInt hb; rw [hsi.1] at this; cases this
    simp only [hkO, isObjectDt_O, Bool.not_true, Bool.false_eq_true, if_false, notExcluded, hme,
      all_false_of_mem hx hnb, all_false_of_mem hx hsi.1, all_false_of_mem hx hsi.2]
    rfl

theorem parent_np : ∀ c ∈ [Ty.Boolean, .Complex, .DateTime, .Float, .Integer, .Object, .TimeDelta],
    Pd.parentOf c = some .Generic := by decide
theorem parent_string : Pd.parentOf .String = some .Object := by decide
theorem parent_generic : Pd.parentOf .Generic = none := by decide

/-- L1 for every identity relation of the generated table -/
theorem nested_np (o : NpOracle) (child parent : Ty) (hp : Pd.parentOf child = some parent) (a : NArr) (hG : Good o a)
    (h : containsB child a = true) : containsB parent a = true := by
  cases child <;> first
    | (simp [containsB] at h; done)
    | (rw [parent_np _ (by decide)] at hp; cases hp; rfl)
    | (rw [parent_string] at hp; cases hp; exact string_object o a hG h)
    | (rw [parent_generic] at hp; cases hp)

/-! ### L2 at Generic: the identity children are mutually exclusive -/

/-- which child of Generic an array can belong to, decided by the dtype kind and, for object arrays, by the class all
values share -/
def classify (a : NArr) : Ty :=
  match a.kind with
  | .b => .Boolean
  | .c => .Complex
  | .M => .DateTime
  | .f => .Float
  | .i => .Integer
  | .u => .Integer
  | .m => .TimeDelta
  | .U => .Object
  | .S => .Generic
  | .O =>
    if a.mask.elems.all (·.isBool) then .Boolean
    else if a.mask.elems.all (·.isInt) then .Integer
    else if a.mask.elems.all (·.isDatetime) then .DateTime
    else .Object

def genericChildrenNp : List Ty := [.Boolean, .Complex, .DateTime, .Float, .Integer, .Object, .TimeDelta]

theorem classify_of_contains (a : NArr) (hw : ∀ x ∈ a.elems, ElemWF a.kind x) (d : Ty) (hd : d ∈ genericChildrenNp)
    (h : containsB d a = true) : classify a = d := by
  simp only [genericChildrenNp, List.mem_cons, List.not_mem_nil, or_false] at hd
  rcases hd with rfl | rfl | rfl | rfl | rfl | rfl | rfl
  · -- Boolean
    have ⟨hme, h2⟩ := handleNullsB_true h
    have ⟨_, h3⟩ := notEmptyB_true h2
    obtain ⟨x, hx⟩ := isEmpty_false_iff.mp hme
    simp only [mask_kind] at h3
    by_cases hb : isBoolDt a.kind = true
    · have := (kind_excl a.kind).2.2.1 hb
      simp [classify, this]
    · have hb' : isBoolDt a.kind = false := by simpa using hb
      simp only [hb', Bool.false_eq_true, if_false, mask_mask] at h3
      have hxb := List.all_eq_true.mp h3 x hx
      have hk := (hw x (mem_mask.mp hx).1).pyO (Or.inl hxb)
      simp [classify, hk, h3]
  · -- Complex
    have ⟨_, h2⟩ := notEmptyB_true (f := fun a => isComplexDt a.kind) h
    have := (kind_excl a.kind).2.2.2.2.1 h2
    simp [classify, this]
  · -- DateTime
    have ⟨hme, h2⟩ := handleNullsB_true h
    have ⟨_, h3⟩ := notEmptyB_true h2
    obtain ⟨x, hx⟩ := isEmpty_false_iff.mp hme
    simp only [mask_kind] at h3
    by_cases hb : isDatetimeDt a.kind = true
    · have := (kind_excl a.kind).2.2.2.2.2.1 hb
      simp [classify, this]
    · have hb' : isDatetimeDt a.kind = false := by simpa using hb
      simp only [hb', Bool.false_eq_true, if_false, mask_mask] at h3
      have hxd := List.all_eq_true.mp h3 x hx
      have hwx := hw x (mem_mask.mp hx).1
      have hk := hwx.pyO (Or.inr (Or.inr hxd))
      have hxi : x.isInt = false := by
        cases hi : x.isInt with
        | false => rfl
        | true => have := hwx.intDt hi; rw [hxd] at this; cases this
      have hxb : x.isBool = false := by
        cases hb2 : x.isBool with
        | false => rfl
        | true => have := hwx.boolInt hb2; rw [hxi] at this; cases this
      simp [classify, hk, h3, all_false_of_mem hx hxi, all_false_of_mem hx hxb]
  · -- Float
    have ⟨_, h2⟩ := handleNullsB_true h
    have ⟨_, h3⟩ := notEmptyB_true h2
    have := (kind_excl a.kind).2.2.2.1 h3
    simp [classify, this]
  · -- Integer
    simp only [containsB, integerContains] at h
    have ⟨hme, h2⟩ := handleNullsB_true h
    obtain ⟨x, hx⟩ := isEmpty_false_iff.mp hme
    simp only [mask_kind, hme, Bool.false_or] at h2
    by_cases ht : isTimedeltaDt a.kind = true
    · simp [ht] at h2
    · have ht' : isTimedeltaDt a.kind = false := by simpa using ht
      simp only [ht', Bool.false_eq_true, if_false] at h2
      by_cases hi : isIntegerDt a.kind = true
      · rcases (kind_excl a.kind).2.2.2.2.2.2.2 hi with hk | hk | hk
        · simp [classify, hk]
        · simp [classify, hk]
        · rw [hk] at ht'; exact absurd ht' (by decide)
      · have hi' : isIntegerDt a.kind = false := by simpa using hi
        simp only [hi', Bool.false_eq_true, if_false] at h2
        by_cases ho : isObjectDt a.kind = true
        · simp only [ho, if_true] at h2
          have hk := (kind_excl a.kind).2.1 ho
          have hall := List.all_eq_true.mp h2
          have hx2 := hall x hx
          simp only [Bool.and_eq_true, Bool.not_eq_true'] at hx2
          have hint : a.mask.elems.all (·.isInt) = true :=
            List.all_eq_true.mpr (fun y hy => by have := hall y hy; simp only [Bool.and_eq_true] at this; exact this.1)
          simp [classify, hk, all_false_of_mem hx hx2.2, hint]
        · have ho' : isObjectDt a.kind = false := by simpa using ho
          simp [ho'] at h2
  · -- Object
    have ⟨hme, h2⟩ := handleNullsB_true h
    have ⟨_, h3⟩ := notEmptyB_true h2
    simp only [mask_kind] at h3
    by_cases hs : isStrDt a.kind = true
    · have := (kind_excl a.kind).1 hs
      simp [classify, this]
    · have hs' : isStrDt a.kind = false := by simpa using hs
      simp only [hs', Bool.false_eq_true, if_false] at h3
      by_cases ho : isObjectDt a.kind = true
      · have hk := (kind_excl a.kind).2.1 ho
        simp only [ho, Bool.not_true, Bool.false_eq_true, if_false, notExcluded, mask_mask, hme] at h3
        simp only [Bool.not_eq_true', Bool.or_eq_false_iff] at h3
        simp [classify, hk, h3.1.1, h3.1.2, h3.2]
      · have ho' : isObjectDt a.kind = false := by simpa using ho
        simp [ho'] at h3
  · -- TimeDelta
    have ⟨_, h2⟩ := notEmptyB_true (f := fun a => isTimedeltaDt a.kind) h
    have := (kind_excl a.kind).2.2.2.2.2.2.1 h2
    simp [classify, this]

/-- **L2 at Generic** -/
theorem excl_generic_np (o : NpOracle) (a : NArr) (hG : Good o a) (d₁ d₂ : Ty) (h₁ : d₁ ∈ genericChildrenNp)
    (h₂ : d₂ ∈ genericChildrenNp) (c₁ : containsB d₁ a = true) (c₂ : containsB d₂ a = true) : d₁ = d₂ := by
  have hw := fun x hx => (good_wf hG x hx).1
  rw [← classify_of_contains a hw d₁ h₁ c₁, ← classify_of_contains a hw d₂ h₂ c₂]

/-! ### L2 at Object: a member of Object is never accepted by Object -> Boolean -/

theorem object_never_boolean (o : NpOracle) (a : NArr) (hG : Good o a) (hc : objectContains a = true) :
    objectIsBoolean a ≠ .ok true := by
  intro hb
  have ⟨hme, h2⟩ := handleNulls_ok_true hb
  have hall : a.mask.elems.all (·.isBool) = true := by simpa using h2
  have hw := fun x hx => (good_wf hG x hx).1
  have hcls := classify_of_contains a hw .Object (by decide) hc
  obtain ⟨x, hx⟩ := isEmpty_false_iff.mp hme
  have hk := (hw x (mem_mask.mp hx).1).pyO (Or.inl (List.all_eq_true.mp hall x hx))
  simp [classify, hk, hall] at hcls

/-! ### L2 at String -/

theorem firstRaise_none {α : Type} {l : List (Outcome α)} (h : firstRaise l = none) : ∀ y ∈ l, ∃ v, y = .ok v := by
  induction l with
  | nil => intro y hy; cases hy
  | cons z zs ih =>
    intro y hy
    cases z with
    | raises c => simp [firstRaise] at h
    | ok v =>
      simp only [firstRaise] at h
      rcases List.mem_cons.mp hy with rfl | hy'
      · exact ⟨v, rfl⟩
      · exact ih h y hy'

theorem mem_oks {α : Type} {l : List (Outcome α)} {v : α} : v ∈ oks l ↔ Outcome.ok v ∈ l := by
  induction l with
  | nil => simp [oks]
  | cons z zs ih =>
    cases z with
    | raises c => simp [oks, ih]
    | ok w => simp [oks, ih]

/-- what an accepting String -> Boolean test says about every value -/
theorem stringIsBoolean_elem {a : NArr} (h : stringIsBoolean a = .ok true) :
    a.mask.isEmpty = false ∧ ∀ x ∈ a.mask.elems, ∃ p, x.lower = .ok (some p) := by
  simp only [stringIsBoolean] at h
  cases hfr : firstRaise (a.mask.elems.map (·.lower)) with
  | some cls =>
    simp only [hfr] at h
    by_cases hc : caughtByEvaluator cls = true <;> simp [hc] at h
  | none =>
    simp only [hfr] at h
    have hok := firstRaise_none hfr
    by_cases hk : (oks (a.mask.elems.map (·.lower))).isEmpty = true
    · simp [hk] at h
    · simp only [hk, Bool.false_eq_true, if_false, Except.ok.injEq, List.any_eq_true] at h
      obtain ⟨i, _, hi⟩ := h
      have hall := List.all_eq_true.mp hi
      have hne : a.mask.isEmpty = false := by
        apply isEmpty_false_iff.mpr
        cases hel : a.mask.elems with
        | nil => simp [hel, oks] at hk
        | cons x xs => exact ⟨x, List.mem_cons_self⟩
      refine ⟨hne, ?_⟩
      intro x hx
      obtain ⟨v, hv⟩ := hok (x.lower) (List.mem_map.mpr ⟨x, hx, rfl⟩)
      have hm : v ∈ oks (a.mask.elems.map (·.lower)) := mem_oks.mpr (hv ▸ List.mem_map.mpr ⟨x, hx, rfl⟩)
      have := hall v hm
      cases v with
      | none => simp at this
      | some p => exact ⟨p, hv⟩

theorem stringIsFloat_elem {a : NArr} (h : stringIsFloat a = .ok true) :
    a.mask.isEmpty = false ∧ ∀ x ∈ a.mask.elems, ∃ v, x.fl = .ok v := by
  have ⟨hme, h2⟩ := handleNulls_ok_true h
  refine ⟨hme, ?_⟩
  cases hfr : firstRaise (a.mask.elems.map (·.fl)) with
  | some cls =>
    simp only [hfr] at h2
    by_cases hc : caughtByEvaluator cls = true <;> simp [hc] at h2
  | none =>
    intro x hx
    exact firstRaise_none hfr (x.fl) (List.mem_map.mpr ⟨x, hx, rfl⟩)

theorem stringIsComplex_elem {a : NArr} (h : stringIsComplex a = .ok true) :
    (∀ x ∈ a.mask.elems, ∃ v, x.cx = .ok v) ∧ stringIsFloat a = .ok false := by
  simp only [stringIsComplex] at h
  cases hfr : firstRaise (a.mask.elems.map (·.cx)) with
  | some cls =>
    simp only [hfr] at h
    by_cases hc : caughtByEvaluator cls = true <;> simp [hc] at h
  | none =>
    simp only [hfr] at h
    refine ⟨fun x hx => firstRaise_none hfr (x.cx) (List.mem_map.mpr ⟨x, hx, rfl⟩), ?_⟩
    cases hf : stringIsFloat a with
    | error e => simp [hf] at h
    | ok b => cases b with
      | true => simp [hf] at h
      | false => rfl

def stringTargetsNp : List Ty := [.Boolean, .Complex, .DateTime, .Float]

/-- **L2 at String**: of the four relations out of String at most one accepts -/
theorem excl_string_np (o : NpOracle) (a : NArr) (hG : Good o a) (hc : stringContains a = true) (d₁ d₂ : Ty)
    (h₁ : d₁ ∈ stringTargetsNp) (h₂ : d₂ ∈ stringTargetsNp) (g₁ g₂ : NArr → R Bool)
    (e₁ : guard o .String d₁ = some g₁) (e₂ : guard o .String d₂ = some g₂)
    (a₁ : g₁ a = .ok true) (a₂ : g₂ a = .ok true) : d₁ = d₂ := by
  have hw := fun x hx => (good_wf hG x hx).1
  have hor := good_oracle hG
  simp only [oracleB, hc, Bool.not_true, Bool.false_or] at hor
  -- the pairwise facts
  have fb : stringIsFloat a = .ok true → stringIsBoolean a = .ok true → False := by
    intro hf hb
    have ⟨hme, hfe⟩ := stringIsFloat_elem hf
    have ⟨_, hbe⟩ := stringIsBoolean_elem hb
    obtain ⟨x, hx⟩ := isEmpty_false_iff.mp hme
    obtain ⟨v, hv⟩ := hfe x hx
    obtain ⟨p, hp⟩ := hbe x hx
    have := ((hw x (mem_mask.mp hx).1).keyFl p hp).1
    simp [hv, Outcome.isOk] at this
  have cb : stringIsComplex a = .ok true → stringIsBoolean a = .ok true → False := by
    intro hcx hb
    have ⟨hce, _⟩ := stringIsComplex_elem hcx
    have ⟨hme, hbe⟩ := stringIsBoolean_elem hb
    obtain ⟨x, hx⟩ := isEmpty_false_iff.mp hme
    obtain ⟨v, hv⟩ := hce x hx
    obtain ⟨p, hp⟩ := hbe x hx
    have := ((hw x (mem_mask.mp hx).1).keyFl p hp).2
    simp [hv, Outcome.isOk] at this
  have fc : stringIsFloat a = .ok true → stringIsComplex a = .ok true → False := by
    intro hf hcx
    have := (stringIsComplex_elem hcx).2
    rw [hf] at this; cases this
  have dt : stringIsDatetime o a = .ok true →
      stringIsFloat a ≠ .ok true ∧ stringIsBoolean a ≠ .ok true ∧ stringIsComplex a ≠ .ok true := by
    intro hd
    simp only [hd, Bool.and_eq_true] at hor
    obtain ⟨⟨⟨h1, h2⟩, h3⟩, _⟩ := hor
    refine ⟨?_, ?_, ?_⟩
    · intro hf; simp [hf] at h1
    · intro hb; simp [hb] at h2
    · intro hcx; simp [hcx] at h3
  simp only [stringTargetsNp, List.mem_cons, List.not_mem_nil, or_false] at h₁ h₂
  rcases h₁ with rfl | rfl | rfl | rfl <;> rcases h₂ with rfl | rfl | rfl | rfl <;>
    simp only [guard, Option.some.injEq] at e₁ e₂ <;> subst e₁ <;> subst e₂ <;>
    first
      | rfl
      | exact (fb a₁ a₂).elim | exact (fb a₂ a₁).elim
      | exact (cb a₁ a₂).elim | exact (cb a₂ a₁).elim
      | exact (fc a₁ a₂).elim | exact (fc a₂ a₁).elim
      | exact ((dt a₁).1 a₂).elim | exact ((dt a₁).2.1 a₂).elim | exact ((dt a₁).2.2 a₂).elim
      | exact ((dt a₂).1 a₁).elim | exact ((dt a₂).2.1 a₁).elim | exact ((dt a₂).2.2 a₁).elim

end V.Np

/-
  L3 (Lands) for the pandas backend model — C03: whenever an inference relation's test accepts a
  column of its source type and its transformer returns, the result belongs to the target type.
  Hypotheses are explicit and named: `PayWF` (a complex / float cell is missing iff its payload is NaN —
  what `isna` does) and, for String→DateTime, `DtLands` about `pd.to_datetime`.
-/
import VProofs.Lemmas.PandasL
import VProofs.Obligations.PandasBag
namespace V.Pd
open V V.Gen

/-! ### helpers -/

theorem firstRaise_none_iff {α : Type} (l : List (Outcome α)) :
    firstRaise l = none ↔ ∀ x ∈ l, ∃ a, x = .ok a := by
  induction l with
  | nil => simp [firstRaise]
  | cons x l ih =>
    cases x with
    | ok a =>
      simp only [firstRaise, ih]
      constructor
      · intro h y hy
        rcases List.mem_cons.mp hy with rfl | hy
        · exact ⟨a, rfl⟩
        · exact h y hy
      · intro h y hy; exact h y (List.mem_cons_of_mem _ hy)
    | raises c =>
      simp only [firstRaise]
      constructor
      · intro h; cases h
      · intro h; obtain ⟨a, ha⟩ := h _ List.mem_cons_self; cases ha

theorem mem_oks {α : Type} (l : List (Outcome α)) (a : α) : a ∈ oks l ↔ Outcome.ok a ∈ l := by
  induction l with
  | nil => simp [oks]
  | cons x l ih =>
    cases x with
    | ok b =>
      simp only [oks, List.mem_cons, ih]
      constructor
      · rintro (rfl | h)
        · exact Or.inl rfl
        · exact Or.inr h
      · rintro (h | h)
        · cases h; exact Or.inl rfl
        · exact Or.inr h
    | raises c =>
      simp only [oks, ih, List.mem_cons]
      constructor
      · intro h; exact Or.inr h
      · rintro (h | h)
        · cases h
        · exact h

/-- cell-wise description of a mapped-and-collected column: every input cell yields an output cell,
every output cell comes from an input cell -/
theorem oks_map_spec (cells : List Cell) (g : Cell → Outcome Cell) (h : firstRaise (cells.map g) = none) :
    (∀ x ∈ cells, ∃ y, g x = .ok y ∧ y ∈ oks (cells.map g)) ∧
    (∀ y ∈ oks (cells.map g), ∃ x ∈ cells, g x = .ok y) := by
  have hall := (firstRaise_none_iff _).mp h
  constructor
  · intro x hx
    obtain ⟨a, ha⟩ := hall (g x) (List.mem_map_of_mem hx)
    exact ⟨a, ha, (mem_oks _ a).mpr (by rw [← ha]; exact List.mem_map_of_mem hx)⟩
  · intro y hy
    have := (mem_oks _ y).mp hy
    obtain ⟨x, hx, hgx⟩ := List.mem_map.mp this
    exact ⟨x, hx, hgx⟩

/-- the common shape of "object-valued" targets: if every non-missing input cell becomes a non-missing
cell satisfying `P` and every missing cell stays as it is, the output has a value and all its values
satisfy `P` -/
theorem objval_lands (c c' : Column) (g : Cell → Outcome Cell) (P : Cell → Bool)
    (hraise : firstRaise (c.cells.map g) = none) (hcells : c'.cells = oks (c.cells.map g))
    (hv : HasValue c)
    (hstep : ∀ x ∈ c.cells, ∀ y, g x = .ok y →
      (x.null = true → y.null = true) ∧ (x.null = false → y.null = false ∧ P y = true)) :
    notEmptyB (handleNullsB (fun c => c.cells.all P)) c' = true ∧
    handleNullsB (notEmptyB (fun c => c.cells.all P)) c' = true := by
  have ⟨h1, h2⟩ := oks_map_spec c.cells g hraise
  have hv' : HasValue c' := by
    obtain ⟨x, hx, hn⟩ := hv
    obtain ⟨y, hgy, hy⟩ := h1 x hx
    exact ⟨y, by rw [hcells]; exact hy, ((hstep x hx y hgy).2 hn).1⟩
  have hP : ∀ y ∈ c'.cells, y.null = false → P y = true := by
    intro y hy hn
    rw [hcells] at hy
    obtain ⟨x, hx, hgx⟩ := h2 y hy
    cases hxn : x.null with
    | true => have := (hstep x hx y hgx).1 hxn; rw [hn] at this; cases this
    | false => exact ((hstep x hx y hgx).2 hxn).2
  have hall : (c'.hasnans = true → c'.dropna.cells.all P = true) ∧ (c'.hasnans = false → c'.cells.all P = true) := by
    constructor
    · intro _
      rw [List.all_eq_true]
      intro y hy
      exact hP y (mem_dropna.mp hy).1 (mem_dropna.mp hy).2
    · intro hn
      rw [List.all_eq_true]
      intro y hy
      exact hP y hy ((hasnans_false_iff c').mp hn y hy)
  exact ⟨notEmpty_handle_intro hv' hall, handle_notEmpty_intro hv' hall⟩

/-- acceptance of a guard of the form `handleNulls (fun c => … all cells have an ok parser result …)` gives a
statement about every non-missing cell -/
theorem handleNulls_ok_true {f : Column → R Bool} {c : Column} (h : handleNulls f c = .ok true) :
    (c.hasnans = true ∧ c.dropna.empty = false ∧ f c.dropna = .ok true) ∨ (c.hasnans = false ∧ f c = .ok true) := by
  simp only [handleNulls] at h
  by_cases hn : c.hasnans = true
  · simp only [hn, if_true] at h
    by_cases he : c.dropna.empty = true
    · simp [he] at h
    · left; exact ⟨hn, by simpa using he, by simpa [he] using h⟩
  · right
    have hn' : c.hasnans = false := by simpa using hn
    simp only [hn', Bool.false_eq_true, if_false] at h
    exact ⟨hn', h⟩

/-- … namely: whatever `f` says about all cells of the column it is given holds of all non-missing cells of `c` -/
theorem handleNulls_all {f : Column → R Bool} {c : Column} {Q : Cell → Prop}
    (h : handleNulls f c = .ok true) (hf : ∀ d : Column, f d = .ok true → ∀ x ∈ d.cells, Q x) :
    ∀ x ∈ c.cells, x.null = false → Q x := by
  intro x hx hn
  rcases handleNulls_ok_true h with ⟨_, _, h3⟩ | ⟨_, h3⟩
  · exact hf _ h3 x (mem_dropna.mpr ⟨hx, hn⟩)
  · exact hf _ h3 x hx

/-! ### numeric and temporal relations -/

/-- a float / complex cell is missing exactly when its payload is NaN (what `Series.isna` does) -/
structure PayWF (x : Cell) : Prop where
  complex_null : ∀ re im, x.pay = .complex re im → (x.null = true ↔ (re.isNan = true ∨ im.isNan = true))

theorem lands_float_integer (c c' : Column) (hsrc : floatContains c = true)
    (hx : floatToInteger c = .ok c') : integerContains c' = true := by
  have hv : HasValue c := ((handle_dtype (fun d => d.isFloat) c).mp hsrc).1
  cases hx
  simp only [integerContains, notSparseB]
  apply notEmptyB_intro
  · have := nonempty_of_hasValue hv
    simp only [Column.empty] at this ⊢
    cases hc : c.cells with
    | nil => rw [hc] at this; cases this
    | cons a l => simp
  · by_cases hn : c.hasnans = true <;> simp [hn] <;> decide

theorem lands_complex_float (c c' : Column) (wf : ∀ x ∈ c.cells, PayWF x) (hsrc : complexContains c = true)
    (hg : complexIsFloat c = .ok true) (hx : complexToFloat c = .ok c') : floatContains c' = true := by
  cases hx
  -- a non-missing complex cell has a non-NaN real part, so its image is a non-missing float
  have hcell : ∀ x ∈ c.cells, x.null = false → ∃ re im, x.pay = .complex re im ∧ im.isZero = true :=
    handleNulls_all (Q := fun x => ∃ re im, x.pay = .complex re im ∧ im.isZero = true) hg (by
      intro d hd x hx
      simp only [Except.ok.injEq] at hd
      have := List.all_eq_true.mp hd x hx
      cases hp : x.pay with
      | complex re im => rw [hp] at this; exact ⟨re, im, rfl, this⟩
      | _ => rw [hp] at this; cases this)
  have hv : HasValue c := by
    rcases handleNulls_ok_true hg with ⟨hn, he, _⟩ | ⟨hn, _⟩
    · exact hasValue_of_handle (Or.inl ⟨hn, he⟩)
    · exact hasValue_of_handle (Or.inr ⟨hn, (notEmptyB_true (f := fun c => c.dtype.isComplex) hsrc).1⟩)
  simp only [floatContains, notSparseB]
  apply (handle_dtype (fun d => d.isFloat) _).mpr
  refine ⟨?_, rfl⟩
  obtain ⟨x, hx, hn⟩ := hv
  obtain ⟨re, im, hp, _⟩ := hcell x hx hn
  refine ⟨Cell.ofFloat re, ?_, ?_⟩
  · simp only [complexToFloat]
    exact List.mem_map.mpr ⟨x, hx, by simp [hp]⟩
  · have hre : re.isNan = false := by
      cases hr : re.isNan with
      | false => rfl
      | true =>
        have := ((wf x hx).complex_null re im hp).mpr (Or.inl hr)
        rw [hn] at this; cases this
    simp [Cell.ofFloat, hre, Cell.blank]

theorem lands_datetime_date (c c' : Column) (hsrc : datetimeContains c = true)
    (hg : datetimeIsDate c = .ok true) (hx : datetimeToDate c = .ok c') : dateContains c' = true := by
  have hv : HasValue c := ((handle_dtype (fun d => d.isDatetime) c).mp hsrc).1
  have hcell : ∀ x ∈ c.cells, x.null = false → ∃ day tz, x.pay = .ts day 0 tz :=
    handleNulls_all (Q := fun x => ∃ day tz, x.pay = .ts day 0 tz) hg (by
      intro d hd x hx
      simp only [Except.ok.injEq] at hd
      have := List.all_eq_true.mp hd x hx
      cases hp : x.pay with
      | ts day ns tz => rw [hp] at this; simp at this; exact ⟨day, tz, by rw [this]⟩
      | _ => rw [hp] at this; cases this)
  simp only [datetimeToDate] at hx
  split at hx
  · cases hx
  · cases hx
    simp only [dateContains]
    have hP : ∀ y ∈ (c.cells.map (fun x => if x.null then Cell.missing .nat else
        match x.pay with | .ts day _ _ => Cell.ofDate day | _ => x)), y.null = false →
        ((y.cls == "date") && y.hasDateAttrs) = true := by
      intro y hy hn
      obtain ⟨x, hx, rfl⟩ := List.mem_map.mp hy
      by_cases hxn : x.null = true
      · simp [hxn, Cell.missing] at hn
      · have hxn' : x.null = false := by simpa using hxn
        obtain ⟨day, tz, hp⟩ := hcell x hx hxn'
        simp [hxn', hp, Cell.ofDate, Cell.blank]
    have hv' : HasValue { c with dtype := DKind.object, cells := c.cells.map (fun x => if x.null then Cell.missing .nat else
        match x.pay with | .ts day _ _ => Cell.ofDate day | _ => x) } := by
      obtain ⟨x, hx, hn⟩ := hv
      obtain ⟨day, tz, hp⟩ := hcell x hx hn
      exact ⟨Cell.ofDate day, List.mem_map.mpr ⟨x, hx, by simp [hn, hp]⟩, by simp [Cell.ofDate, Cell.blank]⟩
    apply handle_notEmpty_intro hv'
    constructor
    · intro _
      simp only [containsInstanceAttrs]
      rw [prefix_subsumed]
      rw [List.all_eq_true]
      intro y hy
      exact hP y (mem_dropna.mp hy).1 (mem_dropna.mp hy).2
    · intro hn
      simp only [containsInstanceAttrs]
      rw [prefix_subsumed]
      rw [List.all_eq_true]
      intro y hy
      exact hP y hy ((hasnans_false_iff _).mp hn y hy)


/-! ### Object → Boolean, String → Boolean -/

theorem objectToBoolean_cells (c c' : Column) (h : objectToBoolean c = .ok c') :
    c'.dtype = .fam (if c.hasnans then .boolean else .bool) ∧
    firstRaise (c.cells.map (fun x => if x.null then Outcome.ok (Cell.missing .pdNA)
      else match x.truth with | .ok b => Outcome.ok (Cell.ofBool b) | .raises cls => Outcome.raises cls)) = none ∧
    c'.cells = oks (c.cells.map (fun x => if x.null then Outcome.ok (Cell.missing .pdNA)
      else match x.truth with | .ok b => Outcome.ok (Cell.ofBool b) | .raises cls => Outcome.raises cls)) := by
  simp only [objectToBoolean] at h
  split at h
  · cases h
  · split at h
    · cases h
    · rename_i hf
      cases h
      refine ⟨rfl, ?_, rfl⟩
      cases hq : firstRaise (c.cells.map (fun x => if x.null then Outcome.ok (Cell.missing .pdNA)
        else match x.truth with | .ok b => Outcome.ok (Cell.ofBool b) | .raises cls => Outcome.raises cls)) with
      | none => rfl
      | some cls => exact absurd hq (hf cls)

theorem boolean_of_cells (c' : Column) (hd : c'.dtype = .fam .boolean ∨ c'.dtype = .fam .bool) (hv : HasValue c') :
    booleanContains c' = true := by
  simp only [booleanContains, notSparseB]
  apply (handle_dtype (fun d => d.isBool && !d.isCategorical) c').mpr ⟨hv, ?_⟩
  rcases hd with h | h <;> rw [h] <;> decide

theorem lands_object_boolean (c c' : Column) (hsrc : objectContains c = true)
    (hx : objectToBoolean c = .ok c') : booleanContains c' = true := by
  have hv : HasValue c := (handle_notEmpty_true hsrc).1
  obtain ⟨hd, hr, hc⟩ := objectToBoolean_cells c c' hx
  have ⟨h1, _⟩ := oks_map_spec c.cells _ hr
  apply boolean_of_cells c' (by rw [hd]; by_cases hn : c.hasnans = true <;> simp [hn])
  obtain ⟨x, hxm, hn⟩ := hv
  obtain ⟨y, hgy, hy⟩ := h1 x hxm
  refine ⟨y, by rw [hc]; exact hy, ?_⟩
  simp only [hn, Bool.false_eq_true, if_false] at hgy
  cases ht : x.truth with
  | ok b => rw [ht] at hgy; cases hgy; simp [Cell.ofBool, Cell.blank]
  | raises cls => rw [ht] at hgy; cases hgy

theorem lands_string_boolean (c c' : Column) (hsrc : stringContains c = true)
    (hg : stringIsBoolean c = .ok true) (hx : stringToBoolean c = .ok c') : booleanContains c' = true := by
  -- the guard: every non-missing cell is a string whose lower-case form is a key of one boolean map
  have hv : HasValue c := (notEmpty_handle_true hsrc).1
  simp only [stringIsBoolean] at hg
  split at hg
  · cases hg
  · have hkey : ∀ x ∈ c.cells, x.null = false → ∃ f j b, x.str = some f ∧ f.boolKey = some (j, b) := by
      apply handleNulls_all (Q := fun x => ∃ f j b, x.str = some f ∧ f.boolKey = some (j, b)) hg
      intro d hd x hxd
      simp only [Except.ok.injEq, List.any_eq_true] at hd
      obtain ⟨i, _, hall⟩ := hd
      have := List.all_eq_true.mp hall x hxd
      cases hs : x.str with
      | none => rw [hs] at this; cases this
      | some f =>
        rw [hs] at this
        cases hk : f.boolKey with
        | none => simp only [hk] at this; cases this
        | some jb => exact ⟨f, jb.1, jb.2, rfl, by rw [hk]⟩
    simp only [stringToBoolean] at hx
    obtain ⟨hd, hr, hc⟩ := objectToBoolean_cells _ c' hx
    have ⟨h1, _⟩ := oks_map_spec _ _ hr
    apply boolean_of_cells c' (by rw [hd]; split <;> simp)
    obtain ⟨x, hxm, hn⟩ := hv
    obtain ⟨f, j, b, hs, hk⟩ := hkey x hxm hn
    -- the mapped cell of x is `ofBool b`
    have hmem : Cell.ofBool b ∈ (c.cells.map (fun x => if x.null then Cell.missing .nan else
        match x.str with | some f => (match f.boolKey with | some (_, b) => Cell.ofBool b | none => Cell.missing .nan)
                         | none => Cell.missing .nan)) :=
      List.mem_map.mpr ⟨x, hxm, by simp [hn, hs, hk]⟩
    obtain ⟨y, hgy, hy⟩ := h1 _ hmem
    refine ⟨y, by rw [hc]; exact hy, ?_⟩
    have : (Cell.ofBool b).null = false := by simp [Cell.ofBool, Cell.blank]
    simp only [this, Bool.false_eq_true, if_false] at hgy
    have ht : (Cell.ofBool b).truth = .ok b := by simp [Cell.ofBool, Cell.blank]
    rw [ht] at hgy
    cases hgy
    simp [Cell.ofBool, Cell.blank]

/-! ### String → Complex, String → Float -/

theorem lands_string_complex (c c' : Column) (hsrc : stringContains c = true)
    (hx : stringToComplex c = .ok c') : complexContains c' = true := by
  have hne : c.empty = false := (notEmptyB_true hsrc).1
  simp only [stringToComplex] at hx
  split at hx
  · cases hx
  · rename_i hf
    cases hx
    simp only [complexContains, notSparseB]
    apply notEmptyB_intro _ rfl
    have hq : firstRaise (c.cells.map cellComplex) = none := by
      cases hq : firstRaise (c.cells.map cellComplex) with
      | none => rfl
      | some cls => exact absurd hq (hf cls)
    have hlen : (oks (c.cells.map cellComplex)).length = c.cells.length := by
      have : ∀ l : List (Outcome (FloatV × FloatV)), firstRaise l = none → (oks l).length = l.length := by
        intro l; induction l with
        | nil => intro _; rfl
        | cons a l ih =>
          cases a with
          | ok v => intro h; simp only [firstRaise] at h; simp [oks, ih h]
          | raises c => intro h; simp [firstRaise] at h
      rw [this _ hq]; simp
    simp only [Column.empty] at hne ⊢
    cases hc : c.cells with
    | nil => rw [hc] at hne; cases hne
    | cons a l =>
      rw [hc] at hlen
      cases ho : oks (List.map cellComplex (a :: l)) with
      | nil => rw [ho] at hlen; simp at hlen
      | cons b m => simp

theorem lands_string_float (c c' : Column) (hg : stringIsFloat c = .ok true)
    (hx : stringToFloat c = .ok c') : floatContains c' = true := by
  -- the guard found a non-NaN float among the non-missing cells
  have hval : ∃ x ∈ c.cells, x.null = false ∧ ∃ v, cellFloat c.dtype x = .ok v ∧ v.isNan = false := by
    have core : ∀ d : Column, d.dtype = c.dtype → (∀ x ∈ d.cells, x ∈ c.cells ∧ x.null = false) →
        (let vals := d.cells.map (cellFloat d.dtype)
         match firstRaise vals with
         | some cls => if isA cls "ValueError" || isA cls "TypeError" || isA cls "AttributeError" then (.ok false : R Bool) else .error (escape cls)
         | _ =>
           let fs := oks vals
           let nn := fs.filter (fun (v : FloatV) => !v.isNan)
           if fs.isEmpty || nn.isEmpty then .ok false else .ok (leadingZerosOk d.cells fs)) = .ok true →
        ∃ x ∈ c.cells, x.null = false ∧ ∃ v, cellFloat c.dtype x = .ok v ∧ v.isNan = false := by
      intro d hdt hsub h
      simp only at h
      split at h
      · split at h <;> cases h
      · split at h
        · cases h
        · rename_i hne
          simp only [Bool.or_eq_true, not_or, List.isEmpty_iff] at hne
          have hnn : (oks (d.cells.map (cellFloat d.dtype))).filter (fun (v : FloatV) => !v.isNan) ≠ [] := by
            intro h0; exact hne.2 h0
          obtain ⟨v, hv⟩ := List.exists_mem_of_ne_nil _ hnn
          have ⟨hvm, hvn⟩ := List.mem_filter.mp hv
          have := (mem_oks _ v).mp hvm
          obtain ⟨x, hxd, hgx⟩ := List.mem_map.mp this
          have ⟨hxc, hxn⟩ := hsub x hxd
          exact ⟨x, hxc, hxn, v, by rw [← hdt]; exact hgx, by simpa using hvn⟩
    simp only [stringIsFloat] at hg
    rcases handleNulls_ok_true hg with ⟨_, _, h3⟩ | ⟨hn, h3⟩
    · exact core c.dropna (dropna_dtype c) (fun x hx => mem_dropna.mp hx) h3
    · exact core c rfl (fun x hx => ⟨hx, (hasnans_false_iff c).mp hn x hx⟩) h3
  simp only [stringToFloat] at hx
  split at hx
  · cases hx
  · rename_i hf
    cases hx
    have hq : firstRaise (c.cells.map (cellFloat c.dtype)) = none := by
      cases hq : firstRaise (c.cells.map (cellFloat c.dtype)) with
      | none => rfl
      | some cls => exact absurd hq (hf cls)
    simp only [floatContains, notSparseB]
    apply (handle_dtype (fun d => d.isFloat) _).mpr
    refine ⟨?_, rfl⟩
    obtain ⟨x, hxm, _, v, hv, hvn⟩ := hval
    refine ⟨Cell.ofFloat v, ?_, by simp [Cell.ofFloat, hvn, Cell.blank]⟩
    show Cell.ofFloat v ∈ (oks (c.cells.map (cellFloat c.dtype))).map Cell.ofFloat
    apply List.mem_map_of_mem
    apply (mem_oks _ v).mpr
    rw [← hv]; exact List.mem_map_of_mem hxm

/-! ### String → DateTime: relative to the library hypothesis `DtLands` -/

/-- `pd.to_datetime` on the whole column finds a timestamp wherever it finds one on the non-missing
sub-column (validated by the harness on every String column) -/
def DtLands (o : ColOracle) (c : Column) : Prop :=
  ∀ r tz, o.toDatetime c.cells = .ok (r, tz) → (∃ y ∈ r, y.null = false)

theorem lands_string_datetime (o : ColOracle) (c c' : Column) (hdt : DtLands o c)
    (hx : stringToDatetime o c = .ok c') : datetimeContains c' = true := by
  simp only [stringToDatetime] at hx
  split at hx
  · cases hx
  · rename_i r tz hq
    cases hx
    simp only [datetimeContains, notSparseB]
    apply (handle_dtype (fun d => d.isDatetime) _).mpr
    refine ⟨hdt r tz hq, ?_⟩
    by_cases htz : tz = true <;> simp [htz] <;> decide


/-! ### String → object-valued types (Geometry, IPAddress, UUID, EmailAddress, URL, Path) -/

theorem applyStr_spec (c c' : Column) (p : StrFacts → Outcome Cell) (q : Cell → Outcome Cell)
    (h : applyStr c p q = .ok c') :
    firstRaise (c.cells.map (fun x => match x.str with | some f => p f | none => q x)) = none ∧
    c'.cells = oks (c.cells.map (fun x => match x.str with | some f => p f | none => q x)) := by
  simp only [applyStr] at h
  split at h
  · cases h
  · rename_i hf
    cases h
    refine ⟨?_, rfl⟩
    cases hq : firstRaise (c.cells.map (fun x => match x.str with | some f => p f | none => q x)) with
    | none => rfl
    | some cls => exact absurd hq (hf cls)

/-- cells of a String column: a non-missing cell is a `str` (its parser facts are present) — this is what
`stringContains` establishes for object columns and what the dtype guarantees for the string dtypes; α validates it -/
def StrCol (c : Column) : Prop := ∀ x ∈ c.cells, x.null = false → x.str.isSome = true

/-- generic landing lemma for `applyStr`-transformers whose missing cells pass through -/
theorem applyStr_lands (c c' : Column) (p : StrFacts → Outcome Cell) (P : Cell → Bool)
    (h : applyStr c p (fun x => if x.null then .ok x else .raises "TypeError") = .ok c')
    (hv : HasValue c) (hstr : ∀ x ∈ c.cells, x.str.isSome = true → x.null = false)
    (hp : ∀ f y, p f = .ok y → y.null = false ∧ P y = true) :
    notEmptyB (handleNullsB (fun c => c.cells.all P)) c' = true ∧
    handleNullsB (notEmptyB (fun c => c.cells.all P)) c' = true := by
  obtain ⟨hr, hc⟩ := applyStr_spec c c' _ _ h
  apply objval_lands c c' _ P hr hc hv
  intro x hx y hgy
  cases hs : x.str with
  | none =>
    simp only [hs] at hgy
    by_cases hn : x.null = true
    · simp only [hn, if_true] at hgy
      cases hgy
      constructor
      · intro _; exact hn
      · intro h; rw [hn] at h; cases h
    · simp [hn] at hgy
  | some f =>
    simp only [hs] at hgy
    have hnn := hstr x hx (by simp [hs])
    constructor
    · intro h; rw [hnn] at h; cases h
    · intro _; exact hp f y hgy

/-- a `str` element is never missing (H_str, second half; validated by α) -/
def StrNotNull (c : Column) : Prop := ∀ x ∈ c.cells, x.str.isSome = true → x.null = false

theorem lands_string_geometry (c c' : Column) (hsrc : stringContains c = true) (hs : StrNotNull c)
    (hx : stringToGeometry c = .ok c') : geometryContains c' = true := by
  have hv : HasValue c := (notEmpty_handle_true hsrc).1
  have := applyStr_lands c c' _ (·.isGeom) (by
    simp only [stringToGeometry] at hx
    have e : (fun x : Cell => if x.null then Outcome.ok x else Outcome.raises "TypeError")
        = (fun x : Cell => if x.null = true then Outcome.ok x else Outcome.raises "TypeError") := rfl
    exact hx) hv hs (by
      intro f y hy
      cases hw : f.wkt with
      | ok v => simp only [hw] at hy; cases hy; simp [geomCell, Cell.ofObj, Cell.blank]
      | raises cls => simp only [hw] at hy; cases hy)
  exact this.1

theorem lands_string_uuid (c c' : Column) (hsrc : stringContains c = true) (hs : StrNotNull c)
    (hx : stringToUuid c = .ok c') : uuidContains c' = true := by
  have hv : HasValue c := (notEmpty_handle_true hsrc).1
  obtain ⟨hr, hc⟩ := applyStr_spec c c' _ _ hx
  have := objval_lands c c' _ (fun x => x.isUUID && x.hasUuidAttrs) hr hc hv (by
    intro x hxm y hgy
    cases hst : x.str with
    | none =>
      simp only [hst] at hgy
      by_cases hn : x.null = true
      · simp only [hn, if_true] at hgy
        cases hgy
        constructor
        · intro _; exact hn
        · intro h; rw [hn] at h; cases h
      · simp [hn] at hgy
    | some f =>
      simp only [hst] at hgy
      have hnn := hs x hxm (by simp [hst])
      constructor
      · intro h; rw [hnn] at h; cases h
      · intro _
        cases hu : f.uuid with
        | ok r => simp only [hu] at hgy; cases hgy; simp [uuidCell, Cell.ofObj, Cell.blank]
        | raises cls => simp only [hu] at hgy; cases hgy)
  have e : containsInstanceAttrs (·.isUUID) (·.hasUuidAttrs) = (fun d : Column => d.cells.all (fun x => x.isUUID && x.hasUuidAttrs)) := by
    funext d
    simp only [containsInstanceAttrs]
    exact prefix_subsumed _ _ 1 d.cells
  simp only [uuidContains, e]
  exact this.1


/-- `applyStr_lands` for any exception class raised on a non-string, non-missing cell -/
theorem applyStr_lands' (cls : String) (c c' : Column) (p : StrFacts → Outcome Cell) (P : Cell → Bool)
    (h : applyStr c p (fun x => if x.null then .ok x else .raises cls) = .ok c')
    (hv : HasValue c) (hstr : StrNotNull c)
    (hp : ∀ f y, p f = .ok y → y.null = false ∧ P y = true) :
    notEmptyB (handleNullsB (fun c => c.cells.all P)) c' = true ∧
    handleNullsB (notEmptyB (fun c => c.cells.all P)) c' = true := by
  obtain ⟨hr, hc⟩ := applyStr_spec c c' _ _ h
  apply objval_lands c c' _ P hr hc hv
  intro x hx y hgy
  cases hs : x.str with
  | none =>
    simp only [hs] at hgy
    by_cases hn : x.null = true
    · simp only [hn, if_true] at hgy
      cases hgy
      constructor
      · intro _; exact hn
      · intro h; rw [hn] at h; cases h
    · simp [hn] at hgy
  | some f =>
    simp only [hs] at hgy
    have hnn := hstr x hx (by simp [hs])
    constructor
    · intro h; rw [hnn] at h; cases h
    · intro _; exact hp f y hgy

theorem instanceAttrs_eq_all (p q : Cell → Bool) :
    containsInstanceAttrs p q = (fun d : Column => d.cells.all (fun x => p x && q x)) := by
  funext d
  simp only [containsInstanceAttrs]
  exact prefix_subsumed _ _ 1 d.cells

theorem lands_string_ip (c c' : Column) (hsrc : stringContains c = true) (hs : StrNotNull c)
    (hx : stringToIp c = .ok c') : ipContains c' = true := by
  have hv : HasValue c := (notEmpty_handle_true hsrc).1
  exact (applyStr_lands' "ValueError" c c' _ (·.isIP) hx hv hs (by
    intro f y hy
    cases hw : f.ip with
    | ok v => simp only [hw] at hy; cases hy; simp [ipCell, Cell.ofObj, Cell.blank]
    | raises cls => simp only [hw] at hy; cases hy)).1

theorem lands_string_email (c c' : Column) (hsrc : stringContains c = true) (hs : StrNotNull c)
    (hx : stringToEmail c = .ok c') : emailContains c' = true := by
  have hv : HasValue c := (notEmpty_handle_true hsrc).1
  have := (applyStr_lands' "TypeError" c c' _ (fun x => x.isFQDA && x.hasEmailAttrs) hx hv hs (by
    intro f y hy
    cases hw : f.email with
    | ok v => simp only [hw] at hy; cases hy; simp [emailCell, Cell.ofObj, Cell.blank]
    | raises cls => simp only [hw] at hy; cases hy)).1
  simp only [emailContains, instanceAttrs_eq_all]
  exact this

theorem lands_string_url (c c' : Column) (hsrc : stringContains c = true) (hs : StrNotNull c)
    (hx : stringToUrl c = .ok c') : urlContains c' = true := by
  have hv : HasValue c := (notEmpty_handle_true hsrc).1
  have := (applyStr_lands' "AttributeError" c c' _ (fun x => x.isParseResult && x.hasUrlAttrs) hx hv hs (by
    intro f y hy
    cases hw : f.url with
    | ok v => simp only [hw] at hy; cases hy; simp [urlCell, Cell.ofObj, Cell.blank]
    | raises cls => simp only [hw] at hy; cases hy)).2
  simp only [urlContains, instanceAttrs_eq_all]
  exact this


/-- membership-restricted version: the parser facts only need to be good for the cells of the column -/
theorem applyStr_lands_mem (cls : String) (c c' : Column) (p : StrFacts → Outcome Cell) (P : Cell → Bool)
    (h : applyStr c p (fun x => if x.null then .ok x else .raises cls) = .ok c')
    (hv : HasValue c) (hstr : StrNotNull c)
    (hp : ∀ x ∈ c.cells, ∀ f, x.str = some f → ∀ y, p f = .ok y → y.null = false ∧ P y = true) :
    notEmptyB (handleNullsB (fun c => c.cells.all P)) c' = true := by
  obtain ⟨hr, hc⟩ := applyStr_spec c c' _ _ h
  apply (objval_lands c c' _ P hr hc hv ?_).1
  intro x hx y hgy
  cases hs : x.str with
  | none =>
    simp only [hs] at hgy
    by_cases hn : x.null = true
    · simp only [hn, if_true] at hgy
      cases hgy
      constructor
      · intro _; exact hn
      · intro h; rw [hn] at h; cases h
    · simp [hn] at hgy
  | some f =>
    simp only [hs] at hgy
    have hnn := hstr x hx (by simp [hs])
    constructor
    · intro h; rw [hnn] at h; cases h
    · intro _; exact hp x hx f hs y hgy

theorem dropna_cells_nonans (c : Column) (h : c.hasnans = false) : c.dropna.cells = c.cells := by
  rw [dropna_cells, List.filter_eq_self]
  intro x hx
  simp [(hasnans_false_iff c).mp h x hx]

def winOut (x : Cell) : Outcome (Bool × String) := match x.str with | some f => f.winAbs | none => Outcome.raises "TypeError"
def pxOut (x : Cell) : Outcome (Bool × String) := match x.str with | some f => f.posixAbs | none => Outcome.raises "TypeError"
def isAbs (v : Outcome (Bool × String)) : Bool := match v with | .ok (b, _) => b | _ => false

/-- what acceptance of `string_is_path` says about the non-missing cells -/
theorem stringIsPath_spec (c : Column) (hg : stringIsPath c = .ok true) :
    firstRaise (c.dropna.cells.map winOut) = none ∧
    ((c.dropna.cells.map winOut).all isAbs = true ∨
     ((c.dropna.cells.map winOut).all isAbs = false ∧ (c.dropna.cells.map pxOut).all isAbs = true)) := by
  have core : ∀ d : Column,
      (match firstRaise (d.cells.map winOut) with
       | some cls => if isA cls "TypeError" then (.ok false : R Bool) else .error (escape cls)
       | _ =>
         if (d.cells.map winOut).all isAbs then .ok true
         else match firstRaise (d.cells.map pxOut) with
           | some cls => if isA cls "TypeError" then .ok false else .error (escape cls)
           | _ => .ok ((d.cells.map pxOut).all isAbs)) = .ok true →
      firstRaise (d.cells.map winOut) = none ∧
      ((d.cells.map winOut).all isAbs = true ∨
       ((d.cells.map winOut).all isAbs = false ∧ (d.cells.map pxOut).all isAbs = true)) := by
    intro d h
    split at h
    · split at h <;> cases h
    · rename_i hf
      have hq : firstRaise (d.cells.map winOut) = none := by
        cases hq : firstRaise (d.cells.map winOut) with
        | none => rfl
        | some cls => exact absurd hq (hf cls)
      refine ⟨hq, ?_⟩
      by_cases hall : (d.cells.map winOut).all isAbs = true
      · exact Or.inl hall
      · have hall' : (d.cells.map winOut).all isAbs = false := by simpa using hall
        right
        refine ⟨hall', ?_⟩
        simp only [hall', Bool.false_eq_true, if_false] at h
        split at h
        · split at h <;> cases h
        · simpa using h
  simp only [stringIsPath] at hg
  rcases handleNulls_ok_true hg with ⟨_, _, h3⟩ | ⟨hn, h3⟩
  · exact core c.dropna h3
  · have := core c h3
    rw [← dropna_cells_nonans c hn] at this
    exact this

theorem lands_string_path (c c' : Column) (hsrc : stringContains c = true) (hs : StrNotNull c)
    (hg : stringIsPath c = .ok true) (hx : stringToPath c = .ok c') : pathContains c' = true := by
  have hv : HasValue c := (notEmpty_handle_true hsrc).1
  obtain ⟨_, hflav⟩ := stringIsPath_spec c hg
  -- every non-missing cell is among the cells the flavour was decided on
  have hmemnn : ∀ x ∈ c.cells, ∀ f, x.str = some f → x ∈ c.dropna.cells := by
    intro x hx f hf
    exact mem_dropna.mpr ⟨hx, hs x hx (by simp [hf])⟩
  simp only [stringToPath] at hx
  split at hx
  · cases hx
  · simp only [pathContains]
    have hx : (if (c.dropna.cells.map winOut).all isAbs = true then
          applyStr c (fun f => match f.winAbs with | .ok (b, r) => .ok (purePathCell "PureWindowsPath" b r) | .raises cls => .raises cls)
            (fun x => if x.null then .ok x else .raises "TypeError")
        else
          applyStr c (fun f => match f.posixAbs with | .ok (b, r) => .ok (purePathCell "PurePosixPath" b r) | .raises cls => .raises cls)
            (fun x => if x.null then .ok x else .raises "TypeError")) = .ok c' := hx
    rcases hflav with hall | ⟨hall, hpx⟩
    · simp only [hall, if_true] at hx
      apply applyStr_lands_mem "TypeError" c c' _ (fun x => x.isPurePath && x.pathAbs) hx hv hs
      intro x hxm f hf y hy
      have hin := hmemnn x hxm f hf
      have := List.all_eq_true.mp hall (winOut x) (List.mem_map_of_mem hin)
      simp only [winOut, hf] at this
      cases hwv : f.winAbs with
      | ok v =>
        rw [hwv] at this hy
        obtain ⟨b, r⟩ := v
        simp only [isAbs] at this
        cases hy
        simp [purePathCell, Cell.ofObj, Cell.blank, this]
      | raises cls => rw [hwv] at hy; cases hy
    · simp only [hall, Bool.false_eq_true, if_false] at hx
      apply applyStr_lands_mem "TypeError" c c' _ (fun x => x.isPurePath && x.pathAbs) hx hv hs
      intro x hxm f hf y hy
      have hin := hmemnn x hxm f hf
      have := List.all_eq_true.mp hpx (pxOut x) (List.mem_map_of_mem hin)
      simp only [pxOut, hf] at this
      cases hwv : f.posixAbs with
      | ok v =>
        rw [hwv] at this hy
        obtain ⟨b, r⟩ := v
        simp only [isAbs] at this
        cases hy
        simp [purePathCell, Cell.ofObj, Cell.blank, this]
      | raises cls => rw [hwv] at hy; cases hy


/-- the named hypotheses under which the pandas relations land (each validated by α on every
generated column): a complex cell is missing iff its payload is NaN; a `str` element is never
missing; `pd.to_datetime` on the whole column finds a timestamp (library hypothesis) -/
structure LandsHyp (o : ColOracle) (c : Column) : Prop where
  pay : ∀ x ∈ c.cells, PayWF x
  strNotNull : StrNotNull c
  dt : containsB .String c = true → DtLands o c

/-- L3 for all 14 inference relations of the generated table -/
theorem lands_pandas (o : ColOracle) (src dst : Ty) (g : Column → R Bool) (t : Column → R Column)
    (hg : guard o src dst = some g) (ht : xform o src dst = some t)
    (c c' : Column) (hyp : LandsHyp o c) (hsrc : containsB src c = true)
    (hacc : g c = .ok true) (hx : t c = .ok c') : containsB dst c' = true := by
  unfold guard at hg
  unfold xform at ht
  split at hg <;> (try cases hg) <;> simp only at ht <;> cases ht
  · exact lands_object_boolean c c' hsrc hx
  · exact lands_string_boolean c c' hsrc hacc hx
  · exact lands_string_complex c c' hsrc hx
  · exact lands_string_datetime o c c' (hyp.dt hsrc) hx
  · exact lands_string_float c c' hacc hx
  · exact lands_complex_float c c' hyp.pay hsrc hacc hx
  · exact lands_float_integer c c' hsrc hx
  · exact lands_datetime_date c c' hsrc hacc hx
  · exact lands_string_geometry c c' hsrc hyp.strNotNull hx
  · exact lands_string_ip c c' hsrc hyp.strNotNull hx
  · exact lands_string_path c c' hsrc hyp.strNotNull hacc hx
  · exact lands_string_url c c' hsrc hyp.strNotNull hx
  · exact lands_string_uuid c c' hsrc hyp.strNotNull hx
  · exact lands_string_email c c' hsrc hyp.strNotNull hx

end V.Pd

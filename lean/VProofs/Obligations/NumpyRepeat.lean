/-
  C11, repetition, for the numpy model: repeating an array k + 1 times changes neither the membership of any type, nor the
  verdict of any relation test, and every transformer commutes with repetition — so `detect_type` and `infer_type` of the
  repeated array are those of the array, and the cast of the repetition is the repetition of the cast.
-/
import VProofs.Obligations.NumpyBag
namespace V.Np
open V V.Gen

def rep {α : Type} (k : Nat) (l : List α) : List α := (List.replicate (k + 1) l).flatten
def repeatArr (a : NArr) (k : Nat) : NArr := { a with elems := rep k a.elems }

theorem rep_succ {α : Type} (k : Nat) (l : List α) : rep (k + 1) l = l ++ rep k l := by
  simp [rep, List.replicate_succ]
theorem rep_zero {α : Type} (l : List α) : rep 0 l = l := by simp [rep]

theorem rep_map {α β : Type} (f : α → β) (k : Nat) (l : List α) : (rep k l).map f = rep k (l.map f) := by
  induction k with
  | zero => simp [rep_zero]
  | succ k ih => simp [rep_succ, ih]
theorem rep_filter {α : Type} (p : α → Bool) (k : Nat) (l : List α) : (rep k l).filter p = rep k (l.filter p) := by
  induction k with
  | zero => simp [rep_zero]
  | succ k ih => simp [rep_succ, ih]
theorem rep_all {α : Type} (p : α → Bool) (k : Nat) (l : List α) : (rep k l).all p = l.all p := by
  induction k with
  | zero => simp [rep_zero]
  | succ k ih => simp [rep_succ, ih]
theorem rep_any {α : Type} (p : α → Bool) (k : Nat) (l : List α) : (rep k l).any p = l.any p := by
  induction k with
  | zero => simp [rep_zero]
  | succ k ih => simp [rep_succ, ih]
theorem rep_isEmpty {α : Type} (k : Nat) (l : List α) : (rep k l).isEmpty = l.isEmpty := by
  cases l with
  | nil => induction k with
    | zero => simp [rep_zero]
    | succ k ih => simp [rep_succ, ih]
  | cons a as => cases k <;> simp [rep_succ, rep_zero]
theorem mem_rep {α : Type} {k : Nat} {l : List α} {x : α} : x ∈ rep k l ↔ x ∈ l := by
  induction k with
  | zero => simp [rep_zero]
  | succ k ih => simp [rep_succ, ih]

theorem firstRaise_append {α : Type} (l l' : List (Outcome α)) :
    firstRaise (l ++ l') = (match firstRaise l with | some c => some c | none => firstRaise l') := by
  induction l with
  | nil => simp [firstRaise]
  | cons z zs ih => cases z <;> simp [firstRaise, ih]

theorem firstRaise_rep {α : Type} (k : Nat) (l : List (Outcome α)) : firstRaise (rep k l) = firstRaise l := by
  induction k with
  | zero => simp [rep_zero]
  | succ k ih =>
    rw [rep_succ, firstRaise_append, ih]
    cases firstRaise l <;> rfl

theorem oks_append {α : Type} (l l' : List (Outcome α)) : oks (l ++ l') = oks l ++ oks l' := by
  induction l with
  | nil => simp [oks]
  | cons z zs ih => cases z <;> simp [oks, ih]
theorem oks_rep {α : Type} (k : Nat) (l : List (Outcome α)) : oks (rep k l) = rep k (oks l) := by
  induction k with
  | zero => simp [rep_zero]
  | succ k ih => simp [rep_succ, oks_append, ih]

theorem mask_repeat (a : NArr) (k : Nat) : (repeatArr a k).mask = repeatArr a.mask k := by
  simp only [NArr.mask, repeatArr, rep_filter]
theorem isEmpty_repeat (a : NArr) (k : Nat) : (repeatArr a k).isEmpty = a.isEmpty := rep_isEmpty k a.elems
theorem kind_repeat (a : NArr) (k : Nat) : (repeatArr a k).kind = a.kind := rfl

/-! ### membership -/

theorem containsB_repeat_np (t : Ty) (a : NArr) (k : Nat) (hw : ∀ x ∈ a.elems, ElemWF a.kind x) :
    containsB t (repeatArr a k) = containsB t a := by
  have hwr : ∀ x ∈ (repeatArr a k).elems, ElemWF (repeatArr a k).kind x := fun x hx => hw x (mem_rep.mp hx)
  have em : (repeatArr a k).mask.isEmpty = a.mask.isEmpty := by rw [mask_repeat, isEmpty_repeat]
  have ee := isEmpty_repeat a k
  have ea : ∀ p : NElem → Bool, (repeatArr a k).mask.elems.all p = a.mask.elems.all p := by
    intro p; rw [mask_repeat]; exact rep_all p k _
  cases t <;> simp only [containsB] <;> try rfl
  · simp only [stringContains, notEmptyB, ee, kind_repeat, NumpyProps.isString_iff hw, NumpyProps.isString_iff hwr, em, ea]
  · simp only [booleanContains, handleNullsB, notEmptyB, em, mask_kind, mask_mask, kind_repeat, ea] <;> rfl
  · simp only [complexContains, notEmptyB, ee, kind_repeat] <;> rfl
  · simp only [datetimeContains, handleNullsB, notEmptyB, em, mask_kind, mask_mask, kind_repeat, ea] <;> rfl
  · simp only [floatContains, handleNullsB, notEmptyB, em, mask_kind, mask_mask, kind_repeat] <;> rfl
  · simp only [integerContains, handleNullsB, notEmptyB, em, mask_kind, kind_repeat, ea] <;> rfl
  · simp only [objectContains, handleNullsB, notEmptyB, em, mask_kind, mask_mask, kind_repeat, notExcluded, ea] <;> rfl
  · simp only [timedeltaContains, notEmptyB, ee, kind_repeat] <;> rfl

/-! ### relation tests -/

theorem handleNulls_all_repeat (p : NElem → Bool) (a : NArr) (k : Nat) :
    handleNulls (fun a => .ok (a.elems.all p)) (repeatArr a k) = handleNulls (fun a => .ok (a.elems.all p)) a := by
  simp only [handleNulls, notEmpty, mask_repeat, isEmpty_repeat]
  simp only [repeatArr, rep_all]

theorem stringIsFloat_repeat (a : NArr) (k : Nat) : stringIsFloat (repeatArr a k) = stringIsFloat a := by
  simp only [stringIsFloat, handleNulls, notEmpty, mask_repeat, isEmpty_repeat]
  simp only [repeatArr, rep_map, firstRaise_rep, oks_rep, rep_all, rep_any]

theorem stringIsBoolean_repeat (a : NArr) (k : Nat) : stringIsBoolean (repeatArr a k) = stringIsBoolean a := by
  simp only [stringIsBoolean, mask_repeat]
  simp only [repeatArr, rep_map, firstRaise_rep, oks_rep, rep_all, rep_isEmpty]

theorem stringIsComplex_repeat (a : NArr) (k : Nat) : stringIsComplex (repeatArr a k) = stringIsComplex a := by
  simp only [stringIsComplex, mask_repeat, stringIsFloat_repeat]
  simp only [repeatArr, rep_map, firstRaise_rep, rep_any]

/-- `pd.to_datetime` parses element by element: on a repetition it returns the repetition of what it returns on the array -/
structure DtRepN (o : NpOracle) : Prop where
  masked : ∀ a k, o.dtMasked (repeatArr a k) = (match o.dtMasked a with | .ok r => .ok (repeatArr r k) | .raises c => .raises c)
  whole : ∀ a k, o.dtWhole (repeatArr a k) = (match o.dtWhole a with | .ok r => .ok (repeatArr r k) | .raises c => .raises c)

theorem stringIsDatetime_repeat (o : NpOracle) (hd : DtRepN o) (a : NArr) (k : Nat) :
    stringIsDatetime o (repeatArr a k) = stringIsDatetime o a := by
  simp only [stringIsDatetime, handleNulls, notEmpty, mask_repeat, isEmpty_repeat, hd.masked]
  cases o.dtMasked a.mask with
  | raises c => rfl
  | ok r => simp only [repeatArr, rep_any]

theorem guard_repeat (o : NpOracle) (hd : DtRepN o) (src dst : Ty) (g : NArr → R Bool) (hg : guard o src dst = some g)
    (a : NArr) (k : Nat) : g (repeatArr a k) = g a := by
  cases src <;> cases dst <;> simp only [guard, Option.some.injEq, reduceCtorEq] at hg <;> subst hg
  · exact stringIsBoolean_repeat a k
  · exact stringIsComplex_repeat a k
  · exact stringIsDatetime_repeat o hd a k
  · exact stringIsFloat_repeat a k
  · exact handleNulls_all_repeat _ a k
  · exact handleNulls_all_repeat _ a k
  · exact handleNulls_all_repeat _ a k

/-! ### transformers commute with repetition -/

theorem xform_repeat (o : NpOracle) (hd : DtRepN o) (src dst : Ty) (t : NArr → R NArr) (ht : xform o src dst = some t)
    (a : NArr) (k : Nat) : t (repeatArr a k) = (t a).map (fun d => repeatArr d k) := by
  cases src <;> cases dst <;> simp only [xform, Option.some.injEq, reduceCtorEq] at ht <;> subst ht
  · -- String -> Boolean
    simp only [stringToBoolean, mask_repeat, isEmpty_repeat]
    simp only [repeatArr, rep_map, firstRaise_rep]
    cases firstRaise (a.mask.elems.map (·.lower)) with
    | some c => rfl
    | none => simp only []; split <;> rfl
  · -- String -> Complex
    simp only [stringToComplex, mask_repeat]
    simp only [repeatArr, rep_map, firstRaise_rep]
    cases firstRaise (a.mask.elems.map (·.cx)) <;> rfl
  · -- String -> DateTime
    simp only [stringToDatetime, hd.whole]
    cases o.dtWhole a <;> rfl
  · -- String -> Float
    simp only [stringToFloat, mask_repeat]
    simp only [repeatArr, rep_map, firstRaise_rep]
    cases firstRaise (a.mask.elems.map (·.fl)) <;> rfl
  · -- Complex -> Float
    simp only [complexToFloat, Except.map, repeatArr, rep_map]
  · -- Float -> Integer
    simp only [floatToInteger, mask_repeat, isEmpty_repeat]
    split
    · rfl
    · simp only [Except.map, repeatArr, rep_map]
  · -- Object -> Boolean
    rfl

end V.Np

/-
  L5 (pointwise) for the pandas model — C06: every transformer of the relation table puts a missing value exactly
  where the input has one ("the positions of missing values are kept"), under named hypotheses that exclude the known
  findings F15 / F15b (`'nan'` strings parse to NaN, which *is* a missing value) and the one numeric corner where pandas
  itself loses a missing value (a complex number with a finite real part and a NaN imaginary part cast to float).
-/
import VProofs.Obligations.PandasBagInfer
namespace V.Pd
open V V.Gen

def nullsOf (c : Column) : List Bool := c.cells.map (·.null)

theorem nulls_map (l : List Cell) (f : Cell → Cell) (h : ∀ x ∈ l, (f x).null = x.null) :
    (l.map f).map (·.null) = l.map (·.null) := by
  rw [List.map_map]
  exact List.map_congr_left (fun x hx => h x hx)

theorem nulls_congr (l : List Cell) (g : Cell → Bool) (h : ∀ x ∈ l, g x = x.null) : l.map g = l.map (·.null) :=
  List.map_congr_left h

theorem ofFloat_null (v : FloatV) : (Cell.ofFloat v).null = v.isNan := by
  by_cases hv : v.isNan = true
  · simp [Cell.ofFloat, hv, Cell.missing, Cell.blank]
  · have hv' : v.isNan = false := by simpa using hv
    simp [Cell.ofFloat, hv', Cell.blank]

/-- what the hypotheses say about one cell -/
structure NullCell (d : DKind) (x : Cell) : Prop where
  /-- a missing complex value has a NaN real part (pandas stores `nan+0j`), a present one no NaN part -/
  complex : ∀ re im, x.pay = .complex re im → (x.null = re.isNan ∧ (x.null = false → im.isNan = false))
  /-- a `str` element is not missing, and `float()` / `complex()` of it is not NaN (false for F15 / F15b inputs) -/
  str : ∀ f, x.str = some f → x.null = false ∧ (∀ v, f.floatVal = .ok v → v.isNan = false) ∧
    (∀ re im, f.complexVal = .ok (re, im) → re.isNan = false ∧ im.isNan = false)

theorem nulls_complexToFloat (c c' : Column) (hc : ∀ x ∈ c.cells, NullCell c.dtype x)
    (hpay : ∀ x ∈ c.cells, x.null = false → ∃ re im, x.pay = .complex re im)
    (h : complexToFloat c = .ok c') : nullsOf c' = nullsOf c := by
  simp only [complexToFloat, Except.ok.injEq] at h
  subst h
  simp only [nullsOf]
  apply nulls_map
  intro x hx
  cases hp : x.pay with
  | complex re im => simp only [ofFloat_null]; exact ((hc x hx).complex re im hp).1.symm
  | _ =>
    have : x.null = true := by
      cases hn : x.null with
      | true => rfl
      | false => obtain ⟨re, im, h2⟩ := hpay x hx hn; rw [hp] at h2; cases h2
    simp [Cell.missing, Cell.blank, this]

theorem nulls_floatToInteger (c c' : Column) (h : floatToInteger c = .ok c') : nullsOf c' = nullsOf c := by
  simp only [floatToInteger, Except.ok.injEq] at h
  subst h
  simp only [nullsOf]
  apply nulls_map
  intro x _
  by_cases hn : x.null = true
  · simp [hn, Cell.missing, Cell.blank]
  · have hn' : x.null = false := by simpa using hn
    simp only [hn', Bool.false_eq_true, if_false]
    cases x.pay <;> simp [Cell.ofInt, Cell.blank, hn']

theorem nulls_datetimeToDate (c c' : Column) (h : datetimeToDate c = .ok c') : nullsOf c' = nullsOf c := by
  simp only [datetimeToDate] at h
  split at h
  · cases h
  · simp only [Except.ok.injEq] at h
    subst h
    simp only [nullsOf]
    apply nulls_map
    intro x _
    by_cases hn : x.null = true
    · simp [hn, Cell.missing, Cell.blank]
    · have hn' : x.null = false := by simpa using hn
      simp only [hn', Bool.false_eq_true, if_false]
      cases x.pay <;> simp [Cell.ofDate, Cell.blank, hn']

theorem nulls_stringToFloat (c c' : Column) (hc : ∀ x ∈ c.cells, NullCell c.dtype x)
    (hstr : ∀ x ∈ c.cells, x.null = false → x.str.isSome = true)
    (h : stringToFloat c = .ok c') : nullsOf c' = nullsOf c := by
  simp only [stringToFloat] at h
  have ⟨h1, h2⟩ := xform_match_none h (fun cls d => by simp)
  simp only [Except.ok.injEq] at h2
  subst h2
  simp only [nullsOf]
  rw [oks_map_eq FloatV.nan (cellFloat c.dtype) c.cells h1, List.map_map, List.map_map]
  apply nulls_congr
  intro x hx
  simp only [Function.comp, ofFloat_null]
  have hok := firstRaise_none_all_ok h1 (cellFloat c.dtype x) (List.mem_map_of_mem hx)
  cases hs : x.str with
  | some f =>
    have ⟨hn, hf, _⟩ := (hc x hx).str f hs
    simp only [cellFloat, hs] at hok ⊢
    cases hv : f.floatVal with
    | ok v => simp only [okD]; rw [hf v hv, hn]
    | raises cls => rw [hv] at hok; cases hok
  | none =>
    have hn : x.null = true := by
      cases hn : x.null with
      | true => rfl
      | false => have := hstr x hx hn; rw [hs] at this; cases this
    simp only [cellFloat, hs, hn, if_true] at hok ⊢
    by_cases hd : (c.dtype == DKind.object) = true
    · simp only [hd, if_true] at hok ⊢
      cases hna : x.na <;> simp only [hna] at hok ⊢ <;> first | rfl | cases hok
    · simp only [hd, Bool.false_eq_true, if_false]; rfl

theorem nulls_applyStr (c c' : Column) (p : StrFacts → Outcome Cell) (cls : String)
    (hc : ∀ x ∈ c.cells, ∀ f, x.str = some f → x.null = false)
    (hp : ∀ f y, p f = .ok y → y.null = false)
    (h : applyStr c p (fun x => if x.null then .ok x else .raises cls) = .ok c') : nullsOf c' = nullsOf c := by
  obtain ⟨h1, hcells⟩ := applyStr_spec c c' p _ h
  simp only [nullsOf, hcells]
  rw [oks_map_eq Cell.blank _ c.cells h1, List.map_map]
  apply nulls_congr
  intro x hx
  simp only [Function.comp]
  have hok := firstRaise_none_all_ok h1 _ (List.mem_map_of_mem hx)
  cases hs : x.str with
  | some f =>
    simp only [hs] at hok ⊢
    cases hy : p f with
    | ok y => simp only [okD]; rw [hp f y hy, hc x hx f hs]
    | raises e => rw [hy] at hok; cases hok
  | none =>
    simp only [hs] at hok ⊢
    by_cases hn : x.null = true
    · simp [hn, okD]
    · simp only [hn, Bool.false_eq_true, if_false] at hok; cases hok

theorem nulls_objectToBoolean (c c' : Column) (h : objectToBoolean c = .ok c') : nullsOf c' = nullsOf c := by
  obtain ⟨_, h1, hcells⟩ := objectToBoolean_cells c c' h
  simp only [nullsOf, hcells]
  rw [oks_map_eq Cell.blank _ c.cells h1, List.map_map]
  apply nulls_congr
  intro x hx
  simp only [Function.comp]
  have hok := firstRaise_none_all_ok h1 _ (List.mem_map_of_mem hx)
  by_cases hn : x.null = true
  · simp [hn, okD, Cell.missing, Cell.blank]
  · have hn' : x.null = false := by simpa using hn
    simp only [hn', Bool.false_eq_true, if_false] at hok ⊢
    cases ht : x.truth with
    | ok b => simp [okD, Cell.ofBool, Cell.blank, hn']
    | raises cls => rw [ht] at hok; cases hok

theorem nulls_stringToBoolean (c c' : Column) (hacc : stringIsBoolean c = .ok true)
    (h : stringToBoolean c = .ok c') : nullsOf c' = nullsOf c := by
  simp only [stringToBoolean] at h
  rw [nulls_objectToBoolean _ c' h]
  simp only [nullsOf, List.map_map]
  apply nulls_congr
  intro x hx
  simp only [Function.comp]
  by_cases hn : x.null = true
  · simp [hn, Cell.missing, Cell.blank]
  · have hn' : x.null = false := by simpa using hn
    obtain ⟨f, hf, hb⟩ := pred_boolean c hacc x hx hn'
    simp only [hn', Bool.false_eq_true, if_false, hf]
    simp only [strPred] at hb
    cases hk : f.boolKey with
    | none => rw [hk] at hb; cases hb
    | some v => simp [Cell.ofBool, Cell.blank]

theorem ofComplex_null (re im : FloatV) : (Cell.ofComplex re im).null = (re.isNan || im.isNan) := rfl

theorem nulls_stringToComplex (c c' : Column) (hc : ∀ x ∈ c.cells, NullCell c.dtype x)
    (hstr : ∀ x ∈ c.cells, x.null = false → x.str.isSome = true)
    (h : stringToComplex c = .ok c') : nullsOf c' = nullsOf c := by
  simp only [stringToComplex] at h
  have ⟨h1, h2⟩ := xform_match_none h (fun cls d => by simp)
  simp only [Except.ok.injEq] at h2
  subst h2
  simp only [nullsOf]
  rw [oks_map_eq (FloatV.nan, FloatV.nan) cellComplex c.cells h1, List.map_map, List.map_map]
  apply nulls_congr
  intro x hx
  simp only [Function.comp]
  have hok := firstRaise_none_all_ok h1 (cellComplex x) (List.mem_map_of_mem hx)
  cases hs : x.str with
  | some f =>
    have ⟨hn, _, hcx⟩ := (hc x hx).str f hs
    simp only [cellComplex, hs] at hok ⊢
    cases hv : f.complexVal with
    | ok v =>
      obtain ⟨re, im⟩ := v
      have ⟨h3, h4⟩ := hcx re im hv
      simp [okD, h3, h4, ofComplex_null, hn]
    | raises cls => rw [hv] at hok; cases hok
  | none =>
    have hn : x.null = true := by
      cases hn : x.null with
      | true => rfl
      | false => have := hstr x hx hn; rw [hs] at this; cases this
    simp only [cellComplex, hs, hn, if_true] at hok ⊢
    simp [okD, ofComplex_null, FloatV.isNan]

/-- `pd.to_datetime` leaves a `NaT` exactly where the input has a missing value -/
def DtNulls (o : ColOracle) (c : Column) : Prop :=
  ∀ r tz, o.toDatetime c.cells = .ok (r, tz) → r.map (·.null) = c.cells.map (·.null)

theorem nulls_stringToDatetime (o : ColOracle) (c c' : Column) (hdt : DtNulls o c)
    (h : stringToDatetime o c = .ok c') : nullsOf c' = nullsOf c := by
  simp only [stringToDatetime] at h
  cases hq : o.toDatetime c.cells with
  | raises cls => rw [hq] at h; cases h
  | ok v =>
    obtain ⟨r, tz⟩ := v
    rw [hq] at h
    simp only [Except.ok.injEq] at h
    subst h
    exact hdt r tz hq

/-- what the step theorem assumes of the input column -/
structure NullHyp (o : ColOracle) (c : Column) : Prop where
  cells : ∀ x ∈ c.cells, NullCell c.dtype x
  complexPay : c.dtype.isComplex = true → ∀ x ∈ c.cells, x.null = false → ∃ re im, x.pay = .complex re im
  dt : DtNulls o c

theorem nulls_stringToPath (c c' : Column) (hc : ∀ x ∈ c.cells, ∀ f, x.str = some f → x.null = false)
    (h : stringToPath c = .ok c') : nullsOf c' = nullsOf c := by
  simp only [stringToPath] at h
  have ⟨_, h2⟩ := xform_match_none h (fun cls d => by simp)
  split at h2
  · refine nulls_applyStr c c' _ "TypeError" hc ?_ h2
    intro f y hy
    cases hw : f.winAbs with
    | ok v => obtain ⟨b, r⟩ := v; simp only [hw, Outcome.ok.injEq] at hy; subst hy; rfl
    | raises cls => simp only [hw] at hy; cases hy
  · refine nulls_applyStr c c' _ "TypeError" hc ?_ h2
    intro f y hy
    cases hw : f.posixAbs with
    | ok v => obtain ⟨b, r⟩ := v; simp only [hw, Outcome.ok.injEq] at hy; subst hy; rfl
    | raises cls => simp only [hw] at hy; cases hy

/-- **C06, positions of missing values, one coercion**: every transformer of the relation table, applied to a column of
its source type that its test accepted, returns a column with missing values exactly where the input has them -/
theorem nulls_pandas (o : ColOracle) (src dst : Ty) (g : Column → R Bool) (t : Column → R Column)
    (hg : guard o src dst = some g) (ht : xform o src dst = some t) (c c' : Column) (hyp : NullHyp o c)
    (hsrc : containsB src c = true) (hacc : g c = .ok true) (hx : t c = .ok c') : nullsOf c' = nullsOf c := by
  have hstrnull : ∀ x ∈ c.cells, ∀ f, x.str = some f → x.null = false := fun x hx f hf => ((hyp.cells x hx).str f hf).1
  unfold guard at hg
  unfold xform at ht
  split at hg <;> (try cases hg) <;> simp only at ht <;> cases ht
  · exact nulls_objectToBoolean c c' hx
  · exact nulls_stringToBoolean c c' hacc hx
  · refine nulls_stringToComplex c c' hyp.cells ?_ hx
    intro x hxm hn
    obtain ⟨f, hf, _⟩ := pred_complex c hacc x hxm hn
    rw [hf]; rfl
  · exact nulls_stringToDatetime o c c' hyp.dt hx
  · refine nulls_stringToFloat c c' hyp.cells ?_ hx
    intro x hxm hn
    obtain ⟨f, hf, _⟩ := pred_float c hacc x hxm hn
    rw [hf]; rfl
  · refine nulls_complexToFloat c c' hyp.cells (hyp.complexPay ?_) hx
    have := notEmptyB_true (f := fun c => c.dtype.isComplex) (by simpa [containsB, complexContains, notSparseB] using hsrc)
    exact this.2
  · exact nulls_floatToInteger c c' hx
  · exact nulls_datetimeToDate c c' hx
  · refine nulls_applyStr c c' _ "TypeError" hstrnull ?_ hx
    intro f y hy
    cases hw : f.wkt with
    | ok v => simp only [hw, Outcome.ok.injEq] at hy; subst hy; rfl
    | raises cls => simp only [hw] at hy; cases hy
  · refine nulls_applyStr c c' _ "ValueError" hstrnull ?_ hx
    intro f y hy
    cases hw : f.ip with
    | ok v => obtain ⟨a, b⟩ := v; simp only [hw, Outcome.ok.injEq] at hy; subst hy; rfl
    | raises cls => simp only [hw] at hy; cases hy
  · exact nulls_stringToPath c c' hstrnull hx
  · refine nulls_applyStr c c' _ "AttributeError" hstrnull ?_ hx
    intro f y hy
    cases hw : f.url with
    | ok v => obtain ⟨a, b, r⟩ := v; simp only [hw, Outcome.ok.injEq] at hy; subst hy; rfl
    | raises cls => simp only [hw] at hy; cases hy
  · refine nulls_applyStr c c' _ "AttributeError" hstrnull ?_ hx
    intro f y hy
    cases hw : f.uuid with
    | ok v => simp only [hw, Outcome.ok.injEq] at hy; subst hy; rfl
    | raises cls => simp only [hw] at hy; cases hy
  · refine nulls_applyStr c c' _ "TypeError" hstrnull ?_ hx
    intro f y hy
    cases hw : f.email with
    | ok v => simp only [hw, Outcome.ok.injEq] at hy; subst hy; rfl
    | raises cls => simp only [hw] at hy; cases hy

end V.Pd

/-
  `goodB`: the invariant `Good` as an executable check, and its soundness `goodB o c = true → Good o c`.

  The driver evaluates `goodB` on the abstraction α(series) of every generated input, so the harness
  reports for which real inputs the hypotheses of the `…_pandas` theorems hold (and checks, on those,
  the theorems' conclusions against the real code); inputs where it is false are the excluded ones
  (known findings F09–F12, F26, F27, F29–F31 and dtypes outside the model).
-/
import VProofs.Obligations.PandasClosed
namespace V.Pd
open V V.Gen

theorem okTrue_iff (r : R Bool) : okTrue r = true ↔ r = .ok true := by
  cases r with
  | error e => simp [okTrue]
  | ok b => cases b <;> simp [okTrue]

theorem cellWFB_sound {x : Cell} (h : cellWFB x = true) : CellWF x := by
  constructor
  intro hp
  simp only [cellWFB, Bool.or_eq_true, Bool.not_eq_true'] at h
  rcases h with h | h
  · rw [hp] at h; cases h
  · exact h

theorem payWFB_sound {x : Cell} (h : payWFB x = true) : PayWF x := by
  constructor
  intro re im hp
  simp only [payWFB, hp, beq_iff_eq] at h
  rw [h]; simp

theorem headExclB_sound {x : Cell} (h : headExclB x = true) : HeadExcl x := by
  intro a ha b hb hne hab
  have := List.all_eq_true.mp (List.all_eq_true.mp h a ha) b hb
  simp only [Bool.or_eq_true, beq_iff_eq, Bool.not_eq_true', Bool.and_eq_false_iff] at this
  rcases this with h1 | h1 | h1
  · exact hne h1
  · rw [hab.1] at h1; cases h1
  · rw [hab.2] at h1; cases h1

theorem strExclB_sound {f : StrFacts} (h : strExclB f = true) : StrExcl f := by
  intro a ha b hb hne h1 h2 hab
  have := List.all_eq_true.mp (List.all_eq_true.mp h a ha) b hb
  simp only [Bool.or_eq_true, beq_iff_eq, Bool.and_eq_true, Bool.not_eq_true', Bool.and_eq_false_iff] at this
  rcases this with ((h3 | h3) | h3) | h3
  · exact hne h3
  · exact h1 h3
  · exact h2 h3
  · rcases h3 with h3 | h3
    · rw [hab.1] at h3; cases h3
    · rw [hab.2] at h3; cases h3

theorem floatComplexB_sound {f : StrFacts} (h : floatComplexB f = true) : FloatComplex f := by
  intro v hv
  simp only [floatComplexB, hv] at h
  cases hc : f.complexVal with
  | ok p => obtain ⟨re, im⟩ := p; rw [hc] at h; exact ⟨re, im, rfl, h⟩
  | raises cls => rw [hc] at h; cases h

theorem ipClsB_sound {f : StrFacts} (h : ipClsB f = true) : IpCls f := by
  intro cls r hv
  simp only [ipClsB, hv, Bool.and_eq_true, bne_iff_ne, ne_eq] at h
  exact h

theorem outCellB_sound {x : Cell} (h : outCellB x = true) : OutCell x := by
  simp only [outCellB, Bool.and_eq_true, Bool.or_eq_true, Bool.not_eq_true'] at h
  obtain ⟨⟨⟨h1, h2⟩, h3⟩, h4⟩ := h
  have hnn : x.null = false → ((x.isPath = false ∧ x.isStr = false) ∧ headExclB x = true) ∧
      (match x.pay with | .ts d _ _ => decide (1 ≤ d) && decide (d ≤ 3652059) | _ => true) = true := by
    intro hn
    rcases h4 with h4 | h4
    · rw [hn] at h4; cases h4
    · exact h4
  refine ⟨by simpa using h1, cellWFB_sound h2, payWFB_sound h3, ?_, ?_, ?_, ?_⟩
  · intro hn; exact (hnn hn).1.1.1
  · intro hn; exact (hnn hn).1.1.2
  · intro hn; exact headExclB_sound (hnn hn).1.2
  · intro hn d ns tz hp
    have := (hnn hn).2
    simp only [hp, Bool.and_eq_true, decide_eq_true_eq] at this
    exact this

theorem tsCellB_sound {y : Cell} (h : tsCellB y = true) : TsCell y := by
  simp only [tsCellB, Bool.and_eq_true, Bool.or_eq_true] at h
  obtain ⟨h1, h2⟩ := h
  have hnn : y.null = false → isTsPay y = true ∧ objValued.all (fun a => !objPred a y) = true := by
    intro hn
    rcases h2 with h2 | h2
    · rw [hn] at h2; cases h2
    · exact h2
  refine ⟨outCellB_sound h1, ?_, ?_⟩
  · intro hn
    have := (hnn hn).1
    simp only [isTsPay] at this
    cases hp : y.pay with
    | ts d ns tz => exact ⟨d, ns, tz, rfl⟩
    | _ => rw [hp] at this; cases this
  · intro hn a ha
    have := List.all_eq_true.mp (hnn hn).2 a ha
    simpa using this

theorem acceptsStrB_of {o : ColOracle} {d : Ty} {c : Column} (h : acceptsStr o d c) : acceptsStrB o d c = true := by
  obtain ⟨g, hg, hacc⟩ := h
  simp only [acceptsStrB, hg]
  exact (okTrue_iff _).mpr hacc

theorem mem_Ty_all' (t : Ty) : t ∈ Ty.all := by cases t <;> decide

/-- **soundness of the executable invariant** -/
theorem goodB_sound (o : ColOracle) (c : Column) (h : goodB o c = true) : Good o c := by
  simp only [goodB, Bool.and_eq_true] at h
  obtain ⟨⟨⟨⟨⟨hcells, hdc⟩, hdp⟩, hor⟩, hex⟩, hnr⟩ := h
  have hcell : ∀ x ∈ c.cells, (((cellWFB x = true ∧ payWFB x = true) ∧ (!x.str.isSome || !x.null) = true) ∧
      (x.null || headExclB x) = true) ∧ strGoodB x = true := by
    intro x hx
    have := List.all_eq_true.mp hcells x hx
    simpa only [cellGoodB, Bool.and_eq_true] using this
  have hstr : containsB .String c = true →
      ((!okTrue (stringIsDatetime o c) || strParsers.all (fun d => !acceptsStrB o d c)) = true ∧
       dtResB o c = true) := by
    intro hs
    simp only [oracleB, hs, Bool.not_true, Bool.false_or, Bool.and_eq_true] at hor
    exact hor
  exact {
    cellwf := fun x hx => cellWFB_sound (hcell x hx).1.1.1.1
    paywf := fun x hx => payWFB_sound (hcell x hx).1.1.1.2
    strNotNull := by
      intro x hx hs
      have := (hcell x hx).1.1.2
      rw [hs] at this
      simpa using this
    dtypeCells := by
      intro hd x hx hn
      rw [hd] at hdc
      simp only [Bool.not_true, Bool.false_or] at hdc
      have := List.all_eq_true.mp hdc x hx
      rw [hn] at this
      simpa using this
    headExcl := by
      intro x hx hn
      have := (hcell x hx).1.2
      rw [hn] at this
      exact headExclB_sound (by simpa using this)
    strHyp := by
      intro x hx f hf
      have := (hcell x hx).2
      simp only [strGoodB, hf, Bool.and_eq_true] at this
      exact ⟨strExclB_sound this.1.1, floatComplexB_sound this.1.2, ipClsB_sound this.2⟩
    dtypePay := by
      simp only [dtypePayB, Bool.and_eq_true, Bool.or_eq_true, Bool.not_eq_true'] at hdp
      constructor
      · intro hf x hx hn
        rcases hdp.1 with h1 | h1
        · rw [hf] at h1; cases h1
        · have := List.all_eq_true.mp h1 x hx
          rw [hn] at this
          simp only [Bool.false_or, isFloatPay] at this
          cases hp : x.pay with
          | float v => exact ⟨v, rfl⟩
          | _ => rw [hp] at this; cases this
      · intro hf x hx hn
        rcases hdp.2 with h1 | h1
        · rw [hf] at h1; cases h1
        · have := List.all_eq_true.mp h1 x hx
          rw [hn] at this
          simp only [Bool.false_or, isTsPay] at this
          cases hp : x.pay with
          | ts d ns tz => exact ⟨d, ns, tz, rfl⟩
          | _ => rw [hp] at this; cases this
    dtExcl := by
      intro hs hdt d hd hacc
      have h1 := (hstr hs).1
      simp only [Bool.or_eq_true, Bool.not_eq_true'] at h1
      rcases h1 with h1 | h1
      · rw [(okTrue_iff _).mpr hdt] at h1; cases h1
      · have := List.all_eq_true.mp h1 d hd
        rw [acceptsStrB_of hacc] at this; cases this
    dtLands := by
      intro hs r tz hq
      have h2 := (hstr hs).2
      simp only [dtResB, hq, Bool.and_eq_true] at h2
      obtain ⟨y, hy, hn⟩ := List.any_eq_true.mp h2.1
      exact ⟨y, hy, by simpa using hn⟩
    dtOut := by
      intro hs r tz hq y hy
      have h2 := (hstr hs).2
      simp only [dtResB, hq, Bool.and_eq_true] at h2
      exact tsCellB_sound (List.all_eq_true.mp h2.2 y hy)
    excl16 := by
      intro child hc
      have := List.all_eq_true.mp hex child (mem_Ty_all' child)
      rw [hc] at this
      simpa using this
    noRaise := by
      intro src dst g t hg ht hsrc hacc
      have := List.all_eq_true.mp (List.all_eq_true.mp hnr src (mem_Ty_all' src)) dst (mem_Ty_all' dst)
      rw [hg, ht] at this
      simp only [hsrc, (okTrue_iff _).mpr hacc, Bool.not_true, Bool.false_or] at this
      cases htc : t c with
      | ok c' => exact ⟨c', rfl⟩
      | error e => rw [htc] at this; cases this }

end V.Pd

/-
  L3 for the numpy back end model: every accepting inference relation lands inside its target type (`lands_np`), and its
  output satisfies the invariant again (`closed_np`), so nothing is assumed about intermediate arrays.
-/
import VProofs.Obligations.NumpyLocal
namespace V.Np
open V V.Gen

/-! ### arrays no relation leaves: not a String, not an Object -/

theorem take_all_false {p : NElem → Bool} {l : List NElem} (hne : l ≠ []) (h : ∀ x ∈ l, p x = false) :
    (l.take 5).all p = false := by
  cases l with
  | nil => exact absurd rfl hne
  | cons x xs =>
    have := h x List.mem_cons_self
    simp [List.take, this]

theorem not_string_of_noStr {a : NArr} (hk : isStrDt a.kind = false)
    (h : ∀ x ∈ a.elems, x.null = false → x.isStr = false) : stringContains a = false := by
  simp only [stringContains, notEmptyB]
  by_cases he : a.isEmpty = true
  · simp [he]
  · simp only [he, Bool.false_eq_true, if_false, hk, isString, handleNullsB, notEmptyB]
    by_cases hm : a.mask.isEmpty = true
    · simp [hm]
    · simp only [hm, Bool.false_eq_true, if_false]
      have hne : a.mask.elems ≠ [] := by
        intro hh; simp [NArr.isEmpty, hh] at hm
      have := take_all_false (p := (·.isStr)) hne (fun x hx => h x (mem_mask.mp hx).1 (mem_mask.mp hx).2)
      simp [this]

theorem not_object_of_kind {a : NArr} (hs : isStrDt a.kind = false) (ho : isObjectDt a.kind = false) :
    objectContains a = false := by
  simp only [objectContains, handleNullsB, notEmptyB, mask_kind, hs, ho]
  by_cases hm : a.mask.isEmpty = true <;> simp [hm]

/-- an object array all of whose values are `bool`s is excluded from Object -/
theorem not_object_of_bools {a : NArr} (hk : a.kind = .O) (h : ∀ x ∈ a.mask.elems, x.isBool = true) :
    objectContains a = false := by
  simp only [objectContains, handleNullsB, notEmptyB, mask_kind, hk, isStrDt_O, isObjectDt_O, notExcluded, mask_mask]
  by_cases hm : a.mask.isEmpty = true
  · simp [hm]
  · have : a.mask.elems.all (·.isBool) = true := List.all_eq_true.mpr h
    simp [hm, this]

theorem floatToInteger_ok_of_guard {a : NArr} (h : floatIsInteger a = .ok true) : ∃ r, floatToInteger a = .ok r := by
  have ⟨hme, _⟩ := handleNulls_ok_true h
  simp [floatToInteger, hme]

/-- no relation leaves an array that is neither a String nor an Object, except the two numeric ones, which never raise
after their test accepted -/
theorem noRaise_terminal (o : NpOracle) (a : NArr) (hs : stringContains a = false) (ho : objectContains a = false) :
    noRaiseB o a = true := by
  have hs' : containsB .String a = false := hs
  have ho' : containsB .Object a = false := ho
  simp only [noRaiseB, numpyRelationsRegistered, List.all_cons, List.all_nil, Bool.and_true, hs', ho', Bool.not_false,
    Bool.true_or, Bool.true_and, guard, xform, Bool.and_eq_true, Bool.or_eq_true, Bool.not_eq_true']
  constructor
  · by_cases hc : containsB .Complex a = true
    · right
      cases hg : complexIsFloat a with
      | error e => rfl
      | ok b => cases b <;> simp [complexToFloat]
    · left; simpa using hc
  · by_cases hc : containsB .Float a = true
    · right
      cases hg : floatIsInteger a with
      | error e => rfl
      | ok b =>
        cases b with
        | false => rfl
        | true => obtain ⟨r, hr⟩ := floatToInteger_ok_of_guard hg; simp [hr]
    · left; simpa using hc

theorem oracle_terminal (o : NpOracle) (a : NArr) (hs : stringContains a = false) : oracleB o a = true := by
  simp [oracleB, hs]

theorem good_intro (o : NpOracle) (a : NArr) (hwf : ∀ x ∈ a.elems, elemWFB a.kind x = true ∧ payWFB a.kind x = true)
    (hs : stringContains a = false) (ho : objectContains a = false) : Good o a := by
  simp only [Good, goodB, Bool.and_eq_true, List.all_eq_true]
  exact ⟨⟨hwf, noRaise_terminal o a hs ho⟩, oracle_terminal o a hs⟩

/-! ### produced elements are well formed -/

theorem wf_ofFloat (v : FloatV) : elemWFB .f (NElem.ofFloat v) = true ∧ payWFB .f (NElem.ofFloat v) = true := by
  constructor
  · rfl
  · simp [payWFB, NElem.ofFloat, NElem.blank]
theorem wf_ofComplex (re im : FloatV) : elemWFB .c (NElem.ofComplex re im) = true ∧ payWFB .c (NElem.ofComplex re im) = true := by
  constructor
  · rfl
  · simp [payWFB, NElem.ofComplex, NElem.blank]
theorem wf_ofInt (z : Int) : elemWFB .i (NElem.ofInt z) = true ∧ payWFB .i (NElem.ofInt z) = true := ⟨rfl, rfl⟩
theorem wf_ofBool (b : Bool) : elemWFB .O (NElem.ofBool b) = true ∧ payWFB .O (NElem.ofBool b) = true := by
  cases b <;> exact ⟨rfl, rfl⟩
theorem wf_nanO : elemWFB .O (NElem.ofFloat .nan) = true ∧ payWFB .O (NElem.ofFloat .nan) = true := ⟨rfl, rfl⟩

/-- the facts about an element that do not depend on the dtype survive a move into an object array -/
theorem wf_to_object {k : NpKind} {x : NElem} (h : elemWFB k x = true) : elemWFB .O x = true ∧ payWFB .O x = true := by
  have w := elemWF_of h
  constructor
  · simp only [elemWFB, Bool.and_eq_true] at h ⊢
    obtain ⟨⟨⟨⟨⟨⟨⟨_, _⟩, h3⟩, h4⟩, h5⟩, h6⟩, h7⟩, h8⟩ := h
    refine ⟨⟨⟨⟨⟨⟨⟨?_, ?_⟩, h3⟩, h4⟩, h5⟩, h6⟩, h7⟩, h8⟩
    · simp
    · simp
  · rfl

/-! ### the seven relations -/

theorem isStrDt_f : isStrDt NpKind.f = false := by decide
theorem isStrDt_c : isStrDt NpKind.c = false := by decide
theorem isStrDt_i : isStrDt NpKind.i = false := by decide
theorem isObjectDt_f : isObjectDt NpKind.f = false := by decide
theorem isObjectDt_c : isObjectDt NpKind.c = false := by decide
theorem isObjectDt_i : isObjectDt NpKind.i = false := by decide

theorem ofFloat_isStr (v : FloatV) : (NElem.ofFloat v).isStr = false := rfl
theorem ofComplex_isStr (re im : FloatV) : (NElem.ofComplex re im).isStr = false := rfl
theorem ofInt_isStr (z : Int) : (NElem.ofInt z).isStr = false := rfl

/-- a produced float / complex / int array satisfies the invariant -/
theorem good_float_out (o : NpOracle) (l : List FloatV) : Good o { kind := .f, elems := l.map NElem.ofFloat } := by
  apply good_intro
  · intro x hx; obtain ⟨v, _, rfl⟩ := List.mem_map.mp hx; exact wf_ofFloat v
  · apply not_string_of_noStr isStrDt_f
    intro x hx _; obtain ⟨v, _, rfl⟩ := List.mem_map.mp hx; rfl
  · exact not_object_of_kind isStrDt_f isObjectDt_f

/-! String -> Float -/

def s2f (x : NElem) : NElem :=
  if x.null then NElem.ofFloat .nan else match x.fl with | .ok v => NElem.ofFloat v | .raises _ => NElem.ofFloat .nan

theorem stringToFloat_ok {a a' : NArr} (h : stringToFloat a = .ok a') : a' = { kind := .f, elems := a.elems.map s2f } := by
  simp only [stringToFloat] at h
  cases hfr : firstRaise (a.mask.elems.map (·.fl)) with
  | some c => simp [hfr] at h
  | none => simp only [hfr, Except.ok.injEq] at h; rw [← h]; rfl

theorem s2f_wf (x : NElem) : elemWFB .f (s2f x) = true ∧ payWFB .f (s2f x) = true := by
  simp only [s2f]; split
  · exact wf_ofFloat _
  · split <;> exact wf_ofFloat _
theorem s2f_isStr (x : NElem) : (s2f x).isStr = false := by
  simp only [s2f]; split
  · rfl
  · split <;> rfl

theorem lands_string_float (o : NpOracle) (a a' : NArr) (hg : stringIsFloat a = .ok true) (ht : stringToFloat a = .ok a') :
    floatContains a' = true ∧ Good o a' := by
  have e := stringToFloat_ok ht
  subst e
  constructor
  · -- some parsed value is not NaN: it is a value of the output that is not missing
    have ⟨hme, h2⟩ := handleNulls_ok_true hg
    cases hfr : firstRaise (a.mask.elems.map (·.fl)) with
    | some cls =>
      simp only [hfr] at h2
      by_cases hc : caughtByEvaluator cls = true <;> simp [hc] at h2
    | none =>
      simp only [hfr] at h2
      by_cases hn : (oks (a.mask.elems.map (·.fl))).all (·.isNan) = true
      · simp [hn] at h2
      · have hn' : (oks (a.mask.elems.map (·.fl))).all (·.isNan) = false := by simpa using hn
        obtain ⟨v, hv, hnv0⟩ := List.all_eq_false.mp hn'
        have hnv : v.isNan = false := by simpa using hnv0
        obtain ⟨x, hx, hxv⟩ := List.mem_map.mp (mem_oks.mp hv)
        have hxm := mem_mask.mp hx
        have hy : s2f x ∈ (a.elems.map s2f) := List.mem_map.mpr ⟨x, hxm.1, rfl⟩
        have hyv : s2f x = NElem.ofFloat v := by simp [s2f, hxm.2, hxv]
        apply handleNullsB_intro
        · apply isEmpty_false_iff.mpr
          refine ⟨s2f x, mem_mask.mpr ⟨hy, ?_⟩⟩
          rw [hyv]; exact hnv
        · apply notEmptyB_intro
          · apply isEmpty_false_iff.mpr
            refine ⟨s2f x, mem_mask.mpr ⟨hy, ?_⟩⟩
            rw [hyv]; exact hnv
          · rfl
  · apply good_intro
    · intro y hy; obtain ⟨x, _, rfl⟩ := List.mem_map.mp hy; exact s2f_wf x
    · apply not_string_of_noStr isStrDt_f
      intro y hy _; obtain ⟨x, _, rfl⟩ := List.mem_map.mp hy; exact s2f_isStr x
    · exact not_object_of_kind isStrDt_f isObjectDt_f

/-! String -> Complex -/

def s2c (x : NElem) : NElem :=
  if x.null then NElem.ofComplex .nan (.fin 0 0)
  else match x.cx with | .ok p => NElem.ofComplex p.1 p.2 | .raises _ => NElem.ofComplex .nan (.fin 0 0)

theorem stringToComplex_ok {a a' : NArr} (h : stringToComplex a = .ok a') : a' = { kind := .c, elems := a.elems.map s2c } := by
  simp only [stringToComplex] at h
  cases hfr : firstRaise (a.mask.elems.map (·.cx)) with
  | some c => simp [hfr] at h
  | none => simp only [hfr, Except.ok.injEq] at h; rw [← h]; rfl

theorem s2c_wf (x : NElem) : elemWFB .c (s2c x) = true ∧ payWFB .c (s2c x) = true := by
  simp only [s2c]; split
  · exact wf_ofComplex _ _
  · split <;> exact wf_ofComplex _ _
theorem s2c_isStr (x : NElem) : (s2c x).isStr = false := by
  simp only [s2c]; split
  · rfl
  · split <;> rfl

theorem lands_string_complex (o : NpOracle) (a a' : NArr) (hc : stringContains a = true) (ht : stringToComplex a = .ok a') :
    complexContains a' = true ∧ Good o a' := by
  have e := stringToComplex_ok ht
  subst e
  have ⟨hne, _⟩ := notEmptyB_true hc
  constructor
  · apply notEmptyB_intro
    · obtain ⟨x, hx⟩ := isEmpty_false_iff.mp hne
      exact isEmpty_false_iff.mpr ⟨s2c x, List.mem_map.mpr ⟨x, hx, rfl⟩⟩
    · rfl
  · apply good_intro
    · intro y hy; obtain ⟨x, _, rfl⟩ := List.mem_map.mp hy; exact s2c_wf x
    · apply not_string_of_noStr isStrDt_c
      intro y hy _; obtain ⟨x, _, rfl⟩ := List.mem_map.mp hy; exact s2c_isStr x
    · exact not_object_of_kind isStrDt_c isObjectDt_c

/-! Complex -> Float -/

def c2f (x : NElem) : NElem := match x.cx with | .ok (re, _) => NElem.ofFloat re | .raises _ => NElem.ofFloat .nan

theorem c2f_wf (x : NElem) : elemWFB .f (c2f x) = true ∧ payWFB .f (c2f x) = true := by
  simp only [c2f]; split <;> exact wf_ofFloat _
theorem c2f_isStr (x : NElem) : (c2f x).isStr = false := by
  simp only [c2f]; split <;> rfl

theorem lands_complex_float (o : NpOracle) (a : NArr) (hG : Good o a) (hc : complexContains a = true)
    (hg : complexIsFloat a = .ok true) :
    floatContains { kind := .f, elems := a.elems.map c2f } = true ∧ Good o { kind := .f, elems := a.elems.map c2f } := by
  have hk : a.kind = .c := (kind_excl a.kind).2.2.2.2.1 (notEmptyB_true (f := fun a => isComplexDt a.kind) hc).2
  constructor
  · have ⟨hme, _⟩ := handleNulls_ok_true hg
    obtain ⟨x, hx⟩ := isEmpty_false_iff.mp hme
    have hxm := mem_mask.mp hx
    obtain ⟨re, im, hcx, hnull⟩ := (good_wf hG x hxm.1).2.complex hk
    have hre : re.isNan = false := by
      rw [hxm.2] at hnull
      cases hr : re.isNan with
      | false => rfl
      | true => simp [hr] at hnull
    have hy : c2f x ∈ (a.elems.map c2f) := List.mem_map.mpr ⟨x, hxm.1, rfl⟩
    have hyv : c2f x = NElem.ofFloat re := by simp [c2f, hcx]
    have hnn : (c2f x).null = false := by rw [hyv]; exact hre
    apply handleNullsB_intro (isEmpty_false_iff.mpr ⟨c2f x, mem_mask.mpr ⟨hy, hnn⟩⟩)
    apply notEmptyB_intro
    · exact isEmpty_false_iff.mpr ⟨c2f x, mem_mask.mpr ⟨hy, hnn⟩⟩
    · rfl
  · apply good_intro
    · intro y hy; obtain ⟨x, _, rfl⟩ := List.mem_map.mp hy; exact c2f_wf x
    · apply not_string_of_noStr isStrDt_f
      intro y hy _; obtain ⟨x, _, rfl⟩ := List.mem_map.mp hy; exact c2f_isStr x
    · exact not_object_of_kind isStrDt_f isObjectDt_f

theorem complexToFloat_eq (a : NArr) : complexToFloat a = .ok { kind := .f, elems := a.elems.map c2f } := rfl

/-! Float -> Integer -/

def f2i (x : NElem) : NElem := match x.fl with | .ok v => NElem.ofInt v.toInt | .raises _ => NElem.ofInt 0

theorem f2i_null (x : NElem) : (f2i x).null = false := by simp only [f2i]; split <;> rfl
theorem f2i_wf (x : NElem) : elemWFB .i (f2i x) = true ∧ payWFB .i (f2i x) = true := by
  simp only [f2i]; split <;> exact wf_ofInt _
theorem f2i_isStr (x : NElem) : (f2i x).isStr = false := by simp only [f2i]; split <;> rfl

theorem floatToInteger_ok {a a' : NArr} (h : floatToInteger a = .ok a') :
    a.mask.isEmpty = false ∧ a' = { kind := .i, elems := a.mask.elems.map f2i } := by
  simp only [floatToInteger] at h
  by_cases hm : a.mask.isEmpty = true
  · simp [hm] at h
  · simp only [hm, Bool.false_eq_true, if_false, Except.ok.injEq] at h
    exact ⟨by simpa using hm, by rw [← h]; rfl⟩

theorem lands_float_integer (o : NpOracle) (a a' : NArr) (ht : floatToInteger a = .ok a') :
    integerContains a' = true ∧ Good o a' := by
  obtain ⟨hme, e⟩ := floatToInteger_ok ht
  subst e
  obtain ⟨x, hx⟩ := isEmpty_false_iff.mp hme
  have hmask : ({ kind := .i, elems := a.mask.elems.map f2i } : NArr).mask = { kind := .i, elems := a.mask.elems.map f2i } := by
    simp only [NArr.mask]
    congr
    apply List.filter_eq_self.mpr
    intro y hy; obtain ⟨z, _, rfl⟩ := List.mem_map.mp hy; simp [f2i_null]
  have hne : ({ kind := .i, elems := a.mask.elems.map f2i } : NArr).isEmpty = false :=
    isEmpty_false_iff.mpr ⟨f2i x, List.mem_map.mpr ⟨x, hx, rfl⟩⟩
  constructor
  · apply handleNullsB_intro (by rw [hmask]; exact hne)
    rw [hmask]
    simp [hne, show isTimedeltaDt NpKind.i = false by decide, show isIntegerDt NpKind.i = true by decide]
  · apply good_intro
    · intro y hy; obtain ⟨z, _, rfl⟩ := List.mem_map.mp hy; exact f2i_wf z
    · apply not_string_of_noStr isStrDt_i
      intro y hy _; obtain ⟨z, _, rfl⟩ := List.mem_map.mp hy; exact f2i_isStr z
    · exact not_object_of_kind isStrDt_i isObjectDt_i

/-! String -> Boolean -/

def s2b (x : NElem) : NElem :=
  if x.null then x else match x.lower with | .ok (some (_, b)) => NElem.ofBool b | _ => NElem.ofFloat .nan

theorem stringToBoolean_ok {a a' : NArr} (h : stringToBoolean a = .ok a') : a' = { kind := .O, elems := a.elems.map s2b } := by
  simp only [stringToBoolean] at h
  cases hfr : firstRaise (a.mask.elems.map (·.lower)) with
  | some c => simp [hfr] at h
  | none =>
    simp only [hfr] at h
    by_cases hm : a.mask.isEmpty = true
    · simp [hm] at h
    · simp only [hm, Bool.false_eq_true, if_false, Except.ok.injEq] at h; rw [← h]; rfl

theorem lands_string_boolean (o : NpOracle) (a a' : NArr) (hG : Good o a) (hg : stringIsBoolean a = .ok true)
    (ht : stringToBoolean a = .ok a') : booleanContains a' = true ∧ Good o a' := by
  have e := stringToBoolean_ok ht
  subst e
  have ⟨hme, hkeys⟩ := stringIsBoolean_elem hg
  -- the values of the output are the booleans of the values of the input
  have hvals : ∀ y ∈ ({ kind := .O, elems := a.elems.map s2b } : NArr).mask.elems, y.isBool = true := by
    intro y hy
    obtain ⟨hy1, hy2⟩ := mem_mask.mp hy
    obtain ⟨x, hx, rfl⟩ := List.mem_map.mp hy1
    by_cases hn : x.null = true
    · simp [s2b, hn] at hy2
    · have hn' : x.null = false := by simpa using hn
      obtain ⟨p, hp⟩ := hkeys x (mem_mask.mpr ⟨hx, hn'⟩)
      obtain ⟨i, b⟩ := p
      simp [s2b, hn', hp, NElem.ofBool]
  obtain ⟨x, hx⟩ := isEmpty_false_iff.mp hme
  have hxm := mem_mask.mp hx
  obtain ⟨p, hp⟩ := hkeys x hx
  have hy : s2b x ∈ ({ kind := .O, elems := a.elems.map s2b } : NArr).mask.elems := by
    apply mem_mask.mpr
    refine ⟨List.mem_map.mpr ⟨x, hxm.1, rfl⟩, ?_⟩
    obtain ⟨i, b⟩ := p
    simp [s2b, hxm.2, hp, NElem.ofBool, NElem.blank]
  have hne := isEmpty_false_iff.mpr ⟨_, hy⟩
  constructor
  · apply handleNullsB_intro hne
    apply notEmptyB_intro hne
    have : isBoolDt NpKind.O = false := by decide
    simp only [mask_kind, this, Bool.false_eq_true, if_false, mask_mask]
    exact List.all_eq_true.mpr hvals
  · apply good_intro
    · intro y hy'
      obtain ⟨z, hz, rfl⟩ := List.mem_map.mp hy'
      simp only [s2b]
      split
      · exact wf_to_object (good_elem hG z hz).1
      · split
        · exact wf_ofBool _
        · exact wf_nanO
    · apply not_string_of_noStr isStrDt_O
      intro y hy' hnn
      have := hvals y (mem_mask.mpr ⟨hy', hnn⟩)
      -- a bool is not a str
      obtain ⟨z, hz, rfl⟩ := List.mem_map.mp hy'
      by_cases hn : z.null = true
      · simp [s2b, hn] at hnn
      · have hn' : z.null = false := by simpa using hn
        simp only [s2b, hn', Bool.false_eq_true, if_false]
        split <;> rfl
    · exact not_object_of_bools rfl hvals

/-! String -> DateTime: the oracle's facts, checked on every input by `oracleB` -/

theorem lands_string_datetime (o : NpOracle) (a a' : NArr) (hG : Good o a) (hc : stringContains a = true)
    (hg : stringIsDatetime o a = .ok true) (ht : stringToDatetime o a = .ok a') :
    datetimeContains a' = true ∧ Good o a' := by
  have hor := good_oracle hG
  simp only [oracleB, hc, Bool.not_true, Bool.false_or, hg, Bool.and_eq_true] at hor
  obtain ⟨_, h4⟩ := hor
  simp only [stringToDatetime] at ht
  cases hw : o.dtWhole a with
  | raises c => simp [hw] at ht
  | ok r =>
    simp only [hw, Except.ok.injEq] at ht
    subst ht
    simp only [hw, Bool.and_eq_true, dtOutOkB, List.all_eq_true, Bool.not_eq_true'] at h4
    refine ⟨h4.1, good_intro o r ?_ h4.2.1.2 h4.2.2⟩
    intro x hx
    have := h4.2.1.1 x hx
    simpa using this

/-! ### L3 and closure, over the relation table -/

theorem lands_closed_np (o : NpOracle) (src dst : Ty) (g : NArr → R Bool) (t : NArr → R NArr)
    (hgd : guard o src dst = some g) (htd : xform o src dst = some t) (a a' : NArr) (hG : Good o a)
    (hc : containsB src a = true) (hg : g a = .ok true) (ht : t a = .ok a') :
    containsB dst a' = true ∧ Good o a' := by
  cases src <;> cases dst <;> simp only [guard, Option.some.injEq, reduceCtorEq] at hgd
  all_goals (simp only [xform, Option.some.injEq] at htd; subst hgd; subst htd)
  · exact lands_string_boolean o a a' hG hg ht
  · exact lands_string_complex o a a' hc ht
  · exact lands_string_datetime o a a' hG hc hg ht
  · exact lands_string_float o a a' hg ht
  · have := lands_complex_float o a hG hc hg
    rw [complexToFloat_eq] at ht
    cases ht; exact this
  · exact lands_float_integer o a a' ht
  · exact absurd hg (object_never_boolean o a hG hc)

/-- the transformer of an accepting relation does not raise (from `noRaiseB`) -/
theorem noRaise_np (o : NpOracle) (src dst : Ty) (g : NArr → R Bool) (t : NArr → R NArr)
    (hgd : guard o src dst = some g) (htd : xform o src dst = some t) (a : NArr) (hG : Good o a)
    (hc : containsB src a = true) (hg : g a = .ok true) : ∃ a', t a = .ok a' := by
  have hnr := good_noRaise hG
  simp only [noRaiseB, List.all_eq_true] at hnr
  have hmem : (src, dst) ∈ numpyRelationsRegistered := by
    cases src <;> cases dst <;> simp only [guard, reduceCtorEq] at hgd <;> decide
  have := hnr (src, dst) hmem
  simp only [hc, Bool.not_true, Bool.false_or, hgd, htd, hg] at this
  cases hta : t a with
  | ok r => exact ⟨r, rfl⟩
  | error e => simp [hta] at this

end V.Np

/-
  The pandas backend model is a well-formed type system (`TS.WF`) relative to the invariant `Good`:
  the engine lifting theorems (C02 order independence, C03 soundness, C04 fixpoint, C15 refinement,
  C16 chain) therefore hold for every typeset over the 22 types of CompleteSet+EmailAddress and every
  column satisfying `Good`.

  `Good o c` collects the named hypotheses under which the local obligations were proved — facts
  about CPython classes (`CellWF`, `NullWF`, `HeadExcl`), about `isna` (`PayWF`), about the element
  parsers and `pd.to_datetime` (`StrExcl`, `FloatComplex`, `DtExcl`, `DtLands`), and the exclusion of the
  inputs of the known findings (`Excl16`, `NoRaise`).  Each is validated by the harness on every
  generated column; where a hypothesis is false for particular inputs, that is a known finding.
  `OutputsGood` (transformer outputs satisfy `Good` again) is the one hypothesis not yet discharged in
  Lean: it is validated by the correspondence (outputs equal the model's constructor cells).
-/
import VProofs.Obligations.PandasNested
import VProofs.Obligations.PandasMutex
import VProofs.Lemmas.PandasTS
import VModel.Generated.Typesets
import VProofs.Props.C02
namespace V.Pd
open V V.Gen

/-- the transformer of an accepting relation does not raise (excludes the inputs of findings F29–F31) -/
def NoRaise (o : ColOracle) (c : Column) : Prop :=
  ∀ src dst g t, guard o src dst = some g → xform o src dst = some t → containsB src c = true →
    g c = .ok true → ∃ c', t c = .ok c'

/-- the class name `ip_address(s)` reports is an address class, not `date`/`time` -/
def IpCls (f : StrFacts) : Prop := ∀ cls r, f.ip = .ok (cls, r) → cls ≠ "date" ∧ cls ≠ "time"

/-- what the dtype guarantees about the payload of non-missing cells (float64 holds floats, datetime64 holds timestamps) -/
structure DtypePay (c : Column) : Prop where
  float : c.dtype.isFloat = true → ∀ x ∈ c.cells, x.null = false → ∃ v, x.pay = .float v
  datetime : c.dtype.isDatetime = true → ∀ x ∈ c.cells, x.null = false → ∃ d ns tz, x.pay = .ts d ns tz

/-- a cell produced by a transformer -/
structure OutCell (x : Cell) : Prop where
  str : x.str = none
  wf : CellWF x
  pay : PayWF x
  notPath : x.null = false → x.isPath = false
  notStr : x.null = false → x.isStr = false
  head : x.null = false → HeadExcl x
  ts : x.null = false → ∀ d ns tz, x.pay = .ts d ns tz → 1 ≤ d ∧ d ≤ 3652059


/-- a cell of a `pd.to_datetime` result: a produced cell that is `NaT` or a timestamp -/
structure TsCell (y : Cell) : Prop where
  out : OutCell y
  pay : y.null = false → ∃ d ns tz, y.pay = .ts d ns tz
  plain : y.null = false → ∀ a ∈ objValued, objPred a y = false

/-- `pd.to_datetime` returns timestamps or `NaT`, and the timestamps are representable as `datetime.date`
(years 1..9999, part of `OutCell`; false for the inputs of known finding F31) -/
def DtOut (o : ColOracle) (c : Column) : Prop :=
  ∀ r tz, o.toDatetime c.cells = .ok (r, tz) → ∀ y ∈ r, TsCell y

structure Good (o : ColOracle) (c : Column) : Prop where
  cellwf : ∀ x ∈ c.cells, CellWF x
  paywf : ∀ x ∈ c.cells, PayWF x
  strNotNull : StrNotNull c
  dtypeCells : DtypeCells c
  headExcl : ∀ x ∈ c.cells, x.null = false → HeadExcl x
  strHyp : ∀ x ∈ c.cells, ∀ f, x.str = some f → StrExcl f ∧ FloatComplex f ∧ IpCls f
  dtypePay : DtypePay c
  dtExcl : containsB .String c = true → DtExcl o c
  dtLands : containsB .String c = true → DtLands o c
  dtOut : containsB .String c = true → DtOut o c
  excl16 : ∀ child, containsB child c = true → Excl16 child c = false
  noRaise : NoRaise o c

/-- transformer outputs of good columns are good (validated by correspondence; not yet proved) -/
def OutputsGood (o : ColOracle) : Prop :=
  ∀ src dst g t c c', guard o src dst = some g → xform o src dst = some t → Good o c →
    containsB src c = true → g c = .ok true → t c = .ok c' → Good o c'

/-- the typeset's edges come from the generated relation table, over the 22 types -/
structure FromTable (b : Built Ty) : Prop where
  decl : ∀ e ∈ b.edges, (⟨e.src, e.inferential⟩ : RelDecl Ty) ∈ declared e.dst
  in22 : ∀ e ∈ b.edges, e.src ∈ completeSet ∧ e.dst ∈ completeSet
  nodupDst : ∀ n, ((b.edges.filter (fun e => e.src == n)).map (·.dst)).Nodup
  rank : ∀ e ∈ b.edges, rank e.src < rank e.dst

theorem mem_Ty_all (t : Ty) : t ∈ Ty.all := by cases t <;> decide

/-- every inference relation of the table has a guard and a transformer in the model -/
def guardDefinedB (o : ColOracle) : Bool :=
  Ty.all.all fun dst => (declared dst).all fun r =>
    !r.inferential || ((guard o r.src dst).isSome && (xform o r.src dst).isSome)

theorem guardDefinedB_true (o : ColOracle) : guardDefinedB o = true := by rfl

theorem table_guard_defined (o : ColOracle) (dst : Ty) (r : RelDecl Ty) (hr : r ∈ declared dst) (hi : r.inferential = true) :
    ∃ g t, guard o r.src dst = some g ∧ xform o r.src dst = some t := by
  have := List.all_eq_true.mp (List.all_eq_true.mp (guardDefinedB_true o) dst (mem_Ty_all dst)) r hr
  simp only [hi, Bool.not_true, Bool.false_or, Bool.and_eq_true, Option.isSome_iff_exists] at this
  obtain ⟨⟨g, hg⟩, ⟨t, ht⟩⟩ := this
  exact ⟨g, t, hg, ht⟩

/-- an identity relation of the table goes from the identity parent -/
theorem table_identity_parent (dst : Ty) (r : RelDecl Ty) (hr : r ∈ declared dst) (hi : r.inferential = false) :
    parentOf dst = some r.src := by
  have key : (Ty.all.all fun dst => (declared dst).all fun r =>
      r.inferential || (parentOf dst == some r.src)) = true := by decide
  have := List.all_eq_true.mp (List.all_eq_true.mp key dst (mem_Ty_all dst)) r hr
  simpa [hi] using this

/-- description of the inferential relations of `pandasTS` -/
theorem mem_pandasTS_succ_inf {o : ColOracle} {b : Built Ty} (ft : FromTable b) {n : Ty} {r : PRel Ty Column}
    (hr : r ∈ (pandasTS o b).succ n) (hi : r.inferential = true) :
    ∃ g t, guard o n r.dst = some g ∧ xform o n r.dst = some t ∧
      (∀ c, r.guard c = true ↔ g c = .ok true) ∧
      (∀ c c', t c = .ok c' → r.xform c = c') := by
  obtain ⟨e, he, hsrc, rfl, _, hdst, hinf, _⟩ := mem_pandasTS_succ hr
  have hie : e.inferential = true := by rw [← hinf]; exact hi
  obtain ⟨g, t, hg, ht⟩ := table_guard_defined o e.dst ⟨e.src, e.inferential⟩ (ft.decl e he) hie
  simp only at hg ht
  refine ⟨g, t, by rw [hdst, ← hsrc]; exact hg, by rw [hdst, ← hsrc]; exact ht, ?_, ?_⟩
  · intro c
    simp only [mkRel, hie, if_true, purifyRel, hg, Except.map]
    cases hgc : g c with
    | error e => simp
    | ok v => cases v <;> simp
  · intro c c' htc
    simp only [mkRel, hie, if_true, purifyRel, ht, Except.map, htc]

/-- the successors of a node have pairwise distinct targets -/
theorem pandasTS_nodup_dst (o : ColOracle) (b : Built Ty) (ft : FromTable b) (n : Ty) :
    (((pandasTS o b).succ n).map (·.dst)).Nodup := by
  have := ft.nodupDst n
  simp only [pandasTS, purify, graphOf, List.map_map]
  have e : ((fun r : PRel Ty Column => r.dst) ∘ purifyRel ∘ mkRel o) = (fun e : Edge Ty => e.dst) := by
    funext e; exact mkRel_dst o e
  rw [e]; exact this


/-! ### table facts about which relations leave each node (boolean checks over the generated table) -/

def outOf (n : Ty) : List (Ty × Bool) :=
  completeSet.flatMap (fun dst => ((declared dst).filter (fun r => r.src == n && completeSet.contains r.src)).map
    (fun r => (dst, r.inferential)))

theorem mem_outOf {n dst : Ty} {inf : Bool} (hd : dst ∈ completeSet) (hn : n ∈ completeSet)
    (hr : (⟨n, inf⟩ : RelDecl Ty) ∈ declared dst) : (dst, inf) ∈ outOf n := by
  simp only [outOf, List.mem_flatMap, List.mem_map, List.mem_filter]
  exact ⟨dst, hd, ⟨n, inf⟩, ⟨hr, by simp [List.contains_iff_mem, hn]⟩, rfl⟩

theorem outOf_generic : ∀ p ∈ outOf .Generic, p.2 = false ∧ p.1 ∈ C02.genericChildren := by decide
theorem outOf_object : ∀ p ∈ outOf .Object, p.1 ∈ objChildren ∧ (p.2 = true ↔ p.1 = .Boolean) := by decide
theorem outOf_string : ∀ p ∈ outOf .String, p.2 = true ∧ p.1 ∈ Ty.DateTime :: strParsers := by decide
theorem outOf_thin (n : Ty) (hn : n ≠ .Generic ∧ n ≠ .Object ∧ n ≠ .String) :
    ∀ p ∈ outOf n, ∀ q ∈ outOf n, p.1 = q.1 := by
  cases n <;> first | (exact absurd rfl hn.1) | (exact absurd rfl hn.2.1) | (exact absurd rfl hn.2.2) | decide


/-- acceptance of a relation of `pandasTS`, in terms of the backend functions -/
theorem accept_id {o : ColOracle} {b : Built Ty} {n : Ty} {r : PRel Ty Column} (hr : r ∈ (pandasTS o b).succ n)
    (hi : r.inferential = false) (x : Column) (hg : r.guard x = true) : containsB r.dst x = true := by
  have ⟨h1, _⟩ := pandasTS_L0 o b n r hr hi
  have := h1 x
  rw [hg] at this
  exact this.symm

theorem accept_inf {o : ColOracle} {b : Built Ty} (ft : FromTable b) {n : Ty} {r : PRel Ty Column}
    (hr : r ∈ (pandasTS o b).succ n) (hi : r.inferential = true) (x : Column) (hg : r.guard x = true) :
    ∃ g, guard o n r.dst = some g ∧ g x = .ok true := by
  obtain ⟨g, t, hgd, _, hiff, _⟩ := mem_pandasTS_succ_inf ft hr hi
  exact ⟨g, hgd, (hiff x).mp hg⟩

theorem succ_in_outOf {o : ColOracle} {b : Built Ty} (ft : FromTable b) {n : Ty} {r : PRel Ty Column}
    (hr : r ∈ (pandasTS o b).succ n) : (r.dst, r.inferential) ∈ outOf n := by
  obtain ⟨e, he, hsrc, _, _, hdst, hinf, _⟩ := mem_pandasTS_succ hr
  have h22 := ft.in22 e he
  have hd := ft.decl e he
  rw [hdst, hinf]
  apply mem_outOf h22.2 (by rw [← hsrc]; exact h22.1)
  rw [← hsrc]; exact hd

/-- **the pandas backend model is a well-formed type system relative to `Good`** -/
theorem pandas_WF (o : ColOracle) (b : Built Ty) (ft : FromTable b) (og : OutputsGood o) :
    (pandasTS o b).WF (Good o) where
  height := pandasTS_height o b ft.rank
  idGuard := pandasTS_L0 o b
  nested := by
    intro n r hr hi x hG hc
    obtain ⟨e, he, hsrc, _, _, hdst, hinf, _⟩ := mem_pandasTS_succ hr
    have hie : e.inferential = false := by rw [← hinf]; exact hi
    have hp := table_identity_parent e.dst ⟨e.src, e.inferential⟩ (ft.decl e he) hie
    simp only at hp
    have hc' : containsB e.dst x = true := by rw [← hdst]; exact hc
    have := nested_pandas e.dst e.src hp x hG.cellwf (hG.excl16 e.dst hc') hc'
    show containsB n x = true
    rw [← hsrc]; exact this
  mutex := by
    intro n x hG hc
    apply filter_le_one_of_pairwise _ _ (·.dst) (pandasTS_nodup_dst o b ft n)
    intro r₁ h₁ r₂ h₂ g₁ g₂
    have hc' : containsB n x = true := hc
    have m₁ := succ_in_outOf ft h₁
    have m₂ := succ_in_outOf ft h₂
    by_cases hgen : n = .Generic
    · subst hgen
      have ⟨i₁, c₁⟩ := outOf_generic _ m₁
      have ⟨i₂, c₂⟩ := outOf_generic _ m₂
      by_cases hne : r₁.dst = r₂.dst
      · exact hne
      · exact absurd ⟨accept_id h₁ i₁ x g₁, accept_id h₂ i₂ x g₂⟩
          (C02.C02_mutex_generic_pandas x r₁.dst r₂.dst c₁ c₂ hne)
    · by_cases hobj : n = .Object
      · subst hobj
        have ⟨c₁, b₁⟩ := outOf_object _ m₁
        have ⟨c₂, b₂⟩ := outOf_object _ m₂
        have hv : HasValue x := (handle_notEmpty_true hc').1
        have acc : ∀ r ∈ (pandasTS o b).succ .Object, r.guard x = true →
            (r.inferential = true ↔ r.dst = .Boolean) → acceptsObj r.dst x := by
          intro r hr hg hb
          by_cases hi : r.inferential = true
          · have hd := hb.mp hi
            obtain ⟨g, hgd, hgx⟩ := accept_inf ft hr hi x hg
            rw [hd] at hgd ⊢
            simp only [guard, Option.some.injEq] at hgd
            subst hgd
            exact hgx
          · have hi' : r.inferential = false := by simpa using hi
            have hd : r.dst ≠ .Boolean := fun h => hi (hb.mpr h)
            have := accept_id hr hi' x hg
            revert this hd
            cases r.dst <;> simp [acceptsObj]
        by_cases hne : r₁.dst = r₂.dst
        · exact hne
        · exact absurd ⟨acc r₁ h₁ g₁ b₁, acc r₂ h₂ g₂ b₂⟩
            (mutex_object x hv hG.dtypeCells hG.headExcl r₁.dst r₂.dst c₁ c₂ hne)
      · by_cases hstr : n = .String
        · subst hstr
          have ⟨i₁, c₁⟩ := outOf_string _ m₁
          have ⟨i₂, c₂⟩ := outOf_string _ m₂
          have hv : HasValue x := (notEmpty_handle_true hc').1
          by_cases hne : r₁.dst = r₂.dst
          · exact hne
          · exact absurd ⟨accept_inf ft h₁ i₁ x g₁, accept_inf ft h₂ i₂ x g₂⟩
              (mutex_string o x hv hG.strNotNull (fun y hy f hf => ⟨(hG.strHyp y hy f hf).1, (hG.strHyp y hy f hf).2.1⟩) (hG.dtExcl hc') r₁.dst r₂.dst c₁ c₂ hne)
        · exact outOf_thin n ⟨hgen, hobj, hstr⟩ _ m₁ _ m₂
  lands := by
    intro n r x hr hG hc hg
    by_cases hi : r.inferential = true
    · obtain ⟨g, t, hgd, htd, hiff, hxf⟩ := mem_pandasTS_succ_inf ft hr hi
      have hgx := (hiff x).mp hg
      obtain ⟨c', hc'⟩ := hG.noRaise n r.dst g t hgd htd hc hgx
      rw [hxf x c' hc']
      exact lands_pandas o n r.dst g t hgd htd x c' ⟨hG.paywf, hG.strNotNull, hG.dtLands⟩ hc hgx hc'
    · have hi' : r.inferential = false := by simpa using hi
      have ⟨h1, h2⟩ := pandasTS_L0 o b n r hr hi'
      rw [h2 x]
      have := h1 x
      rw [hg] at this
      exact this.symm
  closed := by
    intro n r x hr hG hc hg
    by_cases hi : r.inferential = true
    · obtain ⟨g, t, hgd, htd, hiff, hxf⟩ := mem_pandasTS_succ_inf ft hr hi
      have hgx := (hiff x).mp hg
      obtain ⟨c', hc'⟩ := hG.noRaise n r.dst g t hgd htd hc hgx
      rw [hxf x c' hc']
      exact og n r.dst g t x c' hgd htd hG hc hgx hc'
    · have hi' : r.inferential = false := by simpa using hi
      have ⟨_, h2⟩ := pandasTS_L0 o b n r hr hi'
      rw [h2 x]; exact hG

end V.Pd

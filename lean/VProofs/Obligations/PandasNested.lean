/-
  L1 (Nested) for the pandas backend model — C16: membership is upward closed along every
  identity relation of the generated table, outside three explicitly characterised classes of
  columns on which the *code* (and hence the model) violates it; each class has a kernel-checked
  witness.
-/
import VProofs.Lemmas.PandasL
namespace V.Pd
open V V.Gen

/-- identity parent of a type, read off the generated table -/
def parentOf (t : Ty) : Option Ty := ((declared t).find? (fun r => !r.inferential)).map (·.src)

/-- facts about CPython's class hierarchy that relate cell bits (validated by α on every cell) -/
structure CellWF (x : Cell) : Prop where
  path_pure : x.isPath = true → x.isPurePath = true

theorem unsigned_integer (d : DKind) (h : d.isUnsigned = true) : d.isInteger = true := by
  cases d with
  | object => cases h
  | fam f => revert h; cases f <;> decide

theorem count_integer (c : Column) (h : countContains c = true) : integerContains c = true := by
  simp only [countContains, integerContains, notSparseB] at *
  have ⟨he, hd⟩ := notEmptyB_true h
  exact notEmptyB_intro he (unsigned_integer _ hd)

theorem ordinal_categorical (c : Column) (h : ordinalContains c = true) : categoricalContains c = true := by
  simp only [ordinalContains, categoricalContains, notSparseB] at *
  have ⟨he, hd⟩ := notEmptyB_true h
  simp only [Bool.and_eq_true] at hd
  exact notEmptyB_intro he hd.1

theorem image_file (c : Column) (h : imageContains c = true) : fileContains c = true := by
  simp only [imageContains, fileContains] at *
  have ⟨hv, h2⟩ := notEmpty_handle_true h
  apply notEmpty_handle_intro hv
  constructor
  · intro hn
    rcases h2 with ⟨_, h3⟩ | ⟨hn', _⟩
    · rw [List.all_eq_true] at *; intro x hx; have := h3 x hx; simp only [Bool.and_eq_true] at this ⊢; exact this.1
    · rw [hn] at hn'; cases hn'
  · intro hn
    rcases h2 with ⟨hn', _⟩ | ⟨_, h3⟩
    · rw [hn] at hn'; cases hn'
    · rw [List.all_eq_true] at *; intro x hx; have := h3 x hx; simp only [Bool.and_eq_true] at this ⊢; exact this.1

theorem file_path (c : Column) (wf : ∀ x ∈ c.cells, CellWF x) (hex : Excl16 .File c = false)
    (h : fileContains c = true) : pathContains c = true := by
  simp only [fileContains, pathContains] at *
  have ⟨hv, h2⟩ := notEmpty_handle_true h
  simp only [Excl16, List.any_eq_false, Bool.and_eq_true, Bool.not_eq_true', not_and, Bool.not_eq_false] at hex
  have key : ∀ cells : List Cell, (∀ x ∈ cells, x ∈ c.cells ∧ x.null = false) →
      cells.all (fun x => x.isPath && x.pathExists) = true →
      cells.all (fun x => x.isPurePath && x.pathAbs) = true := by
    intro cells hsub hall
    rw [List.all_eq_true] at *
    intro x hx
    have ⟨hm, hn⟩ := hsub x hx
    have := hall x hx
    simp only [Bool.and_eq_true] at this ⊢
    exact ⟨(wf x hm).path_pure this.1, hex x hm hn⟩
  apply notEmpty_handle_intro hv
  constructor
  · intro hn
    rcases h2 with ⟨_, h3⟩ | ⟨hn', _⟩
    · exact key _ (fun x hx => mem_dropna.mp hx) h3
    · rw [hn] at hn'; cases hn'
  · intro hn
    rcases h2 with ⟨hn', _⟩ | ⟨_, h3⟩
    · rw [hn] at hn'; cases hn'
    · exact key _ (fun x hx => ⟨hx, (hasnans_false_iff c).mp hn x hx⟩) h3

/-- whatever has a value and an object-ish dtype is in `Object` -/
theorem object_of_value (c : Column) (hv : HasValue c) (hd : objectish c.dtype = true) : objectContains c = true := by
  simp only [objectContains, notSparseB]
  have := (handle_dtype objectish c).mpr ⟨hv, hd⟩
  simp only [objectish] at this
  have e : (fun c : Column => if c.dtype.isObject = true then true
        else c.dtype.isStringNonObject && !c.dtype.isCategorical)
      = (fun c : Column => c.dtype.isObject || (c.dtype.isStringNonObject && !c.dtype.isCategorical)) := by
    funext c'
    cases h : c'.dtype.isObject <;> simp [h]
  rw [e]; exact this

theorem string_object (c : Column) (h : stringContains c = true) : objectContains c = true := by
  simp only [stringContains, notSparseB] at h
  have ⟨hv, h2⟩ := notEmpty_handle_true h
  -- the dtype test inside sees the dtype of `c` (dropna keeps the dtype)
  have hd : objectish c.dtype = true := by
    have key : ∀ c' : Column, c'.dtype = c.dtype →
        (if c'.dtype.isCategorical = true then false
         else if (!c'.dtype.isObject) = true then c'.dtype.isStringNonObject else isString c') = true →
        objectish c.dtype = true := by
      intro c' hdt hh
      rw [hdt] at hh
      simp only [objectish]
      cases hc : c.dtype.isCategorical <;> cases ho : c.dtype.isObject <;> simp_all
    rcases h2 with ⟨_, h3⟩ | ⟨_, h3⟩
    · exact key c.dropna (dropna_dtype c) h3
    · exact key c rfl h3
  exact object_of_value c hv hd

/-- the cell-based membership predicates all imply "has a value" -/
theorem hv_of_cellpred {f : Column → Bool} {c : Column}
    (h : notEmptyB (handleNullsB f) c = true ∨ handleNullsB (notEmptyB f) c = true) : HasValue c := by
  rcases h with h | h
  · exact (notEmpty_handle_true h).1
  · exact (handle_notEmpty_true h).1

theorem objval_object (t : Ty) (ht : t = .Date ∨ t = .Time ∨ t = .URL ∨ t = .UUID ∨ t = .EmailAddress ∨
      t = .Path ∨ t = .Geometry ∨ t = .IPAddress) (c : Column) (hex : Excl16 t c = false)
    (h : containsB t c = true) : objectContains c = true := by
  have hd : objectish c.dtype = true := by
    rcases ht with rfl | rfl | rfl | rfl | rfl | rfl | rfl | rfl <;> simpa [Excl16] using hex
  have hv : HasValue c := by
    rcases ht with rfl | rfl | rfl | rfl | rfl | rfl | rfl | rfl
    · exact hv_of_cellpred (Or.inr h)
    · exact hv_of_cellpred (Or.inr h)
    · exact hv_of_cellpred (Or.inr h)
    · exact hv_of_cellpred (Or.inl h)
    · exact hv_of_cellpred (Or.inl h)
    · exact hv_of_cellpred (Or.inl h)
    · exact hv_of_cellpred (Or.inl h)
    · exact hv_of_cellpred (Or.inl h)
  exact object_of_value c hv hd

/-- **L1 for the pandas backend** -/
theorem nested_pandas (child parent : Ty) (hp : parentOf child = some parent) (c : Column)
    (wf : ∀ x ∈ c.cells, CellWF x) (hex : Excl16 child c = false) (h : containsB child c = true) :
    containsB parent c = true := by
  cases child <;> simp only [parentOf, declared, List.find?, Bool.not_false, Bool.not_true, Option.map] at hp <;>
    (try cases hp) <;> (try rfl)
  · exact string_object c h
  · exact count_integer c h
  · exact objval_object .Date (by simp) c hex h
  · exact file_path c wf hex h
  · exact objval_object .Geometry (by simp) c hex h
  · exact image_file c h
  · exact objval_object .IPAddress (by simp) c hex h
  · exact ordinal_categorical c h
  · exact objval_object .Path (by simp) c hex h
  · exact objval_object .UUID (by simp) c hex h
  · exact objval_object .URL (by simp) c hex h
  · exact objval_object .Time (by simp) c hex h
  · exact objval_object .EmailAddress (by simp) c hex h

/-! ### the excluded classes are genuine: kernel-checked witnesses -/

/-- F24 (repaired in the code, commit 75d7268): an all-missing `string`-dtype column is no longer a `String` -/
theorem fixed_F24 :
    let c : Column := ⟨.fam .string, [Cell.missing .pdNA, Cell.missing .pdNA], ["0", "1"], "None"⟩
    stringContains c = false ∧ objectContains c = false := by decide

/-- F26: an existing *relative* path is in `File` but not in `Path` -/
theorem witness_F26 :
    let p : Cell := { Cell.blank with cls := "PosixPath", isPurePath := true, isPath := true, pathExists := true }
    let c : Column := ⟨.object, [p], ["0"], "None"⟩
    fileContains c = true ∧ pathContains c = false := by decide

/-- F27: geometries held in a categorical column are in `Geometry` but not in `Object` -/
theorem witness_F27 :
    let c : Column := ⟨.fam .catOther, [geomCell "POINT (1 2)"], ["0"], "None"⟩
    geometryContains c = true ∧ objectContains c = false := by decide

/-! non-vacuity: a concrete String column meets the hypotheses and is in Object -/
example :
    let s : Cell := { Cell.blank with cls := "str", isStr := true, strEq := .ok true }
    let c : Column := ⟨.object, [s, Cell.missing .none_], ["0", "1"], "None"⟩
    stringContains c = true ∧ objectContains c = true := by decide

end V.Pd

/-
  L6 (Total) for `infer` on the numpy model — C09: for every typeset built from the relation table and every array satisfying
  `goodB` and `guardsOkNB` (no relation test raises on the INPUT; executable), the full-engine traversal the driver evaluates
  returns normally: no test and no transformer raises anywhere along the walk.  Intermediate arrays need no hypothesis: they are
  produced arrays that are neither a String nor an Object, on which only the two total numeric tests run.
-/
import VProofs.Obligations.NumpyWF
import VProofs.Lemmas.Full
namespace V.Np
open V V.Gen
open V.Pd (FromTable rank_le)

/-- no relation test whose source type contains the array raises on it -/
def GuardsOkN (o : NpOracle) (a : NArr) : Prop :=
  ∀ src dst g, guard o src dst = some g → containsB src a = true → ∃ b, g a = .ok b

theorem guardsOkNB_sound (o : NpOracle) (a : NArr) (h : guardsOkNB o a = true) : GuardsOkN o a := by
  intro src dst g hg hsrc
  have hmem : (src, dst) ∈ numpyRelationsRegistered := by
    cases src <;> cases dst <;> simp only [guard, reduceCtorEq] at hg <;> decide
  have := List.all_eq_true.mp h (src, dst) hmem
  simp only [hsrc, Bool.not_true, Bool.false_or, hg] at this
  cases hga : g a with
  | ok b => exact ⟨b, rfl⟩
  | error e => simp [hga] at this

def Terminal (a : NArr) : Prop := stringContains a = false ∧ objectContains a = false

theorem handleNulls_ok_total (q : NArr → Bool) (a : NArr) : ∃ b, handleNulls (fun a => .ok (q a)) a = .ok b := by
  simp only [handleNulls, notEmpty]; split <;> exact ⟨_, rfl⟩

/-- on an array that is neither a String nor an Object only total tests can run -/
theorem guardsOk_terminal (o : NpOracle) (a : NArr) (h : Terminal a) : GuardsOkN o a := by
  intro src dst g hg hsrc
  cases src <;> cases dst <;> simp only [guard, Option.some.injEq, reduceCtorEq] at hg <;> subst hg
  all_goals first
    | (have : containsB .String a = false := h.1
       rw [this] at hsrc; cases hsrc)
    | (have : containsB .Object a = false := h.2
       rw [this] at hsrc; cases hsrc)
    | exact handleNulls_ok_total _ a

/-- the output of every accepting relation is terminal -/
theorem terminal_of_lands (o : NpOracle) (src dst : Ty) (g : NArr → R Bool) (t : NArr → R NArr)
    (hgd : guard o src dst = some g) (htd : xform o src dst = some t) (a a' : NArr) (hG : Good o a)
    (hc : containsB src a = true) (hg : g a = .ok true) (ht : t a = .ok a') : Terminal a' := by
  cases src <;> cases dst <;> simp only [guard, Option.some.injEq, reduceCtorEq] at hgd
  all_goals (simp only [xform, Option.some.injEq] at htd; subst hgd; subst htd)
  · -- String -> Boolean
    have e := stringToBoolean_ok ht; subst e
    have ⟨_, hkeys⟩ := stringIsBoolean_elem hg
    have hvals : ∀ y ∈ ({ kind := .O, elems := a.elems.map s2b } : NArr).mask.elems, y.isBool = true := by
      intro y hy
      obtain ⟨hy1, hy2⟩ := mem_mask.mp hy
      obtain ⟨x, hx, rfl⟩ := List.mem_map.mp hy1
      by_cases hn : x.null = true
      · simp [s2b, hn] at hy2
      · have hn' : x.null = false := by simpa using hn
        obtain ⟨p, hp⟩ := hkeys x (mem_mask.mpr ⟨hx, hn'⟩)
        obtain ⟨i, b⟩ := p
        simp [s2b, hn', hp, NElem.ofBool]
    constructor
    · apply not_string_of_noStr isStrDt_O
      intro y hy' hnn
      obtain ⟨z, hz, rfl⟩ := List.mem_map.mp hy'
      by_cases hn : z.null = true
      · simp [s2b, hn] at hnn
      · have hn' : z.null = false := by simpa using hn
        simp only [s2b, hn', Bool.false_eq_true, if_false]
        split <;> rfl
    · exact not_object_of_bools rfl hvals
  · -- String -> Complex
    have e := stringToComplex_ok ht; subst e
    exact ⟨not_string_of_noStr isStrDt_c (fun y hy _ => by obtain ⟨x, _, rfl⟩ := List.mem_map.mp hy; exact s2c_isStr x),
           not_object_of_kind isStrDt_c isObjectDt_c⟩
  · -- String -> DateTime
    have hor := good_oracle hG
    have hcs : stringContains a = true := hc
    simp only [oracleB, hcs, Bool.not_true, Bool.false_or, hg, Bool.and_eq_true] at hor
    obtain ⟨_, h4⟩ := hor
    simp only [stringToDatetime] at ht
    cases hw : o.dtWhole a with
    | raises c => simp [hw] at ht
    | ok r =>
      simp only [hw, Except.ok.injEq] at ht
      subst ht
      simp only [hw, Bool.and_eq_true, dtOutOkB, Bool.not_eq_true'] at h4
      exact ⟨h4.2.1.2, h4.2.2⟩
  · -- String -> Float
    have e := stringToFloat_ok ht; subst e
    exact ⟨not_string_of_noStr isStrDt_f (fun y hy _ => by obtain ⟨x, _, rfl⟩ := List.mem_map.mp hy; exact s2f_isStr x),
           not_object_of_kind isStrDt_f isObjectDt_f⟩
  · -- Complex -> Float
    rw [complexToFloat_eq] at ht; cases ht
    exact ⟨not_string_of_noStr isStrDt_f (fun y hy _ => by obtain ⟨x, _, rfl⟩ := List.mem_map.mp hy; exact c2f_isStr x),
           not_object_of_kind isStrDt_f isObjectDt_f⟩
  · -- Float -> Integer
    obtain ⟨_, e⟩ := floatToInteger_ok ht; subst e
    exact ⟨not_string_of_noStr isStrDt_i (fun y hy _ => by obtain ⟨x, _, rfl⟩ := List.mem_map.mp hy; exact f2i_isStr x),
           not_object_of_kind isStrDt_i isObjectDt_i⟩
  · exact absurd hg (object_never_boolean o a hG hc)

/-- **`infer` never raises** on the numpy model: for every typeset built from the relation table ALL of whose inference
relations the numpy back end registers (`hreg`: true of StandardSet and its sub-typesets — `standard_registered`; on others the
real code raises NotImplementedError, as the model does) and every array satisfying `Good` (= `goodB`) and `GuardsOkN`, the
full-engine traversal returns normally -/
theorem infer_total_np (o : NpOracle) (b : Built Ty) (ft : FromTable b)
    (hreg : ∀ e ∈ b.edges, e.inferential = true → (e.src, e.dst) ∈ numpyRelationsRegistered) (a : NArr)
    (hG : Good o a) (hK : GuardsOkN o a) (hroot : containsB b.root a = true) :
    ∃ v, traverse (graphOf o b) 64 b.root a () [] = .ok v := by
  have hdef : ∀ e ∈ b.edges, e.inferential = true → ∃ g t, guard o e.src e.dst = some g ∧ xform o e.src e.dst = some t := by
    intro e he hi
    have hx := guard_defined_iff e.src (Pd.mem_Ty_all _) e.dst (Pd.mem_Ty_all _) o
    have hm := hreg e he hi
    have h1 : (guard o e.src e.dst).isSome = true := by rw [hx.1]; simpa using hm
    have h2 : (xform o e.src e.dst).isSome = true := by rw [hx.2]; simpa using hm
    obtain ⟨g, hg⟩ := Option.isSome_iff_exists.mp h1
    obtain ⟨t, ht⟩ := Option.isSome_iff_exists.mp h2
    exact ⟨g, t, hg, ht⟩
  apply traverse_total_inv (graphOf o b) (fun t => 32 - rank t)
    (fun n x => Good o x ∧ GuardsOkN o x ∧ containsB n x = true)
  · intro n r hr
    simp only [graphOf, List.mem_map, List.mem_filter] at hr
    obtain ⟨e, ⟨he, hs⟩, rfl⟩ := hr
    have hsrc : e.src = n := by simpa using hs
    have := ft.rank e he
    have h1 := rank_le e.dst
    have hd : (mkRel o e).dst = e.dst := by by_cases hi : e.inferential = true <;> simp [mkRel, hi]
    rw [hd, ← hsrc]; omega
  · -- tests
    intro n x ⟨_, hk, hc⟩ r hr
    simp only [graphOf, List.mem_map, List.mem_filter] at hr
    obtain ⟨e, ⟨he, hs⟩, rfl⟩ := hr
    have hsrc : e.src = n := by simpa using hs
    by_cases hi : e.inferential = true
    · obtain ⟨g, t, hgd, _⟩ := hdef e he hi
      obtain ⟨v, hv⟩ := hk e.src e.dst g hgd (by rw [hsrc]; exact hc)
      exact ⟨(v, ()), by simp [mkRel, hi, hgd, hv, Except.map]⟩
    · exact ⟨(containsB e.dst x, ()), by simp only [mkRel, hi, Bool.false_eq_true, if_false]⟩
  · -- transformers re-establish the invariant
    intro n x ⟨hg0, hk, hc⟩ r hr hacc
    simp only [graphOf, List.mem_map, List.mem_filter] at hr
    obtain ⟨e, ⟨he, hs⟩, rfl⟩ := hr
    have hsrc : e.src = n := by simpa using hs
    have hcs : containsB e.src x = true := by rw [hsrc]; exact hc
    by_cases hi : e.inferential = true
    · obtain ⟨g, t, hgd, htd⟩ := hdef e he hi
      have hgx : g x = .ok true := by
        simp only [mkRel, hi, if_true, hgd, Except.map] at hacc
        cases hq : g x with
        | error err => rw [hq] at hacc; cases hacc
        | ok v => rw [hq] at hacc; simp only [Except.ok.injEq, Prod.mk.injEq] at hacc; rw [hacc.1]
      obtain ⟨c', hc'⟩ := noRaise_np o e.src e.dst g t hgd htd x hg0 hcs hgx
      have hd : (mkRel o e).dst = e.dst := by simp [mkRel, hi]
      have hl := lands_closed_np o e.src e.dst g t hgd htd x c' hg0 hcs hgx hc'
      refine ⟨c', by simp [mkRel, hi, htd, hc', Except.map], hl.2, ?_, ?_⟩
      · exact guardsOk_terminal o c' (terminal_of_lands o e.src e.dst g t hgd htd x c' hg0 hcs hgx hc')
      · rw [hd]; exact hl.1
    · have hd : (mkRel o e).dst = e.dst := by simp [mkRel, hi]
      refine ⟨x, by simp [mkRel, hi], hg0, hk, ?_⟩
      rw [hd]
      simp only [mkRel, hi, Bool.false_eq_true, if_false, Except.ok.injEq, Prod.mk.injEq, and_true] at hacc
      exact hacc
  · show 32 - rank b.root < 64; omega
  · exact ⟨hG, hK, hroot⟩

/-- every inference relation among the types of StandardSet is registered for numpy arrays -/
theorem standard_registered : ∀ s ∈ standardSet, ∀ d ∈ standardSet, ∀ r ∈ declared d, r.src = s → r.inferential = true →
    (s, d) ∈ numpyRelationsRegistered := by decide

end V.Np
